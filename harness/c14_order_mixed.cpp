// C14 harness unit "order_mixed" (OPTIONAL): the ordering operators < > <= >= with operands of
// DIFFERENT storage types.  On the unchanged tree this unit does not compile (the operators accept
// two storage types, but math/detail/array_less.hpp deduces one type from both operands), which is
// neither a violation nor an observation; if a tree accepts the calls, they are driven and judged like
// every other comparison ("comparison agree[s] with the same operations on plain arrays").
// See c14_common.hpp.
#include <c14_vec.hpp>

namespace
{
using namespace c14;

template <sz N>
void cases(ivec const &u)
{
  order_pairs<N>(u, [](ivec const &v) {
    std::string const aj = vals_vec(v, 0, N), bj = vals_vec(v, N, N);
    auto m(mk_mat<2, N>(v, 0));
    auto const &cm(m);
    cells<N> ca(v, 0), cb(v, N);
    vec_order("vector", "static,view", aj, bj, mk_vec<N>(v, 0), m.get_unsafe(1));
    vec_order("vector", "view,static", aj, bj, m.get_unsafe(0), mk_vec<N>(v, N));
    vec_order("vector", "view,constview", aj, bj, m.get_unsafe(0), cm.get_unsafe(1));
    vec_order("vector", "constview,static", aj, bj, cm.get_unsafe(0), mk_vec<N>(v, N));
    vec_order("vector", "static,pview", aj, bj, mk_vec<N>(v, 0), cb.vec());
    vec_order("vector", "pview,view", aj, bj, ca.vec(), m.get_unsafe(1));
    vec_order("dim", "static,pview", aj, bj, mk_dim<N>(v, 0), cb.dim());
    vec_order("dim", "pview,static", aj, bj, ca.dim(), mk_dim<N>(v, N));
  });
}

void part_order_mixed(vj::Rng &rng, bool const thorough)
{
  cases<1>(ivec{0});
  cases<2>(ivec{0, 0});
  cases<3>(ivec{0, 0, 0});
  cases<4>(ivec{0, 0, 0, 0});
  cases<2>(ivec{2, -2});
  cases<3>(ivec{-1, 4, -4});
  cases<4>(ivec{5, -5, 0, 7});
  for (unsigned i = 0; i < (thorough ? 40U : 4U); ++i)
  {
    cases<1>(random_vals(rng, 1, -9, 9));
    cases<2>(random_vals(rng, 2, -9, 9));
    cases<3>(random_vals(rng, 3, -9, 9));
    cases<4>(random_vals(rng, 4, -9, 9));
  }
}
}

int main(int argc, char **argv) { return c14::unit_main(argc, argv, "order_mixed", 31U, part_order_mixed); }
