// C10 harness: instantiations for the enum with 9 enumerators (8/16/32/64-bit words)
#include "c10_bitfield.hpp"

int c10_run_n9(int const w, c10_args const &a) { return run_enum<e9>(w, a); }
