// C16 conformance harness, entry point.
//
//   c16_algo record OUT seed tier(quick|thorough) part
//   c16_algo parts                       (lists the parts that were linked in)
//
// This translation unit includes NO fcppt header: it must compile on every tree.  Every other
// unit of the harness (c16_algo.cpp strings/counts, c16_src_*.cpp, c16_cont.cpp sections,
// c16_fold.cpp, c16_ext.cpp) is compiled separately by checks/c16.py and exports one entry point
// per part; the entry points are WEAK here, so that a unit that no longer compiles against a
// changed tree is simply left out of the link (checks/c16.py turns the compile failure into a
// VIOLATION `C16:<unit>:does-not-compile` for units that drive functions named by the statement,
// into an OBSERVATION for observed-only units) while all other parts are still driven and judged.
//
// Watchdog: c16::Rec::begin() (c16_common.hpp) arms a CPU-time timer (ITIMER_PROF -> SIGPROF) and a
// generous wall-clock alarm before every driven call; a call that spins is stopped here with a
// crash record ("hang", exit code 68) after the flushed record prefix that names the operation.
#include <common/vjson.hpp>

#include <cstdio>
#include <cstring>
#include <string>
#include <sys/time.h>

#define C16_PART(name) extern "C" void c16_part_##name(unsigned long long seed, int thorough) __attribute__((weak));
C16_PART(vector)
C16_PART(list)
C16_PART(deque)
C16_PART(assoc)
C16_PART(static)
C16_PART(static2)
C16_PART(static3)
C16_PART(ranges)
C16_PART(counts)
C16_PART(strings)
C16_PART(containers)
C16_PART(arrays)
C16_PART(tuples)
C16_PART(foldtables)
C16_PART(extension)
C16_PART(extension2)
#undef C16_PART

namespace
{
struct Part
{
  char const *name;
  void (*fn)(unsigned long long, int);
};

void on_prof(int)
{
  vj::crash_line("hang", 68);
  _exit(68);
}
}

int main(int argc, char **argv)
{
  Part const parts[] = {
      {"vector", c16_part_vector},         {"list", c16_part_list},
      {"deque", c16_part_deque},           {"assoc", c16_part_assoc},
      {"static", c16_part_static},         {"static2", c16_part_static2},
      {"static3", c16_part_static3},       {"ranges", c16_part_ranges},
      {"counts", c16_part_counts},         {"strings", c16_part_strings},
      {"containers", c16_part_containers}, {"arrays", c16_part_arrays},
      {"tuples", c16_part_tuples},         {"foldtables", c16_part_foldtables},
      {"extension", c16_part_extension},   {"extension2", c16_part_extension2}};
  if (argc == 2 && std::strcmp(argv[1], "parts") == 0)
  {
    for (Part const &p : parts)
      if (p.fn != nullptr) std::printf("%s\n", p.name);
    return 0;
  }
  if (argc < 6 || std::strcmp(argv[1], "record") != 0)
  {
    std::fprintf(stderr, "usage: c16_algo record OUT seed quick|thorough part | c16_algo parts\n");
    return 3;
  }
  unsigned long long const seed = std::strtoull(argv[3], nullptr, 10);
  int const thorough = std::strcmp(argv[4], "thorough") == 0 ? 1 : 0;
  for (Part const &p : parts)
  {
    if (std::strcmp(p.name, argv[5]) != 0) continue;
    if (p.fn == nullptr)
    {
      std::fprintf(stderr, "part %s was not linked in\n", p.name);
      return 4;
    }
    vj::open(argv[2]);
    std::signal(SIGPROF, on_prof);
    p.fn(seed, thorough);
    ::alarm(0);
    struct itimerval off{};
    ::setitimer(ITIMER_PROF, &off, nullptr);
    vj::close();
    return 0;
  }
  std::fprintf(stderr, "unknown part %s\n", argv[5]);
  return 3;
}
