// C01 conformance harness: calls every registered function of fcppt's "safe" API (DESIGN.md
// Appendix D, as far as implemented - see docs/notes_C01.md) on exhaustive / boundary inputs.
// Every call is wrapped in try/catch (the dynamic exception type is logged) and runs under an
// alarm() watchdog; the binary is built with ASan + UBSan + _GLIBCXX_ASSERTIONS.  The harness has
// no expected values: it logs arguments, the outcome class (value / nothing / failure / exception)
// and the value; spec/TotalityJudge.tla (TLC) compares them with Outcome_f of spec/Totality.tla.
//
//   c01_total sections
//   c01_total record OUT quick|thorough seed SECTION [scratch-dir]
#include "c06_drive.hpp"

// Section groups of this harness.  C01_GROUP = 0 (default): every own section; C01_GROUP = n > 0: only own section
// group n and its fcppt includes; C01_GROUP < 0: none (a unit of the integer helpers, selected by C06_GROUP).  Used by
// checks/c01.py when this translation unit does not compile as a whole against the tree under test: the groups that
// still compile are built, run and judged on their own.
#ifndef C01_GROUP
#define C01_GROUP 0
#endif
#define C01_ON(n) (C01_GROUP == 0 || C01_GROUP == (n))
#define C01_G_CONTAINERS 1
#define C01_G_GRID 2
#define C01_G_ENUM_STRING 3
#define C01_G_DYNAMIC 4
#define C01_G_FROM_RANGE 5
#define C01_G_EXTRACT 6
#define C01_G_STREAMS 7
#define C01_G_RUNTIME_INDEX 8
#define C01_G_CODECVT 9
#define C01_G_FILESYSTEM 10
#define C01_G_OPTIONS 11
#define C01_G_PARSE 12
#define C01_G_IO 13
#define C01_G_ENUM_EXTRACT 14
#define C01_G_PARSE_HELP 15
#define C01_G_GRAMMAR 16
#define C01_G_OPTIONAL 17
#define C01_G_CONTAINERS2 18
#define C01_G_ENV_ARGS 19
#define C01_G_PARSE_STREAM 20
#if C01_ON(C01_G_CONTAINERS)
#include <fcppt/container/at_optional.hpp>
#include <fcppt/container/find_opt.hpp>
#include <fcppt/container/find_opt_mapped.hpp>
#include <fcppt/container/maybe_back.hpp>
#include <fcppt/container/maybe_front.hpp>
#include <fcppt/container/pop_back.hpp>
#include <fcppt/container/pop_front.hpp>
#include <fcppt/optional/object_impl.hpp>
#include <fcppt/optional/reference.hpp>
#endif
#if C01_ON(C01_G_GRID)
#include <fcppt/container/grid/at_optional.hpp>
#include <fcppt/container/grid/object.hpp>
#include <fcppt/math/dim/init.hpp>
#include <fcppt/math/dim/object_impl.hpp>
#include <fcppt/math/vector/init.hpp>
#include <fcppt/math/vector/object_impl.hpp>
#endif
#if C01_ON(C01_G_ENUM_STRING)
#include <fcppt/enum/from_string.hpp>
#include <fcppt/enum/names.hpp>
#include <fcppt/enum/to_string_case.hpp>
#include <fcppt/enum/to_string_impl_fwd.hpp>
#endif
#if C01_ON(C01_G_DYNAMIC)
#include <fcppt/cast/dynamic.hpp>
#include <fcppt/cast/dynamic_any.hpp>
#include <fcppt/cast/dynamic_cross.hpp>
#endif
#if C01_ON(C01_G_FROM_RANGE)
#include <fcppt/array/from_range.hpp>
#include <fcppt/array/object_impl.hpp>
#endif
#if C01_ON(C01_G_EXTRACT)
#include <fcppt/extract_from_string.hpp>
#endif
#if C01_ON(C01_G_STREAMS)
#include <fcppt/io/read_chars.hpp>
#include <fcppt/io/stream_to_string.hpp>
#endif
#if C01_ON(C01_G_RUNTIME_INDEX)
#include <fcppt/runtime_index.hpp>
#endif
#if C01_ON(C01_G_CODECVT)
#include <fcppt/narrow.hpp>
#include <fcppt/narrow_locale.hpp>
#include <fcppt/from_std_string.hpp>
#include <fcppt/from_std_string_locale.hpp>
#include <fcppt/from_std_wstring.hpp>
#include <fcppt/from_std_wstring_locale.hpp>
#include <fcppt/to_std_string.hpp>
#include <fcppt/to_std_string_locale.hpp>
#include <fcppt/to_std_wstring.hpp>
#include <fcppt/to_std_wstring_locale.hpp>
#include <fcppt/widen_locale.hpp>
#include <fcppt/widen.hpp>
#include <fcppt/text.hpp>
#endif
#if C01_ON(C01_G_FILESYSTEM)
#include <fcppt/filesystem/extension.hpp>
#include <fcppt/filesystem/file_size.hpp>
#include <fcppt/filesystem/normalize.hpp>
#include <fcppt/filesystem/num_subpaths.hpp>
#include <fcppt/filesystem/remove_extension.hpp>
#include <fcppt/filesystem/replace_extension.hpp>
#include <fcppt/filesystem/stem.hpp>
#include <fcppt/filesystem/strip_prefix.hpp>
#include <fcppt/text.hpp>
#endif
#if C01_ON(C01_G_OPTIONS)
#include <fcppt/args_vector.hpp>
#include <fcppt/make_cref.hpp>
#include <fcppt/text.hpp>
#include <fcppt/either/match.hpp>
#include <fcppt/options/argument.hpp>
#include <fcppt/options/apply.hpp>
#include <fcppt/options/flag.hpp>
#include <fcppt/options/long_name.hpp>
#include <fcppt/options/make_commands.hpp>
#include <fcppt/options/make_many.hpp>
#include <fcppt/options/make_sub_command.hpp>
#include <fcppt/options/make_active_value.hpp>
#include <fcppt/options/make_inactive_value.hpp>
#include <fcppt/options/no_default_value.hpp>
#include <fcppt/options/option.hpp>
#include <fcppt/options/optional_help_text.hpp>
#include <fcppt/options/optional_short_name.hpp>
#include <fcppt/options/parse.hpp>
#include <fcppt/options/short_name.hpp>
#include <fcppt/record/make_label.hpp>
#endif
#if C01_ON(C01_G_PARSE)
#include <fcppt/either/match.hpp>
#include <fcppt/parse/char_set.hpp>
#include <fcppt/parse/int.hpp>
#include <fcppt/parse/literal.hpp>
#include <fcppt/parse/parse_string.hpp>
#include <fcppt/parse/phrase_parse_string.hpp>
#include <fcppt/parse/uint.hpp>
#include <fcppt/parse/operators/alternative.hpp>
#include <fcppt/parse/operators/optional.hpp>
#include <fcppt/parse/operators/repetition.hpp>
#include <fcppt/parse/operators/repetition_plus.hpp>
#include <fcppt/parse/operators/sequence.hpp>
#include <fcppt/parse/skipper/epsilon.hpp>
#include <fcppt/parse/skipper/space.hpp>
#endif
#if C01_ON(C01_G_IO)
#include <fcppt/io/expect.hpp>
#include <fcppt/io/extract.hpp>
#include <fcppt/io/get.hpp>
#include <fcppt/io/peek.hpp>
#endif
#if C01_ON(C01_G_ENUM_EXTRACT)
#include <fcppt/enum/array.hpp>
#include <fcppt/enum/array_init.hpp>
#include <fcppt/enum/input.hpp>
#include <fcppt/enum/names.hpp>
#include <fcppt/enum/to_string_case.hpp>
#include <fcppt/enum/to_string_impl_fwd.hpp>
#include <fcppt/extract_from_string.hpp>
#endif
#if C01_ON(C01_G_PARSE_HELP)
#include <fcppt/args_vector.hpp>
#include <fcppt/make_cref.hpp>
#include <fcppt/text.hpp>
#include <fcppt/variant/match.hpp>
#include <fcppt/options/argument.hpp>
#include <fcppt/options/apply.hpp>
#include <fcppt/options/flag.hpp>
#include <fcppt/options/long_name.hpp>
#include <fcppt/options/make_active_value.hpp>
#include <fcppt/options/make_inactive_value.hpp>
#include <fcppt/options/no_default_value.hpp>
#include <fcppt/options/option.hpp>
#include <fcppt/options/optional_help_text.hpp>
#include <fcppt/options/optional_short_name.hpp>
#include <fcppt/options/parse.hpp>
#include <fcppt/options/short_name.hpp>
#include <fcppt/options/default_help_switch.hpp>
#include <fcppt/options/help_result.hpp>
#include <fcppt/options/help_text.hpp>
#include <fcppt/options/parse_help.hpp>
#include <fcppt/record/make_label.hpp>
#endif
#if C01_ON(C01_G_GRAMMAR)
#include <fcppt/make_cref.hpp>
#include <fcppt/nonmovable.hpp>
#include <fcppt/either/match.hpp>
#include <fcppt/parse/grammar.hpp>
#include <fcppt/parse/grammar_parse_string.hpp>
#include <fcppt/parse/int.hpp>
#include <fcppt/parse/operators/repetition.hpp>
#include <fcppt/parse/skipper/space.hpp>
#endif
#if C01_ON(C01_G_OPTIONAL)
#include <fcppt/make_ref.hpp>
#include <fcppt/reference_impl.hpp>
#include <fcppt/optional/copy_value.hpp>
#include <fcppt/optional/deref.hpp>
#include <fcppt/optional/from.hpp>
#include <fcppt/optional/from_pointer.hpp>
#include <fcppt/optional/make.hpp>
#include <fcppt/optional/object_impl.hpp>
#include <fcppt/optional/reference.hpp>
#include <fcppt/optional/to_exception.hpp>
#include <fcppt/optional/to_pointer.hpp>
#endif
#if C01_ON(C01_G_CONTAINERS2)
#include <fcppt/container/at_optional.hpp>
#include <fcppt/container/find_opt.hpp>
#include <fcppt/container/find_opt_mapped.hpp>
#include <fcppt/container/maybe_back.hpp>
#include <fcppt/container/maybe_front.hpp>
#include <fcppt/container/pop_back.hpp>
#include <fcppt/container/pop_front.hpp>
#include <fcppt/optional/object_impl.hpp>
#include <fcppt/optional/reference.hpp>
#endif
#if C01_ON(C01_G_PARSE_STREAM)
#include <fcppt/either/match.hpp>
#include <fcppt/parse/int.hpp>
#include <fcppt/parse/literal.hpp>
#include <fcppt/parse/phrase_parse_stream.hpp>
#include <fcppt/parse/operators/optional.hpp>
#include <fcppt/parse/operators/repetition.hpp>
#include <fcppt/parse/operators/sequence.hpp>
#include <fcppt/parse/skipper/epsilon.hpp>
#include <fcppt/parse/skipper/space.hpp>
#endif
#if C01_ON(C01_G_ENV_ARGS)
#include <fcppt/args.hpp>
#include <fcppt/args_char.hpp>
#include <fcppt/args_from_second.hpp>
#include <fcppt/args_vector.hpp>
#include <fcppt/getenv.hpp>
#include <fcppt/time/gmtime.hpp>
#endif

#include <array>
#include <clocale>
#include <ctime>
#include <forward_list>
#include <memory>
#include <unordered_map>
#include <unordered_set>
#include <cstdio>
#include <cstring>
#include <deque>
#include <filesystem>
#include <fstream>
#include <list>
#include <locale>
#include <map>
#include <set>
#include <sstream>
#include <string>
#include <vector>

namespace
{
// ------------------------------------------------------------------ recording of one call
// fields: the JSON members describing the call, without braces: "f":"..","xs":[..],...
// fn:     performs the call and returns the members describing the result: "out":"..","v":[..]
template <typename Fn> void total_call(std::string const &fields, Fn const &fn)
{
  vj::begin_call("{\"w\":2," + fields);
  ::alarm(static_cast<unsigned>(c06::watchdog_seconds()));
  std::string rest;
  try
  {
    rest = "," + fn() + ",\"exn\":\"\"}";
  }
  catch (...)
  {
    rest = ",\"out\":\"exception\",\"v\":[],\"exn\":\"" + vj::esc(c06::exception_name()) + "\"}";
  }
  ::alarm(0);
  vj::end_call(rest);
}
std::string fname(char const *f)
{
  c06::cur().f = f;
  return std::string("\"f\":\"") + f + "\"";
}
template <typename T> std::string ints(T const &c)
{
  std::string s = "[";
  bool first = true;
  for (auto const &x : c)
  {
    if (!first) s += ',';
    first = false;
    s += std::to_string(static_cast<long long>(x));
  }
  return s + "]";
}
std::string value(std::string const &v) { return "\"out\":\"value\",\"v\":" + v; }
std::string nothing() { return "\"out\":\"nothing\",\"v\":[]"; }
std::string failure() { return "\"out\":\"failure\",\"v\":[]"; }
long long sat(unsigned long long const v) { return v > 2000000000ULL ? 2000000000LL : static_cast<long long>(v); }

// ------------------------------------------------------------------ containers
std::vector<std::vector<int>> small_sequences()
{
  // all sequences of length 0..3 over {7, 8, 9}
  std::vector<std::vector<int>> r{{}};
  for (int a = 7; a <= 9; ++a)
  {
    r.push_back({a});
    for (int b = 7; b <= 9; ++b)
    {
      r.push_back({a, b});
      for (int c = 7; c <= 9; ++c) r.push_back({a, b, c});
    }
  }
  return r;
}
#if C01_ON(C01_G_CONTAINERS)
template <typename C> void at_optional_kind(char const *kind)
{
  for (auto const &xs : small_sequences())
  {
    C c(xs.begin(), xs.end());
    std::vector<typename C::size_type> idx{0, 1, 2, 3, 4, 5, static_cast<typename C::size_type>(1) << 31, static_cast<typename C::size_type>(1) << 63,
                                           std::numeric_limits<typename C::size_type>::max(), std::numeric_limits<typename C::size_type>::max() - 1};
    for (auto const i : idx)
      total_call(fname("at_optional") + ",\"k\":\"" + kind + "\",\"xs\":" + ints(xs) + ",\"i\":" + std::to_string(sat(i)), [&c, i] {
        auto const r = fcppt::container::at_optional(c, i);
        return r.has_value() ? value("[" + std::to_string(r.get_unsafe().get()) + "]") : nothing();
      });
    C const cc(xs.begin(), xs.end());
    for (auto const i : idx)
      total_call(fname("at_optional") + ",\"k\":\"const " + kind + "\",\"xs\":" + ints(xs) + ",\"i\":" + std::to_string(sat(i)), [&cc, i] {
        auto const r = fcppt::container::at_optional(cc, i);
        return r.has_value() ? value("[" + std::to_string(r.get_unsafe().get()) + "]") : nothing();
      });
  }
}
template <typename C> void ends_kind(char const *kind, bool const has_pop_front)
{
  for (auto const &xs : small_sequences())
  {
    std::string const base = std::string(",\"k\":\"") + kind + "\",\"xs\":" + ints(xs);
    {
      C c(xs.begin(), xs.end());
      total_call(fname("maybe_front") + base, [&c] {
        auto const r = fcppt::container::maybe_front(c);
        return r.has_value() ? value("[" + std::to_string(r.get_unsafe().get()) + "]") : nothing();
      });
      total_call(fname("maybe_back") + base, [&c] {
        auto const r = fcppt::container::maybe_back(c);
        return r.has_value() ? value("[" + std::to_string(r.get_unsafe().get()) + "]") : nothing();
      });
    }
    {
      C c(xs.begin(), xs.end());
      total_call(fname("pop_back") + base, [&c] {
        auto const r = fcppt::container::pop_back(c);
        return (r.has_value() ? value("[" + std::to_string(r.get_unsafe()) + "]") : nothing()) + ",\"after\":" + ints(c);
      });
    }
    if constexpr (requires(C &c) { c.pop_front(); })
    {
      if (has_pop_front)
      {
        C c(xs.begin(), xs.end());
        total_call(fname("pop_front") + base, [&c] {
          auto const r = fcppt::container::pop_front(c);
          return (r.has_value() ? value("[" + std::to_string(r.get_unsafe()) + "]") : nothing()) + ",\"after\":" + ints(c);
        });
      }
    }
  }
}
void find_all()
{
  // all key sets over {1,2,3} (mapped value = 10 * key + 1), all keys 0..4
  for (unsigned mask = 0; mask < 8U; ++mask)
  {
    std::map<int, int> m;
    std::set<int> s;
    std::vector<int> keys, mapped;
    for (int k = 1; k <= 3; ++k)
      if ((mask >> (k - 1)) & 1U) { m[k] = 10 * k + 1; s.insert(k); keys.push_back(k); mapped.push_back(10 * k + 1); }
    for (int key = 0; key <= 4; ++key)
    {
      std::string const base = ",\"xs\":" + ints(keys) + ",\"ms\":" + ints(mapped) + ",\"key\":" + std::to_string(key);
      total_call(fname("find_opt") + ",\"k\":\"map\"" + base, [&m, key] {
        auto const r = fcppt::container::find_opt(m, key);
        return r.has_value() ? value("[" + std::to_string(r.get_unsafe().get().first) + "]") : nothing();
      });
      std::set<int> const &cs = s;    // find_opt does not compile for a non-const std::set (const iterators)
      total_call(fname("find_opt") + ",\"k\":\"set\"" + base, [&cs, key] {
        auto const r = fcppt::container::find_opt(cs, key);
        return r.has_value() ? value("[" + std::to_string(r.get_unsafe().get()) + "]") : nothing();
      });
      total_call(fname("find_opt_mapped") + ",\"k\":\"map\"" + base, [&m, key] {
        auto const r = fcppt::container::find_opt_mapped(m, key);
        return r.has_value() ? value("[" + std::to_string(r.get_unsafe().get()) + "]") : nothing();
      });
    }
  }
}
void containers()
{
  at_optional_kind<std::vector<int>>("vector");
  at_optional_kind<std::deque<int>>("deque");
  ends_kind<std::vector<int>>("vector", false);
  ends_kind<std::deque<int>>("deque", true);
  ends_kind<std::list<int>>("list", true);
  find_all();
}

#endif

// ------------------------------------------------------------------ grid::at_optional
#if C01_ON(C01_G_GRID)
template <std::size_t N> void grid_n()
{
  using grid = fcppt::container::grid::object<std::vector<unsigned long>, N>;
  using dim = typename grid::dim;
  using pos = typename grid::pos;
  // all extents 0..2 per axis, positions 0..extent+2 per axis and huge coordinates
  std::vector<std::vector<unsigned long>> dims{{}};
  for (std::size_t a = 0; a < N; ++a)
  {
    std::vector<std::vector<unsigned long>> next;
    for (auto const &d : dims)
      for (unsigned long e = 0; e <= 2; ++e) { auto x = d; x.push_back(e); next.push_back(x); }
    dims = next;
  }
  for (auto const &d : dims)
  {
    dim const dm(fcppt::math::dim::init<dim>([&d](std::size_t const i) { return d[i]; }));
    // every cell stores its own position, encoded in base 10
    grid const g(dm, [](pos const p) {
      unsigned long v = 0, m = 1;
      for (std::size_t i = 0; i < N; ++i) { v += p.get_unsafe(i) * m; m *= 10; }
      return std::vector<unsigned long>{v};
    });
    std::vector<std::vector<unsigned long>> ps{{}};
    for (std::size_t a = 0; a < N; ++a)
    {
      std::vector<std::vector<unsigned long>> next;
      for (auto const &p : ps)
      {
        for (unsigned long c = 0; c <= d[a] + 2; ++c) { auto x = p; x.push_back(c); next.push_back(x); }
        auto y = p; y.push_back(std::numeric_limits<unsigned long>::max()); next.push_back(y);
      }
      ps = next;
    }
    for (auto const &p : ps)
    {
      pos const pp(fcppt::math::vector::init<pos>([&p](std::size_t const i) { return p[i]; }));
      std::vector<long long> plog;
      for (auto const c : p) plog.push_back(sat(c));
      total_call(fname("grid_at_optional") + ",\"dim\":" + ints(d) + ",\"pos\":" + ints(plog), [&g, pp] {
        auto const r = fcppt::container::grid::at_optional(g, pp);
        if (!r.has_value()) return nothing();
        unsigned long v = r.get_unsafe().get().at(0);
        std::vector<unsigned long> dec;
        for (std::size_t i = 0; i < N; ++i) { dec.push_back(v % 10); v /= 10; }
        return value(ints(dec));
      });
    }
  }
}

#endif

// ------------------------------------------------------------------ enum from_string
enum class colour { red, green, blue_green, fcppt_maximum = blue_green };
}
#if C01_ON(C01_G_ENUM_STRING) || C01_ON(C01_G_ENUM_EXTRACT)
namespace fcppt::enum_
{
template <> struct to_string_impl<colour>
{
  static std::string_view get(colour const c)
  {
    switch (c)
    {
      FCPPT_ENUM_TO_STRING_CASE(colour, red);
      FCPPT_ENUM_TO_STRING_CASE(colour, green);
      FCPPT_ENUM_TO_STRING_CASE(colour, blue_green);
    }
    return std::string_view{};
  }
};
}
#endif
namespace
{
#if C01_ON(C01_G_ENUM_STRING)
void enum_strings()
{
  std::vector<std::string> names;
  auto const name_array{fcppt::enum_::names<colour>()};
  for (auto const n : name_array.impl()) names.emplace_back(n);
  std::string nj = "[";
  for (std::size_t i = 0; i < names.size(); ++i) nj += (i ? "," : "") + vj::cps(names[i]);
  nj += "]";
  std::set<std::string> inputs{"", " ", "x", "RED", "Red", "red ", " red", "fcppt_maximum", "colour::red", "blue", "blue_", "greenred", std::string("red\0", 4)};
  for (auto const &n : names)
    for (std::size_t l = 0; l <= n.size(); ++l)
    {
      inputs.insert(n.substr(0, l));
      inputs.insert(n.substr(l));
      inputs.insert(n + n.substr(0, l));
    }
  for (auto const &s : inputs)
    total_call(fname("from_string") + ",\"names\":" + nj + ",\"s\":" + vj::cps(s), [&s] {
      auto const r = fcppt::enum_::from_string<colour>(s);
      return r.has_value() ? value("[" + std::to_string(static_cast<int>(r.get_unsafe())) + "]") : nothing();
    });
}

#endif

// ------------------------------------------------------------------ cast::dynamic
struct Base { virtual ~Base() = default; int b = 1; };
struct D1 : Base { int d1 = 2; };
struct D2 : Base { int d2 = 3; };
struct D11 : D1 { int d11 = 4; };
struct Other { virtual ~Other() = default; int o = 5; };
struct M : D1, Other { int m = 6; };

#if C01_ON(C01_G_DYNAMIC)
template <typename Target, typename Src> void dyn_one(char const *fn, Src &obj, char const *dyn, char const *target, int which)
{
  total_call(fname(fn) + ",\"dyn\":\"" + dyn + "\",\"target\":\"" + target + "\"", [&obj, which] {
    bool has = false;
    if (which == 0) has = fcppt::cast::dynamic_any<Target>(obj).has_value();
    if constexpr (std::is_base_of_v<std::remove_cv_t<Src>, std::remove_cv_t<Target>>)
    {
      if (which == 1) has = fcppt::cast::dynamic<Target>(obj).has_value();
    }
    else
    {
      if (which == 2) has = fcppt::cast::dynamic_cross<Target>(obj).has_value();
    }
    return has ? value("[]") : nothing();
  });
}
template <typename Obj> void dyn_object(char const *dyn)
{
  Obj o;
  Base &as_base = o;
  Base const &as_cbase = o;
  dyn_one<D1>("dynamic", as_base, dyn, "D1", 1);
  dyn_one<D2>("dynamic", as_base, dyn, "D2", 1);
  dyn_one<D11>("dynamic", as_base, dyn, "D11", 1);
  dyn_one<M>("dynamic", as_base, dyn, "M", 1);
  dyn_one<D1 const>("dynamic", as_cbase, dyn, "D1", 1);
  dyn_one<D11 const>("dynamic", as_cbase, dyn, "D11", 1);
  dyn_one<Other>("dynamic_cross", as_base, dyn, "Other", 2);
  dyn_one<Other const>("dynamic_cross", as_cbase, dyn, "Other", 2);
  dyn_one<D1>("dynamic_any", as_base, dyn, "D1", 0);
  dyn_one<D2>("dynamic_any", as_base, dyn, "D2", 0);
  dyn_one<Other>("dynamic_any", as_base, dyn, "Other", 0);
  dyn_one<Base>("dynamic_any", as_base, dyn, "Base", 0);
  dyn_one<M>("dynamic_any", as_base, dyn, "M", 0);
}
void dynamic_casts()
{
  dyn_object<Base>("Base");
  dyn_object<D1>("D1");
  dyn_object<D2>("D2");
  dyn_object<D11>("D11");
  dyn_object<M>("M");
  {
    Other o;
    dyn_one<Base>("dynamic_cross", o, "Other", "Base", 2);
    dyn_one<M>("dynamic_cross", o, "Other", "M", 2);
    M m;
    Other &mo = m;
    dyn_one<Base>("dynamic_cross", mo, "M", "Base", 2);
    dyn_one<D1>("dynamic_cross", mo, "M", "D1", 2);
    dyn_one<D2>("dynamic_cross", mo, "M", "D2", 2);
    dyn_one<M>("dynamic", mo, "M", "M", 1);
  }
}

#endif

// ------------------------------------------------------------------ array::from_range
#if C01_ON(C01_G_FROM_RANGE)
template <std::size_t N> void from_range_n()
{
  for (auto const &xs : small_sequences())
  {
    if (xs.size() > N + 1) continue;
    total_call(fname("from_range") + ",\"n\":" + std::to_string(N) + ",\"xs\":" + ints(xs), [&xs] {
      auto const r = fcppt::array::from_range<N>(xs);
      if (!r.has_value()) return nothing();
      std::vector<int> out;
      for (auto const &e : r.get_unsafe().impl()) out.push_back(e);
      return value(ints(out));
    });
  }
}

#endif

// ------------------------------------------------------------------ extract_from_string
std::vector<std::string> token_strings(std::string const &alphabet, std::size_t const maxlen, std::vector<std::string> extra)
{
  std::vector<std::string> r{""};
  std::vector<std::string> cur{""};
  for (std::size_t l = 1; l <= maxlen; ++l)
  {
    std::vector<std::string> next;
    for (auto const &s : cur)
      for (char const c : alphabet) next.push_back(s + c);
    r.insert(r.end(), next.begin(), next.end());
    cur = next;
  }
  r.insert(r.end(), extra.begin(), extra.end());
  return r;
}
#if C01_ON(C01_G_EXTRACT)
void extract(c06::config const &cfg)
{
  std::vector<std::string> const extra{"2147483647", "2147483648", "-2147483648", "-2147483649", "4294967295", "4294967296", "-4294967295",
                                       "99999999999999999999", "-99999999999999999999", "0000000000000000000001", "+2147483647",
                                       "18446744073709551615", "18446744073709551616", " \t\n42", "42\n", "4 2", "0x10", "1e3", "1.5", "\t", "--1", "+-1", "12a"};
  for (auto const &s : token_strings(" -+019a", cfg.tier == 0 ? 4 : 5, extra))
  {
    total_call(fname("extract_int") + ",\"s\":" + vj::cps(s), [&s] {
      auto const r = fcppt::extract_from_string<int>(s);
      return r.has_value() ? value("[" + c06::zjson(c06::to_z(r.get_unsafe())) + "]") : nothing();
    });
    total_call(fname("extract_uint") + ",\"s\":" + vj::cps(s), [&s] {
      auto const r = fcppt::extract_from_string<unsigned>(s);
      return r.has_value() ? value("[" + c06::zjson(c06::to_z(r.get_unsafe())) + "]") : nothing();
    });
  }
  for (auto const &s : token_strings(" \nab", 4, {"", "hello world", "hello", " x ", "\tx"}))
    total_call(fname("extract_string") + ",\"s\":" + vj::cps(s), [&s] {
      auto const r = fcppt::extract_from_string<std::string>(s);
      return r.has_value() ? value(vj::cps(r.get_unsafe())) : nothing();
    });
}

#endif

// ------------------------------------------------------------------ streams
#if C01_ON(C01_G_STREAMS)
void streams()
{
  std::string const text = "ab\ncd e";
  for (std::size_t len = 0; len <= text.size(); ++len)
    for (std::size_t pre = 0; pre <= len; ++pre)
      for (int st = 0; st < 6; ++st)
      {
        bool const eofbit = st == 1 || st == 4, failbit = st == 2 || st == 4, badbit = st == 3 || st == 5;
        std::string const content = text.substr(0, len);
        std::string const rest = content.substr(pre);
        auto const prepare = [&](std::istringstream &is) {
          for (std::size_t i = 0; i < pre; ++i) is.get();
          std::ios_base::iostate s = std::ios_base::goodbit;
          if (eofbit) s |= std::ios_base::eofbit;
          if (failbit) s |= std::ios_base::failbit;
          if (badbit) s |= std::ios_base::badbit;
          is.clear(s);
        };
        std::string const state = std::string(",\"rest\":") + vj::cps(rest) + ",\"eofbit\":" + (eofbit ? "true" : "false") +
                                  ",\"failbit\":" + (failbit ? "true" : "false") + ",\"badbit\":" + (badbit || false ? "true" : "false");
        {
          std::istringstream is(content);
          prepare(is);
          total_call(fname("stream_to_string") + state, [&is] {
            auto const r = fcppt::io::stream_to_string(is);
            return r.has_value() ? value(vj::cps(r.get_unsafe())) : nothing();
          });
        }
        for (std::size_t count = 0; count <= rest.size() + 2; ++count)
        {
          std::istringstream is(content);
          prepare(is);
          total_call(fname("read_chars") + state + ",\"count\":" + std::to_string(count), [&is, count] {
            auto const r = fcppt::io::read_chars(is, count);
            if (!r.has_value()) return nothing();
            std::string s(r.get_unsafe().begin(), r.get_unsafe().end());
            return value(vj::cps(s));
          });
        }
      }
}

#endif

// ------------------------------------------------------------------ runtime_index
#if C01_ON(C01_G_RUNTIME_INDEX)
template <typename Index, Index Max> void runtime_index_n(char const *it)
{
  std::vector<Index> idx{0, 1, 2, 3, 4, static_cast<Index>(Max), static_cast<Index>(Max + 1), std::numeric_limits<Index>::max(),
                         static_cast<Index>(std::numeric_limits<Index>::max() - 1), static_cast<Index>(std::numeric_limits<Index>::max() / 2 + 1)};
  for (Index const i : idx)
    total_call(fname("runtime_index") + ",\"it\":\"" + it + "\",\"max\":" + std::to_string(static_cast<long long>(Max)) + ",\"i\":" +
                   std::to_string(sat(static_cast<unsigned long long>(i))),
               [i] {
                 return fcppt::runtime_index<std::integral_constant<Index, Max>>(
                     i, [](auto const c) { return value("[" + std::to_string(static_cast<long long>(decltype(c)::value)) + "]"); },
                     [] { return nothing(); });
               });
}

#endif

// ------------------------------------------------------------------ narrow / widen (LC_ALL=C.utf8)
// The string-conversion group.  In this build (FCPPT_NARROW_STRING) fcppt::string is std::string:
//   wide -> narrow through impl::codecvt: narrow, narrow_locale, from_std_wstring(_locale)   (optional)
//   narrow -> wide through impl::codecvt: widen, widen_locale, to_std_wstring(_locale)       (throw std::runtime_error)
//   identities: to_std_string(_locale), from_std_string(_locale)
// Records use f = "narrow" / "widen" / "string_id"; "fn" names the function that was called.
struct glyph
{
  wchar_t wide;
  char const *utf8;
};
constexpr glyph glyphs[] = {{L'a', "a"}, {static_cast<wchar_t>(0xE9), "\xC3\xA9"}, {static_cast<wchar_t>(0x65E5), "\xE6\x97\xA5"},
                            {static_cast<wchar_t>(0x1F600), "\xF0\x9F\x98\x80"}};
#if C01_ON(C01_G_CODECVT)
void narrow_all(std::wstring const &w, bool const wrappers)
{
  std::locale const loc("C.utf8");
  auto const enc = [](fcppt::optional::object<std::string> const &r) { return r.has_value() ? value(vj::cps(r.get_unsafe())) : nothing(); };
  std::string const base = ",\"s\":" + vj::cps(w);
  total_call(fname("narrow") + ",\"fn\":\"narrow\"" + base, [&] { return enc(fcppt::narrow(w)); });
  total_call(fname("narrow") + ",\"fn\":\"narrow_locale\"" + base, [&] { return enc(fcppt::narrow_locale(w, loc)); });
  if (wrappers)
  {
    total_call(fname("narrow") + ",\"fn\":\"from_std_wstring\"" + base, [&] { return enc(fcppt::from_std_wstring(w)); });
    total_call(fname("narrow") + ",\"fn\":\"from_std_wstring_locale\"" + base, [&] { return enc(fcppt::from_std_wstring_locale(w, loc)); });
  }
}
void widen_all(std::string const &s, bool const wrappers)
{
  std::locale const loc("C.utf8");
  std::string const base = ",\"s\":" + vj::cps(s);
  total_call(fname("widen") + ",\"fn\":\"widen\"" + base, [&] { return value(vj::cps(fcppt::widen(s))); });
  total_call(fname("widen") + ",\"fn\":\"widen_locale\"" + base, [&] { return value(vj::cps(fcppt::widen_locale(s, loc))); });
  if (wrappers)
  {
    total_call(fname("widen") + ",\"fn\":\"to_std_wstring\"" + base, [&] { return value(vj::cps(fcppt::to_std_wstring(s))); });
    total_call(fname("widen") + ",\"fn\":\"to_std_wstring_locale\"" + base, [&] { return value(vj::cps(fcppt::to_std_wstring_locale(s, loc))); });
    total_call(fname("string_id") + ",\"fn\":\"to_std_string\"" + base, [&] {
      auto const r = fcppt::to_std_string(s);
      return r.has_value() ? value(vj::cps(r.get_unsafe())) : nothing();
    });
    total_call(fname("string_id") + ",\"fn\":\"to_std_string_locale\"" + base, [&] {
      auto const r = fcppt::to_std_string_locale(s, loc);
      return r.has_value() ? value(vj::cps(r.get_unsafe())) : nothing();
    });
    total_call(fname("string_id") + ",\"fn\":\"from_std_string\"" + base, [&] { return value(vj::cps(fcppt::from_std_string(s))); });
    total_call(fname("string_id") + ",\"fn\":\"from_std_string_locale\"" + base, [&] { return value(vj::cps(fcppt::from_std_string_locale(s, loc))); });
  }
}
void codecvt(c06::config const &cfg)
{
  std::vector<std::string> bytes{"", "a", "abc", "\xC3\xA9", "a\xC3\xA9z", "\xE2\x82\xAC", "\xF0\x9F\x98\x80", "x\xF0\x9F\x98\x80y\xE2\x82\xAC",
                                 "\xC3", "a\xC3", "\xE2\x82", "\xF0\x9F\x98", "\x80", "a\x80", "\xFF", "\xC3\x28", "\xE2\x28\xA1", "\xC3\xA9\xC3",
                                 std::string(40, 'q'), std::string(13, 'q') + "\xE2\x82\xAC", "\xE2\x82\xAC\xE2\x82\xAC\xE2\x82\xAC\xE2\x82\xAC\xE2\x82\xAC"};
  for (auto const &s : bytes) widen_all(s, true);
  std::vector<std::wstring> wides{L"", L"a", L"abc", L"é", L"aéz", L"€", L"\U0001F600", L"x\U0001F600y€", std::wstring(40, L'q'),
                                  std::wstring(5, L'€'), std::wstring(1, static_cast<wchar_t>(0xD800)), std::wstring(L"a") + static_cast<wchar_t>(0xDFFF),
                                  std::wstring(1, static_cast<wchar_t>(0x110000)), std::wstring(1, static_cast<wchar_t>(0x7FFFFFFF)),
                                  std::wstring(1, static_cast<wchar_t>(0x10FFFF)), std::wstring(1, static_cast<wchar_t>(0x7FF)), std::wstring(1, static_cast<wchar_t>(0x800)),
                                  std::wstring(1, static_cast<wchar_t>(0xFFFF)), std::wstring(1, static_cast<wchar_t>(0x10000))};
  for (auto const &w : wides) narrow_all(w, true);
  // every string of length <= 6 (thorough 7) over a 1-, 2-, 3- and 4-byte character: the conversion buffer starts with
  // one element per input character and grows while it holds data, in every pattern of widths
  std::size_t const maxlen = cfg.tier == 0 ? 6 : 7;
  std::vector<std::pair<std::wstring, std::string>> cur{{L"", ""}};
  for (std::size_t l = 1; l <= maxlen; ++l)
  {
    std::vector<std::pair<std::wstring, std::string>> next;
    for (auto const &p : cur)
      for (glyph const &g : glyphs) next.emplace_back(p.first + g.wide, p.second + g.utf8);
    for (auto const &p : next)
    {
      narrow_all(p.first, l <= 4);
      widen_all(p.second, l <= 4);
      // byte strings cut inside the last character
      if (l <= 5)
      {
        std::size_t const last = std::strlen(glyphs[(&p - next.data()) % 4].utf8);
        for (std::size_t cut = 1; cut < last; ++cut) widen_all(p.second.substr(0, p.second.size() - cut), false);
      }
    }
    cur = next;
  }
  // seeded random strings of 7..40 characters, a whole string and one cut inside a character
  vj::Rng rng(cfg.seed * 7919ULL + 17ULL);
  unsigned const nrandom = cfg.tier == 0 ? 300U : 5000U;
  for (unsigned i = 0; i < nrandom; ++i)
  {
    std::size_t const len = 7 + static_cast<std::size_t>(rng.below(34));
    // bias towards one width per string so that long runs of wide characters occur
    unsigned const bias = static_cast<unsigned>(rng.below(5));
    std::wstring w;
    std::string s;
    for (std::size_t k = 0; k < len; ++k)
    {
      glyph const &g = glyphs[(bias < 4 && rng.below(4) != 0) ? bias : rng.below(4)];
      w += g.wide;
      s += g.utf8;
    }
    narrow_all(w, false);
    widen_all(s, false);
    if (static_cast<unsigned char>(s.back()) >= 0x80) widen_all(s.substr(0, s.size() - 1), false);
  }
}

#endif

// ------------------------------------------------------------------ filesystem
#if C01_ON(C01_G_FILESYSTEM)
void filesystem_fns(std::string const &scratch)
{
  namespace fs = std::filesystem;
  fs::path const dir = fs::path(scratch) / "c01_fs";
  fs::remove_all(dir);
  fs::create_directories(dir / "sub.d");
  auto const make = [&dir](char const *name, std::size_t const n) {
    std::ofstream o(dir / name, std::ios::binary);
    o << std::string(n, 'x');
  };
  make("empty", 0);
  make("five.txt", 5);
  make(".hidden", 3);
  make("big.bin", 70000);
  struct entry { std::string rel; char const *kind; long long size; };
  std::vector<entry> const entries{{"empty", "file", 0}, {"five.txt", "file", 5}, {".hidden", "file", 3}, {"big.bin", "file", 70000},
                                   {"sub.d", "dir", 0}, {"missing", "missing", 0}, {"sub.d/missing.txt", "missing", 0},
                                   {"five.txt/below", "missing", 0}, {"", "dir", 0}};
  for (auto const &e : entries)
  {
    fs::path const p = e.rel.empty() ? dir : dir / e.rel;
    total_call(fname("file_size") + ",\"kind\":\"" + e.kind + "\",\"size\":" + std::to_string(e.size) + ",\"rel\":" + vj::cps(e.rel), [&p] {
      auto const r = fcppt::filesystem::file_size(p);
      return r.has_value() ? value("[" + std::to_string(sat(r.get_unsafe())) + "]") : nothing();
    });
  }
  total_call(fname("file_size") + ",\"kind\":\"empty-path\",\"size\":0,\"rel\":[]", [] {
    auto const r = fcppt::filesystem::file_size(fs::path{});
    return r.has_value() ? value("[" + std::to_string(sat(r.get_unsafe())) + "]") : nothing();
  });
  // lexical path functions on all paths of <= 3 components over a small set of names
  std::vector<std::string> const names{"a", "a.b", ".h", "..", ".", "a.b.c", "x."};
  std::vector<std::string> paths{"", "/", "a/", "/a/", "//a", "a//b",
                                 // extension round: trailing slashes, "..", spaces, dots, non-ASCII names
                                 "a/b/", "../a", "./a", "a/..", "a/../b.c", "/..", "//", " ", "a b.c", "a b/c d.e f", "...", ".a.", "a..b", "a.b.",
                                 "\xE6\x97\xA5\xE6\x9C\xAC.txt", "\xC3\xA9/\xC3\xBC.tar.gz", "a\\b.c", std::string(300, 'p') + ".q", "a/" + std::string(40, '/') + "b"};
  for (auto const &n1 : names)
  {
    paths.push_back(n1);
    paths.push_back("/" + n1);
    for (auto const &n2 : names)
    {
      paths.push_back(n1 + "/" + n2);
      for (auto const &n3 : names) paths.push_back("/" + n1 + "/" + n2 + "/" + n3);
    }
  }
  for (auto const &s : paths)
  {
    fs::path const p(s);
    std::string const fn = s.substr(s.find_last_of('/') == std::string::npos ? 0 : s.find_last_of('/') + 1);
    bool const plain = !fn.empty() && fn != "." && fn != "..";
    std::string const base = fname("path_fn") + ",\"s\":" + vj::cps(s) + ",\"plain\":" + (plain ? "true" : "false");
    total_call(base + ",\"op\":\"stem_ext\"", [&p] { return value(vj::cps(fcppt::filesystem::stem(p) + fcppt::filesystem::extension(p))); });
    total_call(base + ",\"op\":\"remove_extension\"", [&p] { return value(vj::cps(fcppt::filesystem::remove_extension(p).string())); });
    total_call(base + ",\"op\":\"replace_extension\"", [&p] { return value(vj::cps(fcppt::filesystem::replace_extension(p, FCPPT_TEXT("txt")).string())); });
    total_call(base + ",\"op\":\"normalize\"", [&p] { return value(vj::cps(fcppt::filesystem::normalize(p).string())); });
    total_call(base + ",\"op\":\"num_subpaths\"", [&p] { return value("[" + std::to_string(sat(static_cast<unsigned long long>(fcppt::filesystem::num_subpaths(p)))) + "]"); });
    // strip_prefix is only defined for real prefixes: every leading part of the path itself
    fs::path prefix;
    for (auto const &part : p)
    {
      prefix /= part;
      total_call(base + ",\"op\":\"strip_prefix\"", [&p, &prefix] { return value(vj::cps(fcppt::filesystem::strip_prefix(prefix, p).string())); });
    }
  }
  fs::remove_all(dir);
}

#endif

// ------------------------------------------------------------------ options::parse
#if C01_ON(C01_G_OPTIONS) || C01_ON(C01_G_PARSE_HELP)
FCPPT_RECORD_MAKE_LABEL(arg_label);
FCPPT_RECORD_MAKE_LABEL(flag_label);
FCPPT_RECORD_MAKE_LABEL(opt_label);
FCPPT_RECORD_MAKE_LABEL(arg2_label);
FCPPT_RECORD_MAKE_LABEL(opt2_label);
FCPPT_RECORD_MAKE_LABEL(cmd_foo_label);
FCPPT_RECORD_MAKE_LABEL(cmd_bar_label);
#endif

#if C01_ON(C01_G_OPTIONS)
void options_parse(c06::config const &cfg)
{
  namespace o = fcppt::options;
  o::argument<arg_label, int> const arg{o::long_name{FCPPT_TEXT("arg")}, o::optional_help_text{}};
  o::flag<flag_label, int> const flag{o::optional_short_name{o::short_name{FCPPT_TEXT("f")}}, o::long_name{FCPPT_TEXT("flag")},
                                      o::make_active_value(1), o::make_inactive_value(0), o::optional_help_text{}};
  o::option<opt_label, int> const opt{o::optional_short_name{o::short_name{FCPPT_TEXT("o")}}, o::long_name{FCPPT_TEXT("opt")},
                                      o::no_default_value<int>(), o::optional_help_text{}};
  auto const all{o::apply(fcppt::make_cref(flag), fcppt::make_cref(opt), fcppt::make_cref(arg))};
  // the positional argument is applied first, so that it has to skip over options and their values
  auto const arg_first{o::apply(fcppt::make_cref(arg), fcppt::make_cref(opt), fcppt::make_cref(flag))};
  auto const many_args{o::apply(
      o::make_many(o::argument<arg2_label, int>{o::long_name{FCPPT_TEXT("args")}, o::optional_help_text{}}),
      fcppt::make_cref(opt))};
  auto const commands{o::make_commands(
      o::option<opt2_label, int>{o::optional_short_name{o::short_name{FCPPT_TEXT("o")}}, o::long_name{FCPPT_TEXT("opt")},
                                 o::no_default_value<int>(), o::optional_help_text{}},
      o::make_sub_command<cmd_foo_label>(FCPPT_TEXT("x"), o::argument<arg_label, int>{o::long_name{FCPPT_TEXT("arg")}, o::optional_help_text{}},
                                         o::optional_help_text{}),
      o::make_sub_command<cmd_bar_label>(FCPPT_TEXT("5"), o::flag<flag_label, int>{o::optional_short_name{o::short_name{FCPPT_TEXT("f")}},
                                                                                      o::long_name{FCPPT_TEXT("flag")}, o::make_active_value(1),
                                                                                      o::make_inactive_value(0), o::optional_help_text{}},
                                         o::optional_help_text{}))};
  std::vector<std::string> const toks{"-", "--", "", "-f", "--flag", "--opt", "-o", "5", "x", "--opt=5", "-x", "---", "-5", "--flag=1"};
  std::vector<fcppt::args_vector> argvs{{}};
  std::size_t const maxlen = cfg.tier == 0 ? 3 : 4;
  std::vector<fcppt::args_vector> cur{{}};
  for (std::size_t l = 1; l <= maxlen; ++l)
  {
    std::vector<fcppt::args_vector> next;
    for (auto const &a : cur)
      for (auto const &t : toks) { auto b = a; b.push_back(t); next.push_back(b); }
    argvs.insert(argvs.end(), next.begin(), next.end());
    cur = next;
  }
  auto const log_args = [](fcppt::args_vector const &a) {
    std::string s = "[";
    for (std::size_t i = 0; i < a.size(); ++i) s += (i ? "," : "") + vj::cps(a[i]);
    return s + "]";
  };
  for (auto const &a : argvs)
  {
    total_call(fname("options_parse") + ",\"p\":\"flag+opt+arg\",\"argv\":" + log_args(a), [&all, &a] {
      return fcppt::either::match(o::parse(all, a), [](auto const &) { return failure(); }, [](auto const &) { return value("[]"); });
    });
    total_call(fname("options_parse") + ",\"p\":\"arg+opt+flag\",\"argv\":" + log_args(a), [&arg_first, &a] {
      return fcppt::either::match(o::parse(arg_first, a), [](auto const &) { return failure(); }, [](auto const &) { return value("[]"); });
    });
    total_call(fname("options_parse") + ",\"p\":\"many(arg)+opt\",\"argv\":" + log_args(a), [&many_args, &a] {
      return fcppt::either::match(o::parse(many_args, a), [](auto const &) { return failure(); }, [](auto const &) { return value("[]"); });
    });
    total_call(fname("options_parse") + ",\"p\":\"commands\",\"argv\":" + log_args(a), [&commands, &a] {
      return fcppt::either::match(o::parse(commands, a), [](auto const &) { return failure(); }, [](auto const &) { return value("[]"); });
    });
    if (a.size() <= 2)
    {
      total_call(fname("options_parse") + ",\"p\":\"arg\",\"argv\":" + log_args(a), [&arg, &a] {
        return fcppt::either::match(o::parse(arg, a), [](auto const &) { return failure(); }, [](auto const &) { return value("[]"); });
      });
      total_call(fname("options_parse") + ",\"p\":\"flag\",\"argv\":" + log_args(a), [&flag, &a] {
        return fcppt::either::match(o::parse(flag, a), [](auto const &) { return failure(); }, [](auto const &) { return value("[]"); });
      });
      total_call(fname("options_parse") + ",\"p\":\"opt\",\"argv\":" + log_args(a), [&opt, &a] {
        return fcppt::either::match(o::parse(opt, a), [](auto const &) { return failure(); }, [](auto const &) { return value("[]"); });
      });
    }
  }
}

#endif

// ------------------------------------------------------------------ parse::parse_string / phrase_parse_string
#if C01_ON(C01_G_PARSE)
template <typename Parser, typename Enc>
void parse_one(char const *g, Parser const &parser, std::vector<std::string> const &inputs, Enc const &enc)
{
  for (auto const &s : inputs)
  {
    total_call(fname("parse_string") + ",\"g\":\"" + g + "\",\"sk\":\"none\",\"s\":" + vj::cps(s), [&parser, &s, &enc] {
      return fcppt::either::match(fcppt::parse::parse_string(parser, std::string{s}), [](auto const &) { return failure(); },
                                  [&enc](auto const &v) { return value(enc(v)); });
    });
    total_call(fname("parse_string") + ",\"g\":\"" + g + "\",\"sk\":\"space\",\"s\":" + vj::cps(s), [&parser, &s, &enc] {
      return fcppt::either::match(fcppt::parse::phrase_parse_string(parser, std::string{s}, fcppt::parse::skipper::space()),
                                  [](auto const &) { return failure(); }, [&enc](auto const &v) { return value(enc(v)); });
    });
  }
}
void parse_strings(c06::config const &cfg)
{
  namespace p = fcppt::parse;
  std::vector<std::string> const extra{"2147483647", "2147483648", "-2147483647", "-2147483648", "-2147483649", "4294967295", "4294967296",
                                       std::string(30, '9'), "-" + std::string(30, '9'), std::string(400, '1'), "0000000000000000000000012", "-0"};
  std::vector<std::string> const inputs = token_strings("a,-19 ", cfg.tier == 0 ? 4 : 5, extra);
  parse_one("int", p::int_<int>{}, inputs, [](int const v) { return "[" + c06::zjson(c06::to_z(v)) + "]"; });
  parse_one("uint", p::uint<unsigned>{}, inputs, [](unsigned const v) { return "[" + c06::zjson(c06::to_z(v)) + "]"; });
  auto const lit_int{p::literal{'a'} >> p::int_<int>{}};
  parse_one("lit_int", lit_int, inputs, [](auto const &) { return std::string("[]"); });
  auto const rep{*(p::int_<int>{} >> -p::literal{','})};
  parse_one("rep_int_comma", rep, inputs, [](auto const &) { return std::string("[]"); });
  auto const alt{+p::char_set{'a', '1'} | p::literal{','} >> p::literal{','}};
  parse_one("alt", alt, inputs, [](auto const &) { return std::string("[]"); });
}

#endif

// ================================================================== extension round
// ------------------------------------------------------------------ io::get / peek / extract / expect
#if C01_ON(C01_G_ENUM_EXTRACT)
std::istream &operator>>(std::istream &st, colour &c) { return fcppt::enum_::input(st, c); }   // as enum/input.hpp suggests
#endif

#if C01_ON(C01_G_IO)
void io_fns(c06::config const &cfg)
{
  std::string const text = "ab\ncd e";
  for (std::size_t len = 0; len <= 4; ++len)
    for (std::size_t pre = 0; pre <= len; ++pre)
      for (int st = 0; st < 6; ++st)
      {
        bool const eofbit = st == 1 || st == 4, failbit = st == 2 || st == 4, badbit = st == 3 || st == 5;
        std::string const content = text.substr(0, len);
        std::string const rest = content.substr(pre);
        auto const prepare = [&](std::istringstream &is) {
          for (std::size_t i = 0; i < pre; ++i) is.get();
          std::ios_base::iostate s2 = std::ios_base::goodbit;
          if (eofbit) s2 |= std::ios_base::eofbit;
          if (failbit) s2 |= std::ios_base::failbit;
          if (badbit) s2 |= std::ios_base::badbit;
          is.clear(s2);
        };
        std::string const state = std::string(",\"rest\":") + vj::cps(rest) + ",\"eofbit\":" + (eofbit ? "true" : "false") +
                                  ",\"failbit\":" + (failbit ? "true" : "false") + ",\"badbit\":" + (badbit ? "true" : "false");
        {
          std::istringstream is(content);
          prepare(is);
          total_call(fname("io_get") + state, [&is] {
            auto const r = fcppt::io::get(is);
            return r.has_value() ? value("[" + std::to_string(static_cast<int>(static_cast<unsigned char>(r.get_unsafe()))) + "]") : nothing();
          });
        }
        {
          std::istringstream is(content);
          prepare(is);
          total_call(fname("io_peek") + state, [&is] {
            auto const r = fcppt::io::peek(is);
            return r.has_value() ? value("[" + std::to_string(static_cast<int>(static_cast<unsigned char>(r.get_unsafe()))) + "]") : nothing();
          });
        }
      }
  std::vector<std::string> const extra{"2147483647", "2147483648", "-2147483648", "-2147483649", "99999999999999999999", "12 34", "7x", "\n\t 5", "0x10", "1e3"};
  for (auto const &s : token_strings(" -+019a", cfg.tier == 0 ? 3 : 4, extra))
  {
    total_call(fname("io_extract_int") + ",\"s\":" + vj::cps(s), [&s] {
      std::istringstream is(s);
      auto const r = fcppt::io::extract<int>(is);
      return r.has_value() ? value("[" + c06::zjson(c06::to_z(r.get_unsafe())) + "]") : nothing();
    });
    for (int const expected : {0, 1, -1, 19})
      total_call(fname("io_expect_int") + ",\"s\":" + vj::cps(s) + ",\"expected\":" + std::to_string(expected), [&s, expected] {
        std::istringstream is(s);
        fcppt::io::expect(is, expected);
        return value(std::string("[") + (is.fail() ? "1" : "0") + "]");
      });
  }
}

#endif

// ------------------------------------------------------------------ extract_from_string of an enum (operator>> through enum_::input)
#if C01_ON(C01_G_ENUM_EXTRACT)
void enum_extract()
{
  auto const name_array{fcppt::enum_::names<colour>()};
  std::vector<std::string> names;
  for (auto const n : name_array.impl()) names.emplace_back(n);
  std::string nj = "[";
  for (std::size_t i = 0; i < names.size(); ++i) nj += (i ? "," : "") + vj::cps(names[i]);
  nj += "]";
  std::set<std::string> inputs{"", " ", "x", "RED", "red ", " red", "\nred", "red green", "redgreen", "blue", "blue_green\n", "\t blue_green"};
  for (auto const &n : names)
    for (std::size_t l = 0; l <= n.size(); ++l) { inputs.insert(n.substr(0, l)); inputs.insert(" " + n.substr(l)); }
  for (auto const &s : inputs)
    total_call(fname("extract_enum") + ",\"names\":" + nj + ",\"s\":" + vj::cps(s), [&s] {
      auto const r = fcppt::extract_from_string<colour>(s);
      return r.has_value() ? value("[" + std::to_string(static_cast<int>(r.get_unsafe())) + "]") : nothing();
    });
  // enum_::array: operator[] is total over the enumerators
  auto const arr{fcppt::enum_::array_init<fcppt::enum_::array<colour, int>>([](auto const e) { return 10 * static_cast<int>(decltype(e)::value); })};
  for (int i = 0; i <= static_cast<int>(colour::fcppt_maximum); ++i)
    total_call(fname("enum_array_at") + ",\"i\":" + std::to_string(i), [&arr, i] { return value("[" + std::to_string(arr[static_cast<colour>(i)]) + "]"); });
}

#endif

// ------------------------------------------------------------------ options::parse_help
#if C01_ON(C01_G_PARSE_HELP)
void parse_help_fns(c06::config const &cfg)
{
  namespace o = fcppt::options;
  o::argument<arg_label, int> const arg{o::long_name{FCPPT_TEXT("arg")}, o::optional_help_text{}};
  o::flag<flag_label, int> const flag{o::optional_short_name{o::short_name{FCPPT_TEXT("f")}}, o::long_name{FCPPT_TEXT("flag")},
                                      o::make_active_value(1), o::make_inactive_value(0), o::optional_help_text{}};
  o::option<opt_label, int> const opt{o::optional_short_name{o::short_name{FCPPT_TEXT("o")}}, o::long_name{FCPPT_TEXT("opt")},
                                      o::no_default_value<int>(), o::optional_help_text{}};
  auto const all{o::apply(fcppt::make_cref(arg), fcppt::make_cref(opt), fcppt::make_cref(flag))};
  o::help_switch const help{o::default_help_switch()};
  std::vector<std::string> const toks{"--help", "-", "--", "", "-f", "--opt", "5", "x", "-h", "--help=1"};
  std::vector<fcppt::args_vector> argvs{{}};
  std::vector<fcppt::args_vector> cur{{}};
  for (std::size_t l = 1; l <= (cfg.tier == 0 ? 3U : 4U); ++l)
  {
    std::vector<fcppt::args_vector> next;
    for (auto const &a : cur)
      for (auto const &t : toks) { auto b = a; b.push_back(t); next.push_back(b); }
    argvs.insert(argvs.end(), next.begin(), next.end());
    cur = next;
  }
  auto const log_args = [](fcppt::args_vector const &a) {
    std::string s2 = "[";
    for (std::size_t i = 0; i < a.size(); ++i) s2 += (i ? "," : "") + vj::cps(a[i]);
    return s2 + "]";
  };
  auto const one = [&](char const *pname, auto const &parser, fcppt::args_vector const &a) {
    // the outcome class of the plain parser on the same arguments (the documentation defines parse_help through it)
    std::string plain = "exception";
    try { plain = o::parse(parser, a).has_success() ? "value" : "failure"; } catch (...) {}
    total_call(fname("parse_help") + ",\"p\":\"" + pname + "\",\"help\":" + vj::cps(std::string("--help")) + ",\"plain\":\"" + plain + "\",\"argv\":" + log_args(a), [&] {
      return fcppt::variant::match(
          o::parse_help(help, parser, a),
          [](o::result<o::result_of<std::remove_cvref_t<decltype(parser)>>> const &r) { return r.has_success() ? value("[]") : failure(); },
          [](o::help_text const &) { return std::string("\"out\":\"help\",\"v\":[]"); });
    });
  };
  for (auto const &a : argvs)
  {
    one("arg", arg, a);
    one("arg+opt+flag", all, a);
  }
}

#endif

// ------------------------------------------------------------------ parse::grammar_parse_string
#if C01_ON(C01_G_GRAMMAR)
using space_skipper = decltype(fcppt::parse::skipper::space());
class int_grammar : public fcppt::parse::grammar<int, char, space_skipper>
{
  FCPPT_NONMOVABLE(int_grammar);
public:
  int_grammar() : grammar_base{fcppt::make_cref(this->start_), fcppt::parse::skipper::space()}, start_{grammar_base::make_base(fcppt::parse::int_<int>{})} {}
  ~int_grammar() = default;
private:
  grammar_base::base_type<int> start_;
};
class list_grammar : public fcppt::parse::grammar<std::vector<int>, char, space_skipper>
{
  FCPPT_NONMOVABLE(list_grammar);
public:
  list_grammar()
      : grammar_base{fcppt::make_cref(this->start_), fcppt::parse::skipper::space()},
        item_{grammar_base::make_base(fcppt::parse::int_<int>{})},
        start_{grammar_base::make_base(*fcppt::make_cref(this->item_))}
  {
  }
  ~list_grammar() = default;
private:
  grammar_base::base_type<int> item_;
  grammar_base::base_type<std::vector<int>> start_;
};
void grammar_fns(c06::config const &cfg)
{
  int_grammar const g1{};
  list_grammar const g2{};
  std::vector<std::string> const extra{"2147483647", "2147483648", " 42", "42 ", " 4 2 ", std::string(300, '7'), "1 2 3 4 5 6 7 8 9", std::string(200, ' ') + "5"};
  for (auto const &s : token_strings("a-19 ", cfg.tier == 0 ? 4 : 5, extra))
  {
    total_call(fname("grammar_parse_string") + ",\"g\":\"int\",\"s\":" + vj::cps(s), [&g1, &s] {
      return fcppt::either::match(fcppt::parse::grammar_parse_string(std::string{s}, g1), [](auto const &) { return failure(); }, [](auto const &) { return value("[]"); });
    });
    total_call(fname("grammar_parse_string") + ",\"g\":\"list\",\"s\":" + vj::cps(s), [&g2, &s] {
      return fcppt::either::match(fcppt::parse::grammar_parse_string(std::string{s}, g2), [](auto const &) { return failure(); }, [](auto const &) { return value("[]"); });
    });
  }
}

#endif

// ------------------------------------------------------------------ optional accessors that are documented total
#if C01_ON(C01_G_OPTIONAL)
void optional_fns()
{
  for (int has = 0; has <= 1; ++has)
    for (int const x : {0, 7, -3})
    {
      fcppt::optional::object<int> const o{has ? fcppt::optional::object<int>{x} : fcppt::optional::object<int>{}};
      std::string const base = ",\"has\":" + std::string(has ? "true" : "false") + ",\"x\":" + std::to_string(x);
      total_call(fname("optional_from") + base + ",\"d\":42", [&o] { return value("[" + std::to_string(fcppt::optional::from(o, [] { return 42; })) + "]"); });
      total_call(fname("optional_to_exception") + base + ",\"exc\":\"std::out_of_range\"", [&o] {
        return value("[" + std::to_string(fcppt::optional::to_exception(o, [] { return std::out_of_range{"empty"}; })) + "]");
      });
      int target = x;
      fcppt::optional::reference<int> const ref{has ? fcppt::optional::reference<int>{fcppt::make_ref(target)} : fcppt::optional::reference<int>{}};
      total_call(fname("optional_to_pointer") + base, [&ref, &target] {
        int *const ptr = fcppt::optional::to_pointer(ref);
        return value(std::string("[") + (ptr != nullptr ? "1" : "0") + "," + (ptr == &target ? "1" : "0") + "]");
      });
      total_call(fname("optional_copy_value") + base, [&ref] {
        auto const r = fcppt::optional::copy_value(ref);
        return r.has_value() ? value("[" + std::to_string(r.get_unsafe()) + "]") : nothing();
      });
      total_call(fname("optional_from_pointer") + base, [&target, has] {
        auto const r = fcppt::optional::from_pointer(has ? &target : static_cast<int *>(nullptr));
        return r.has_value() ? value("[" + std::to_string(r.get_unsafe().get()) + "]") : nothing();
      });
      std::unique_ptr<int> const up{std::make_unique<int>(x)};
      fcppt::optional::object<int const *> const op{has ? fcppt::optional::object<int const *>{up.get()} : fcppt::optional::object<int const *>{}};
      total_call(fname("optional_deref") + base, [&op] {
        auto const r = fcppt::optional::deref(op);
        return r.has_value() ? value("[" + std::to_string(r.get_unsafe().get()) + "]") : nothing();
      });
    }
}

#endif

// ------------------------------------------------------------------ more container kinds
#if C01_ON(C01_G_CONTAINERS2)
void containers2()
{
  for (auto const &xs : small_sequences())
  {
    std::string const str(xs.begin(), xs.end());   // characters 7, 8, 9
    std::vector<std::size_t> const idx{0, 1, 2, 3, 4, static_cast<std::size_t>(1) << 63, std::numeric_limits<std::size_t>::max()};
    for (auto const i : idx)
      total_call(fname("at_optional") + ",\"k\":\"const string\",\"xs\":" + ints(xs) + ",\"i\":" + std::to_string(sat(i)), [&str, i] {
        auto const r = fcppt::container::at_optional(str, i);
        return r.has_value() ? value("[" + std::to_string(static_cast<int>(r.get_unsafe().get())) + "]") : nothing();
      });
    if (xs.size() == 3)
    {
      std::array<int, 3> arr{xs[0], xs[1], xs[2]};
      for (auto const i : idx)
        total_call(fname("at_optional") + ",\"k\":\"std::array\",\"xs\":" + ints(xs) + ",\"i\":" + std::to_string(sat(i)), [&arr, i] {
          auto const r = fcppt::container::at_optional(arr, i);
          return r.has_value() ? value("[" + std::to_string(r.get_unsafe().get()) + "]") : nothing();
        });
    }
    std::string const base = ",\"xs\":" + ints(xs);
    {
      std::string c(str);
      total_call(fname("maybe_front") + ",\"k\":\"string\"" + base, [&c] {
        auto const r = fcppt::container::maybe_front(c);
        return r.has_value() ? value("[" + std::to_string(static_cast<int>(r.get_unsafe().get())) + "]") : nothing();
      });
      total_call(fname("maybe_back") + ",\"k\":\"string\"" + base, [&c] {
        auto const r = fcppt::container::maybe_back(c);
        return r.has_value() ? value("[" + std::to_string(static_cast<int>(r.get_unsafe().get())) + "]") : nothing();
      });
      total_call(fname("pop_back") + ",\"k\":\"string\"" + base, [&c] {
        auto const r = fcppt::container::pop_back(c);
        return (r.has_value() ? value("[" + std::to_string(static_cast<int>(r.get_unsafe())) + "]") : nothing()) + ",\"after\":" + ints(c);
      });
    }
    {
      std::forward_list<int> fl(xs.begin(), xs.end());
      total_call(fname("maybe_front") + ",\"k\":\"forward_list\"" + base, [&fl] {
        auto const r = fcppt::container::maybe_front(fl);
        return r.has_value() ? value("[" + std::to_string(r.get_unsafe().get()) + "]") : nothing();
      });
      total_call(fname("pop_front") + ",\"k\":\"forward_list\"" + base, [&fl] {
        auto const r = fcppt::container::pop_front(fl);
        return (r.has_value() ? value("[" + std::to_string(r.get_unsafe()) + "]") : nothing()) + ",\"after\":" + ints(fl);
      });
      std::vector<int> const cv(xs.begin(), xs.end());
      total_call(fname("maybe_front") + ",\"k\":\"const vector\"" + base, [&cv] {
        auto const r = fcppt::container::maybe_front(cv);
        return r.has_value() ? value("[" + std::to_string(r.get_unsafe().get()) + "]") : nothing();
      });
      total_call(fname("maybe_back") + ",\"k\":\"const vector\"" + base, [&cv] {
        auto const r = fcppt::container::maybe_back(cv);
        return r.has_value() ? value("[" + std::to_string(r.get_unsafe().get()) + "]") : nothing();
      });
    }
  }
  for (unsigned mask = 0; mask < 8U; ++mask)
  {
    std::unordered_map<int, int> um;
    std::multimap<int, int> mm;
    std::unordered_set<int> us;
    std::vector<int> keys, mapped;
    for (int k = 1; k <= 3; ++k)
      if ((mask >> (k - 1)) & 1U) { um[k] = 10 * k + 1; mm.emplace(k, 10 * k + 1); us.insert(k); keys.push_back(k); mapped.push_back(10 * k + 1); }
    std::map<int, int> const cm(um.begin(), um.end());
    std::unordered_set<int> const &cus = us;
    for (int key = 0; key <= 4; ++key)
    {
      std::string const base = ",\"xs\":" + ints(keys) + ",\"ms\":" + ints(mapped) + ",\"key\":" + std::to_string(key);
      total_call(fname("find_opt_mapped") + ",\"k\":\"unordered_map\"" + base, [&um, key] {
        auto const r = fcppt::container::find_opt_mapped(um, key);
        return r.has_value() ? value("[" + std::to_string(r.get_unsafe().get()) + "]") : nothing();
      });
      total_call(fname("find_opt_mapped") + ",\"k\":\"multimap\"" + base, [&mm, key] {
        auto const r = fcppt::container::find_opt_mapped(mm, key);
        return r.has_value() ? value("[" + std::to_string(r.get_unsafe().get()) + "]") : nothing();
      });
      total_call(fname("find_opt_mapped") + ",\"k\":\"const map\"" + base, [&cm, key] {
        auto const r = fcppt::container::find_opt_mapped(cm, key);
        return r.has_value() ? value("[" + std::to_string(r.get_unsafe().get()) + "]") : nothing();
      });
      total_call(fname("find_opt") + ",\"k\":\"const unordered_set\"" + base, [&cus, key] {
        auto const r = fcppt::container::find_opt(cus, key);
        return r.has_value() ? value("[" + std::to_string(r.get_unsafe().get()) + "]") : nothing();
      });
    }
  }
}

#endif

// ------------------------------------------------------------------ getenv, args, args_from_second, time::gmtime
#if C01_ON(C01_G_ENV_ARGS)
void env_args()
{
  ::setenv("VERIF_C01_SET", "some value", 1);
  ::setenv("VERIF_C01_EMPTY", "", 1);
  ::unsetenv("VERIF_C01_UNSET");
  struct ev { char const *name; bool set; char const *val; };
  for (ev const &e : {ev{"VERIF_C01_SET", true, "some value"}, ev{"VERIF_C01_EMPTY", true, ""}, ev{"VERIF_C01_UNSET", false, ""},
                      ev{"", false, ""}, ev{"VERIF_C01_SET=x", false, ""}, ev{"=", false, ""}, ev{"verif_c01_set", false, ""}})
    total_call(fname("getenv") + ",\"name\":" + vj::cps(std::string(e.name)) + ",\"set\":" + (e.set ? "true" : "false") + ",\"val\":" + vj::cps(std::string(e.val)), [&e] {
      auto const r = fcppt::getenv(e.name);
      return r.has_value() ? value(vj::cps(r.get_unsafe())) : nothing();
    });
  auto const log_vec = [](fcppt::args_vector const &a) {
    std::string s = "[";
    for (std::size_t i = 0; i < a.size(); ++i) s += (i ? "," : "") + vj::cps(a[i]);
    return s + "]";
  };
  std::vector<std::vector<std::string>> const argvs{{}, {"prog"}, {"prog", "-"}, {"prog", "", "--x", "a b"}, {""}};
  for (auto const &a : argvs)
  {
    std::vector<fcppt::args_char const *> ptrs;
    for (auto const &x : a) ptrs.push_back(x.c_str());
    ptrs.push_back(nullptr);
    fcppt::args_vector const as_vec(a.begin(), a.end());
    int const argc = static_cast<int>(a.size());
    total_call(fname("args") + ",\"second\":false,\"argv\":" + log_vec(as_vec), [&] { return value(log_vec(fcppt::args(argc, ptrs.data()))); });
    total_call(fname("args") + ",\"second\":true,\"argv\":" + log_vec(as_vec), [&] { return value(log_vec(fcppt::args_from_second(argc, ptrs.data()))); });
  }
  for (long long const t : {0LL, 1LL, 59LL, 60LL, 3599LL, 86399LL, 86400LL, 951782400LL, 2147483647LL, -1LL, -86400LL})
    total_call(fname("gmtime") + ",\"t\":" + std::to_string(t), [t] {
      std::tm const r = fcppt::time::gmtime(static_cast<std::time_t>(t));
      return value("[" + std::to_string(r.tm_sec) + "," + std::to_string(r.tm_min) + "," + std::to_string(r.tm_hour) + "," + std::to_string(r.tm_wday) + "]");
    });
}

#endif

#if C01_ON(C01_G_PARSE_STREAM)
// ------------------------------------------------------------------ parse::phrase_parse_stream on streams that are not good (round 3)
// "This function also catches all exceptions produced by _input and returns them as an error." (parse/phrase_parse.hpp):
// a stream whose badbit is set, and a stream buffer that can neither tell nor seek (like a pipe), make fcppt's stream
// wrapper throw; the caller must see an either failure, never the exception.
class no_seek_buf : public std::streambuf
{
public:
  explicit no_seek_buf(std::string _s) : s_(std::move(_s)) { this->setg(s_.data(), s_.data(), s_.data() + s_.size()); }
private:
  std::string s_;
};
template <typename Parser, typename Skipper>
void parse_stream_one(char const *g, char const *sk, Parser const &parser, Skipper const &skipper)
{
  std::vector<std::string> const contents{"", "1", "12,3", "a", "1,a", "-", " 7", "7 ", "99999999999", "1,2,3,4,5,6"};
  for (auto const &content : contents)
    for (int st = 0; st < 6; ++st)
      for (int seekable = 0; seekable <= 1; ++seekable)
      {
        bool const eofbit = st == 1 || st == 4, failbit = st == 2 || st == 4, badbit = st == 3 || st == 5;
        std::ios_base::iostate state = std::ios_base::goodbit;
        if (eofbit) state |= std::ios_base::eofbit;
        if (failbit) state |= std::ios_base::failbit;
        if (badbit) state |= std::ios_base::badbit;
        std::istringstream iss(content);
        no_seek_buf buf(content);
        std::istream plain(&buf);
        std::istream &is = seekable ? static_cast<std::istream &>(iss) : plain;
        is.unsetf(std::ios_base::skipws);
        is.clear(state);
        total_call(fname("parse_stream") + ",\"g\":\"" + g + "\",\"sk\":\"" + sk + "\",\"s\":" + vj::cps(content) + ",\"seekable\":" + (seekable ? "true" : "false") +
                       ",\"eofbit\":" + (eofbit ? "true" : "false") + ",\"failbit\":" + (failbit ? "true" : "false") + ",\"badbit\":" + (badbit ? "true" : "false"),
                   [&parser, &skipper, &is] {
                     return fcppt::either::match(fcppt::parse::phrase_parse_stream(parser, is, skipper), [](auto const &) { return failure(); },
                                                 [](auto const &) { return value("[]"); });
                   });
      }
}
void parse_streams()
{
  namespace p = fcppt::parse;
  auto const rep{*(p::int_<int>{} >> -p::literal{','})};
  parse_stream_one("int", "none", p::int_<int>{}, p::skipper::epsilon());
  parse_stream_one("int", "space", p::int_<int>{}, p::skipper::space());
  parse_stream_one("rep_int_comma", "none", rep, p::skipper::epsilon());
  parse_stream_one("rep_int_comma", "space", rep, p::skipper::space());
}
#endif

struct own_entry
{
  char const *name;
  void (*run)(c06::config const &, std::string const &);
};
#define C01_SEC(name, ...) own_entry{name, [](c06::config const &cfg, std::string const &scratch) { (void)cfg; (void)scratch; __VA_ARGS__ }},
std::vector<own_entry> const &own_table()
{
  static std::vector<own_entry> const t{
#if C01_ON(C01_G_CONTAINERS)
      C01_SEC("containers", containers();)
#endif
#if C01_ON(C01_G_GRID)
      C01_SEC("grid", grid_n<1>(); grid_n<2>(); grid_n<3>();)
#endif
#if C01_ON(C01_G_ENUM_STRING)
      C01_SEC("enum_string", enum_strings();)
#endif
#if C01_ON(C01_G_DYNAMIC)
      C01_SEC("dynamic", dynamic_casts();)
#endif
#if C01_ON(C01_G_FROM_RANGE)
      C01_SEC("from_range", from_range_n<0>(); from_range_n<1>(); from_range_n<2>(); from_range_n<3>();)
#endif
#if C01_ON(C01_G_EXTRACT)
      C01_SEC("extract", extract(cfg);)
#endif
#if C01_ON(C01_G_STREAMS)
      C01_SEC("streams", streams();)
#endif
#if C01_ON(C01_G_RUNTIME_INDEX)
      C01_SEC("runtime_index", runtime_index_n<std::uint8_t, 1>("u8"); runtime_index_n<std::uint8_t, 3>("u8"); runtime_index_n<unsigned, 1>("u32");
              runtime_index_n<unsigned, 3>("u32"); runtime_index_n<unsigned, 4>("u32"); runtime_index_n<std::uint64_t, 3>("u64");)
#endif
#if C01_ON(C01_G_CODECVT)
      C01_SEC("codecvt", codecvt(cfg);)
#endif
#if C01_ON(C01_G_FILESYSTEM)
      C01_SEC("filesystem", filesystem_fns(scratch);)
#endif
#if C01_ON(C01_G_OPTIONS)
      C01_SEC("options", options_parse(cfg);)
#endif
#if C01_ON(C01_G_PARSE)
      C01_SEC("parse", parse_strings(cfg);)
#endif
#if C01_ON(C01_G_IO)
      C01_SEC("io", io_fns(cfg);)
#endif
#if C01_ON(C01_G_ENUM_EXTRACT)
      C01_SEC("enum_extract", enum_extract();)
#endif
#if C01_ON(C01_G_PARSE_HELP)
      C01_SEC("parse_help", parse_help_fns(cfg);)
#endif
#if C01_ON(C01_G_GRAMMAR)
      C01_SEC("grammar", grammar_fns(cfg);)
#endif
#if C01_ON(C01_G_OPTIONAL)
      C01_SEC("optional", optional_fns();)
#endif
#if C01_ON(C01_G_CONTAINERS2)
      C01_SEC("containers2", containers2();)
#endif
#if C01_ON(C01_G_ENV_ARGS)
      C01_SEC("env_args", env_args();)
#endif
#if C01_ON(C01_G_PARSE_STREAM)
      C01_SEC("parse_stream", parse_streams();)
#endif
  };
  return t;
}
#undef C01_SEC
}

int main(int argc, char **argv)
{
  if (argc >= 2 && std::strcmp(argv[1], "sections") == 0)
  {
    for (auto const &e : own_table()) std::printf("%s\n", e.name);
    for (auto const &s : c06::sections())
      if (s.find("_grid") == std::string::npos) std::printf("math:%s\n", s.c_str());
    return 0;
  }
  if (argc < 6 || std::strcmp(argv[1], "record") != 0)
  {
    std::fprintf(stderr, "usage: c01_total record OUT quick|thorough seed SECTION [scratch] | sections\n");
    return 3;
  }
  c06::config cfg;
  cfg.tier = std::strcmp(argv[3], "thorough") == 0 ? 1 : 0;
  cfg.seed = std::strtoull(argv[4], nullptr, 10);
  std::string const sec = argv[5];
  std::string const scratch = argc >= 7 ? argv[6] : "/tmp";
  std::setlocale(LC_ALL, "");
  vj::open(argv[2]);
  c06::install();
  bool done = false;
  if (sec.rfind("math:", 0) == 0)
    done = c06::run_section(sec.substr(5), cfg);
  else
    for (auto const &e : own_table())
      if (sec == e.name)
      {
        e.run(cfg, scratch);
        done = true;
      }
  if (!done)
  {
    std::fprintf(stderr, "unknown section %s\n", sec.c_str());
    return 3;
  }
  vj::close();
  return 0;
}
