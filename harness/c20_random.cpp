// C20 conformance harness: drives the fcppt random wrappers (variate, distribution::basic,
// parameters::uniform_int / uniform_real / normal, make_uniform_enum, make_uniform_indices,
// wrapper::uniform_container and the provided engines) and records what they did.
//
// The property's own reference is "the wrapped standard distribution on the wrapped engine with
// the same parameters"; its algorithm is not specified by spec/Random.tla.  The harness therefore
// ALSO runs the std:: distribution on an identical engine and logs both runs; TLC
// (spec/RandomJudge.tla) demands lock-step equality (values, raw values consumed, point of
// exhaustion), the bounds, the factory laws and the aggregate "both ends reached".  The harness
// itself compares nothing.
//
// Engine seam: `scripted` is a uniform random bit generator with min() = 0, max() = 15 that
// replays a script of raw values and throws when the script is exhausted.
//
//   c20_random record OUT seed quick|thorough
//   c20_random replay RECORDS.ndjson OUT
#include <common/vjson.hpp>

#include <fcppt/make_cref.hpp>
#include <fcppt/make_ref.hpp>
#include <fcppt/make_strong_typedef.hpp>
#include <fcppt/strong_typedef.hpp>
#include <fcppt/cast/enum_to_underlying.hpp>
#include <fcppt/optional/object.hpp>
#include <fcppt/random/make_variate.hpp>
#include <fcppt/random/variate.hpp>
#include <fcppt/random/distribution/basic.hpp>
#include <fcppt/random/distribution/make_basic.hpp>
#include <fcppt/random/distribution/parameters/make_uniform_enum.hpp>
#include <fcppt/random/distribution/parameters/make_uniform_indices.hpp>
#include <fcppt/random/distribution/parameters/normal.hpp>
#include <fcppt/random/distribution/parameters/uniform_int.hpp>
#include <fcppt/random/distribution/parameters/uniform_real.hpp>
#include <fcppt/random/generator/minstd_rand.hpp>
#include <fcppt/random/generator/mt19937.hpp>
#if !defined(C20_NO_OBSERVED)
#include <fcppt/random/generator/seed_from_chrono.hpp>
#endif
#include <fcppt/random/wrapper/make_uniform_container.hpp>
#include <fcppt/random/wrapper/make_uniform_container_advanced.hpp>
#include <fcppt/random/distribution/parameters/make_uniform_enum_advanced.hpp>
#include <fcppt/random/distribution/parameters/make_uniform_indices_advanced.hpp>
#include <fcppt/random/wrapper/uniform_container.hpp>
#include <fcppt/type_iso/enum.hpp>
#include <fcppt/type_iso/strong_typedef.hpp>

#include <bit>
#include <cstdint>
#include <cstdlib>
#include <deque>
#include <functional>
#include <limits>
#include <optional>
#include <random>
#include <sstream>
#include <string>
#include <type_traits>
#include <vector>

namespace
{
using ull = unsigned long long;

struct script_exhausted
{
};

// the engine seam: a URBG that replays a script
class scripted
{
public:
  using result_type = unsigned;
  explicit scripted(std::vector<int> const &_script) : script_(_script), cursor_(0) {}
  static constexpr result_type min() { return 0U; }
  static constexpr result_type max() { return 15U; }
  result_type operator()()
  {
    if (cursor_ >= script_.size()) throw script_exhausted{};
    return static_cast<result_type>(script_[cursor_++]);
  }
  [[nodiscard]] std::size_t cursor() const { return cursor_; }

private:
  std::vector<int> script_;
  std::size_t cursor_;
};

// ------------------------------------------------------------------------------ numbers
struct Num
{
  bool neg;
  ull mag;
};
template <typename T>
Num num_of(T const v)
{
  if constexpr (std::is_signed_v<T>)
  {
    if (v < 0) return Num{true, 0ULL - static_cast<ull>(static_cast<long long>(v))};
  }
  return Num{false, static_cast<ull>(v)};
}
template <typename T>
T int_of_num(Num const n)
{
  return static_cast<T>(n.neg ? 0ULL - n.mag : n.mag);
}
std::string num_json(Num const n)
{
  std::string s = "{\"s\":";
  s += (n.neg && n.mag != 0) ? "1" : "0";
  s += ",\"m\":[";
  bool started = false;
  bool first = true;
  for (int i = 7; i >= 0; --i)
  {
    unsigned const d = static_cast<unsigned>((n.mag >> (8U * static_cast<unsigned>(i))) & 0xFFU);
    if (d != 0) started = true;
    if (started)
    {
      if (!first) s += ',';
      first = false;
      s += std::to_string(d);
    }
  }
  return s + "]}";
}
Num num_of_json(vj::V const &v)
{
  if (v.k == vj::V::Num) return num_of(v.n);
  Num n{v.num("s") != 0, 0};
  for (long long d : v.nums("m")) n.mag = (n.mag << 8U) | static_cast<ull>(d);
  return n;
}
// small values are logged as plain integers, wide ones (records with "wide":true) as (sign, magnitude)
std::string val_json(Num const n, bool const wide)
{
  if (wide) return num_json(n);
  ull const cap = 2147483647ULL;
  ull const m = n.mag > cap ? cap : n.mag; // representation only: still outside every small interval
  return (n.neg && m != 0 ? "-" : "") + std::to_string(m);
}
std::string nums_json(std::vector<Num> const &v, bool const wide = true)
{
  std::string s = "[";
  for (std::size_t i = 0; i < v.size(); ++i) s += (i ? "," : "") + val_json(v[i], wide);
  return s + "]";
}
template <typename T>
bool is_wide(T const a, T const b)
{
  return static_cast<long long>(a) < -1000000000LL || static_cast<long long>(b) > 1000000000LL;
}
template <typename F>
std::string bits_json(F const v)
{
  using U = std::conditional_t<sizeof(F) == 4, std::uint32_t, std::uint64_t>;
  ull const u = static_cast<ull>(std::bit_cast<U>(v));
  std::string s = "[";
  for (std::size_t i = 0; i < sizeof(F); ++i)
    s += (i ? "," : "") + std::to_string((u >> (8U * (sizeof(F) - 1U - i))) & 0xFFU);
  return s + "]";
}

long long records = 0;
// restart support: the check restarts the harness behind a record in which the code under test crashed
// or hung (`record OUT seed tier SKIP`): the first SKIP records are not driven again
long long skip_records = 0;
unsigned record_alarm_s = 30; // watchdog per record (a record is at most a few hundred draws: microseconds)
void emit(vj::J const &pre, std::function<void(vj::J &)> const &call)
{
  if (records < skip_records)
  {
    ++records;
    return;
  }
  vj::begin_call(pre.s);
  vj::J rest('{');
  rest.s.clear();
  rest.first = false;
  ::alarm(record_alarm_s);
  call(rest);
  ::alarm(0);
  vj::end_call(rest.s + "}");
  ++records;
}

// a user-supplied distribution policy for the *_advanced factories (uniform_int_wrapper.hpp shows the shape)
struct own_int_policy
{
  template <typename Type>
  struct apply
  {
    using type = std::uniform_int_distribution<Type>;
  };
};

// ------------------------------------------------------------------------------ result kinds
FCPPT_MAKE_STRONG_TYPEDEF(short, strong_short);
FCPPT_MAKE_STRONG_TYPEDEF(int, strong_int);
FCPPT_MAKE_STRONG_TYPEDEF(long, strong_long);
FCPPT_MAKE_STRONG_TYPEDEF(float, strong_float);
FCPPT_MAKE_STRONG_TYPEDEF(double, strong_double);

// enums of size 1..9 (the enumerators are 0..size-1)
#define C20_ENUM(N, ...) \
  enum class E##N \
  { \
    __VA_ARGS__ \
  };
C20_ENUM(1, e0, fcppt_maximum = e0)
C20_ENUM(2, e0, e1, fcppt_maximum = e1)
C20_ENUM(3, e0, e1, e2, fcppt_maximum = e2)
C20_ENUM(4, e0, e1, e2, e3, fcppt_maximum = e3)
C20_ENUM(5, e0, e1, e2, e3, e4, fcppt_maximum = e4)
C20_ENUM(6, e0, e1, e2, e3, e4, e5, fcppt_maximum = e5)
C20_ENUM(7, e0, e1, e2, e3, e4, e5, e6, fcppt_maximum = e6)
C20_ENUM(8, e0, e1, e2, e3, e4, e5, e6, e7, fcppt_maximum = e7)
C20_ENUM(9, e0, e1, e2, e3, e4, e5, e6, e7, e8, fcppt_maximum = e8)
enum class E5s : short
{
  e0,
  e1,
  e2,
  e3,
  e4,
  fcppt_maximum = e4
};

template <typename R>
struct kind_of
{
  static char const *get() { return std::is_enum_v<R> ? "enum" : "plain"; }
  using base = R;
};
template <typename T, typename A>
struct kind_of<fcppt::strong_typedef<T, A>>
{
  static char const *get() { return "strong"; }
};

template <typename R>
using base_of = fcppt::random::distribution::base_type<R>;

template <typename R>
R decorate(base_of<R> const v)
{
  if constexpr (std::is_enum_v<R>) return static_cast<R>(v);
  else return R(v);
}
template <typename R>
base_of<R> base(R const &v)
{
  if constexpr (std::is_enum_v<R>) return static_cast<base_of<R>>(v);
  else if constexpr (std::is_arithmetic_v<R>) return v;
  else return v.get();
}

template <typename T>
char const *tname()
{
  if constexpr (std::is_same_v<T, short>) return "short";
  else if constexpr (std::is_same_v<T, int>) return "int";
  else if constexpr (std::is_same_v<T, long>) return "long";
  else if constexpr (std::is_same_v<T, unsigned long>) return "ulong";
  else if constexpr (std::is_same_v<T, float>) return "float";
  else if constexpr (std::is_same_v<T, double>) return "double";
  else return "?";
}

struct Run
{
  std::vector<Num> v;
  std::vector<int> c;
  bool ex = false;
};
void put_run(vj::J &r, char const *pv, char const *pc, char const *pe, Run const &run, bool const wide)
{
  r.raw(pv, nums_json(run.v, wide)).kv(pc, run.c).kv(pe, run.ex);
}

constexpr int max_draws = 4;

// aggregate over the exhaustive script set of one parameter set (min / max value drawn)
struct Agg
{
  bool any = false;
  long long lo = 0;
  long long hi = 0;
  long long n = 0;
  void add(long long const v)
  {
    if (!any || v < lo) lo = v;
    if (!any || v > hi) hi = v;
    any = true;
    ++n;
  }
};

// ------------------------------------------------------------------------------ uniform int draws
// R: result type of the fcppt distribution (plain / strong typedef / enum); interval [a,b] in base values
template <typename R>
void drive_draw(std::string const &rname, base_of<R> const a, base_of<R> const b, std::vector<int> const &script, bool const via_variate, Agg *agg, Agg *sagg)
{
  using B = base_of<R>;
  using params = fcppt::random::distribution::parameters::uniform_int<R>;
  using dist = fcppt::random::distribution::basic<params>;
  bool const wide = is_wide(a, b);
  vj::J pre;
  // every other non-variate run constructs the distribution through the factory make_basic
  bool const via_make_basic = !via_variate && script.size() % 2 == 1;
#if defined(C20_PARAM_API)
  // ... and every script whose raw values sum to a multiple of 3 draws from basic<P>(d.param()):
  // the parameters read back from a distribution over [a,b]; the std side does the same read-back
  long script_sum = 0;
  for (int x : script) script_sum += x;
  bool const via_readback = !script.empty() && script_sum % 3 == 0;
#else
  bool const via_readback = false;
#endif
  pre.kv("f", "draw").kv("wide", wide).kv("kind", kind_of<R>::get()).kv("R", rname);
  pre.kv("via", via_readback ? (via_variate ? "readback_variate" : "readback_basic") : via_variate ? "variate" : via_make_basic ? "make_basic" : "basic");
  pre.raw("a", val_json(num_of(a), wide)).raw("b", val_json(num_of(b), wide)).kv("script", script);
  emit(pre, [&](vj::J &r) {
    Run w;
    {
      scripted gen(script);
      params const pr(typename params::min(decorate<R>(a)), typename params::max(decorate<R>(b)));
      dist const d_first{via_make_basic ? fcppt::random::distribution::make_basic(pr) : dist{pr}};
#if defined(C20_PARAM_API)
      dist d{via_readback ? dist{d_first.param()} : d_first};
#else
      dist d{d_first};
#endif
      fcppt::random::variate<scripted, dist> var(fcppt::make_ref(gen), d);
      for (int i = 0; i < max_draws; ++i)
      {
        try
        {
          R const x = via_variate ? var() : d(gen);
          w.v.push_back(num_of(base(x)));
          if (agg != nullptr) agg->add(static_cast<long long>(base(x)));
        }
        catch (script_exhausted const &)
        {
          w.ex = true;
        }
        w.c.push_back(static_cast<int>(gen.cursor()));
        if (w.ex) break;
      }
    }
    Run s;
    {
      scripted gen(script);
      std::uniform_int_distribution<B> const d_first(a, b);
      std::uniform_int_distribution<B> d(via_readback ? std::uniform_int_distribution<B>(d_first.param()) : d_first);
      for (int i = 0; i < max_draws; ++i)
      {
        try
        {
          B const y = d(gen);
          s.v.push_back(num_of(y));
          if (sagg != nullptr) sagg->add(static_cast<long long>(y));
        }
        catch (script_exhausted const &)
        {
          s.ex = true;
        }
        s.c.push_back(static_cast<int>(gen.cursor()));
        if (s.ex) break;
      }
    }
    put_run(r, "wv", "wc", "wex", w, wide);
    put_run(r, "sv", "sc", "sex", s, wide);
  });
}

#if defined(C20_PARAM_API)
// basic::param() (parameters -> wrapped -> parameters) and basic::operator()(rng, parameters).
// On the unchanged tree these members do not compile when instantiated; checks/c20.py defines
// C20_PARAM_API only if a probe translation unit compiles.
template <typename R>
void drive_param(std::string const &rname, base_of<R> const a, base_of<R> const b, std::vector<int> const &script)
{
  using B = base_of<R>;
  using params = fcppt::random::distribution::parameters::uniform_int<R>;
  using dist = fcppt::random::distribution::basic<params>;
  bool const wide = is_wide(a, b);
  vj::J pre;
  pre.kv("f", "draw").kv("wide", wide).kv("kind", kind_of<R>::get()).kv("R", rname).kv("via", "basic_param");
  pre.raw("a", val_json(num_of(a), wide)).raw("b", val_json(num_of(b), wide)).kv("script", script);
  emit(pre, [&](vj::J &r) {
    params const p(typename params::min(decorate<R>(a)), typename params::max(decorate<R>(b)));
    // the distribution itself is constructed over another interval
    dist d{params(typename params::min(decorate<R>(B{0})), typename params::max(decorate<R>(B{0})))};
    Run w;
    {
      scripted gen(script);
      for (int i = 0; i < max_draws; ++i)
      {
        try
        {
          w.v.push_back(num_of(base(d(gen, p))));
        }
        catch (script_exhausted const &)
        {
          w.ex = true;
        }
        w.c.push_back(static_cast<int>(gen.cursor()));
        if (w.ex) break;
      }
    }
    Run s;
    {
      scripted gen(script);
      std::uniform_int_distribution<B> sd(B{0}, B{0});
      for (int i = 0; i < max_draws; ++i)
      {
        try
        {
          s.v.push_back(num_of(sd(gen, typename std::uniform_int_distribution<B>::param_type(a, b))));
        }
        catch (script_exhausted const &)
        {
          s.ex = true;
        }
        s.c.push_back(static_cast<int>(gen.cursor()));
        if (s.ex) break;
      }
    }
    put_run(r, "wv", "wc", "wex", w, wide);
    put_run(r, "sv", "sc", "sex", s, wide);
    // parameters read back from the distribution after setting them
    d.param(p);
    auto const back = d.param().convert_from();
    r.raw("pa", val_json(num_of(back.a()), wide)).raw("pb", val_json(num_of(back.b()), wide));
  });
}
#endif

template <typename R>
void drive_agg(std::string const &rname, base_of<R> const a, base_of<R> const b, Agg const &agg, Agg const &sagg, int const maxlen)
{
  using params = fcppt::random::distribution::parameters::uniform_int<R>;
  using dist = fcppt::random::distribution::basic<params>;
  vj::J pre;
  pre.kv("f", "agg").kv("wide", true).kv("kind", kind_of<R>::get()).kv("R", rname);
  pre.raw("a", num_json(num_of(a))).raw("b", num_json(num_of(b))).kv("scripts_upto", maxlen);
  emit(pre, [&](vj::J &r) {
    dist const d{params(typename params::min(decorate<R>(a)), typename params::max(decorate<R>(b)))};
    r.kv("n", agg.n).raw("lo", num_json(num_of(agg.lo))).raw("hi", num_json(num_of(agg.hi)));
    r.kv("sn", sagg.n).raw("slo", num_json(num_of(sagg.lo))).raw("shi", num_json(num_of(sagg.hi)));
    r.raw("dmin", num_json(num_of(base(d.min())))).raw("dmax", num_json(num_of(base(d.max()))));
  });
}

// all scripts of length 0..maxlen over 0..15; stride > 1: only every stride-th script of length 2
// (quick tier, result types other than int)
template <typename F>
void for_all_scripts(int const maxlen, F const &f, long const stride = 1, long const phase = 0)
{
  for (int len = 0; len <= maxlen; ++len)
  {
    long total = 1;
    for (int i = 0; i < len; ++i) total *= 16;
    for (long idx = 0; idx < total; ++idx)
    {
      if (len == 2 && stride > 1 && (idx + phase) % stride != 0) continue;
      std::vector<int> s;
      long q = idx;
      for (int i = 0; i < len; ++i)
      {
        s.push_back(static_cast<int>(q % 16));
        q /= 16;
      }
      f(s);
    }
  }
}

template <typename R>
void interval_family(std::string const &rname, base_of<R> const a, base_of<R> const b, int const maxlen, long const stride = 1)
{
  Agg agg;
  Agg sagg;
  long k = 0;
  for_all_scripts(
      maxlen, [&](std::vector<int> const &s) { drive_draw<R>(rname, a, b, s, (k++ % 2) == 0, &agg, &sagg); }, stride,
      static_cast<long>((static_cast<unsigned long>(a) * 7UL + static_cast<unsigned long>(b)) % 3UL));
#if defined(C20_PARAM_API)
  for_all_scripts(1, [&](std::vector<int> const &s) { drive_param<R>(rname, a, b, s); });
#endif
  drive_agg<R>(rname, a, b, agg, sagg, stride > 1 ? 1 : maxlen);
}

// ------------------------------------------------------------------------------ enums
template <typename E>
void enum_family(std::string const &ename, int const size, int const maxlen)
{
  using params = fcppt::random::distribution::parameters::uniform_int<E>;
  using dist = fcppt::random::distribution::basic<params>;
  using B = base_of<E>;
  {
    vj::J pre;
    pre.kv("f", "enum_params").kv("E", ename).kv("size", size);
    emit(pre, [&](vj::J &r) {
      params const p{fcppt::random::distribution::parameters::make_uniform_enum<E>()};
      auto const wp = p.convert_from();
      r.raw("a", num_json(num_of(wp.a()))).raw("b", num_json(num_of(wp.b())));
      // the same through the advanced factory with a user-supplied distribution policy
      auto const ap = fcppt::random::distribution::parameters::make_uniform_enum_advanced<own_int_policy, E>().convert_from();
      r.raw("aa", num_json(num_of(ap.a()))).raw("ab", num_json(num_of(ap.b())));
    });
  }
  Agg agg;
  Agg sagg;
  for_all_scripts(maxlen, [&](std::vector<int> const &script) {
    vj::J pre;
    pre.kv("f", "draw").kv("wide", false).kv("kind", "enum").kv("R", ename).kv("via", "make_uniform_enum");
    pre.kv("a", 0).kv("b", size - 1).kv("script", script);
    emit(pre, [&](vj::J &r) {
      Run w;
      {
        scripted gen(script);
        dist d{fcppt::random::distribution::parameters::make_uniform_enum<E>()};
        fcppt::random::variate<scripted, dist> var(fcppt::make_ref(gen), d);
        for (int i = 0; i < max_draws; ++i)
        {
          try
          {
            E const x = var();
            w.v.push_back(num_of(fcppt::cast::enum_to_underlying(x)));
            agg.add(static_cast<long long>(fcppt::cast::enum_to_underlying(x)));
          }
          catch (script_exhausted const &)
          {
            w.ex = true;
          }
          w.c.push_back(static_cast<int>(gen.cursor()));
          if (w.ex) break;
        }
      }
      Run s;
      {
        scripted gen(script);
        std::uniform_int_distribution<B> d(0, static_cast<B>(size - 1));
        for (int i = 0; i < max_draws; ++i)
        {
          try
          {
            B const y = d(gen);
            s.v.push_back(num_of(y));
            sagg.add(static_cast<long long>(y));
          }
          catch (script_exhausted const &)
          {
            s.ex = true;
          }
          s.c.push_back(static_cast<int>(gen.cursor()));
          if (s.ex) break;
        }
      }
      put_run(r, "wv", "wc", "wex", w, false);
      put_run(r, "sv", "sc", "sex", s, false);
    });
  });
  vj::J pre;
  pre.kv("f", "agg").kv("wide", true).kv("kind", "enum").kv("R", ename);
  pre.raw("a", num_json(Num{false, 0})).raw("b", num_json(num_of(size - 1))).kv("scripts_upto", maxlen);
  emit(pre, [&](vj::J &r) {
    dist const d{fcppt::random::distribution::parameters::make_uniform_enum<E>()};
    r.kv("n", agg.n).raw("lo", num_json(num_of(agg.lo))).raw("hi", num_json(num_of(agg.hi)));
    r.kv("sn", sagg.n).raw("slo", num_json(num_of(sagg.lo))).raw("shi", num_json(num_of(sagg.hi)));
    r.raw("dmin", num_json(num_of(fcppt::cast::enum_to_underlying(d.min()))));
    r.raw("dmax", num_json(num_of(fcppt::cast::enum_to_underlying(d.max()))));
  });
}

// ------------------------------------------------------------------------------ containers
// elements 100+i, so that an element identifies its position
// Advanced: the *_advanced factories with own_int_policy instead of the default ones.
// Writes: the container is not const; 900+k is assigned through the k-th returned reference
// (uniform_container_decl.hpp: result_type = fcppt::container::to_reference_type<Container>) and
// the container is logged afterwards ("after").
template <typename C, bool Advanced = false, bool Writes = false>
void drive_container(std::string const &cname, int const size, std::vector<int> const &script)
{
  C cont;
  for (int i = 0; i < size; ++i) cont.push_back(100 + i);
  std::vector<int> elems(cont.begin(), cont.end());
  vj::J pre;
  pre.kv("f", "container").kv("C", cname).kv("elems", elems).kv("script", script);
  emit(pre, [&](vj::J &r) {
    {
      // the index factory on its own
      auto const ip = [&] {
        if constexpr (Advanced) return fcppt::random::distribution::parameters::make_uniform_indices_advanced<own_int_policy>(cont);
        else return fcppt::random::distribution::parameters::make_uniform_indices(cont);
      }();
      r.kv("isome", ip.has_value());
      if (ip.has_value())
      {
        auto const wp = ip.get_unsafe().convert_from();
        r.raw("ia", val_json(num_of(wp.a()), false)).raw("ib", val_json(num_of(wp.b()), false));
      }
    }
    auto dist = [&] {
      if constexpr (Writes) return fcppt::random::wrapper::make_uniform_container(fcppt::make_ref(cont));
      else if constexpr (Advanced) return fcppt::random::wrapper::make_uniform_container_advanced<own_int_policy>(fcppt::make_cref(cont));
      else return fcppt::random::wrapper::make_uniform_container(fcppt::make_cref(cont));
    }();
    r.kv("some", dist.has_value());
    Run w;
    std::vector<int> widx;
    if (dist.has_value())
    {
      scripted gen(script);
      for (int i = 0; i < max_draws; ++i)
      {
        try
        {
          auto &x = dist.get_unsafe()(gen);
          w.v.push_back(num_of(x));
          if constexpr (Writes) x = 900 + i;
          // which element was returned (by identity, not by value)
          long pos = -1;
          long k = 0;
          for (int const &e : cont)
          {
            if (&e == &x) pos = k;
            ++k;
          }
          widx.push_back(static_cast<int>(pos));
        }
        catch (script_exhausted const &)
        {
          w.ex = true;
        }
        w.c.push_back(static_cast<int>(gen.cursor()));
        if (w.ex) break;
      }
    }
    Run s;
    if (size > 0)
    {
      scripted gen(script);
      std::uniform_int_distribution<typename C::size_type> d(0, static_cast<typename C::size_type>(size - 1));
      for (int i = 0; i < max_draws; ++i)
      {
        try
        {
          s.v.push_back(num_of(d(gen)));
        }
        catch (script_exhausted const &)
        {
          s.ex = true;
        }
        s.c.push_back(static_cast<int>(gen.cursor()));
        if (s.ex) break;
      }
    }
    put_run(r, "wv", "wc", "wex", w, false);
    r.kv("widx", widx);
    if constexpr (Writes) r.kv("after", std::vector<int>(cont.begin(), cont.end()));
    put_run(r, "sv", "sc", "sex", s, false);
  });
}

// ------------------------------------------------------------------------------ provided engines
template <typename FE, typename SE>
void drive_raw(std::string const &ename, ull const seed, int const n)
{
  vj::J pre;
  pre.kv("f", "raw").kv("eng", ename).raw("seed", num_json(Num{false, seed})).kv("n", n);
  emit(pre, [&](vj::J &r) {
    FE fe{typename FE::seed(static_cast<typename FE::result_type>(seed))};
    SE se(static_cast<typename SE::result_type>(seed));
    std::vector<Num> w;
    std::vector<Num> s;
    for (int i = 0; i < n; ++i)
    {
      w.push_back(num_of(fe()));
      s.push_back(num_of(se()));
    }
    r.raw("wv", nums_json(w)).raw("sv", nums_json(s));
    r.raw("wmin", num_json(num_of(FE::min()))).raw("wmax", num_json(num_of(FE::max())));
    r.raw("smin", num_json(num_of(SE::min()))).raw("smax", num_json(num_of(SE::max())));
  });
}

// basic_pseudo(SeedSeq &): "Constructs the generator using a seed sequence"
template <typename FE, typename SE>
void drive_raw_seq(std::string const &ename, std::vector<unsigned> const &seq, int const n)
{
  vj::J pre;
  pre.kv("f", "raw").kv("eng", ename + "_seed_seq").kv("seq", seq).kv("n", n);
  emit(pre, [&](vj::J &r) {
    std::seed_seq q1(seq.begin(), seq.end());
    std::seed_seq q2(seq.begin(), seq.end());
    FE fe(q1);
    SE se(q2);
    std::vector<Num> w;
    std::vector<Num> s;
    for (int i = 0; i < n; ++i)
    {
      w.push_back(num_of(fe()));
      s.push_back(num_of(se()));
    }
    r.raw("wv", nums_json(w)).raw("sv", nums_json(s));
    r.raw("wmin", num_json(num_of(FE::min()))).raw("wmax", num_json(num_of(FE::max())));
    r.raw("smin", num_json(num_of(SE::min()))).raw("smax", num_json(num_of(SE::max())));
  });
}

// seed_from_chrono<Seed>(): "Creates a seed of type Seed from a chrono clock" - only that a
// generator can be constructed from it and yields values within [min(), max()] is observable
template <typename FE>
void drive_chrono(std::string const &ename)
{
#if defined(C20_NO_OBSERVED)
  (void)ename; // observed-only part (seed_from_chrono is outside the statement) left out of this build
#else
  vj::J pre;
  pre.kv("f", "chrono").kv("eng", ename);
  emit(pre, [&](vj::J &r) {
    FE fe(fcppt::random::generator::seed_from_chrono<typename FE::seed>());
    std::vector<Num> w;
    for (int i = 0; i < 4; ++i) w.push_back(num_of(fe()));
    r.raw("wv", nums_json(w)).raw("wmin", num_json(num_of(FE::min()))).raw("wmax", num_json(num_of(FE::max())));
  });
#endif
}

template <typename R, typename FE, typename SE>
void drive_engine_int(std::string const &ename, std::string const &rname, ull const seed, base_of<R> const a, base_of<R> const b, int const n)
{
  using B = base_of<R>;
  using params = fcppt::random::distribution::parameters::uniform_int<R>;
  using dist = fcppt::random::distribution::basic<params>;
  vj::J pre;
  pre.kv("f", "engine").kv("eng", ename).raw("seed", num_json(Num{false, seed})).kv("kind", kind_of<R>::get()).kv("R", rname);
  pre.kv("T", tname<B>()).raw("a", num_json(num_of(a))).raw("b", num_json(num_of(b))).kv("n", n);
  emit(pre, [&](vj::J &r) {
    FE fe{typename FE::seed(static_cast<typename FE::result_type>(seed))};
    SE se(static_cast<typename SE::result_type>(seed));
    fcppt::random::variate<FE, dist> var(
        fcppt::make_ref(fe), dist{params(typename params::min(decorate<R>(a)), typename params::max(decorate<R>(b)))});
    std::uniform_int_distribution<B> sd(a, b);
    std::vector<Num> w;
    std::vector<Num> s;
    for (int i = 0; i < n; ++i)
    {
      w.push_back(num_of(base(var())));
      s.push_back(num_of(sd(se)));
    }
    // the engines must be in the same state afterwards: one more raw value of each
    r.raw("wv", nums_json(w)).raw("sv", nums_json(s));
    r.raw("wnext", num_json(num_of(fe()))).raw("snext", num_json(num_of(se())));
  });
}

// real-valued distributions: transparency only (bit patterns)
template <typename R, typename FE, typename SE>
void drive_engine_real(std::string const &ename, std::string const &rname, std::string const &dname, ull const seed, base_of<R> const p1, base_of<R> const p2, int const n)
{
  using B = base_of<R>;
  vj::J pre;
  pre.kv("f", "real").kv("dist", dname).kv("eng", ename).raw("seed", num_json(Num{false, seed})).kv("kind", kind_of<R>::get());
  pre.kv("R", rname).kv("T", tname<B>()).raw("p1", bits_json(p1)).raw("p2", bits_json(p2)).kv("n", n);
  emit(pre, [&](vj::J &r) {
    FE fe{typename FE::seed(static_cast<typename FE::result_type>(seed))};
    SE se(static_cast<typename SE::result_type>(seed));
    std::string w = "[";
    std::string s = "[";
    if (dname == "uniform_real")
    {
      using params = fcppt::random::distribution::parameters::uniform_real<R>;
      using dist = fcppt::random::distribution::basic<params>;
      fcppt::random::variate<FE, dist> var(
          fcppt::make_ref(fe), dist{params(typename params::min(decorate<R>(p1)), typename params::sup(decorate<R>(p2)))});
      std::uniform_real_distribution<B> sd(p1, p2);
      for (int i = 0; i < n; ++i)
      {
        w += (i ? "," : "") + bits_json(base(var()));
        s += (i ? "," : "") + bits_json(sd(se));
      }
    }
    else
    {
      using params = fcppt::random::distribution::parameters::normal<R>;
      using dist = fcppt::random::distribution::basic<params>;
      fcppt::random::variate<FE, dist> var(
          fcppt::make_ref(fe), dist{params(typename params::mean(decorate<R>(p1)), typename params::stddev(decorate<R>(p2)))});
      std::normal_distribution<B> sd(p1, p2);
      for (int i = 0; i < n; ++i)
      {
        w += (i ? "," : "") + bits_json(base(var()));
        s += (i ? "," : "") + bits_json(sd(se));
      }
    }
    r.raw("wv", w + "]").raw("sv", s + "]");
    r.raw("wnext", num_json(num_of(fe()))).raw("snext", num_json(num_of(se())));
  });
}


#if defined(C20_PARAM_API)
// ------------------------------------------------------------------------------ sessions
// A session drives ONE distribution::basic object through a sequence of its public members
// (draw, reset, param(), param(p), operator()(rng, p), min/max, ==/!=, <<) and the equivalent std
// distribution through the same sequence, each on its own (identically seeded / scripted) engine.
// Engines are wrapped so that the number of raw values produced so far is observable.
template <typename E>
class counting
{
public:
  using result_type = typename E::result_type;
  explicit counting(E &_e) : e_(_e), n_(0) {}
  static constexpr result_type min() { return E::min(); }
  static constexpr result_type max() { return E::max(); }
  result_type operator()()
  {
    result_type const r = e_();
    ++n_;
    return r;
  }
  [[nodiscard]] long count() const { return n_; }

private:
  E &e_;
  long n_;
};

template <typename R>
struct fam_int
{
  using B = base_of<R>;
  using params = fcppt::random::distribution::parameters::uniform_int<R>;
  using sdist = std::uniform_int_distribution<B>;
  static char const *name() { return "uniform_int"; }
  static constexpr bool bounded = true;
  static params make(B const a, B const b) { return params(typename params::min(decorate<R>(a)), typename params::max(decorate<R>(b))); }
  static typename sdist::param_type smake(B const a, B const b) { return typename sdist::param_type(a, b); }
  static std::string val(B const v) { return std::to_string(static_cast<long long>(v)); }
  static std::string par(typename sdist::param_type const &p) { return "[" + val(p.a()) + "," + val(p.b()) + "]"; }
};
template <typename R>
struct fam_real
{
  using B = base_of<R>;
  using params = fcppt::random::distribution::parameters::uniform_real<R>;
  using sdist = std::uniform_real_distribution<B>;
  static char const *name() { return "uniform_real"; }
  static constexpr bool bounded = false;
  static params make(B const a, B const b) { return params(typename params::min(decorate<R>(a)), typename params::sup(decorate<R>(b))); }
  static typename sdist::param_type smake(B const a, B const b) { return typename sdist::param_type(a, b); }
  static std::string val(B const v) { return bits_json(v); }
  static std::string par(typename sdist::param_type const &p) { return "[" + val(p.a()) + "," + val(p.b()) + "]"; }
};
template <typename R>
struct fam_normal
{
  using B = base_of<R>;
  using params = fcppt::random::distribution::parameters::normal<R>;
  using sdist = std::normal_distribution<B>;
  static char const *name() { return "normal"; }
  static constexpr bool bounded = false;
  static params make(B const a, B const b) { return params(typename params::mean(decorate<R>(a)), typename params::stddev(decorate<R>(b))); }
  static typename sdist::param_type smake(B const a, B const b) { return typename sdist::param_type(a, b); }
  static std::string val(B const v) { return bits_json(v); }
  static std::string par(typename sdist::param_type const &p) { return "[" + val(p.mean()) + "," + val(p.stddev()) + "]"; }
};

enum op_code
{
  op_draw,
  op_reset,
  op_param_get,
  op_param_set,
  op_draw_param,
  op_minmax,
  op_eq,
  op_out,
  op_draw_other, // draw directly from the distribution object with a second engine
  op_wrap_ctor,  // hand the distribution object (with whatever hidden state it has) to variate(generator, distribution)
  op_wrap_make,  // ... to make_variate
  op_vdraw,      // draw through that variate
  op_vcopy,      // continue with a copy of the variate
  op_vmove,      // continue with a moved variate
  op_copy,       // copy-construct the distribution, copy-assign it over another one and back
  op_inout,      // write the distribution with <<, read it into another one with >> and continue with that one
  // parameters READ BACK from the distribution (param()) and fed into a distribution again
  op_rb_ctor,    // continue with basic<P>(d.param())
  op_rb_param,   // continue with another distribution after e.param(d.param())
  op_rb_draw,    // draw from another distribution with e(rng, d.param())
  op_rb_wrap,    // variate(gen, basic<P>(d.param())); followed by vdraw
  op_count
};
char const *const op_names[] = {"draw",       "reset",     "param_get", "param_set", "draw_param", "minmax", "eq",   "out",
                                "draw_other", "wrap_ctor", "wrap_make", "vdraw",     "vcopy",      "vmove",  "copy", "inout",
                                "rb_ctor",    "rb_param",  "rb_draw",   "rb_wrap"};

constexpr int fresh_draws = 4;

// FE / SE: engine of the fcppt side / of the std side, constructed from farg / sarg.  SE must be copyable.
// (p1,p2): initial parameters, (q1,q2): the other parameter set used by param_set / draw_param.
template <typename Fam, typename R, typename FE, typename SE, typename FArg, typename SArg>
void drive_session(
    std::string const &rname,
    std::string const &ename,
    std::string const &engine_json,
    FArg const &farg,
    SArg const &sarg,
    FArg const &farg2,
    SArg const &sarg2,
    typename Fam::B const p1,
    typename Fam::B const p2,
    typename Fam::B const q1,
    typename Fam::B const q2,
    std::vector<int> const &ops,
    bool const via_variate)
{
  using B = typename Fam::B;
  using params = typename Fam::params;
  using dist = fcppt::random::distribution::basic<params>;
  using sdist = typename Fam::sdist;
  vj::J pre;
  pre.kv("f", "session").kv("dist", Fam::name()).kv("kind", kind_of<R>::get()).kv("R", rname).kv("eng", ename);
  pre.s += "," + engine_json;
  pre.raw("p", "[" + Fam::val(p1) + "," + Fam::val(p2) + "]").raw("q", "[" + Fam::val(q1) + "," + Fam::val(q2) + "]");
  pre.kv("opcodes", ops).kv("vp", via_variate);
  emit(pre, [&](vj::J &r) {
    FE fe{farg};
    SE se(sarg);
    counting<FE> cf(fe);
    counting<SE> cs(se);
    FE fe2{farg2};
    SE se2(sarg2);
    counting<FE> cf2(fe2);
    counting<SE> cs2(se2);
    using var_type = fcppt::random::variate<counting<FE>, dist>;
    std::optional<var_type> wrapped;  // variate made from the distribution OBJECT d
    std::optional<sdist> swrapped;    // its reference: a copy of the std distribution object
    dist d{Fam::make(p1, p2)};
    sdist sd(Fam::smake(p1, p2));
    dist const d0{Fam::make(p1, p2)};
    sdist const sd0(Fam::smake(p1, p2));
    // the (generator, parameters) constructor of variate; the variate owns its distribution
    fcppt::random::variate<counting<FE>, dist> var(fcppt::make_ref(cf), Fam::make(p1, p2));
    B c1 = p1;
    B c2 = p2;
    std::string steps = "[";
    bool first = true;
    for (int const op : ops)
    {
      std::string w = "[]";
      std::string s = "[]";
      std::string extra;
      bool stop = false;
      switch (op)
      {
      case op_draw:
      case op_draw_param:
      {
        B const l1 = op == op_draw ? c1 : q1;
        B const l2 = op == op_draw ? c2 : q2;
        try
        {
          R const x = op == op_draw ? (via_variate ? var() : d(cf)) : d(cf, Fam::make(q1, q2));
          w = "[" + Fam::val(base(x)) + "]";
        }
        catch (script_exhausted const &)
        {
          stop = true;
        }
        try
        {
          B const y = op == op_draw ? sd(cs) : sd(cs, Fam::smake(q1, q2));
          s = "[" + Fam::val(y) + "]";
        }
        catch (script_exhausted const &)
        {
          stop = true;
        }
        if constexpr (Fam::bounded) extra = ",\"lo\":" + Fam::val(l1) + ",\"hi\":" + Fam::val(l2);
        break;
      }
      case op_draw_other:
      {
        try
        {
          R const x = d(cf2);
          w = "[[" + Fam::val(base(x)) + "," + std::to_string(cf2.count()) + "]]";
        }
        catch (script_exhausted const &)
        {
          stop = true;
        }
        try
        {
          B const y = sd(cs2);
          s = "[[" + Fam::val(y) + "," + std::to_string(cs2.count()) + "]]";
        }
        catch (script_exhausted const &)
        {
          stop = true;
        }
        break;
      }
      case op_wrap_ctor:
        wrapped.emplace(fcppt::make_ref(cf), d);
        swrapped.emplace(sd);
        break;
      case op_wrap_make:
        wrapped.emplace(fcppt::random::make_variate(fcppt::make_ref(cf), d));
        swrapped.emplace(sd);
        break;
      case op_vdraw:
      {
        if (!wrapped.has_value())
        {
          wrapped.emplace(fcppt::make_ref(cf), d);
          swrapped.emplace(sd);
        }
        try
        {
          R const x = (*wrapped)();
          w = "[" + Fam::val(base(x)) + "]";
        }
        catch (script_exhausted const &)
        {
          stop = true;
        }
        try
        {
          B const y = (*swrapped)(cs);
          s = "[" + Fam::val(y) + "]";
        }
        catch (script_exhausted const &)
        {
          stop = true;
        }
        if constexpr (Fam::bounded) extra = ",\"lo\":" + Fam::val(c1) + ",\"hi\":" + Fam::val(c2);
        break;
      }
      case op_vcopy:
        if (wrapped.has_value())
        {
          var_type const c(*wrapped);
          wrapped.emplace(c);
          sdist const sc(*swrapped);
          swrapped.emplace(sc);
        }
        break;
      case op_vmove:
        if (wrapped.has_value())
        {
          var_type c(std::move(*wrapped));
          wrapped.emplace(std::move(c));
          sdist sc(std::move(*swrapped));
          swrapped.emplace(std::move(sc));
        }
        break;
      case op_copy:
      {
        dist const c(d);
        dist a{Fam::make(q1, q2)};
        a = c;
        d = a;
        sdist const sc(sd);
        sdist sa(Fam::smake(q1, q2));
        sa = sc;
        sd = sa;
        break;
      }
      case op_rb_ctor:
      {
        dist const e{d.param()};
        d = e;
        sdist const se2(sd.param());
        sd = se2;
        break;
      }
      case op_rb_param:
      {
        dist e{Fam::make(q1, q2)};
        e.param(d.param());
        d = e;
        sdist se2(Fam::smake(q1, q2));
        se2.param(sd.param());
        sd = se2;
        break;
      }
      case op_rb_draw:
      {
        try
        {
          dist e{Fam::make(q1, q2)};
          R const x = e(cf, d.param());
          w = "[" + Fam::val(base(x)) + "]";
        }
        catch (script_exhausted const &)
        {
          stop = true;
        }
        try
        {
          sdist se2(Fam::smake(q1, q2));
          B const y = se2(cs, sd.param());
          s = "[" + Fam::val(y) + "]";
        }
        catch (script_exhausted const &)
        {
          stop = true;
        }
        if constexpr (Fam::bounded) extra = ",\"lo\":" + Fam::val(c1) + ",\"hi\":" + Fam::val(c2);
        break;
      }
      case op_rb_wrap:
        wrapped.emplace(fcppt::make_ref(cf), dist{d.param()});
        swrapped.emplace(sdist(sd.param()));
        break;
      case op_inout:
      {
#if defined(C20_ISTREAM_API)
        // basic_decl.hpp: "Outputs the underlying distribution of dist to stream" / "Inputs into the
        // underlying distribution of dist from stream"
        std::ostringstream ow;
        ow << d;
        std::istringstream iw(ow.str());
        dist a{Fam::make(q1, q2)};
        bool const okw = static_cast<bool>(iw >> a);
        d = a;
        std::ostringstream os;
        os << sd;
        std::istringstream is(os.str());
        sdist sa(Fam::smake(q1, q2));
        bool const oks = static_cast<bool>(is >> sa);
        sd = sa;
        w = std::string("[") + (okw ? "1" : "0") + "]";
        s = std::string("[") + (oks ? "1" : "0") + "]";
#endif
        break;
      }
      case op_reset:
      {
        d.reset();
        sd.reset();
        // a fresh std distribution with the parameters in effect, on a copy of the std engine
        SE copy(se);
        counting<SE> cc(copy);
        sdist fd(Fam::smake(c1, c2));
        std::string fv = "[";
        std::vector<int> fn;
        for (int i = 0; i < fresh_draws; ++i)
        {
          try
          {
            B const y = fd(cc);
            fv += (i ? "," : "") + Fam::val(y);
            fn.push_back(static_cast<int>(cc.count()));
          }
          catch (script_exhausted const &)
          {
            break;
          }
        }
        extra = ",\"fresh\":" + fv + "],\"freshn\":" + vj::arr(fn);
        break;
      }
      case op_param_get:
        w = "[" + Fam::par(d.param().convert_from()) + "]";
        s = "[" + Fam::par(sd.param()) + "]";
        break;
      case op_param_set:
        d.param(Fam::make(q1, q2));
        sd.param(Fam::smake(q1, q2));
        c1 = q1;
        c2 = q2;
        break;
      case op_minmax:
        w = "[[" + Fam::val(base(d.min())) + "," + Fam::val(base(d.max())) + "]]";
        s = "[[" + Fam::val(sd.min()) + "," + Fam::val(sd.max()) + "]]";
        break;
      case op_eq:
        w = std::string("[[") + (d == d0 ? "1" : "0") + "," + (d != d0 ? "1" : "0") + "]]";
        s = std::string("[[") + (sd == sd0 ? "1" : "0") + "," + (sd != sd0 ? "1" : "0") + "]]";
        break;
      case op_out:
      {
        std::ostringstream ow;
        ow << d;
        std::ostringstream os;
        os << sd;
        w = "[" + vj::cps(ow.str()) + "]";
        s = "[" + vj::cps(os.str()) + "]";
        break;
      }
      default: break;
      }
      steps += std::string(first ? "" : ",") + "{\"op\":\"" + op_names[op] + "\",\"w\":" + w + ",\"s\":" + s + ",\"wn\":" + std::to_string(cf.count()) +
               ",\"sn\":" + std::to_string(cs.count()) + extra + "}";
      first = false;
      if (stop) break;
    }
    r.raw("ops", steps + "]");
  });
}
#endif

using f_minstd = fcppt::random::generator::minstd_rand;
using f_mt = fcppt::random::generator::mt19937;

template <typename R>
void engine_int_both(std::string const &rname, ull const seed, base_of<R> const a, base_of<R> const b, int const n)
{
  drive_engine_int<R, f_minstd, std::minstd_rand>("minstd_rand", rname, seed == 0 ? 1 : seed, a, b, n);
  drive_engine_int<R, f_mt, std::mt19937>("mt19937", rname, seed, a, b, n);
}


#if defined(C20_PARAM_API)
template <typename Fam, typename R>
void session_engines(
    std::string const &rname,
    std::string const &eng,
    ull const seed,
    std::vector<int> const &script,
    typename Fam::B const p1,
    typename Fam::B const p2,
    typename Fam::B const q1,
    typename Fam::B const q2,
    std::vector<int> const &ops,
    bool const vp)
{
  if (eng == "script")
    drive_session<Fam, R, scripted, scripted>(rname, eng, "\"script\":" + vj::arr(script), script, script, script, script, p1, p2, q1, q2, ops, vp);
  else if (eng == "minstd_rand")
    drive_session<Fam, R, f_minstd, std::minstd_rand>(
        rname, eng, "\"seed\":" + num_json(Num{false, seed}), f_minstd::seed(static_cast<f_minstd::result_type>(seed)),
        static_cast<std::minstd_rand::result_type>(seed), f_minstd::seed(static_cast<f_minstd::result_type>(seed + 12345ULL)),
        static_cast<std::minstd_rand::result_type>(seed + 12345ULL), p1, p2, q1, q2, ops, vp);
  else
    drive_session<Fam, R, f_mt, std::mt19937>(
        rname, eng, "\"seed\":" + num_json(Num{false, seed}), f_mt::seed(static_cast<f_mt::result_type>(seed)),
        static_cast<std::mt19937::result_type>(seed), f_mt::seed(static_cast<f_mt::result_type>(seed + 12345ULL)),
        static_cast<std::mt19937::result_type>(seed + 12345ULL), p1, p2, q1, q2, ops, vp);
}

// parameters are passed as doubles (all driven values are exactly representable in every base type)
bool session_named(
    std::string const &dname,
    std::string const &rname,
    std::string const &eng,
    ull const seed,
    std::vector<int> const &script,
    double const p1,
    double const p2,
    double const q1,
    double const q2,
    std::vector<int> const &ops,
    bool const vp)
{
#define C20_S(D, FAM, N, T) \
  if (dname == D && rname == N) \
  { \
    using B = base_of<T>; \
    session_engines<FAM<T>, T>(rname, eng, seed, script, static_cast<B>(p1), static_cast<B>(p2), static_cast<B>(q1), static_cast<B>(q2), ops, vp); \
    return true; \
  }
  C20_S("uniform_int", fam_int, "int", int)
  C20_S("uniform_int", fam_int, "strong_short", strong_short)
  C20_S("uniform_int", fam_int, "E9", E9)
  C20_S("uniform_real", fam_real, "double", double)
  C20_S("uniform_real", fam_real, "float", float)
  C20_S("uniform_real", fam_real, "strong_double", strong_double)
  C20_S("normal", fam_normal, "double", double)
  C20_S("normal", fam_normal, "float", float)
  C20_S("normal", fam_normal, "strong_float", strong_float)
#undef C20_S
  return false;
}

// operation sequences
std::vector<std::vector<int>> session_patterns(vj::Rng &r, int const nrandom)
{
  std::vector<std::vector<int>> ps;
  for (int k = 0; k <= 4; ++k)
  {
    std::vector<int> a(static_cast<std::size_t>(k), op_draw); // k draws, reset, further draws
    a.push_back(op_reset);
    for (int i = 0; i < fresh_draws; ++i) a.push_back(op_draw);
    ps.push_back(a);
    std::vector<int> c(static_cast<std::size_t>(k), op_draw); // k draws, new parameters, further draws
    c.push_back(op_param_set);
    c.push_back(op_param_get);
    for (int i = 0; i < 3; ++i) c.push_back(op_draw);
    ps.push_back(c);
    std::vector<int> dd(static_cast<std::size_t>(k), op_draw); // k draws, draws with explicit parameters, draws, reset
    dd.push_back(op_draw_param);
    dd.push_back(op_draw_param);
    dd.push_back(op_draw);
    dd.push_back(op_draw);
    dd.push_back(op_reset);
    dd.push_back(op_draw);
    dd.push_back(op_draw);
    ps.push_back(dd);
  }
  // parameters read back with param() and fed into a distribution again, then drawn from
  for (int k = 0; k <= 1; ++k)
  {
    std::vector<int> pre(static_cast<std::size_t>(k), op_draw);
    std::vector<int> a = pre;
    a.push_back(op_rb_ctor);
    for (int i = 0; i < 6; ++i) a.push_back(op_draw);
    ps.push_back(a);
    std::vector<int> b = pre;
    b.push_back(op_rb_param);
    for (int i = 0; i < 6; ++i) b.push_back(op_draw);
    ps.push_back(b);
    std::vector<int> c = pre;
    for (int i = 0; i < 6; ++i) c.push_back(op_rb_draw);
    ps.push_back(c);
    std::vector<int> dd = pre;
    dd.push_back(op_rb_wrap);
    for (int i = 0; i < 6; ++i) dd.push_back(op_vdraw);
    ps.push_back(dd);
  }
  // a distribution object that has been drawn from k times (same engine / another engine / both)
  // is handed to a variate, or copied; the variate is copied and moved
  for (int k = 0; k <= 3; ++k)
    for (int how = 0; how < 3; ++how)
    {
      std::vector<int> pre;
      for (int i = 0; i < k; ++i) pre.push_back(how == 0 ? op_draw : how == 1 ? op_draw_other : (i % 2 == 0 ? op_draw_other : op_draw));
      std::vector<int> a = pre;
      a.push_back((k + how) % 2 == 0 ? op_wrap_ctor : op_wrap_make);
      for (int i = 0; i < 5; ++i) a.push_back(op_vdraw);
      ps.push_back(a);
      if (how == 0)
      {
        std::vector<int> b = pre;
        b.push_back(op_copy);
        for (int i = 0; i < 4; ++i) b.push_back(op_draw);
        ps.push_back(b);
        std::vector<int> c = pre;
        c.push_back(op_wrap_make);
        c.push_back(op_vdraw);
        c.push_back(op_vcopy);
        c.push_back(op_vdraw);
        c.push_back(op_vdraw);
        c.push_back(op_vmove);
        c.push_back(op_vdraw);
        c.push_back(op_vdraw);
        // the distribution object itself was not touched by the variate
        c.push_back(op_draw);
        c.push_back(op_out);
        ps.push_back(c);
      }
    }
  ps.push_back({op_minmax, op_param_get, op_eq, op_out, op_draw, op_eq, op_out, op_draw_param, op_draw, op_eq, op_out, op_param_set, op_param_get,
                op_minmax, op_draw, op_out, op_reset, op_eq, op_out, op_draw, op_draw, op_eq, op_out, op_draw});
  ps.push_back({op_reset, op_reset, op_draw, op_reset, op_draw, op_draw, op_draw, op_reset, op_draw, op_draw});
#if defined(C20_ISTREAM_API)
  // k draws, the distribution written and read back (hidden state included), further draws
  for (int k = 0; k <= 3; ++k)
  {
    std::vector<int> a(static_cast<std::size_t>(k), op_draw);
    a.push_back(op_inout);
    a.push_back(op_param_get);
    for (int i = 0; i < 4; ++i) a.push_back(op_draw);
    a.push_back(op_eq);
    ps.push_back(a);
  }
#endif
  for (int j = 0; j < nrandom; ++j)
  {
    std::vector<int> a;
    int const len = 6 + static_cast<int>(r.below(10));
    for (int i = 0; i < len; ++i)
    {
      std::uint64_t const x = r.below(16);
      std::uint64_t const y = r.below(12);
      a.push_back(x < 6 ? op_draw : x < 9 ? op_reset : x < 11 ? static_cast<int>(op_draw_other + y % 7) : static_cast<int>(op_param_get + y % 6));
    }
    ps.push_back(a);
  }
  return ps;
}

void sessions(vj::Rng &rng, bool const thorough)
{
  struct Spec
  {
    char const *dname;
    char const *rname;
    double p1, p2, q1, q2;
    int script_len; // length of random scripts for the scripted engine
  };
  Spec const specs[] = {{"uniform_int", "int", -3, 5, 0, 16, 8},
                        {"uniform_int", "strong_short", 0, 0, -8, 8, 8},
                        {"uniform_int", "E9", 1, 6, 0, 8, 8},
                        {"uniform_real", "double", -1.3, 2.2, 0.0, 1.1, 120},
                        {"uniform_real", "float", 0.0, 1.0, -8.0, 8.5, 60},
                        {"uniform_real", "strong_double", 2.1, 2.7, -1.0, 1.3, 120},
                        {"normal", "double", 1.1, 2.3, -3.3, 0.6, 200},
                        {"normal", "float", 0.0, 1.0, 4.0, 0.25, 120},
                        {"normal", "strong_float", -2.0, 0.5, 0.0, 3.0, 120}};
  std::size_t const nseeds = thorough ? 60 : 8;
  std::size_t const nscripts = thorough ? 40 : 6;
  for (Spec const &sp : specs)
  {
    std::vector<std::vector<int>> const pats = session_patterns(rng, thorough ? 40 : 8);
    for (std::size_t i = 0; i < nseeds; ++i)
    {
      ull const seed = i == 0 ? 1ULL : i == 1 ? 2147483646ULL : (rng.next() & 0x7FFFFFFFULL) + 2ULL;
      for (std::size_t k = 0; k < pats.size(); ++k)
      {
        session_named(sp.dname, sp.rname, (i + k) % 2 == 0 ? "mt19937" : "minstd_rand", seed, {}, sp.p1, sp.p2, sp.q1, sp.q2, pats[k], false);
        if (k % 5 == 0) session_named(sp.dname, sp.rname, (i + k) % 2 == 0 ? "minstd_rand" : "mt19937", seed, {}, sp.p1, sp.p2, sp.q1, sp.q2, pats[k], false);
      }
      // draws through a variate constructed from (generator, parameters)
      session_named(sp.dname, sp.rname, i % 2 == 0 ? "mt19937" : "minstd_rand", seed, {}, sp.p1, sp.p2, sp.q1, sp.q2, std::vector<int>(6, op_draw), true);
    }
    for (std::size_t i = 0; i < nscripts; ++i)
    {
      std::vector<int> script;
      std::size_t const len = i == 0 ? 0 : static_cast<std::size_t>(sp.script_len) / 2 + rng.below(static_cast<std::uint64_t>(sp.script_len));
      for (std::size_t j = 0; j < len; ++j) script.push_back(static_cast<int>(rng.below(16)));
      for (std::size_t k = 0; k < pats.size(); ++k) session_named(sp.dname, sp.rname, "script", 0, script, sp.p1, sp.p2, sp.q1, sp.q2, pats[k], false);
      session_named(sp.dname, sp.rname, "script", 0, script, sp.p1, sp.p2, sp.q1, sp.q2, std::vector<int>(4, op_draw), true);
    }
  }
}
#endif

// dispatch by result-type name (record and replay use the same entry points)
template <typename F>
bool with_result(std::string const &rname, F const &f)
{
#define C20_R(N, T) \
  if (rname == N) \
  { \
    f(static_cast<T *>(nullptr)); \
    return true; \
  }
  C20_R("short", short)
  C20_R("int", int)
  C20_R("long", long)
  C20_R("strong_short", strong_short)
  C20_R("strong_int", strong_int)
  C20_R("strong_long", strong_long)
  C20_R("E1", E1)
  C20_R("E2", E2)
  C20_R("E3", E3)
  C20_R("E4", E4)
  C20_R("E5", E5)
  C20_R("E6", E6)
  C20_R("E7", E7)
  C20_R("E8", E8)
  C20_R("E9", E9)
  C20_R("E5s", E5s)
#undef C20_R
  return false;
}

template <typename F>
bool with_enum(std::string const &rname, F const &f)
{
#define C20_E(N, T, S) \
  if (rname == N) \
  { \
    f(static_cast<T *>(nullptr), S); \
    return true; \
  }
  C20_E("E1", E1, 1)
  C20_E("E2", E2, 2)
  C20_E("E3", E3, 3)
  C20_E("E4", E4, 4)
  C20_E("E5", E5, 5)
  C20_E("E6", E6, 6)
  C20_E("E7", E7, 7)
  C20_E("E8", E8, 8)
  C20_E("E9", E9, 9)
  C20_E("E5s", E5s, 5)
#undef C20_E
  return false;
}

bool container_named(std::string const &cname, int const size, std::vector<int> const &script)
{
  if (cname == "vector") { drive_container<std::vector<int>>(cname, size, script); return true; }
  if (cname == "deque") { drive_container<std::deque<int>>(cname, size, script); return true; }
  if (cname == "vector_advanced") { drive_container<std::vector<int>, true>(cname, size, script); return true; }
#if defined(C20_NO_OBSERVED)
  if (cname == "vector_writes") return true; // write-through of uniform_container: outside the statement, left out
#else
  if (cname == "vector_writes") { drive_container<std::vector<int>, false, true>(cname, size, script); return true; }
#endif
  return false;
}

template <typename R>
void small_intervals(std::string const &rname, int const deep_mode, long const stride = 1) // 0: length <= 2, 1: length 3 for selected intervals, 2: length 3 for all
{
  using B = base_of<R>;
  for (int a = -8; a <= 8; ++a)
    for (int b = a; b <= 8; ++b)
    {
      if (std::is_enum_v<R> && a < 0) continue;
      int const range = b - a + 1;
      // scripts up to length 3 for the interval sizes at which the number of raw values per
      // draw changes and for the smallest ones; up to length 2 for the others (quick tier)
      bool const deep = deep_mode == 2 || (deep_mode == 1 && (range == 17 || range == 16 || range == 15 || range <= 2 || (a == -8 && b == -8) || (a == 8 && b == 8) ||
                        (range == 9 && a == -4) || (range == 5 && a == 0)));
      // one raw value per draw suffices up to 16 values: there every third length-2 script may do
      interval_family<R>(rname, static_cast<B>(a), static_cast<B>(b), deep ? 3 : 2, (!deep && range <= 16) ? stride : 1);
    }
}

template <typename R>
void limit_intervals(std::string const &rname)
{
  using B = base_of<R>;
  B const lo = std::numeric_limits<B>::min();
  B const hi = std::numeric_limits<B>::max();
  B const iv[][2] = {{lo, lo},
                     {lo, static_cast<B>(lo + 1)},
                     {lo, static_cast<B>(lo + 15)},
                     {lo, static_cast<B>(lo + 16)},
                     {hi, hi},
                     {static_cast<B>(hi - 1), hi},
                     {static_cast<B>(hi - 15), hi},
                     {static_cast<B>(hi - 16), hi},
                     {static_cast<B>(-1), static_cast<B>(0)},
                     {lo, hi},
                     {static_cast<B>(0), hi},
                     {lo, static_cast<B>(-1)}};
  for (auto const &p : iv) interval_family<R>(rname, p[0], p[1], 2);
}

void record(std::uint64_t const seed, bool const thorough)
{
  vj::Rng rng(seed);
#if defined(C20_PARAM_API)
  {
    // ---- every public member of distribution::basic / variate in lock-step with the std pair
    vj::Rng srng(seed * 31ULL + 7ULL);
    sessions(srng, thorough);
  }
#endif
  // ---- scripted engine: all intervals -8 <= a <= b <= 8, plain and strong typedef results
  long const stride = thorough ? 1 : 3;
  small_intervals<short>("short", thorough ? 1 : 0, stride);
  small_intervals<int>("int", thorough ? 2 : 1);
  small_intervals<long>("long", thorough ? 2 : 0, stride);
  small_intervals<strong_short>("strong_short", thorough ? 2 : 0, stride);
  small_intervals<strong_int>("strong_int", thorough ? 1 : 0, stride);
  small_intervals<strong_long>("strong_long", thorough ? 1 : 0, stride);
  // enum results over explicit enumerator intervals
  for (int a = 0; a <= 8; ++a)
    for (int b = a; b <= 8; ++b) interval_family<E9>("E9", a, b, thorough ? 3 : 2);
  // ---- intervals touching the type limits
  limit_intervals<short>("short");
  limit_intervals<int>("int");
  limit_intervals<long>("long");
  limit_intervals<strong_short>("strong_short");
  limit_intervals<strong_int>("strong_int");
  limit_intervals<strong_long>("strong_long");
  // ---- enum distributions of size 1..9
  enum_family<E1>("E1", 1, 3);
  enum_family<E2>("E2", 2, 3);
  enum_family<E3>("E3", 3, 3);
  enum_family<E4>("E4", 4, 3);
  enum_family<E5>("E5", 5, 3);
  enum_family<E6>("E6", 6, 3);
  enum_family<E7>("E7", 7, 3);
  enum_family<E8>("E8", 8, 3);
  enum_family<E9>("E9", 9, 3);
  enum_family<E5s>("E5s", 5, 3);
  // ---- containers of size 0..6
  for (int size = 0; size <= 6; ++size)
    for_all_scripts(3, [&](std::vector<int> const &s) {
      container_named("vector", size, s);
      if (s.size() <= 2) container_named("deque", size, s);
      if (s.size() <= 2) container_named("vector_advanced", size, s);
      if (s.size() <= 2 || thorough) container_named("vector_writes", size, s);
    });
  // ---- the provided engines with sampled seeds, draw by draw against the std:: pair
  std::size_t const nseeds = thorough ? 3000 : 300;
  for (std::size_t i = 0; i < nseeds; ++i)
  {
    ull const s = i < 8 ? (i == 0 ? 1ULL : i == 1 ? 2147483646ULL : i == 2 ? 4294967295ULL : i) : (rng.next() & 0xFFFFFFFFULL);
    ull const s_minstd = (s % 2147483647ULL) == 0 ? 1ULL : s;
    drive_raw<f_minstd, std::minstd_rand>("minstd_rand", s_minstd, 8);
    if (i % 4 == 1)
    {
      std::vector<unsigned> seq;
      for (std::size_t j = 0; j < 1 + i % 5; ++j) seq.push_back(static_cast<unsigned>(rng.next()));
      drive_raw_seq<f_minstd, std::minstd_rand>("minstd_rand", seq, 6);
      drive_raw_seq<f_mt, std::mt19937>("mt19937", seq, 6);
    }
    if (i == 0)
    {
      drive_chrono<f_minstd>("minstd_rand");
      drive_chrono<f_mt>("mt19937");
    }
    drive_raw<f_mt, std::mt19937>("mt19937", s, 8);
    long long const a = rng.range(-8, 8);
    long long const b = rng.range(a, 8);
    switch (i % 8)
    {
    case 0: engine_int_both<short>("short", s_minstd, static_cast<short>(a), static_cast<short>(b), 8); break;
    case 1: engine_int_both<int>("int", s_minstd, static_cast<int>(a), static_cast<int>(b), 8); break;
    case 2: engine_int_both<long>("long", s_minstd, a, b, 8); break;
    case 3: engine_int_both<strong_int>("strong_int", s_minstd, static_cast<int>(a), static_cast<int>(b), 8); break;
    case 4: engine_int_both<E9>("E9", s_minstd, static_cast<int>(a < 0 ? 0 : a), static_cast<int>(b < 0 ? 0 : (b < a ? a : b)), 8); break;
    case 5: engine_int_both<long>("long", s_minstd, std::numeric_limits<long>::min(), std::numeric_limits<long>::max(), 8); break;
    case 6: engine_int_both<int>("int", s_minstd, std::numeric_limits<int>::min() + static_cast<int>(a + 8), std::numeric_limits<int>::max() - static_cast<int>(8 - b), 8); break;
    default: engine_int_both<strong_short>("strong_short", s_minstd, static_cast<short>(a * 1000), static_cast<short>(a * 1000 + (b - a) * 500), 8); break;
    }
    if (i % 4 == 0)
    {
      // + 0.1 / 0.7: not representable in float - a parameter translation through a narrower type shows
      double const p1 = static_cast<double>(a) / 4.0 + 0.1;
      double const p2 = p1 + 0.25 + static_cast<double>(b - a);
      drive_engine_real<double, f_mt, std::mt19937>("mt19937", "double", "uniform_real", s, p1, p2, 6);
      drive_engine_real<float, f_minstd, std::minstd_rand>("minstd_rand", "float", "uniform_real", s_minstd, static_cast<float>(p1), static_cast<float>(p2), 6);
      drive_engine_real<strong_double, f_minstd, std::minstd_rand>("minstd_rand", "strong_double", "uniform_real", s_minstd, p1, p2, 6);
      drive_engine_real<double, f_mt, std::mt19937>("mt19937", "double", "normal", s, p1, 0.7 + static_cast<double>(b - a), 6);
      drive_engine_real<strong_float, f_mt, std::mt19937>("mt19937", "strong_float", "normal", s, static_cast<float>(p1), 1.0F + static_cast<float>(b - a), 6);
    }
  }
}

bool replay_one(vj::V const &e)
{
  std::string const f = e.str("f");
  auto const script = [&] {
    std::vector<int> s;
    for (long long x : e.nums("script")) s.push_back(static_cast<int>(x));
    return s;
  };
  if (f == "draw")
  {
    if (e.str("via") == "make_uniform_enum")
      return with_enum(e.str("R"), [&]<typename E>(E *, int const size) {
        // re-drive the whole (small) family of this enum so that the same entry point is used
        enum_family<E>(e.str("R"), size, static_cast<int>(script().size()));
      });
    return with_result(e.str("R"), [&]<typename R>(R *) {
#if defined(C20_PARAM_API)
      if (e.str("via") == "basic_param")
      {
        drive_param<R>(e.str("R"), int_of_num<base_of<R>>(num_of_json(e.at("a"))), int_of_num<base_of<R>>(num_of_json(e.at("b"))), script());
        return;
      }
#endif
      drive_draw<R>(e.str("R"), int_of_num<base_of<R>>(num_of_json(e.at("a"))), int_of_num<base_of<R>>(num_of_json(e.at("b"))), script(),
                    e.str("via") == "variate" || e.str("via") == "readback_variate", nullptr, nullptr);
    });
  }
  if (f == "agg")
  {
    if (e.str("kind") == "enum" && e.str("R") != "E9")
      return with_enum(e.str("R"), [&]<typename E>(E *, int const size) { enum_family<E>(e.str("R"), size, static_cast<int>(e.num("scripts_upto"))); });
    return with_result(e.str("R"), [&]<typename R>(R *) {
      interval_family<R>(e.str("R"), int_of_num<base_of<R>>(num_of_json(e.at("a"))), int_of_num<base_of<R>>(num_of_json(e.at("b"))),
                         static_cast<int>(e.num("scripts_upto")));
    });
  }
  if (f == "enum_params")
    return with_enum(e.str("E"), [&]<typename E>(E *, int const size) { enum_family<E>(e.str("E"), size, 1); });
  if (f == "container") return container_named(e.str("C"), static_cast<int>(e.at("elems").a.size()), script());
  if (f == "chrono")
  {
    if (e.str("eng") == "minstd_rand") drive_chrono<f_minstd>("minstd_rand");
    else drive_chrono<f_mt>("mt19937");
    return true;
  }
  if (f == "raw" && e.has("seq"))
  {
    std::vector<unsigned> seq;
    for (long long x : e.nums("seq")) seq.push_back(static_cast<unsigned>(x));
    if (e.str("eng") == "minstd_rand_seed_seq") drive_raw_seq<f_minstd, std::minstd_rand>("minstd_rand", seq, static_cast<int>(e.num("n")));
    else drive_raw_seq<f_mt, std::mt19937>("mt19937", seq, static_cast<int>(e.num("n")));
    return true;
  }
  if (f == "raw")
  {
    ull const s = num_of_json(e.at("seed")).mag;
    if (e.str("eng") == "minstd_rand") drive_raw<f_minstd, std::minstd_rand>("minstd_rand", s, static_cast<int>(e.num("n")));
    else drive_raw<f_mt, std::mt19937>("mt19937", s, static_cast<int>(e.num("n")));
    return true;
  }
  if (f == "engine")
  {
    ull const s = num_of_json(e.at("seed")).mag;
    bool const minstd = e.str("eng") == "minstd_rand";
    return with_result(e.str("R"), [&]<typename R>(R *) {
      auto const a = int_of_num<base_of<R>>(num_of_json(e.at("a")));
      auto const b = int_of_num<base_of<R>>(num_of_json(e.at("b")));
      if (minstd) drive_engine_int<R, f_minstd, std::minstd_rand>("minstd_rand", e.str("R"), s, a, b, static_cast<int>(e.num("n")));
      else drive_engine_int<R, f_mt, std::mt19937>("mt19937", e.str("R"), s, a, b, static_cast<int>(e.num("n")));
    });
  }
#if defined(C20_PARAM_API)
  if (f == "session")
  {
    std::string const rn = e.str("R");
    bool const reals = e.str("dist") != "uniform_int";
    bool const is_float = rn == "float" || rn == "strong_float";
    auto const pv = [&](char const *k, std::size_t const i) -> double {
      vj::V const &x = *e.at(k).a.at(i);
      if (!reals) return static_cast<double>(x.n);
      ull u = 0;
      for (auto const &d : x.a) u = (u << 8U) | static_cast<ull>(d->n);
      return is_float ? static_cast<double>(std::bit_cast<float>(static_cast<std::uint32_t>(u))) : std::bit_cast<double>(u);
    };
    std::vector<int> ops;
    for (long long x : e.nums("opcodes")) ops.push_back(static_cast<int>(x));
    std::vector<int> scr;
    if (e.has("script"))
      for (long long x : e.nums("script")) scr.push_back(static_cast<int>(x));
    return session_named(e.str("dist"), rn, e.str("eng"), e.has("seed") ? num_of_json(e.at("seed")).mag : 0ULL, scr, pv("p", 0), pv("p", 1), pv("q", 0),
                         pv("q", 1), ops, e.at("vp").b);
  }
#endif
  if (f == "real")
  {
    ull const s = num_of_json(e.at("seed")).mag;
    bool const minstd = e.str("eng") == "minstd_rand";
    std::string const rn = e.str("R");
    std::string const dn = e.str("dist");
    int const n = static_cast<int>(e.num("n"));
    auto const dbl = [&](char const *k) {
      ull u = 0;
      for (long long d : e.nums(k)) u = (u << 8U) | static_cast<ull>(d);
      return u;
    };
    auto const go = [&]<typename R>(R *) {
      using B = base_of<R>;
      using U = std::conditional_t<sizeof(B) == 4, std::uint32_t, std::uint64_t>;
      B const p1 = std::bit_cast<B>(static_cast<U>(dbl("p1")));
      B const p2 = std::bit_cast<B>(static_cast<U>(dbl("p2")));
      if (minstd) drive_engine_real<R, f_minstd, std::minstd_rand>("minstd_rand", rn, dn, s, p1, p2, n);
      else drive_engine_real<R, f_mt, std::mt19937>("mt19937", rn, dn, s, p1, p2, n);
    };
    if (rn == "double") go(static_cast<double *>(nullptr));
    else if (rn == "float") go(static_cast<float *>(nullptr));
    else if (rn == "strong_double") go(static_cast<strong_double *>(nullptr));
    else if (rn == "strong_float") go(static_cast<strong_float *>(nullptr));
    else return false;
    return true;
  }
  return false;
}
}

int main(int argc, char **argv)
{
  if (argc < 4)
  {
    std::fprintf(stderr, "usage: c20_random record OUT seed quick|thorough | replay IN OUT\n");
    return 3;
  }
  std::string const mode = argv[1];
  if (mode == "record")
  {
    vj::open(argv[2]);
    if (argc > 5) skip_records = std::strtoll(argv[5], nullptr, 10);
    record(std::strtoull(argv[3], nullptr, 10), argc > 4 && std::string(argv[4]) == "thorough");
    vj::close();
    return 0;
  }
  if (mode == "replay")
  {
    auto const lines = vj::read_lines(argv[2]);
    vj::open(argv[3]);
    for (auto const &l : lines)
      if (!replay_one(*vj::parse(l)))
      {
        std::fprintf(stderr, "replay: cannot re-drive %s\n", l.c_str());
        return 3;
      }
    vj::close();
    return 0;
  }
  return 3;
}
