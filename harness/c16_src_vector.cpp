// C16 conformance harness: one group of source ranges (see c16_range.hpp).  Drives and records only.
#include "c16_range.hpp"

namespace c16
{
void run_vector(Sel &sel, bool const thorough)
{
  seq_source<std::vector<int>>("vector", 6, thorough ? 6U : 4U, true, sel);
  index_source<std::vector<int>>("vector", 6);
}
}
