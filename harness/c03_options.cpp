// C03 conformance harness: fcppt::options.  Drives the generated parser-shape family (see
// /verif/gen/options_family.py) and records constructor outcomes and parse / parse_help results
// as ndjson.  No expected values: spec/OptionsJudge.tla (TLC) judges every record.
//
//   c03_options table  OUT
//        measures Extract(T, token) for T in int/unsigned/string/enum and every token of the
//        global table with a PLAIN std::istringstream >> (not through fcppt::options)
//   c03_options record OUT MAXLEN MAXLEN_CHEAP RANDOM_N RANDOM_LEN SEED PART PARTS RUNLEN [FROM]
//        drives the shapes with (id - 1) % PARTS == PART and id >= FROM
//   c03_options replay SCRIPT OUT       SCRIPT: ndjson lines {"s":shape,"a":[token ids]}
#define C03_UNITS_INCLUDE_WRAP_HEADERS
#include "c03_options.hpp"

#include <cstdio>
#include <cstdlib>
#include <cstring>
#include <sstream>
#include <string>
#include <csignal>
#include <fcntl.h>
#include <sys/mman.h>
#include <sys/time.h>
#include <unistd.h>

#if defined(__SANITIZE_ADDRESS__)
#include <sanitizer/common_interface_defs.h>
#endif

namespace c03
{
std::istream &operator>>(std::istream &_stream, color &_result)
{
  std::string word{};
  if (_stream >> word)
  {
    if (word == "w")
    {
      _result = color::w;
    }
    else if (word == "v")
    {
      _result = color::v;
    }
    else
    {
      _stream.setstate(std::ios_base::failbit);
    }
  }
  return _stream;
}

std::ostream &operator<<(std::ostream &_stream, color const _value)
{
  return _stream << (_value == color::w ? "w" : "v");
}

// The record prefix is written without flushing (10^7 calls in the thorough tier); the stdio
// buffer is flushed by the crash / sanitizer-death handlers so that an abort inside a driven call
// still leaves a truncated line naming the call.
namespace
{
// calls started so far; read by the CPU-time watchdog
volatile unsigned long progress{0UL};

// The record prefix of the call in progress, kept in a MAP_SHARED page of OUT.cur: whatever kills
// the process (sanitizer runtime, signal, SIGKILL of a timeout - with the stdio buffer unflushed),
// the kernel keeps the page, and checks/c03.py reads the call the process died in from there.
constexpr std::size_t current_size{4096U};
char *current_call{nullptr};
}

void driver::begin(std::string const &_prefix)
{
  std::fputs(_prefix.c_str(), vj::out_file());
  ++calls_;
  progress = progress + 1UL;
  if (current_call != nullptr)
  {
    std::size_t const n{_prefix.size() < current_size - 1U ? _prefix.size() : current_size - 1U};
    std::memcpy(current_call, _prefix.data(), n);
    current_call[n] = '\0';
  }
}

void driver::end(std::string const &_rest)
{
  std::fputs(_rest.c_str(), vj::out_file());
  std::fputc('\n', vj::out_file());
  if (current_call != nullptr)
  {
    current_call[0] = '\0';
  }
}

std::string driver::state_json(fcppt::options::state const &_state) const
{
  // remaining arguments as token ids (every argument the harness passes is a token of the table)
  std::string s{"["};
  bool first{true};
  for (fcppt::string const &arg : _state.args())
  {
    int id{0};
    for (std::size_t i = 0; i < tokens().size(); ++i)
    {
      if (tokens()[i] == arg)
      {
        id = static_cast<int>(i + 1);
        break;
      }
    }
    if (!first) s += ',';
    first = false;
    s += std::to_string(id);
  }
  return s + "]";
}

void driver::run_all()
{
  for (shape_info const &info : shapes())
  {
    if ((info.id - 1) % plan_.parts == plan_.part && info.id >= resume_from())
    {
      info.run(*this);
    }
  }
}

namespace
{
void on_death()
{
  if (vj::out_file() != nullptr)
  {
    std::fflush(vj::out_file());
  }
}

// Watchdog on CPU time (independent of the load of the machine): a whole timer period of user
// CPU time in which no driven call was started means that a call does not return.  The record
// prefix of that call is flushed (crash_line) so that the truncated line names it; exit code 68.
void on_cpu_tick(int)
{
  static unsigned long last{~0UL};
  unsigned long const now{progress};
  if (now == last)
  {
    vj::crash_line("hang", SIGALRM);
    _exit(68);
  }
  last = now;
}

void map_current_call(std::string const &_out)
{
  int const fd{::open((_out + ".cur").c_str(), O_RDWR | O_CREAT | O_TRUNC, 0644)};
  if (fd < 0)
  {
    return;
  }
  if (::ftruncate(fd, static_cast<off_t>(current_size)) == 0)
  {
    void *const p{::mmap(nullptr, current_size, PROT_READ | PROT_WRITE, MAP_SHARED, fd, 0)};
    if (p != MAP_FAILED)
    {
      current_call = static_cast<char *>(p);
      current_call[0] = '\0';
    }
  }
  ::close(fd);
}

void start_watchdog()
{
  std::signal(SIGVTALRM, on_cpu_tick);
  struct itimerval timer;
  timer.it_interval.tv_sec = 4;
  timer.it_interval.tv_usec = 0;
  timer.it_value = timer.it_interval;
  setitimer(ITIMER_VIRTUAL, &timer, nullptr);
}

template <typename T>
std::string measure(std::string const &_token)
{
  std::istringstream stream{_token};
  T value{};
  stream >> value;
  if (stream.fail() || !stream.eof())
  {
    return "[]";
  }
  return "[\"" + vj::esc(render(value)) + "\"]";
}

template <typename T>
std::string measure_all()
{
  std::string s{"["};
  bool first{true};
  for (std::string const &t : tokens())
  {
    if (!first) s += ',';
    first = false;
    s += measure<T>(t);
  }
  return s + "]";
}

void describe()
{
  std::string s{"{\"f\":\"tokens\",\"toks\":["};
  bool first{true};
  for (std::string const &t : tokens())
  {
    if (!first) s += ',';
    first = false;
    s += vj::cps(t);
  }
  vj::line(s + "]}");
  for (shape_info const &info : shapes())
  {
    vj::line(vj::J{}
                 .kv("f", "alphabet")
                 .kv("s", info.id)
                 .kv("al", info.alphabet)
                 .kv("ex", info.extra)
                 .kv("help", info.help)
                 .raw("hshort", std::string{info.help_short}.empty() ? std::string{"[]"} : "[" + vj::cps(std::string{info.help_short}) + "]")
                 .raw("hlong", vj::cps(std::string{info.help_long})));
  }
}
}
}

int main(int argc, char **argv)
{
  if (argc < 3)
  {
    std::fprintf(stderr, "usage: see the head of c03_options.cpp\n");
    return 3;
  }
  std::string const mode{argv[1]};
#if defined(__SANITIZE_ADDRESS__)
  __sanitizer_set_death_callback(c03::on_death);
#endif
  if (mode == "table")
  {
    vj::open(argv[2]);
    vj::line(
        "{\"int\":" + c03::measure_all<int>() + ",\"unsigned\":" + c03::measure_all<unsigned>() +
        ",\"string\":" + c03::measure_all<std::string>() + ",\"enum\":" +
        c03::measure_all<c03::color>() + "}");
    vj::close();
    return 0;
  }
  c03::plan plan{};
  if (mode == "record" && (argc == 11 || argc == 12))
  {
    vj::open(argv[2]);
    plan.max_len = std::atoi(argv[3]);
    plan.max_len_cheap = std::atoi(argv[4]);
    plan.random_n = std::atol(argv[5]);
    plan.random_len = std::atoi(argv[6]);
    plan.seed = std::strtoull(argv[7], nullptr, 10);
    plan.part = std::atoi(argv[8]);
    plan.parts = std::atoi(argv[9]);
    plan.run_len = std::atoi(argv[10]);
    c03::resume_from() = argc == 12 ? std::atoi(argv[11]) : 1;
    if (plan.part == 0 && c03::resume_from() <= 1)
    {
      c03::describe();
    }
  }
  else if (mode == "replay" && argc == 4)
  {
    plan.scripted = true;
    plan.errors = true;
    for (std::string const &l : vj::read_lines(argv[2]))
    {
      vj::VP const v{vj::parse(l)};
      std::vector<int> a{};
      for (long long const g : v->nums("a"))
      {
        if (g < 1 || static_cast<std::size_t>(g) > c03::tokens().size())
        {
          std::fprintf(stderr, "replay: token id out of range\n");
          return 3;
        }
        a.push_back(static_cast<int>(g));
      }
      plan.script.emplace_back(static_cast<int>(v->num("s")), a);
    }
    vj::open(argv[3]);
    c03::describe();
  }
  else
  {
    std::fprintf(stderr, "bad arguments\n");
    return 3;
  }
  c03::start_watchdog();
  c03::map_current_call(mode == "record" ? argv[2] : argv[3]);
  c03::driver driver{plan};
  driver.run_all();
  vj::close();
  std::fprintf(stderr, "c03_options: %ld calls\n", driver.calls());
  return 0;
}
