// C11 conformance harness: drives fcppt::intrusive::list / fcppt::intrusive::base and
// fcppt::signal::object (plain and unregister flavour, with and without a result type)
// through operation histories and records, after every operation, what every live list /
// signal shows through its public interface:
//   lists   : forward iteration, backward iteration (element ids), empty()
//   signals : empty(), and one call of every callable signal: which callbacks ran with which
//             argument and result, every combiner invocation, the returned value; plus the
//             unregister callbacks the operation itself ran.
// It contains no expected values: spec/RingTrace.tla (TLC) is the judge.
//
// Every list, element, signal and connection is a separate heap object, created and destroyed
// ONLY by the operations of the history (destruction order is part of the history: elements
// hold pointers into lists and vice versa), so AddressSanitizer sees every access to a
// destroyed node.  At the end of a history everything still alive is destroyed by further,
// logged, operations.
//
//   c11_intrusive record OUT seed first count maxlen
//   c11_intrusive replay FLAVOUR SCRIPTS.ndjson OUT [index of the first script]
//                                                     (one JSON array of op records per line)
//   flavours: list sig usig vsig uvsig
#include <common/vjson.hpp>

#include <fcppt/intrusive/base.hpp>
#include <fcppt/intrusive/list.hpp>
#include <fcppt/signal/auto_connection.hpp>
#include <fcppt/signal/base.hpp>
#include <fcppt/signal/object.hpp>
#include <fcppt/signal/unregister/base.hpp>
#include <fcppt/signal/unregister/function.hpp>

#include <array>
#include <memory>
#include <optional>
#include <string>
#include <type_traits>
#include <utility>
#include <vector>

namespace
{
constexpr int NL = 3; // list / signal slots 1..NL
constexpr int NE = 8; // element / connection slots 1..NE
constexpr int walk_limit = 2 * (NL + NE);

struct op
{
  std::string name;
  int l = 0, l2 = 0, e = 0, e2 = 0;
};

std::string op_prefix(int index, op const &o)
{
  return vj::J().kv("e", "op").kv("i", index).kv("op", o.name).kv("l", o.l).kv("l2", o.l2).kv("x", o.e).kv("x2", o.e2).s;
}

// what a history can be run on
struct driver
{
  driver() = default;
  driver(driver const &) = delete;
  driver &operator=(driver const &) = delete;
  virtual ~driver() = default;
  virtual bool llive(int l) const = 0;
  virtual bool elive(int e) const = 0;
  virtual void apply(op const &) = 0;
  // ,"lists":[...],"elive":[...],"unreg":[...]
  virtual std::string observe(int index) = 0;
  virtual std::vector<std::string> kinds() const = 0;
  virtual bool is_list() const = 0;
};

// ------------------------------------------------------------------------------ lists
class elem;
using list_t = fcppt::intrusive::list<elem>;

class elem : public fcppt::intrusive::base<elem>
{
public:
  using hook = fcppt::intrusive::base<elem>;
  elem(list_t &_list, int const _id) : hook{_list}, id{_id} {}
  // the id names the SLOT (the object), not the link that is taken over
  elem(elem &&_other, int const _id) : hook{std::move(static_cast<hook &>(_other))}, id{_id} {}
  void take(elem &&_other) { static_cast<hook &>(*this) = std::move(static_cast<hook &>(_other)); }
  elem(elem const &) = delete;
  elem &operator=(elem const &) = delete;
  ~elem() = default;
  int id;
};

struct list_driver : driver
{
  std::array<std::unique_ptr<list_t>, NL + 1> L;
  std::array<std::unique_ptr<elem>, NE + 1> E;

  bool llive(int l) const override { return L[static_cast<std::size_t>(l)] != nullptr; }
  bool elive(int e) const override { return E[static_cast<std::size_t>(e)] != nullptr; }
  bool is_list() const override { return true; }
  std::vector<std::string> kinds() const override
  {
    return {"list_ctor", "list_move_ctor", "list_move_assign", "list_dtor", "elem_ctor",
            "elem_move_ctor", "elem_move_assign", "elem_dtor", "unlink"};
  }

  void apply(op const &o) override
  {
    auto &l = L[static_cast<std::size_t>(o.l)];
    auto &l2 = L[static_cast<std::size_t>(o.l2)];
    auto &e = E[static_cast<std::size_t>(o.e)];
    auto &e2 = E[static_cast<std::size_t>(o.e2)];
    if (o.name == "list_ctor") l = std::make_unique<list_t>();
    else if (o.name == "list_move_ctor") l = std::make_unique<list_t>(std::move(*l2));
    else if (o.name == "list_move_assign") *l = std::move(*l2);
    else if (o.name == "list_dtor") l.reset();
    else if (o.name == "elem_ctor") e = std::make_unique<elem>(*l, o.e);
    else if (o.name == "elem_move_ctor") e = std::make_unique<elem>(std::move(*e2), o.e);
    else if (o.name == "elem_move_assign") e->take(std::move(*e2));
    else if (o.name == "elem_dtor") e.reset();
    else if (o.name == "unlink") e->unlink();
    else throw std::runtime_error("unknown list op " + o.name);
  }

  // Is this address one of the live element objects?  (Never dereferences the pointer: a walk
  // that reaches anything else - a head of another list, a destroyed node - stops there.)
  bool is_live_elem(elem const *p) const
  {
    for (int j = 1; j <= NE; ++j)
      if (E[static_cast<std::size_t>(j)].get() == p) return true;
    return false;
  }

  std::string observe(int) override
  {
    vj::J lists('[');
    for (int k = 1; k <= NL; ++k)
    {
      vj::J r;
      auto &lp = L[static_cast<std::size_t>(k)];
      std::vector<int> fwd, bwd;
      bool fok = true, bok = true, empty = true;
      if (lp)
      {
        list_t &l = *lp;
        empty = l.empty();
        int steps = 0;
        for (list_t::iterator it = l.begin(); it != l.end(); ++it)
        {
          elem *p = &*it;
          if (!is_live_elem(p) || ++steps > walk_limit) { fok = false; break; }
          fwd.push_back(p->id);
        }
        steps = 0;
        for (list_t::iterator it = l.end();;)
        {
          --it;
          if (it == l.end()) break;
          elem *p = &*it;
          if (!is_live_elem(p) || ++steps > walk_limit) { bok = false; break; }
          bwd.push_back(p->id);
        }
      }
      r.kv("live", lp != nullptr);
      if (lp) r.kv("empty", empty).kv("fwd", fwd).kv("bwd", bwd).kv("fok", fok).kv("bok", bok);
      lists.el_raw(r.str());
    }
    std::vector<int> el;
    for (int j = 1; j <= NE; ++j) el.push_back(elive(j) ? 1 : 0);
    return ",\"lists\":" + lists.str() + ",\"elive\":" + vj::arr(el) + ",\"unreg\":[]";
  }
};

// ------------------------------------------------------------------------------ signals
struct overrun
{
};

struct cb_rec
{
  int c, arg, r;
};
struct comb_rec
{
  int a, b, r;
};

template <typename Sig, bool Res, bool Unr>
struct sig_driver : driver
{
  std::array<std::unique_ptr<Sig>, NL + 1> S;
  std::array<std::optional<fcppt::signal::auto_connection>, NE + 1> C;
  std::array<bool, NL + 1> has_comb{}; // generator-side precondition of a call (moved-from combiner)
  std::vector<cb_rec> cbs;
  std::vector<comb_rec> combs;
  std::vector<int> unreg;

  bool llive(int l) const override { return S[static_cast<std::size_t>(l)] != nullptr; }
  bool elive(int e) const override { return C[static_cast<std::size_t>(e)].has_value(); }
  bool is_list() const override { return false; }
  std::vector<std::string> kinds() const override
  {
    return {"sig_ctor", "sig_move_ctor", "sig_move_assign", "sig_dtor", "connect", "disconnect"};
  }

  int callback(int const c, int const arg)
  {
    if (cbs.size() > static_cast<std::size_t>(walk_limit)) throw overrun{};
    int const r = (c * 16 + arg * 5 + 3) % 251;
    cbs.push_back(cb_rec{c, arg, r});
    return r;
  }

  std::unique_ptr<Sig> make_signal()
  {
    if constexpr (Res)
      return std::make_unique<Sig>(typename Sig::combiner_function{[this](int const a, int const b) {
        int const r = (a * 3 + b + 1) % 9973;
        combs.push_back(comb_rec{a, b, r});
        return r;
      }});
    else
      return std::make_unique<Sig>();
  }

  typename Sig::function make_function(int const c)
  {
    if constexpr (Res)
      return typename Sig::function{[this, c](int const arg) { return this->callback(c, arg); }};
    else
      return typename Sig::function{[this, c](int const arg) { this->callback(c, arg); }};
  }

  void apply(op const &o) override
  {
    auto const li = static_cast<std::size_t>(o.l);
    auto const l2i = static_cast<std::size_t>(o.l2);
    auto &s = S[li];
    auto &s2 = S[l2i];
    auto &c = C[static_cast<std::size_t>(o.e)];
    if (o.name == "sig_ctor") { s = make_signal(); has_comb[li] = true; }
    else if (o.name == "sig_move_ctor") { s = std::make_unique<Sig>(std::move(*s2)); has_comb[li] = has_comb[l2i]; has_comb[l2i] = false; }
    else if (o.name == "sig_move_assign") { *s = std::move(*s2); has_comb[li] = has_comb[l2i]; has_comb[l2i] = false; }
    else if (o.name == "sig_dtor") { s.reset(); has_comb[li] = false; }
    else if (o.name == "connect")
    {
      int const id = o.e;
      if constexpr (Unr)
        c.emplace(s->connect(make_function(id), fcppt::signal::unregister::function{[this, id] { unreg.push_back(id); }}));
      else
        c.emplace(s->connect(make_function(id)));
    }
    else if (o.name == "disconnect") c.reset();
    else throw std::runtime_error("unknown signal op " + o.name);
  }

  std::string observe(int const index) override
  {
    vj::J lists('[');
    for (int k = 1; k <= NL; ++k)
    {
      vj::J r;
      auto &sp = S[static_cast<std::size_t>(k)];
      bool empty = true;
      vj::J call;
      bool done = false, over = false, threw = false;
      int const init = (index * 7 + k) % 50, arg = (index + 3 * k) % 16;
      int ret = 0;
      cbs.clear();
      combs.clear();
      if (sp)
      {
        empty = sp->empty();
        if (!Res || has_comb[static_cast<std::size_t>(k)])
        {
          done = true;
          try
          {
            if constexpr (Res) ret = (*sp)(typename Sig::initial_value{init}, arg);
            else (*sp)(arg);
          }
          catch (overrun const &)
          {
            over = true;
          }
          catch (std::exception const &)
          {
            threw = true; // no callback of the harness throws this
          }
        }
      }
      vj::J jc('['), jm('[');
      for (auto const &x : cbs) jc.el_raw(vj::J().kv("c", x.c).kv("arg", x.arg).kv("r", x.r).str());
      for (auto const &x : combs) jm.el_raw(vj::J().kv("a", x.a).kv("b", x.b).kv("r", x.r).str());
      call.kv("done", done).kv("init", init).kv("arg", arg).kv("ret", ret).kv("over", over).kv("threw", threw).raw("cbs", jc.str()).raw("combs", jm.str());
      r.kv("live", sp != nullptr);
      if (sp) r.kv("empty", empty).raw("call", call.str());
      lists.el_raw(r.str());
    }
    cbs.clear();
    combs.clear();
    std::vector<int> el;
    for (int j = 1; j <= NE; ++j) el.push_back(elive(j) ? 1 : 0);
    std::string const res = ",\"lists\":" + lists.str() + ",\"elive\":" + vj::arr(el) + ",\"unreg\":" + vj::arr(unreg);
    unreg.clear();
    return res;
  }
};

using sig_plain = fcppt::signal::object<int(int)>;
using sig_unreg = fcppt::signal::object<int(int), fcppt::signal::unregister::base>;
using vsig_plain = fcppt::signal::object<void(int)>;
using vsig_unreg = fcppt::signal::object<void(int), fcppt::signal::unregister::base>;

struct flavour
{
  char const *name;
  bool res, unr;
};
constexpr flavour flavours[] = {{"list", false, false}, {"sig", true, false}, {"usig", true, true}, {"vsig", false, false}, {"uvsig", false, true}};

std::unique_ptr<driver> make_driver(std::string const &fl)
{
  if (fl == "list") return std::make_unique<list_driver>();
  if (fl == "sig") return std::make_unique<sig_driver<sig_plain, true, false>>();
  if (fl == "usig") return std::make_unique<sig_driver<sig_unreg, true, true>>();
  if (fl == "vsig") return std::make_unique<sig_driver<vsig_plain, false, false>>();
  if (fl == "uvsig") return std::make_unique<sig_driver<vsig_unreg, false, true>>();
  throw std::runtime_error("unknown flavour " + fl);
}

flavour const &flavour_of(std::string const &fl)
{
  for (auto const &f : flavours)
    if (fl == f.name) return f;
  throw std::runtime_error("unknown flavour " + fl);
}

// ------------------------------------------------------------------------------ running
struct runner
{
  driver &d;
  int index = 0;
  explicit runner(driver &_d) : d(_d) {}
  // a script that names a dead operand / an occupied slot is a bug of the script's producer
  void check_pre(op const &o) const
  {
    auto const need = [&](bool c) { if (!c) throw std::runtime_error("operation outside the API precondition: " + o.name); };
    auto const lr = [](int x) { return x >= 1 && x <= NL; };
    auto const er = [](int x) { return x >= 1 && x <= NE; };
    std::string const &n = o.name;
    if (n == "list_ctor" || n == "sig_ctor") need(lr(o.l) && !d.llive(o.l));
    else if (n == "list_move_ctor" || n == "sig_move_ctor") need(lr(o.l) && lr(o.l2) && !d.llive(o.l) && d.llive(o.l2));
    else if (n == "list_move_assign" || n == "sig_move_assign") need(lr(o.l) && lr(o.l2) && o.l != o.l2 && d.llive(o.l) && d.llive(o.l2));
    else if (n == "list_dtor" || n == "sig_dtor") need(lr(o.l) && d.llive(o.l));
    else if (n == "elem_ctor" || n == "connect") need(er(o.e) && lr(o.l) && !d.elive(o.e) && d.llive(o.l));
    else if (n == "elem_move_ctor") need(er(o.e) && er(o.e2) && !d.elive(o.e) && d.elive(o.e2));
    else if (n == "elem_move_assign") need(er(o.e) && er(o.e2) && o.e != o.e2 && d.elive(o.e) && d.elive(o.e2));
    else if (n == "elem_dtor" || n == "unlink" || n == "disconnect") need(er(o.e) && d.elive(o.e));
    else need(false);
  }
  void step(op const &o)
  {
    check_pre(o);
    ++index;
    vj::begin_call(op_prefix(index, o));
    d.apply(o);
    std::string const obs = d.observe(index);
    vj::end_call(obs + "}");
  }
};

std::vector<int> live_lists(driver const &d)
{
  std::vector<int> r;
  for (int k = 1; k <= NL; ++k)
    if (d.llive(k)) r.push_back(k);
  return r;
}
std::vector<int> dead_lists(driver const &d)
{
  std::vector<int> r;
  for (int k = 1; k <= NL; ++k)
    if (!d.llive(k)) r.push_back(k);
  return r;
}
std::vector<int> live_elems(driver const &d)
{
  std::vector<int> r;
  for (int k = 1; k <= NE; ++k)
    if (d.elive(k)) r.push_back(k);
  return r;
}
std::vector<int> dead_elems(driver const &d)
{
  std::vector<int> r;
  for (int k = 1; k <= NE; ++k)
    if (!d.elive(k)) r.push_back(k);
  return r;
}

op dtor_list(driver const &d, int l)
{
  op o;
  o.name = d.is_list() ? "list_dtor" : "sig_dtor";
  o.l = l;
  return o;
}
op dtor_elem(driver const &d, int e)
{
  op o;
  o.name = d.is_list() ? "elem_dtor" : "disconnect";
  o.e = e;
  return o;
}

void reset_line(long long h, std::string const &fl, char const *mode)
{
  flavour const &f = flavour_of(fl);
  vj::line(vj::J().kv("e", "reset").kv("h", h).kv("fl", fl).kv("list", fl == "list").kv("res", f.res).kv("unr", f.unr).kv("mode", mode));
}

// destroy whatever is still alive, as logged operations; order chosen by `order`
void cleanup(runner &r, unsigned order, vj::Rng *rng)
{
  driver &d = r.d;
  if (rng != nullptr)
  {
    for (;;)
    {
      auto ls = live_lists(d);
      auto es = live_elems(d);
      if (ls.empty() && es.empty()) break;
      std::size_t const pick = static_cast<std::size_t>(rng->below(ls.size() + es.size()));
      if (pick < ls.size()) r.step(dtor_list(d, ls[pick]));
      else r.step(dtor_elem(d, es[pick - ls.size()]));
    }
    return;
  }
  switch (order % 3U)
  {
  case 0: // lists before their elements
    for (int l : live_lists(d)) r.step(dtor_list(d, l));
    for (int e : live_elems(d)) r.step(dtor_elem(d, e));
    break;
  case 1:
    for (int e : live_elems(d)) r.step(dtor_elem(d, e));
    for (int l : live_lists(d)) r.step(dtor_list(d, l));
    break;
  default:
  {
    auto ls = live_lists(d);
    auto es = live_elems(d);
    while (!ls.empty() || !es.empty())
    {
      if (!es.empty()) { r.step(dtor_elem(d, es.back())); es.pop_back(); }
      if (!ls.empty()) { r.step(dtor_list(d, ls.back())); ls.pop_back(); }
    }
  }
  }
}

int pick(vj::Rng &rng, std::vector<int> const &v) { return v[static_cast<std::size_t>(rng.below(v.size()))]; }

// one random operation that satisfies the API precondition (operands alive, slots free, no
// self-move); returns false if the drawn kind is not enabled
bool random_op(vj::Rng &rng, driver const &d, op &o)
{
  static std::vector<std::pair<char const *, int>> const lw = {
      {"list_ctor", 4}, {"list_move_ctor", 3}, {"list_move_assign", 5}, {"list_dtor", 2}, {"elem_ctor", 8},
      {"elem_move_ctor", 3}, {"elem_move_assign", 3}, {"elem_dtor", 4}, {"unlink", 2}};
  static std::vector<std::pair<char const *, int>> const sw = {
      {"sig_ctor", 4}, {"sig_move_ctor", 3}, {"sig_move_assign", 5}, {"sig_dtor", 2}, {"connect", 9}, {"disconnect", 5}};
  auto const &w = d.is_list() ? lw : sw;
  int total = 0;
  for (auto const &p : w) total += p.second;
  int x = static_cast<int>(rng.below(static_cast<std::uint64_t>(total)));
  std::string kind;
  for (auto const &p : w)
  {
    if (x < p.second) { kind = p.first; break; }
    x -= p.second;
  }
  auto ll = live_lists(d), dl = dead_lists(d);
  auto le = live_elems(d), de = dead_elems(d);
  o = op{};
  o.name = kind;
  if (kind == "list_ctor" || kind == "sig_ctor")
  {
    if (dl.empty()) return false;
    o.l = pick(rng, dl);
  }
  else if (kind == "list_move_ctor" || kind == "sig_move_ctor")
  {
    if (dl.empty() || ll.empty()) return false;
    o.l = pick(rng, dl);
    o.l2 = pick(rng, ll);
  }
  else if (kind == "list_move_assign" || kind == "sig_move_assign")
  {
    if (ll.size() < 2) return false;
    o.l = pick(rng, ll);
    do o.l2 = pick(rng, ll); while (o.l2 == o.l);
  }
  else if (kind == "list_dtor" || kind == "sig_dtor")
  {
    if (ll.empty()) return false;
    o.l = pick(rng, ll);
  }
  else if (kind == "elem_ctor" || kind == "connect")
  {
    if (de.empty() || ll.empty()) return false;
    o.e = pick(rng, de);
    o.l = pick(rng, ll);
  }
  else if (kind == "elem_move_ctor")
  {
    if (de.empty() || le.empty()) return false;
    o.e = pick(rng, de);
    o.e2 = pick(rng, le);
  }
  else if (kind == "elem_move_assign")
  {
    if (le.size() < 2) return false;
    o.e = pick(rng, le);
    do o.e2 = pick(rng, le); while (o.e2 == o.e);
  }
  else // elem_dtor, unlink, disconnect
  {
    if (le.empty()) return false;
    o.e = pick(rng, le);
  }
  return true;
}

int record(char const *out, std::uint64_t seed, long long first, long long count, int maxlen)
{
  vj::open(out);
  static char const *const cycle[] = {"list", "sig", "list", "usig", "list", "vsig", "list", "uvsig"};
  for (long long h = first; h < first + count; ++h)
  {
    // every history has its own generator state, so that a run can be resumed at any history
    vj::Rng rng(seed * 1000003ULL + static_cast<std::uint64_t>(h));
    std::string const fl = cycle[h % 8];
    reset_line(h, fl, "record");
    alarm(20);
    {
      std::unique_ptr<driver> d = make_driver(fl);
      runner r(*d);
      int const want = static_cast<int>(rng.range(1, maxlen));
      int guard = 0;
      while (guard++ < 20 * maxlen)
      {
        int const alive = static_cast<int>(live_lists(*d).size() + live_elems(*d).size());
        if (r.index + alive + 2 > want) break;
        op o;
        if (!random_op(rng, *d, o)) continue;
        r.step(o);
      }
      cleanup(r, 0, &rng);
    }
    alarm(0);
  }
  vj::line(vj::J().kv("e", "end").kv("histories", count));
  vj::close();
  return 0;
}

int replay(std::string const &fl, char const *scripts, char const *out, long long const offset)
{
  vj::open(out);
  auto lines = vj::read_lines(scripts);
  long long h = offset; // index of the first script (the destruction order is index mod 3)
  for (auto const &ln : lines)
  {
    vj::VP s = vj::parse(ln);
    reset_line(h, fl, "replay");
    alarm(20);
    {
      std::unique_ptr<driver> d = make_driver(fl);
      runner r(*d);
      for (auto const &x : s->a)
      {
        op o;
        o.name = x->str("op");
        o.l = static_cast<int>(x->num_or("l", 0));
        o.l2 = static_cast<int>(x->num_or("l2", 0));
        o.e = static_cast<int>(x->num_or("x", 0));
        o.e2 = static_cast<int>(x->num_or("x2", 0));
        r.step(o);
      }
      cleanup(r, static_cast<unsigned>(h), nullptr);
    }
    alarm(0);
    ++h;
  }
  vj::line(vj::J().kv("e", "end").kv("histories", h - offset));
  vj::close();
  return 0;
}
}

int main(int argc, char **argv)
try
{
  std::string const mode = argc > 1 ? argv[1] : "";
  if (mode == "record" && argc == 7)
    return record(argv[2], std::strtoull(argv[3], nullptr, 10), std::atoll(argv[4]), std::atoll(argv[5]), std::atoi(argv[6]));
  if (mode == "replay" && (argc == 5 || argc == 6)) return replay(argv[2], argv[3], argv[4], argc == 6 ? std::atoll(argv[5]) : 0);
  std::fprintf(stderr, "usage: c11_intrusive record OUT seed first count maxlen | replay FLAVOUR SCRIPTS OUT [first]\n");
  return 3;
}
catch (std::exception const &e)
{
  std::fprintf(stderr, "harness error: %s\n", e.what());
  return 4;
}
