// C11 conformance harness: drives fcppt::intrusive::list / fcppt::intrusive::base and
// fcppt::signal::object (plain and unregister flavour, with and without a result type, with 0, 1
// and 2 arguments) through operation histories and records, after every operation, what every
// live list / signal shows through its public interface:
//   lists   : forward iteration, forward iteration through const_iterator, backward iteration
//             (element ids), empty(); where the held iterator stands (which element, which
//             lists' end()/begin() it compares equal to)
//   signals : empty(), and one call of every callable signal: which callbacks ran with which
//             arguments and result, every combiner invocation, the returned value; plus the
//             unregister callbacks the operation itself ran; who owns which connection
//             (auto_connection holders - std::optional or fcppt::signal::optional_auto_connection -
//             and fcppt::signal::auto_connection_container's).
// It contains no expected values: spec/RingTrace.tla (TLC) is the judge.
//
// Every list, element, signal and connection is a separate heap object, created and destroyed
// ONLY by the operations of the history (destruction order is part of the history: elements
// hold pointers into lists and vice versa), so AddressSanitizer sees every access to a
// destroyed node.  At the end of a history everything still alive is destroyed by further,
// logged, operations.
//
// "observed" histories additionally contain reentrant operations (a callback that connects a
// new slot / drops another connection during the call, an unregister callback that drops another
// connection): the documentation is silent about them, they are driven under the sanitizers and
// logged, never judged.
//
//   c11_intrusive record OUT seed first count maxlen
//   c11_intrusive replay FLAVOUR SCRIPTS.ndjson OUT [index of the first script]
//                                                     (one JSON array of op records per line)
//   c11_intrusive probe_drop_self         (a callback that drops its OWN connection; observation)
//   flavours: list, and [u][v]sig[0|2]   (u = unregister::base, v = void result, arity 0/1/2)
//
// UNITS.  This file is normally compiled as a whole (the full harness).  If that does not compile
// against the tree under test, checks/c11.py compiles three CORE units from it separately
// (harness/c11_core_{list,sig,usig}.cpp define C11_CORE_LIST / C11_CORE_SIG / C11_CORE_USIG and
// include this file): each contains only what the STATEMENT of C11 names - lists and elements;
// signals and connections; signals with unregister callbacks - and none of the observed-only
// parts (unlink(), the held iterator, const iteration, auto_connection_container,
// optional_auto_connection, reentrant operations, the probe).  A core unit that does not compile
// is a verdict about the tree (C11:<unit>:does-not-compile); if only the full harness fails, the
// in-scope histories are still driven with the core units and the failure is an observation.
#include <common/vjson.hpp>

#if defined(C11_CORE_LIST) || defined(C11_CORE_SIG) || defined(C11_CORE_USIG)
#define C11_CORE 1
#define C11_WITH_EXTRAS 0
#ifdef C11_CORE_LIST
#define C11_WITH_LIST 1
#else
#define C11_WITH_LIST 0
#endif
#ifdef C11_CORE_SIG
#define C11_WITH_PLAIN 1
#else
#define C11_WITH_PLAIN 0
#endif
#ifdef C11_CORE_USIG
#define C11_WITH_UNREG 1
#else
#define C11_WITH_UNREG 0
#endif
#else
#define C11_CORE 0
#define C11_WITH_EXTRAS 1
#define C11_WITH_LIST 1
#define C11_WITH_PLAIN 1
#define C11_WITH_UNREG 1
#endif
#define C11_WITH_SIGNALS (C11_WITH_PLAIN || C11_WITH_UNREG)

#if C11_WITH_LIST
#include <fcppt/intrusive/base.hpp>
#include <fcppt/intrusive/list.hpp>
#endif
#if C11_WITH_SIGNALS
#include <fcppt/signal/auto_connection.hpp>
#include <fcppt/signal/object.hpp>
#endif
#if C11_WITH_PLAIN
#include <fcppt/signal/base.hpp>
#endif
#if C11_WITH_UNREG
#include <fcppt/signal/unregister/base.hpp>
#include <fcppt/signal/unregister/function.hpp>
#endif
#if C11_WITH_SIGNALS && C11_WITH_EXTRAS
#include <fcppt/signal/auto_connection_container.hpp>
#include <fcppt/signal/optional_auto_connection.hpp>
#endif

#include <sys/time.h>
#include <unistd.h>

#include <array>
#include <csignal>
#include <cstdio>
#include <exception>
#include <memory>
#include <optional>
#include <string>
#include <type_traits>
#include <utility>
#include <vector>

namespace
{
constexpr int NL = 3; // list / signal slots 1..NL
constexpr int NE = 8; // element / connection / holder slots 1..NE
constexpr int NB = 2; // connection containers 1..NB
constexpr int walk_limit = 2 * (NL + NE);

// a failure of the harness itself (bad script, unknown operation) - everything else that is thrown
// while an operation is driven comes from the code under test
struct harness_error : std::runtime_error
{
  using std::runtime_error::runtime_error;
};

struct op
{
  std::string name;
  int l = 0, l2 = 0, e = 0, e2 = 0, b = 0, mode = 0;
};

op mk(char const *name, int l = 0, int l2 = 0, int e = 0, int e2 = 0, int b = 0, int mode = 0)
{
  op o;
  o.name = name;
  o.l = l;
  o.l2 = l2;
  o.e = e;
  o.e2 = e2;
  o.b = b;
  o.mode = mode;
  return o;
}

std::string op_prefix(int index, op const &o)
{
  return vj::J().kv("e", "op").kv("i", index).kv("op", o.name).kv("l", o.l).kv("l2", o.l2).kv("x", o.e).kv("x2", o.e2).kv("b", o.b).kv("mode", o.mode).s;
}

bool lr(int x) { return x >= 1 && x <= NL; }
bool er(int x) { return x >= 1 && x <= NE; }
bool br(int x) { return x >= 1 && x <= NB; }
std::size_t ix(int x) { return static_cast<std::size_t>(x); }
int pick(vj::Rng &rng, std::vector<int> const &v) { return v[ix(static_cast<int>(rng.below(v.size())))]; }

std::string weighted(vj::Rng &rng, std::vector<std::pair<char const *, int>> const &w)
{
  int total = 0;
  for (auto const &p : w) total += p.second;
  int x = static_cast<int>(rng.below(static_cast<std::uint64_t>(total)));
  for (auto const &p : w)
  {
    if (x < p.second) return p.first;
    x -= p.second;
  }
  return w.back().first;
}

// what a history can be run on
struct driver
{
  driver() = default;
  driver(driver const &) = delete;
  driver &operator=(driver const &) = delete;
  virtual ~driver() = default;
  // the API precondition of the operation, decided from what the harness itself created / holds
  virtual bool pre(op const &) const = 0;
  virtual void apply(op const &, int index) = 0;
  // ,"lists":[...],"elive":[...],...
  virtual std::string observe(int index, op const &) = 0;
  // level 0: only the operations the statement of C11 names; 1: all judged operations;
  // 2: also the reentrant (observed only) ones
  // dense: (level 0 only) mostly constructs elements / connections, preferably in the first live
  // list / signal, so that a single list reaches the 6, 7, 8 members of the property's bound
  virtual bool random_op(vj::Rng &, op &, int level, bool dense) const = 0;
  // the next operation that destroys something still alive (false: nothing is left)
  virtual bool next_cleanup(op &, unsigned order, vj::Rng *) const = 0;
  // how many destroying operations are needed to end the history now
  virtual int alive_count() const = 0;
};

// ------------------------------------------------------------------------------ lists
#if C11_WITH_LIST
class elem;
using list_t = fcppt::intrusive::list<elem>;

class elem : public fcppt::intrusive::base<elem>
{
public:
  using hook = fcppt::intrusive::base<elem>;
  elem(list_t &_list, int const _id) : hook{_list}, id{_id} {}
  // the id names the SLOT (the object), not the link that is taken over
  elem(elem &&_other, int const _id) : hook{std::move(static_cast<hook &>(_other))}, id{_id} {}
  void take(elem &&_other) { static_cast<hook &>(*this) = std::move(static_cast<hook &>(_other)); }
  elem(elem const &) = delete;
  elem &operator=(elem const &) = delete;
  ~elem() = default;
  int id;
};

struct list_driver : driver
{
  std::array<std::unique_ptr<list_t>, NL + 1> L;
  std::array<std::unique_ptr<elem>, NE + 1> E;
  std::optional<list_t::iterator> it; // the one held iterator
  bool ret_old = true;                // postfix step returned the old position

  bool llive(int l) const { return L[ix(l)] != nullptr; }
  bool elive(int e) const { return E[ix(e)] != nullptr; }
  std::vector<int> lists(bool live) const
  {
    std::vector<int> r;
    for (int k = 1; k <= NL; ++k)
      if (llive(k) == live) r.push_back(k);
    return r;
  }
  std::vector<int> elems(bool live) const
  {
    std::vector<int> r;
    for (int k = 1; k <= NE; ++k)
      if (elive(k) == live) r.push_back(k);
    return r;
  }

  // Is this address one of the live element objects?  (Never dereferences the pointer: a walk
  // that reaches anything else - a head of another list, a destroyed node - stops there.)
  int live_elem_id(elem const *p) const
  {
    for (int j = 1; j <= NE; ++j)
      if (E[ix(j)].get() == p) return j;
    return 0;
  }
  // where the held iterator stands, by address / operator== only
  int it_elem() const { return it ? live_elem_id(&**it) : 0; }
  std::vector<int> it_end_of() const
  {
    std::vector<int> r;
    if (it)
      for (int k : lists(true))
        if (*it == L[ix(k)]->end()) r.push_back(k);
    return r;
  }
  std::vector<int> it_begin_of() const
  {
    std::vector<int> r;
    if (it)
      for (int k : lists(true))
        if (*it == L[ix(k)]->begin()) r.push_back(k);
    return r;
  }
  // stepping is memory safe (and defined for a bidirectional iterator) only from these positions
  bool can_inc() const { return it && it_elem() != 0; }
  bool can_dec() const
  {
    if (!it) return false;
    if (it_elem() != 0) return it_begin_of().empty();
    for (int k : it_end_of())
      if (!L[ix(k)]->empty()) return true;
    return false;
  }

  bool pre(op const &o) const override
  {
    std::string const &n = o.name;
    if (n == "list_ctor") return lr(o.l) && !llive(o.l);
    if (n == "list_move_ctor") return lr(o.l) && lr(o.l2) && !llive(o.l) && llive(o.l2);
    if (n == "list_move_assign") return lr(o.l) && lr(o.l2) && o.l != o.l2 && llive(o.l) && llive(o.l2);
    if (n == "list_dtor") return lr(o.l) && llive(o.l);
    if (n == "elem_ctor") return er(o.e) && lr(o.l) && !elive(o.e) && llive(o.l);
    if (n == "elem_move_ctor") return er(o.e) && er(o.e2) && !elive(o.e) && elive(o.e2);
    if (n == "elem_move_assign") return er(o.e) && er(o.e2) && o.e != o.e2 && elive(o.e) && elive(o.e2);
    if (n == "elem_dtor") return er(o.e) && elive(o.e);
#if C11_WITH_EXTRAS
    if (n == "unlink") return er(o.e) && elive(o.e);
    if (n == "iter_begin" || n == "iter_end") return lr(o.l) && llive(o.l);
    if (n == "iter_inc") return can_inc();
    if (n == "iter_dec") return can_dec();
    if (n == "iter_drop") return it.has_value();
#endif
    return false;
  }

  void apply(op const &o, int) override
  {
    auto &l = L[ix(o.l)];
    auto &l2 = L[ix(o.l2)];
    auto &e = E[ix(o.e)];
    auto &e2 = E[ix(o.e2)];
    if (o.name == "list_ctor") l = std::make_unique<list_t>();
    else if (o.name == "list_move_ctor") l = std::make_unique<list_t>(std::move(*l2));
    else if (o.name == "list_move_assign") *l = std::move(*l2);
    else if (o.name == "list_dtor") l.reset();
    else if (o.name == "elem_ctor") e = std::make_unique<elem>(*l, o.e);
    else if (o.name == "elem_move_ctor") e = std::make_unique<elem>(std::move(*e2), o.e);
    else if (o.name == "elem_move_assign") e->take(std::move(*e2));
    else if (o.name == "elem_dtor") e.reset();
#if C11_WITH_EXTRAS
    else if (o.name == "unlink") e->unlink();
    else if (o.name == "iter_begin") it = l->begin();
    else if (o.name == "iter_end") it = l->end();
    else if (o.name == "iter_inc" || o.name == "iter_dec")
    {
      bool const inc = o.name == "iter_inc";
      if (o.mode == 0)
      {
        if (inc) ++*it; else --*it;
        ret_old = true;
      }
      else
      {
        list_t::iterator const old = *it;
        list_t::iterator const r = inc ? (*it)++ : (*it)--;
        ret_old = (r == old);
      }
    }
    else if (o.name == "iter_drop") it.reset();
#endif
    else throw harness_error("unknown list op " + o.name);
  }

  std::string observe(int, op const &) override
  {
    vj::J lists_j('[');
    for (int k = 1; k <= NL; ++k)
    {
      vj::J r;
      auto &lp = L[ix(k)];
      std::vector<int> fwd, cfwd, bwd;
      bool fok = true, cok = true, bok = true, empty = true;
      if (lp)
      {
        list_t &l = *lp;
        list_t const &cl = *lp;
        empty = cl.empty();
        int steps = 0;
        for (list_t::iterator i = l.begin(); i != l.end(); ++i)
        {
          int const id = live_elem_id(&*i);
          if (id == 0 || ++steps > walk_limit) { fok = false; break; }
          fwd.push_back((*i).id);
        }
#if C11_WITH_EXTRAS
        steps = 0;
        for (list_t::const_iterator i = cl.begin(); i != cl.end(); ++i)
        {
          int const id = live_elem_id(&*i);
          if (id == 0 || ++steps > walk_limit) { cok = false; break; }
          cfwd.push_back((*i).id);
        }
#endif
        steps = 0;
        for (list_t::iterator i = l.end();;)
        {
          --i;
          if (i == l.end()) break;
          int const id = live_elem_id(&*i);
          if (id == 0 || ++steps > walk_limit) { bok = false; break; }
          bwd.push_back((*i).id);
        }
      }
      r.kv("live", lp != nullptr);
      if (lp) r.kv("empty", empty).kv("fwd", fwd).kv("cfwd", cfwd).kv("bwd", bwd).kv("fok", fok).kv("cok", cok).kv("bok", bok);
      lists_j.el_raw(r.str());
    }
    std::vector<int> el;
    for (int j = 1; j <= NE; ++j) el.push_back(elive(j) ? 1 : 0);
    vj::J ij;
    ij.kv("held", it.has_value()).kv("elem", it_elem()).kv("end_of", it_end_of()).kv("begin_of", it_begin_of()).kv("ret_old", ret_old);
    return ",\"lists\":" + lists_j.str() + ",\"elive\":" + vj::arr(el) + ",\"unreg\":[],\"iter\":" + ij.str();
  }

  bool random_op(vj::Rng &rng, op &o, int const level, bool const dense) const override
  {
    static std::vector<std::pair<char const *, int>> const w0 = {
        {"list_ctor", 4}, {"list_move_ctor", 3}, {"list_move_assign", 5}, {"list_dtor", 2}, {"elem_ctor", 8},
        {"elem_move_ctor", 3}, {"elem_move_assign", 3}, {"elem_dtor", 4}};
    static std::vector<std::pair<char const *, int>> const wd = {
        {"list_ctor", 2}, {"list_move_ctor", 1}, {"list_move_assign", 1}, {"list_dtor", 1}, {"elem_ctor", 16},
        {"elem_move_ctor", 3}, {"elem_move_assign", 3}, {"elem_dtor", 2}};
    static std::vector<std::pair<char const *, int>> const w = {
        {"list_ctor", 4}, {"list_move_ctor", 3}, {"list_move_assign", 5}, {"list_dtor", 2}, {"elem_ctor", 8},
        {"elem_move_ctor", 3}, {"elem_move_assign", 3}, {"elem_dtor", 4}, {"unlink", 2},
        {"iter_begin", 3}, {"iter_end", 1}, {"iter_inc", 6}, {"iter_dec", 3}, {"iter_drop", 1}};
    std::string const kind = weighted(rng, dense ? wd : level == 0 ? w0 : w);
    auto ll = lists(true), dl = lists(false), le = elems(true), de = elems(false);
    o = op{};
    o.name = kind;
    if (kind == "list_ctor") { if (dl.empty()) return false; o.l = pick(rng, dl); }
    else if (kind == "list_move_ctor") { if (dl.empty() || ll.empty()) return false; o.l = pick(rng, dl); o.l2 = pick(rng, ll); }
    else if (kind == "list_move_assign")
    {
      if (ll.size() < 2) return false;
      o.l = pick(rng, ll);
      do o.l2 = pick(rng, ll); while (o.l2 == o.l);
    }
    else if (kind == "list_dtor" || kind == "iter_begin" || kind == "iter_end") { if (ll.empty()) return false; o.l = pick(rng, ll); }
    else if (kind == "elem_ctor")
    {
      if (de.empty() || ll.empty()) return false;
      o.e = pick(rng, de);
      o.l = dense && rng.below(4) != 0 ? ll.front() : pick(rng, ll);
    }
    else if (kind == "elem_move_ctor") { if (de.empty() || le.empty()) return false; o.e = pick(rng, de); o.e2 = pick(rng, le); }
    else if (kind == "elem_move_assign")
    {
      if (le.size() < 2) return false;
      o.e = pick(rng, le);
      do o.e2 = pick(rng, le); while (o.e2 == o.e);
    }
    else if (kind == "elem_dtor" || kind == "unlink") { if (le.empty()) return false; o.e = pick(rng, le); }
    else if (kind == "iter_inc" || kind == "iter_dec") o.mode = rng.coin() ? 1 : 0;
    return pre(o);
  }

  int alive_count() const override { return static_cast<int>(lists(true).size() + elems(true).size()) + (it ? 1 : 0); }

  bool next_cleanup(op &o, unsigned order, vj::Rng *rng) const override
  {
    if (it) { o = mk("iter_drop"); return true; }
    auto ls = lists(true), es = elems(true);
    if (ls.empty() && es.empty()) return false;
    bool list_first;
    if (rng != nullptr)
    {
      std::size_t const p = static_cast<std::size_t>(rng->below(ls.size() + es.size()));
      o = p < ls.size() ? mk("list_dtor", ls[p]) : mk("elem_dtor", 0, 0, es[p - ls.size()]);
      return true;
    }
    switch (order % 3U)
    {
    case 0: list_first = true; break;  // lists before their elements
    case 1: list_first = false; break;
    default: list_first = ((ls.size() + es.size()) % 2U) == 0U; break; // interleaved
    }
    if ((list_first && !ls.empty()) || es.empty()) o = mk("list_dtor", order % 3U == 2U ? ls.back() : ls.front());
    else o = mk("elem_dtor", 0, 0, order % 3U == 2U ? es.back() : es.front());
    return true;
  }
};

#endif // C11_WITH_LIST

// ------------------------------------------------------------------------------ signals
#if C11_WITH_SIGNALS
struct overrun
{
};

struct cb_rec
{
  int c;
  std::vector<int> args;
  int r;
};
struct comb_rec
{
  int a, b, r;
};

template <int Arity, bool Res>
struct fn_type;
template <> struct fn_type<0, true> { using type = int(); };
template <> struct fn_type<1, true> { using type = int(int); };
template <> struct fn_type<2, true> { using type = int(int, int); };
template <> struct fn_type<0, false> { using type = void(); };
template <> struct fn_type<1, false> { using type = void(int); };
template <> struct fn_type<2, false> { using type = void(int, int); };

template <typename F, bool Unr>
struct sig_of;
#if C11_WITH_PLAIN
template <typename F> struct sig_of<F, false> { using type = fcppt::signal::object<F>; };
#endif
#if C11_WITH_UNREG
template <typename F> struct sig_of<F, true> { using type = fcppt::signal::object<F, fcppt::signal::unregister::base>; };
#endif
template <int Arity, bool Res, bool Unr>
using sig_type = typename sig_of<typename fn_type<Arity, Res>::type, Unr>::type;

// a container of connections: fcppt::signal::auto_connection_container (observed only; the core
// units use the vector it is documented to be, so that they do not depend on that header)
#if C11_WITH_EXTRAS
using box_t = fcppt::signal::auto_connection_container;
#else
using box_t = std::vector<fcppt::signal::auto_connection>;
#endif

// the owner of a connection: an auto_connection inside a std::optional or inside an
// fcppt::signal::optional_auto_connection (chosen per history)
struct holder
{
  bool use_opt = false;
  std::optional<fcppt::signal::auto_connection> s;
  int id = 0; // the connection it owns (0: none) - what the harness itself put there
#if C11_WITH_EXTRAS
  fcppt::signal::optional_auto_connection o;
  fcppt::signal::auto_connection &ref() { return use_opt ? o.get_unsafe() : *s; }
  void put(fcppt::signal::auto_connection &&c, int const _id)
  {
    if (use_opt) o = fcppt::signal::optional_auto_connection{std::move(c)};
    else s.emplace(std::move(c));
    id = _id;
  }
  void clear() // destroys the auto_connection object (and the connection if it still owns it)
  {
    if (use_opt) o = fcppt::signal::optional_auto_connection{};
    else s.reset();
    id = 0;
  }
#else
  fcppt::signal::auto_connection &ref() { return *s; }
  void put(fcppt::signal::auto_connection &&c, int const _id)
  {
    s.emplace(std::move(c));
    id = _id;
  }
  void clear()
  {
    s.reset();
    id = 0;
  }
#endif
  fcppt::signal::auto_connection take()
  {
    fcppt::signal::auto_connection r{std::move(ref())};
    clear();
    return r;
  }
};

template <int Arity, bool Res, bool Unr>
struct sig_driver : driver
{
  using Sig = sig_type<Arity, Res, Unr>;
  std::array<std::unique_ptr<Sig>, NL + 1> S;
  std::array<holder, NE + 1> H;
  std::array<std::optional<box_t>, NB + 1> B;
  std::array<std::vector<int>, NB + 1> bid; // the connections the harness pushed into each container
  std::array<bool, NL + 1> has_comb{};     // generator-side precondition of a call (moved-from combiner)
  std::array<std::vector<int>, NL + 1> last_called;
  std::vector<cb_rec> cbs;
  std::vector<comb_rec> combs;
  std::vector<int> unreg;
  // What every unregister callback saw of the signals while its connection was dying (one entry per
  // run of an unregister callback, in order): "a connection that is being destroyed is not alive",
  // and signal.doxygen ("Disconnect callbacks") / examples/signal/unregister.cpp ask the signal
  // from inside that callback whether it has become empty.  Recorded in every history except
  // during the reentrant (observed only) operations, where a call may already be in progress.
  std::vector<std::string> dying;
  bool view_enabled = true;
  int cur_index = 0;
  // reentrancy (observed histories only): what the callback of connection `who` does when it runs
  struct pending_t
  {
    int kind = 0; // 1 connect holder `target` to signal `sig`, 2 drop holder `target`, 3 (unregister callback) drop holder `target`
    int who = 0, target = 0, sig = 0;
  } pending;

  explicit sig_driver(bool const opt_holders)
  {
    for (auto &h : H) h.use_opt = opt_holders && C11_WITH_EXTRAS != 0;
  }

  bool llive(int l) const { return S[ix(l)] != nullptr; }
  bool blive(int b) const { return B[ix(b)].has_value(); }
  bool full(int h) const { return H[ix(h)].id != 0; }
  bool conn_alive(int c) const
  {
    for (int h = 1; h <= NE; ++h)
      if (H[ix(h)].id == c) return true;
    for (int b = 1; b <= NB; ++b)
      for (int x : bid[ix(b)])
        if (x == c) return true;
    return false;
  }
  bool callable(int l) const { return llive(l) && (!Res || has_comb[ix(l)]); }
  std::vector<int> sigs(bool live) const
  {
    std::vector<int> r;
    for (int k = 1; k <= NL; ++k)
      if (llive(k) == live) r.push_back(k);
    return r;
  }
  std::vector<int> holders(bool is_full) const
  {
    std::vector<int> r;
    for (int k = 1; k <= NE; ++k)
      if (full(k) == is_full) r.push_back(k);
    return r;
  }
  std::vector<int> boxes(bool live) const
  {
    std::vector<int> r;
    for (int k = 1; k <= NB; ++k)
      if (blive(k) == live) r.push_back(k);
    return r;
  }

  void run_pending(int const kind_wanted, int const who)
  {
    if (pending.kind != kind_wanted || pending.who != who) return;
    pending_t const p = pending;
    pending = pending_t{};
    if (p.kind == 1) H[ix(p.target)].put(connect_to(p.sig, p.target), p.target);
    else H[ix(p.target)].clear();
  }

  int callback(int const c, std::vector<int> args)
  {
    if (cbs.size() > static_cast<std::size_t>(walk_limit)) throw overrun{};
    int r = c * 16 + 3;
    for (int a : args) r = (r * 7 + a) % 251;
    cbs.push_back(cb_rec{c, std::move(args), r});
    run_pending(1, c);
    run_pending(2, c);
    return r;
  }

  std::unique_ptr<Sig> make_signal()
  {
    if constexpr (Res)
      // neither commutative nor associative: pins the LEFT fold and the initial value
      return std::make_unique<Sig>(typename Sig::combiner_function{[this](int const a, int const b) {
        int const r = (a * 3 + b + 1) % 9973;
        combs.push_back(comb_rec{a, b, r});
        return r;
      }});
    else
      return std::make_unique<Sig>();
  }

  typename Sig::function make_function(int const c)
  {
    if constexpr (Arity == 0)
    {
      if constexpr (Res) return typename Sig::function{[this, c]() { return this->callback(c, {}); }};
      else return typename Sig::function{[this, c]() { this->callback(c, {}); }};
    }
    else if constexpr (Arity == 1)
    {
      if constexpr (Res) return typename Sig::function{[this, c](int const a) { return this->callback(c, {a}); }};
      else return typename Sig::function{[this, c](int const a) { this->callback(c, {a}); }};
    }
    else
    {
      if constexpr (Res) return typename Sig::function{[this, c](int const a, int const b) { return this->callback(c, {a, b}); }};
      else return typename Sig::function{[this, c](int const a, int const b) { this->callback(c, {a, b}); }};
    }
  }

  fcppt::signal::auto_connection connect_to(int const l, int const id)
  {
    if constexpr (Unr)
    {
#if C11_WITH_UNREG
      return S[ix(l)]->connect(make_function(id), fcppt::signal::unregister::function{[this, id] {
        unreg.push_back(id);
        this->dying_view(id);
        this->run_pending(3, id);
      }});
#endif
    }
    else
      return S[ix(l)]->connect(make_function(id));
  }

  bool pre(op const &o) const override
  {
    std::string const &n = o.name;
    if (n == "sig_ctor") return lr(o.l) && !llive(o.l);
    if (n == "sig_move_ctor") return lr(o.l) && lr(o.l2) && !llive(o.l) && llive(o.l2);
    if (n == "sig_move_assign") return lr(o.l) && lr(o.l2) && o.l != o.l2 && llive(o.l) && llive(o.l2);
    if (n == "sig_dtor") return lr(o.l) && llive(o.l);
    if (n == "connect") return er(o.e) && lr(o.l) && !full(o.e) && !conn_alive(o.e) && llive(o.l);
    if (n == "disconnect") return er(o.e) && full(o.e);
    if (n == "hold_move") return er(o.e) && er(o.e2) && !full(o.e) && full(o.e2);
    if (n == "hold_assign") return er(o.e) && er(o.e2) && o.e != o.e2 && full(o.e) && full(o.e2);
    if (n == "box_ctor") return br(o.b) && !blive(o.b);
    if (n == "box_push") return br(o.b) && blive(o.b) && er(o.e) && full(o.e);
    if (n == "box_dtor") return br(o.b) && blive(o.b);
    if (C11_CORE != 0) return false;
    // observed only: o.e = the connection whose callback acts, o.e2 = the holder it acts on
    if (n == "reent_connect") return lr(o.l) && callable(o.l) && er(o.e) && conn_alive(o.e) && er(o.e2) && !full(o.e2) && !conn_alive(o.e2);
    if (n == "reent_drop") return lr(o.l) && callable(o.l) && er(o.e) && conn_alive(o.e) && er(o.e2) && full(o.e2) && H[ix(o.e2)].id != o.e;
    if (n == "unreg_drop") return Unr && er(o.e) && full(o.e) && er(o.e2) && o.e2 != o.e && full(o.e2);
    return false;
  }

  struct call_out
  {
    bool done = false, over = false, threw = false;
    int init = 0, ret = 0;
    std::vector<int> args;
  };

  call_out do_call(int const k, int const index)
  {
    call_out c;
    c.init = (index * 7 + k) % 50;
    int const a1 = (index + 3 * k) % 16, a2 = (index * 5 + k) % 11;
    if (Arity >= 1) c.args.push_back(a1);
    if (Arity >= 2) c.args.push_back(a2);
    cbs.clear();
    combs.clear();
    Sig &s = *S[ix(k)];
    c.done = true;
    try
    {
      if constexpr (Res)
      {
        if constexpr (Arity == 0) c.ret = s(typename Sig::initial_value{c.init});
        else if constexpr (Arity == 1) c.ret = s(typename Sig::initial_value{c.init}, a1);
        else c.ret = s(typename Sig::initial_value{c.init}, a1, a2);
      }
      else
      {
        if constexpr (Arity == 0) s();
        else if constexpr (Arity == 1) s(a1);
        else s(a1, a2);
      }
    }
    catch (overrun const &)
    {
      c.over = true;
    }
    catch (std::exception const &)
    {
      c.threw = true; // no callback of the harness throws this
    }
    return c;
  }

  void apply(op const &o, int const index) override
  {
    auto const li = ix(o.l), l2i = ix(o.l2);
    auto &s = S[li];
    auto &s2 = S[l2i];
    std::string const &n = o.name;
    cur_index = index;
    view_enabled = !(n == "reent_connect" || n == "reent_drop" || n == "unreg_drop");
    if (n == "sig_ctor") { s = make_signal(); has_comb[li] = true; }
    else if (n == "sig_move_ctor") { s = std::make_unique<Sig>(std::move(*s2)); has_comb[li] = has_comb[l2i]; has_comb[l2i] = false; }
    else if (n == "sig_move_assign") { *s = std::move(*s2); has_comb[li] = has_comb[l2i]; has_comb[l2i] = false; }
    else if (n == "sig_dtor") { s.reset(); has_comb[li] = false; }
    else if (n == "connect") H[ix(o.e)].put(connect_to(o.l, o.e), o.e);
    else if (n == "disconnect") H[ix(o.e)].clear();
    else if (n == "hold_move")
    {
      int const id = H[ix(o.e2)].id;
      H[ix(o.e)].put(H[ix(o.e2)].take(), id); // auto_connection move construction
    }
    else if (n == "hold_assign")
    {
      int const id = H[ix(o.e2)].id;
      H[ix(o.e)].ref() = std::move(H[ix(o.e2)].ref()); // auto_connection move assignment
      H[ix(o.e)].id = id;
      H[ix(o.e2)].clear();
    }
    else if (n == "box_ctor") { B[ix(o.b)].emplace(); bid[ix(o.b)].clear(); }
    else if (n == "box_push")
    {
      int const id = H[ix(o.e)].id;
      B[ix(o.b)]->push_back(H[ix(o.e)].take());
      bid[ix(o.b)].push_back(id);
    }
    else if (n == "box_dtor") { bid[ix(o.b)].clear(); B[ix(o.b)].reset(); }
    else if (n == "reent_connect" || n == "reent_drop")
    {
      pending.kind = n == "reent_connect" ? 1 : 2;
      pending.who = o.e;
      pending.target = o.e2;
      pending.sig = o.l;
      do_call(o.l, index);
      pending = pending_t{};
    }
    else if (n == "unreg_drop")
    {
      pending.kind = 3;
      pending.who = H[ix(o.e)].id;
      pending.target = o.e2;
      H[ix(o.e)].clear();
      pending = pending_t{};
    }
    else throw harness_error("unknown signal op " + n);
  }

  // what signal slot k shows now: empty() and, if it is callable, one call
  std::string sig_record(int const k, int const index, bool const remember)
  {
    vj::J r;
    auto &sp = S[ix(k)];
    r.kv("live", sp != nullptr);
    if (sp)
    {
      bool const empty = sp->empty();
      call_out c;
      cbs.clear();
      combs.clear();
      if (callable(k)) c = do_call(k, index);
      else { c.init = 0; }
      vj::J jc('['), jm('[');
      if (remember) last_called[ix(k)].clear();
      for (auto const &x : cbs)
      {
        jc.el_raw(vj::J().kv("c", x.c).kv("args", x.args).kv("r", x.r).str());
        if (remember) last_called[ix(k)].push_back(x.c);
      }
      for (auto const &x : combs) jm.el_raw(vj::J().kv("a", x.a).kv("b", x.b).kv("r", x.r).str());
      vj::J call;
      call.kv("done", c.done).kv("init", c.init).kv("args", c.args).kv("ret", c.ret).kv("over", c.over).kv("threw", c.threw).raw("cbs", jc.str()).raw("combs", jm.str());
      r.kv("empty", empty).raw("call", call.str());
    }
    return r.str();
  }

  // called from inside the unregister callback of connection `id`: what every live signal shows
  // at that moment (`owner` = the signal that called this connection at the last observation; only
  // a hint for the reader of a report, the judge does not use it)
  void dying_view(int const id)
  {
    if (!view_enabled) return;
    int owner = 0;
    for (int k = 1; k <= NL; ++k)
      if (llive(k))
        for (int c : last_called[ix(k)])
          if (c == id) owner = k;
    vj::J sigs_j('[');
    for (int k = 1; k <= NL; ++k) sigs_j.el_raw(sig_record(k, cur_index + 1000 * static_cast<int>(dying.size() + 1), false));
    cbs.clear();
    combs.clear();
    dying.push_back(vj::J().kv("c", id).kv("owner", owner).raw("sigs", sigs_j.str()).str());
  }

  std::string observe(int const index, op const &) override
  {
    vj::J lists_j('[');
    for (int k = 1; k <= NL; ++k) lists_j.el_raw(sig_record(k, index, true));
    cbs.clear();
    combs.clear();
    std::vector<int> el, hold;
    for (int j = 1; j <= NE; ++j) el.push_back(conn_alive(j) ? 1 : 0);
    for (int j = 1; j <= NE; ++j) hold.push_back(H[ix(j)].id);
    vj::J boxes_j('[');
    for (int b = 1; b <= NB; ++b) boxes_j.el_raw(vj::J().kv("live", blive(b)).kv("ids", bid[ix(b)]).str());
    vj::J dying_j('[');
    for (auto const &v : dying) dying_j.el_raw(v);
    std::string const res = ",\"lists\":" + lists_j.str() + ",\"elive\":" + vj::arr(el) + ",\"unreg\":" + vj::arr(unreg) + ",\"hold\":" + vj::arr(hold) + ",\"boxes\":" + boxes_j.str() + ",\"dying\":" + dying_j.str();
    unreg.clear();
    dying.clear();
    return res;
  }

  bool random_op(vj::Rng &rng, op &o, int const level, bool const dense) const override
  {
    static std::vector<std::pair<char const *, int>> const w0 = {
        {"sig_ctor", 4}, {"sig_move_ctor", 3}, {"sig_move_assign", 5}, {"sig_dtor", 2}, {"connect", 9}, {"disconnect", 5}};
    static std::vector<std::pair<char const *, int>> const wd = {
        {"sig_ctor", 2}, {"sig_move_ctor", 1}, {"sig_move_assign", 1}, {"sig_dtor", 1}, {"connect", 16}, {"disconnect", 2}};
    static std::vector<std::pair<char const *, int>> const w = {
        {"sig_ctor", 4}, {"sig_move_ctor", 3}, {"sig_move_assign", 5}, {"sig_dtor", 2}, {"connect", 10}, {"disconnect", 4},
        {"hold_move", 2}, {"hold_assign", 2}, {"box_ctor", 1}, {"box_push", 3}, {"box_dtor", 1}};
    static std::vector<std::pair<char const *, int>> const wo = {
        {"sig_ctor", 4}, {"sig_move_ctor", 2}, {"sig_move_assign", 3}, {"sig_dtor", 1}, {"connect", 10}, {"disconnect", 3},
        {"hold_move", 1}, {"hold_assign", 1}, {"box_ctor", 1}, {"box_push", 2}, {"box_dtor", 1},
        {"reent_connect", 5}, {"reent_drop", 5}, {"unreg_drop", 3}};
    std::string const kind = weighted(rng, dense ? wd : level == 2 ? wo : level == 1 ? w : w0);
    auto ls = sigs(true), ds = sigs(false), fh = holders(true), eh = holders(false), lb = boxes(true), db = boxes(false);
    o = op{};
    o.name = kind;
    if (kind == "sig_ctor") { if (ds.empty()) return false; o.l = pick(rng, ds); }
    else if (kind == "sig_move_ctor") { if (ds.empty() || ls.empty()) return false; o.l = pick(rng, ds); o.l2 = pick(rng, ls); }
    else if (kind == "sig_move_assign")
    {
      if (ls.size() < 2) return false;
      o.l = pick(rng, ls);
      do o.l2 = pick(rng, ls); while (o.l2 == o.l);
    }
    else if (kind == "sig_dtor") { if (ls.empty()) return false; o.l = pick(rng, ls); }
    else if (kind == "connect")
    {
      if (eh.empty() || ls.empty()) return false;
      o.e = pick(rng, eh);
      o.l = dense && rng.below(4) != 0 ? ls.front() : pick(rng, ls);
    }
    else if (kind == "disconnect") { if (fh.empty()) return false; o.e = pick(rng, fh); }
    else if (kind == "hold_move") { if (fh.empty() || eh.empty()) return false; o.e = pick(rng, eh); o.e2 = pick(rng, fh); }
    else if (kind == "hold_assign")
    {
      if (fh.size() < 2) return false;
      o.e = pick(rng, fh);
      do o.e2 = pick(rng, fh); while (o.e2 == o.e);
    }
    else if (kind == "box_ctor") { if (db.empty()) return false; o.b = pick(rng, db); }
    else if (kind == "box_push") { if (lb.empty() || fh.empty()) return false; o.b = pick(rng, lb); o.e = pick(rng, fh); }
    else if (kind == "box_dtor") { if (lb.empty()) return false; o.b = pick(rng, lb); }
    else if (kind == "reent_connect" || kind == "reent_drop")
    {
      // the acting connection is one the signal was SEEN to call in the last observation
      if (ls.empty()) return false;
      o.l = pick(rng, ls);
      auto const &lc = last_called[ix(o.l)];
      if (lc.empty()) return false;
      o.e = pick(rng, lc);
      if (kind == "reent_connect") { if (eh.empty()) return false; o.e2 = pick(rng, eh); }
      else { if (fh.empty()) return false; o.e2 = pick(rng, fh); }
    }
    else if (kind == "unreg_drop")
    {
      if (fh.size() < 2) return false;
      o.e = pick(rng, fh);
      do o.e2 = pick(rng, fh); while (o.e2 == o.e);
    }
    return pre(o);
  }

  int alive_count() const override { return static_cast<int>(sigs(true).size() + holders(true).size() + boxes(true).size()); }

  bool next_cleanup(op &o, unsigned order, vj::Rng *rng) const override
  {
    auto ls = sigs(true), fh = holders(true), lb = boxes(true);
    std::vector<op> all;
    for (int l : ls) all.push_back(mk("sig_dtor", l));
    for (int h : fh) all.push_back(mk("disconnect", 0, 0, h));
    for (int b : lb) all.push_back(mk("box_dtor", 0, 0, 0, 0, b));
    if (all.empty()) return false;
    if (rng != nullptr) { o = all[static_cast<std::size_t>(rng->below(all.size()))]; return true; }
    switch (order % 3U)
    {
    case 0: o = all.front(); break;                // signals before their connections
    case 1: o = all.back(); break;                 // containers, then holders, then signals
    default: o = all[all.size() / 2U]; break;
    }
    return true;
  }
};
#endif // C11_WITH_SIGNALS

struct flavour
{
  std::string name;
  bool list = false, res = false, unr = false;
  int arity = 1;
};

flavour parse_flavour(std::string const &fl)
{
  flavour f;
  f.name = fl;
  if (fl == "list") { f.list = true; return f; }
  std::string r = fl;
  if (!r.empty() && r[0] == 'u') { f.unr = true; r.erase(0, 1); }
  f.res = true;
  if (!r.empty() && r[0] == 'v') { f.res = false; r.erase(0, 1); }
  if (r == "sig") f.arity = 1;
  else if (r == "sig0") f.arity = 0;
  else if (r == "sig2") f.arity = 2;
  else throw harness_error("unknown flavour " + fl);
  return f;
}

// nullptr: this unit does not contain the flavour
#if C11_WITH_SIGNALS
template <int A>
std::unique_ptr<driver> make_sig(flavour const &f, bool const opt)
{
#if C11_WITH_UNREG
  if (f.res && f.unr) return std::make_unique<sig_driver<A, true, true>>(opt);
  if (f.unr) return std::make_unique<sig_driver<A, false, true>>(opt);
#endif
#if C11_WITH_PLAIN
  if (f.res && !f.unr) return std::make_unique<sig_driver<A, true, false>>(opt);
  if (!f.unr) return std::make_unique<sig_driver<A, false, false>>(opt);
#endif
  (void)opt;
  return nullptr;
}
#endif

std::unique_ptr<driver> make_driver(flavour const &f, bool const opt_holders)
{
  if (f.list)
  {
#if C11_WITH_LIST
    return std::make_unique<list_driver>();
#else
    return nullptr;
#endif
  }
#if C11_WITH_SIGNALS
  if (f.arity == 0) return make_sig<0>(f, opt_holders);
  if (f.arity == 1) return make_sig<1>(f, opt_holders);
  return make_sig<2>(f, opt_holders);
#else
  (void)opt_holders;
  return nullptr;
#endif
}

// ------------------------------------------------------------------------------ running
struct runner
{
  driver &d;
  int index = 0;
  explicit runner(driver &_d) : d(_d) {}
  void step(op const &_o)
  {
    op o = _o;
    if (!d.pre(o))
    {
      // Stepping the held iterator is only done from a position where it is memory safe, and that
      // is decided from what the LIBRARY shows (addresses, operator==, empty()): a scripted step
      // the harness cannot take is logged as refused (the judge knows whether it should have been
      // possible).  Every other precondition depends on the harness' own bookkeeping only: there
      // a failure is a bug of the script's producer.
      if (o.name != "iter_inc" && o.name != "iter_dec")
        throw harness_error("operation outside the API precondition: " + o.name);
      o.mode = o.name == "iter_inc" ? 1 : 2;
      o.name = "iter_refused";
    }
    ++index;
    vj::begin_call(op_prefix(index, o));
    try
    {
      if (o.name != "iter_refused") d.apply(o, index);
      std::string const obs = d.observe(index, o);
      vj::end_call(obs + "}");
    }
    catch (harness_error const &)
    {
      throw;
    }
    catch (std::exception const &e)
    {
      // No function of the harness throws anything else: this exception comes out of the driven
      // library operation (none of them is documented to throw).  The line of the operation stays
      // truncated, the check turns it into the rejection of this operation ("crash").
      std::fprintf(stderr, "exception thrown by the code under test during %s: %s\n", o.name.c_str(), e.what());
      vj::crash_line("exception", 0);
      std::_Exit(67);
    }
  }
};

void reset_line(long long h, flavour const &f, char const *mode, bool observed, bool opt_holders)
{
  vj::line(vj::J().kv("e", "reset").kv("h", h).kv("fl", f.name).kv("list", f.list).kv("res", f.res).kv("unr", f.unr).kv("arity", f.arity).kv("observed", observed).kv("opt_holders", opt_holders).kv("core", C11_CORE != 0).kv("mode", mode));
}

// Watchdog per history.  A history of <= 50 operations takes milliseconds of CPU; an endless loop in
// the code under test burns CPU.  The limit is therefore on the CPU time of this process (ITIMER_PROF),
// not on wall-clock time: on a shared, heavily oversubscribed machine a healthy process can be off
// the CPU for many seconds, and a wall-clock alarm would then report a hang that is none (observed at
// a load average of 300).  A generous wall-clock alarm remains for a process that blocks without
// using CPU.
constexpr unsigned history_cpu_seconds = 4;
constexpr unsigned history_wall_seconds = 600;

void on_cpu_limit(int) { vj::on_signal(SIGALRM); } // records {"e":"crash","what":"hang"}, exit code 68

void watchdog(bool const on)
{
  static bool installed = false;
  if (!installed)
  {
    std::signal(SIGPROF, on_cpu_limit);
    installed = true;
  }
  itimerval t{};
  t.it_value.tv_sec = on ? static_cast<time_t>(history_cpu_seconds) : 0;
  setitimer(ITIMER_PROF, &t, nullptr);
  alarm(on ? history_wall_seconds : 0U);
}

void cleanup(runner &r, unsigned order, vj::Rng *rng)
{
  op o;
  int guard = 0;
  while (r.d.next_cleanup(o, order, rng) && guard++ < 8 * (NL + NE + NB)) r.step(o);
}

int record(char const *out, std::uint64_t seed, long long first, long long count, int maxlen)
{
  vj::open(out);
  static char const *const cycle[] = {"list", "sig", "list", "usig", "list", "vsig", "list", "uvsig",
                                      "list", "sig0", "list", "usig2", "list", "vsig2", "list", "uvsig0",
                                      "list", "sig2", "list", "usig0", "list", "vsig0", "list", "uvsig2"};
  for (long long h = first; h < first + count; ++h)
  {
    // every history has its own generator state, so that a run can be resumed at any history
    vj::Rng rng(seed * 1000003ULL + static_cast<std::uint64_t>(h));
    flavour const f = parse_flavour(cycle[h % 24]);
    // every 5th signal history is an "observed" one (reentrant operations, never judged); of the
    // others every second signal history and every third list history is "extended" (also the
    // operations the statement of C11 does not name: unlink, iterators, owners of connections)
    long long const k = h / 2;
    // (a core unit drives only the operations the statement names, on the flavours it contains)
    bool const observed = C11_CORE == 0 && !f.list && k % 5 == 4;
    // every fourth history of a flavour is "dense" (in-scope operations only): the property's bound
    // of 8 elements / connections is reached within ONE list / signal
    bool const dense = !observed && k % 4 == 1;
    int const level = C11_CORE != 0 || dense ? 0 : observed ? 2 : f.list ? (k % 3 == 2 ? 1 : 0) : (k % 2 == 1 ? 1 : 0);
    bool const opt_holders = (h / 24) % 2 == 1;
    std::unique_ptr<driver> d = make_driver(f, opt_holders);
    if (!d) continue;
    reset_line(h, f, "record", observed, opt_holders);
    watchdog(true);
    {
      runner r(*d);
      int const want = static_cast<int>(rng.range(dense ? maxlen / 2 : 1, maxlen));
      int guard = 0;
      while (guard++ < 20 * maxlen)
      {
        // leave room for the destruction of what is alive
        if (r.index + d->alive_count() + 2 > want) break;
        op o;
        if (!d->random_op(rng, o, level, dense)) continue;
        r.step(o);
      }
      cleanup(r, 0, &rng);
      d.reset();
    }
    watchdog(false);
  }
  vj::line(vj::J().kv("e", "end").kv("histories", count));
  vj::close();
  return 0;
}

int replay(std::string const &fl, char const *scripts, char const *out, long long const offset)
{
  vj::open(out);
  auto lines = vj::read_lines(scripts);
  flavour const f = parse_flavour(fl);
  long long h = offset; // index of the first script (the destruction order is index mod 3)
  for (auto const &ln : lines)
  {
    vj::VP s = vj::parse(ln);
    bool const opt_holders = (h / 3) % 2 == 1;
    bool observed = false; // a saved history with reentrant operations is never judged
    for (auto const &x : s->a)
      if (x->str("op").rfind("reent_", 0) == 0 || x->str("op") == "unreg_drop") observed = true;
    reset_line(h, f, "replay", observed, opt_holders);
    watchdog(true);
    {
      std::unique_ptr<driver> d = make_driver(f, opt_holders);
      if (!d) throw harness_error("this unit does not contain flavour " + fl);
      runner r(*d);
      for (auto const &x : s->a)
      {
        op o;
        o.name = x->str("op");
        o.l = static_cast<int>(x->num_or("l", 0));
        o.l2 = static_cast<int>(x->num_or("l2", 0));
        o.e = static_cast<int>(x->num_or("x", 0));
        o.e2 = static_cast<int>(x->num_or("x2", 0));
        o.b = static_cast<int>(x->num_or("b", 0));
        o.mode = static_cast<int>(x->num_or("mode", 0));
        r.step(o);
      }
      cleanup(r, static_cast<unsigned>(h), nullptr);
    }
    watchdog(false);
    ++h;
  }
  vj::line(vj::J().kv("e", "end").kv("histories", h - offset));
  vj::close();
  return 0;
}

#if C11_WITH_PLAIN && C11_WITH_EXTRAS
// A callback that destroys its OWN connection while it runs.  signal.doxygen does not say whether
// that is allowed; the outcome (exit code 66 = sanitizer report) is recorded as an observation.
int probe_drop_self()
{
  using sig = fcppt::signal::object<void(int)>;
  sig s;
  std::optional<fcppt::signal::auto_connection> c1, c2;
  int calls = 0;
  c1.emplace(s.connect(sig::function{[&c1, &calls](int) { ++calls; c1.reset(); }}));
  c2.emplace(s.connect(sig::function{[&calls](int) { ++calls; }}));
  s(1);
  std::printf("probe_drop_self: first call ran %d callbacks\n", calls);
  calls = 0;
  s(2);
  std::printf("probe_drop_self: second call ran %d callbacks\n", calls);
  return 0;
}
#endif
}

int main(int argc, char **argv)
try
{
  std::string const mode = argc > 1 ? argv[1] : "";
  if (mode == "record" && argc == 7)
    return record(argv[2], std::strtoull(argv[3], nullptr, 10), std::atoll(argv[4]), std::atoll(argv[5]), std::atoi(argv[6]));
  if (mode == "replay" && (argc == 5 || argc == 6)) return replay(argv[2], argv[3], argv[4], argc == 6 ? std::atoll(argv[5]) : 0);
#if C11_WITH_PLAIN && C11_WITH_EXTRAS
  if (mode == "probe_drop_self") return probe_drop_self();
#endif
  std::fprintf(stderr, "usage: c11_intrusive record OUT seed first count maxlen | replay FLAVOUR SCRIPTS OUT [first] | probe_drop_self\n");
  return 3;
}
catch (std::exception const &e)
{
  std::fprintf(stderr, "harness error: %s\n", e.what());
  return 4;
}
