// Compile-only probe used by checks/c16.py: does fcppt::tuple::apply accept lvalue / const tuples?
// On the tree the extension was written against it does not: tuple/apply_result.hpp instantiates
// fcppt::tuple::size with the deduced reference type of the first tuple.
#include <fcppt/tuple/apply.hpp>
#include <fcppt/tuple/get.hpp>
#include <fcppt/tuple/object.hpp>

int probe()
{
  fcppt::tuple::object<int, long> const a{1, 2L};
  fcppt::tuple::object<int, int> b{3, 4};
  auto const c(fcppt::tuple::apply([](auto const &x, auto const &y) { return static_cast<int>(x + y); }, a, b));
  return fcppt::tuple::get<1>(c);
}
