// C02 conformance harness, main: enumerates the inputs, runs every generated grammar
// (c02_gen_<k>.cpp, produced by gen/peg_family.py) and the two hand-built recursive grammars
// through parse_string / phrase_parse_string / grammar_parse_string and records
//   {"f":"parse","g":id,"sk":name,"ch":0|1,"s":[code points],"ok":..,"fatal":..,"val":[flat],
//    "probes":[[id,off,line,col],...]}
// No expected values here; TLC (spec/PegJudge.tla) evaluates spec/Peg.tla on every record.
//
// usage: c02_harness OUT MAXLEN WIDE EXTRA_INPUTS SHARD NSHARDS [ONLY_G ONLY_SK]
#include "c02_common.hpp"

#include <fcppt/nonmovable.hpp>
#include <fcppt/parse/base_impl.hpp>
#include <fcppt/parse/base_unique_ptr.hpp>
#include <fcppt/parse/make_base.hpp>

void c02_run_all(c02::runner &);   // generated (c02_gen_all.cpp)

namespace
{
namespace p = fcppt::parse;

}
// ---- recursive grammar 9001 (epsilon skipper):  T -> 'a' [ T ('0' T)* ] 'b'   as a tree
namespace c02
{
struct tree
{
  std::vector<fcppt::recursive<tree>> kids;
};
inline void enc(flat &o, tree const &t)
{
  o.push_back(9);
  enc(o, t.kids);
}
}
namespace
{
using c02::tree;
template <typename Ch>
class tree_grammar : public p::grammar<tree, Ch, p::skipper::epsilon>
{
  FCPPT_NONMOVABLE(tree_grammar);
  using gb = p::grammar<tree, Ch, p::skipper::epsilon>;

public:
  tree_grammar()
      : gb{fcppt::make_cref(t_), p::skipper::epsilon{}},
        t_{gb::make_base(p::construct<tree>(p::list{
            p::basic_literal<Ch>{Ch('a')},
            p::make_recursive(fcppt::make_cref(t_)),
            p::basic_literal<Ch>{Ch('0')},
            p::basic_literal<Ch>{Ch('b')}}))}
  {
  }
  ~tree_grammar() = default;

private:
  typename gb::template base_type<tree> t_;
};

// ---- recursive grammar 9002 (space skipper):  E -> 'a' E 'b' | '0'   value = nesting depth
template <typename Ch>
using space_skipper = decltype(c02::sk_space<Ch>());

template <typename Ch>
class depth_grammar : public p::grammar<int, Ch, space_skipper<Ch>>
{
  FCPPT_NONMOVABLE(depth_grammar);
  using gb = p::grammar<int, Ch, space_skipper<Ch>>;

public:
  depth_grammar()
      : gb{fcppt::make_cref(e_), c02::sk_space<Ch>()},
        e_{gb::make_base(
            c02::conv_inc<Ch>(p::basic_literal<Ch>{Ch('a')} >> fcppt::make_cref(e_) >> p::basic_literal<Ch>{Ch('b')}) |
            p::convert_const{p::basic_literal<Ch>{Ch('0')}, int{0}})}
  {
  }
  ~depth_grammar() = default;

private:
  typename gb::template base_type<int> e_;
};

template <typename Ch, typename Grammar>
void run_grammar(c02::runner &_r, long long const _g, char const *const _skname)
{
  if (_r.only_g >= 0 && (_r.only_g != _g || _r.only_sk != _skname)) return;
  Grammar const grammar{};
  for (auto const &in : _r.inputs)
  {
    c02::probe_log().clear();
    vj::begin_call(c02::prefix(_g, _skname, c02::ch_id<Ch>(), in));
    c02::log_result<Ch>(p::grammar_parse_string(c02::to_string<Ch>(in), grammar));
    ++_r.records;
  }
}

void enumerate(std::vector<std::vector<long long>> &out, int maxlen)
{
  std::vector<long long> const syms{97, 98, 32, 48};
  for (int len = 0; len <= maxlen; ++len)
  {
    unsigned long long const count = 1ULL << (2 * len);
    for (unsigned long long idx = 0; idx < count; ++idx)
    {
      std::vector<long long> t;
      unsigned long long x = idx;
      for (int i = 0; i < len; ++i)
      {
        t.push_back(syms[x % 4U]);
        x /= 4U;
      }
      out.push_back(t);
    }
  }
}
}

int main(int argc, char **argv)
try
{
  if (argc < 5) return 3;
  vj::open(argv[1]);
  c02::runner r;
  int const maxlen = std::atoi(argv[2]);
  bool const wide = std::atoi(argv[3]) != 0;
  // inputs: file with one JSON array of code points per line (extra inputs), after the
  // exhaustive enumeration up to maxlen over {a, b, space, 0}
  enumerate(r.inputs, maxlen);
  for (std::string const &l : vj::read_lines(argv[4]))
  {
    vj::VP const v{vj::parse(l)};
    std::vector<long long> t;
    for (auto const &c : v->a) t.push_back(c->n);
    r.inputs.push_back(t);
  }
  if (argc >= 7)
  {
    r.shard = std::atoi(argv[5]);
    r.nshards = std::atoi(argv[6]);
  }
  if (argc >= 9)
  {
    r.only_g = std::atoll(argv[7]);
    r.only_sk = argv[8];
  }
  c02_run_all(r);
  if (r.shard == 0)
  {
    run_grammar<char, tree_grammar<char>>(r, 9001, "eps");
    run_grammar<char, depth_grammar<char>>(r, 9002, "space");
  }
  if (wide && r.shard == 0)
  {
    run_grammar<wchar_t, tree_grammar<wchar_t>>(r, 9001, "eps");
    run_grammar<wchar_t, depth_grammar<wchar_t>>(r, 9002, "space");
  }
  vj::close();
  return 0;
}
catch (std::exception const &e)
{
  std::fprintf(stderr, "harness error: %s\n", e.what());
  return 4;
}
