// C02 conformance harness, main: enumerates the inputs, runs every generated grammar
// (c02_gen_<k>.cpp, produced by gen/peg_family.py) and the two hand-built recursive grammars
// through parse_string / phrase_parse_string / grammar_parse_string and records
//   {"f":"parse","g":id,"sk":name,"ch":0|1,"s":[code points],"ok":..,"fatal":..,"val":[flat],
//    "probes":[[id,off,line,col],...]}
// No expected values here; TLC (spec/PegJudge.tla) evaluates spec/Peg.tla on every record.
//
// usage: c02_harness OUT MAXLEN WIDE EXTRA_INPUTS SHARD NSHARDS [ONLY_G ONLY_SK]
#include "c02_common.hpp"

#include <fcppt/nonmovable.hpp>
#include <fcppt/parse/base_impl.hpp>
#include <fcppt/parse/base_unique_ptr.hpp>
#include <fcppt/parse/grammar_parse_stream.hpp>
#include <fcppt/parse/make_base.hpp>

void c02_run_all(c02::runner &);   // generated (c02_gen_all.cpp)

namespace
{
namespace p = fcppt::parse;

}
// ---- recursive grammar 9001 (epsilon skipper):  T -> 'a' [ T ('0' T)* ] 'b'   as a tree
namespace c02
{
struct tree
{
  std::vector<fcppt::recursive<tree>> kids;
};
inline void enc(flat &o, tree const &t)
{
  o.push_back(9);
  enc(o, t.kids);
}
}
namespace
{
using c02::tree;
template <typename Ch>
class tree_grammar : public p::grammar<tree, Ch, p::skipper::epsilon>
{
  FCPPT_NONMOVABLE(tree_grammar);
  using gb = p::grammar<tree, Ch, p::skipper::epsilon>;

public:
  tree_grammar()
      : gb{fcppt::make_cref(t_), p::skipper::epsilon{}},
        t_{gb::make_base(p::construct<tree>(p::list{
            p::basic_literal<Ch>{Ch('a')},
            p::make_recursive(fcppt::make_cref(t_)),
            p::basic_literal<Ch>{Ch('0')},
            p::basic_literal<Ch>{Ch('b')}}))}
  {
  }
  ~tree_grammar() = default;

private:
  typename gb::template base_type<tree> t_;
};

// ---- recursive grammar 9002 (space skipper):  E -> 'a' E 'b' | '0'   value = nesting depth
template <typename Ch>
using space_skipper = decltype(c02::sk_space<Ch>());

template <typename Ch>
class depth_grammar : public p::grammar<int, Ch, space_skipper<Ch>>
{
  FCPPT_NONMOVABLE(depth_grammar);
  using gb = p::grammar<int, Ch, space_skipper<Ch>>;

public:
  depth_grammar()
      : gb{fcppt::make_cref(e_), c02::sk_space<Ch>()},
        e_{gb::make_base(
            c02::conv_inc<Ch>(p::basic_literal<Ch>{Ch('a')} >> fcppt::make_cref(e_) >> p::basic_literal<Ch>{Ch('b')}) |
            p::convert_const{p::basic_literal<Ch>{Ch('0')}, int{0}})}
  {
  }
  ~depth_grammar() = default;

private:
  typename gb::template base_type<int> e_;
};

// ---- recursive grammar 9003 (space skipper):  S -> ( 'a' S 'b' )*   balanced parentheses as a forest
}
namespace c02
{
struct par
{
  std::vector<fcppt::recursive<par>> kids;
};
inline void enc(flat &o, par const &t)
{
  o.push_back(9);
  enc(o, t.kids);
}

// ---- grammar 9004: the JSON grammar of test/parse/json.cpp (five mutually recursive nonterminals held
// in base_unique_ptr, make_base, make_recursive, separator, convert_if, construct); objects are kept as
// vectors of entries, a repeated key is the convert_if error ("Double insert" in the test)
template <typename Ch>
struct jvalue;
template <typename Ch>
using jarray = std::vector<fcppt::recursive<jvalue<Ch>>>;
template <typename Ch>
using jentries = std::vector<fcppt::tuple::object<std::basic_string<Ch>, fcppt::recursive<jvalue<Ch>>>>;
template <typename Ch>
struct jvalue
{
  using type = fcppt::variant::object<jnull, bool, int, std::basic_string<Ch>, jarray<Ch>, jentries<Ch>>;
  explicit jvalue(type &&_impl) : impl{std::move(_impl)} {}
  type impl;
};
template <typename Ch>
void enc(flat &o, jvalue<Ch> const &v)
{
  o.push_back(9);
  enc(o, v.impl);
}
}
namespace
{
template <typename Ch>
class par_grammar : public p::grammar<c02::par, Ch, space_skipper<Ch>>
{
  FCPPT_NONMOVABLE(par_grammar);
  using gb = p::grammar<c02::par, Ch, space_skipper<Ch>>;

public:
  par_grammar()
      : gb{fcppt::make_cref(s_), c02::sk_space<Ch>()},
        s_{gb::make_base(p::construct<c02::par>(
            *(p::basic_literal<Ch>{Ch('a')} >> p::make_recursive(fcppt::make_cref(s_)) >> p::basic_literal<Ch>{Ch('b')})))}
  {
  }
  ~par_grammar() = default;

private:
  typename gb::template base_type<c02::par> s_;
};

template <typename Ch>
std::basic_string<Ch> lit_string(char const *_s)
{
  std::basic_string<Ch> r;
  for (; *_s != 0; ++_s) r.push_back(static_cast<Ch>(*_s));
  return r;
}

template <typename Ch>
using json_start = fcppt::variant::object<c02::jarray<Ch>, c02::jentries<Ch>>;

template <typename Ch>
class json_grammar : public p::grammar<json_start<Ch>, Ch, space_skipper<Ch>>
{
  FCPPT_NONMOVABLE(json_grammar);
  using gb = p::grammar<json_start<Ch>, Ch, space_skipper<Ch>>;
  using str = std::basic_string<Ch>;
  using value = c02::jvalue<Ch>;
  using entries = c02::jentries<Ch>;

public:
  json_grammar()
      : gb{fcppt::make_cref(start_), c02::sk_space<Ch>()},
        string_{gb::make_base(
            p::basic_literal<Ch>{Ch('"')} >> p::make_lexeme(*~p::basic_char_set<Ch>{Ch('"')}) >> p::basic_literal<Ch>{Ch('"')})},
        value_{gb::make_base(p::construct<value>(
            p::convert_const{p::basic_string<Ch>{lit_string<Ch>("null")}, c02::jnull{}} |
            (p::convert_const{p::basic_string<Ch>{lit_string<Ch>("true")}, true} |
             p::convert_const{p::basic_string<Ch>{lit_string<Ch>("false")}, false}) |
            p::int_<int>{} | fcppt::make_cref(string_) | fcppt::make_cref(array_) | fcppt::make_cref(object_)))},
        object_{gb::make_base(p::make_convert_if(
            p::basic_literal<Ch>{Ch('{')} >>
                p::separator{
                    fcppt::make_cref(string_) >> p::basic_literal<Ch>{Ch(':')} >> p::make_recursive(fcppt::make_cref(value_)),
                    p::basic_literal<Ch>{Ch(',')}} >>
                p::basic_literal<Ch>{Ch('}')},
            [](entries &&_e) -> p::result<Ch, entries> {
              for (std::size_t i = 0; i < _e.size(); ++i)
                for (std::size_t j = i + 1; j < _e.size(); ++j)
                  if (fcppt::tuple::get<0>(_e[i]) == fcppt::tuple::get<0>(_e[j]))
                    return fcppt::either::make_failure<entries>(p::error<Ch>{lit_string<Ch>("Double insert")});
              return p::make_success<Ch>(std::move(_e));
            }))},
        array_{gb::make_base(
            p::basic_literal<Ch>{Ch('[')} >>
            p::separator{p::make_recursive(fcppt::make_cref(value_)), p::basic_literal<Ch>{Ch(',')}} >>
            p::basic_literal<Ch>{Ch(']')})},
        start_{gb::make_base(fcppt::make_cref(array_) | fcppt::make_cref(object_))}
  {
  }
  ~json_grammar() = default;

private:
  typename gb::template base_type<str> string_;
  typename gb::template base_type<value> value_;
  typename gb::template base_type<entries> object_;
  typename gb::template base_type<c02::jarray<Ch>> array_;
  typename gb::template base_type<json_start<Ch>> start_;
};

// grammar_parse_string and grammar_parse_stream on every input
template <typename Ch, typename Grammar>
void run_grammar(c02::runner &_r, long long const _g, char const *const _skname, std::vector<std::vector<long long>> const &_inputs)
{
  if (_r.only_g >= 0 && (_r.only_g != _g || _r.only_sk != _skname)) return;
  Grammar const grammar{};
  for (auto const &in : _inputs)
  {
    c02::probe_log().clear();
    c02::arm_watchdog();
    vj::begin_call(c02::prefix(_g, _skname, c02::ch_id<Ch>(), "string", in));
    try
    {
      c02::log_result<Ch>(p::grammar_parse_string(c02::to_string<Ch>(in), grammar));
    }
    catch (...)
    {
      c02::log_escaped();
    }
    ++_r.records;
    c02::probe_log().clear();
    c02::arm_watchdog();
    vj::begin_call(c02::prefix(_g, _skname, c02::ch_id<Ch>(), "stream", in));
    std::basic_istringstream<Ch> stream{c02::to_string<Ch>(in)};
    stream.unsetf(std::ios_base::skipws);
    try
    {
      c02::log_result<Ch>(p::grammar_parse_stream(stream, grammar));
    }
    catch (...)
    {
      c02::log_escaped();
    }
    ++_r.records;
  }
}

void enumerate(std::vector<std::vector<long long>> &out, std::vector<long long> const &syms, int maxlen)
{
  std::size_t const n = syms.size();
  for (int len = 0; len <= maxlen; ++len)
  {
    unsigned long long count = 1;
    for (int i = 0; i < len; ++i) count *= n;
    for (unsigned long long idx = 0; idx < count; ++idx)
    {
      std::vector<long long> t;
      unsigned long long x = idx;
      for (int i = 0; i < len; ++i)
      {
        t.push_back(syms[x % n]);
        x /= n;
      }
      out.push_back(t);
    }
  }
}
}

int main(int argc, char **argv)
try
{
  if (argc < 5) return 3;
  vj::open(argv[1]);
  c02::runner r;
  int const maxlen = std::atoi(argv[2]);
  // WIDE: bit 0 = wchar_t for the recursive grammars, bits 1.. = stream_mod - 1
  bool const wide = (std::atoi(argv[3]) & 1) != 0;
  r.stream_mod = (std::atoi(argv[3]) >> 1) + 1;
  // inputs: the exhaustive enumeration up to maxlen over {a, b, space, 0} (for grammar 9004: over the
  // JSON alphabet), then the extra inputs of the file: one {"set":"std"|"json"|"both","s":[code points]} per line
  std::vector<std::vector<long long>> json_inputs;
  enumerate(r.inputs, {97, 98, 32, 48}, maxlen);
  enumerate(json_inputs, {'[', ']', '{', '}', ',', ':', '"', '1', ' ', 'a'}, maxlen);
  for (std::string const &l : vj::read_lines(argv[4]))
  {
    vj::VP const v{vj::parse(l)};
    std::vector<long long> const t{v->nums("s")};
    std::string const &set{v->str("set")};
    if (set != "json") r.inputs.push_back(t);
    if (set != "std") json_inputs.push_back(t);
  }
  if (argc >= 7)
  {
    r.shard = std::atoi(argv[5]);
    r.nshards = std::atoi(argv[6]);
  }
  if (argc >= 9)
  {
    r.only_g = std::atoll(argv[7]);
    r.only_sk = argv[8];
  }
  c02_run_all(r);
  if (r.shard == 0)
  {
    run_grammar<char, tree_grammar<char>>(r, 9001, "eps", r.inputs);
    run_grammar<char, depth_grammar<char>>(r, 9002, "space", r.inputs);
    run_grammar<char, par_grammar<char>>(r, 9003, "space", r.inputs);
    if (wide)
    {
      run_grammar<wchar_t, tree_grammar<wchar_t>>(r, 9001, "eps", r.inputs);
      run_grammar<wchar_t, depth_grammar<wchar_t>>(r, 9002, "space", r.inputs);
      run_grammar<wchar_t, par_grammar<wchar_t>>(r, 9003, "space", r.inputs);
    }
  }
  if (r.shard == 1 % r.nshards)
  {
    run_grammar<char, json_grammar<char>>(r, 9004, "space", json_inputs);
    if (wide) run_grammar<wchar_t, json_grammar<wchar_t>>(r, 9004, "space", json_inputs);
  }
  {
    // before the process winds down (leak check at exit): no watchdog any more
    itimerval t{};
    ::setitimer(ITIMER_PROF, &t, nullptr);
    ::alarm(0);
  }
  vj::close();
  return 0;
}
catch (std::exception const &e)
{
  std::fprintf(stderr, "harness error: %s\n", e.what());
  return 4;
}
