// C08 conformance harness: drives the real fcppt::container::grid position ranges, offset,
// at_optional / in_range, the grid constructors, resize / map / apply / fill and the clamp
// helpers over an exhaustively enumerated input space and records what they did (ndjson).
// It contains no expected values: spec/GridJudge.tla (TLC) judges every record against
// spec/Grid.tla.
//
//   c08_grid record OUT tier          (tier: quick | thorough)
//   c08_grid replay RECORD.json OUT   (re-drive the inputs of one saved record)
//
// Representation conventions (not expectations): unsigned values >= 2^31-1 are logged as
// 2147483647 (TLC integers are 32 bit; every value the specification can demand in this
// input space is far smaller, so a saturated value never equals a demanded one);
// iteration is cut after CAP steps (watchdog; the record then carries "capped":true) and
// after a capped iteration the operations that loop inside the library are not driven
// any further (they could not terminate).
#include <common/vjson.hpp>

#include <fcppt/make_cref.hpp>
#include <fcppt/container/grid/apply.hpp>
#include <fcppt/container/grid/at_optional.hpp>
#include <fcppt/container/grid/clamped_min.hpp>
#include <fcppt/container/grid/clamped_sup.hpp>
#include <fcppt/container/grid/clamped_sup_signed.hpp>
#include <fcppt/container/grid/dim.hpp>
#include <fcppt/container/grid/fill.hpp>
#include <fcppt/container/grid/in_range.hpp>
#include <fcppt/container/grid/in_range_dim.hpp>
#include <fcppt/container/grid/make_pos_range.hpp>
#include <fcppt/container/grid/make_pos_range_start_end.hpp>
#include <fcppt/container/grid/make_pos_ref_crange.hpp>
#include <fcppt/container/grid/make_pos_ref_crange_start_end.hpp>
#include <fcppt/container/grid/make_pos_ref_range.hpp>
#include <fcppt/container/grid/make_pos_ref_range_start_end.hpp>
#include <fcppt/container/grid/map.hpp>
#include <fcppt/container/grid/min.hpp>
#include <fcppt/container/grid/object.hpp>
#include <fcppt/container/grid/offset.hpp>
#include <fcppt/container/grid/pos.hpp>
#include <fcppt/container/grid/pos_range.hpp>
#include <fcppt/container/grid/pos_ref_range.hpp>
#include <fcppt/container/grid/pos_reference.hpp>
#include <fcppt/container/grid/resize.hpp>
#include <fcppt/container/grid/sup.hpp>
#include <fcppt/math/dim/init.hpp>
#include <fcppt/math/vector/init.hpp>
#include <fcppt/optional/maybe.hpp>
#include <fcppt/optional/object.hpp>
#include <fcppt/optional/reference.hpp>

#include <array>
#include <cstdint>
#include <limits>
#include <string>
#include <utility>
#include <vector>

namespace
{
namespace grid = fcppt::container::grid;

using ll = long long;
template <std::size_t N>
using tup = std::array<ll, N>;

constexpr int CAP = 400;
bool runaway = false; // a capped iteration was observed

ll sat(unsigned long long v) { return v >= 2147483647ULL ? 2147483647LL : static_cast<ll>(v); }
ll sat(unsigned long v) { return sat(static_cast<unsigned long long>(v)); }
ll sat(unsigned v) { return sat(static_cast<unsigned long long>(v)); }
ll sat(long long v) { return v >= 2147483647LL ? 2147483647LL : (v <= -2147483647LL ? -2147483647LL : v); }
ll sat(long v) { return sat(static_cast<long long>(v)); }
ll sat(int v) { return static_cast<ll>(v); }

template <typename V, std::size_t N>
V mkvec(tup<N> const &a)
{
  return fcppt::math::vector::init<V>(
      [&a](auto const i) { return static_cast<typename V::value_type>(a[decltype(i)::value]); });
}
template <typename D, std::size_t N>
D mkdim(tup<N> const &a)
{
  return fcppt::math::dim::init<D>(
      [&a](auto const i) { return static_cast<typename D::value_type>(a[decltype(i)::value]); });
}

template <std::size_t N>
std::string js(tup<N> const &a)
{
  std::string s = "[";
  for (std::size_t i = 0; i < N; ++i)
  {
    if (i) s += ',';
    s += std::to_string(a[i]);
  }
  return s + "]";
}
// components of a vector / dim, saturated
template <std::size_t N, typename V>
std::string jv(V const &v)
{
  std::string s = "[";
  for (std::size_t i = 0; i < N; ++i)
  {
    if (i) s += ',';
    s += std::to_string(sat(v.get_unsafe(i)));
  }
  return s + "]";
}
std::string jl(std::vector<ll> const &v) { return vj::arr(v); }

// odometer over the box lo[i]..hi[i] (inclusive), x fastest; the order is irrelevant to the judge
template <std::size_t N, typename F>
void for_box(tup<N> const &lo, tup<N> const &hi, F const &f)
{
  for (std::size_t i = 0; i < N; ++i)
    if (lo[i] > hi[i]) return;
  tup<N> c = lo;
  for (;;)
  {
    f(c);
    std::size_t i = 0;
    for (; i < N; ++i)
    {
      if (c[i] < hi[i])
      {
        ++c[i];
        break;
      }
      c[i] = lo[i];
    }
    if (i == N) return;
  }
}
template <std::size_t N>
tup<N> fill_tup(ll v)
{
  tup<N> t;
  t.fill(v);
  return t;
}
template <std::size_t N>
tup<N> minus1(tup<N> t)
{
  for (auto &x : t) --x;
  return t;
}

template <std::size_t N>
using gen_t = std::array<ll, N + 1>; // c0 + sum c[i+1]*p[i]
template <std::size_t N>
gen_t<N> std_gen(ll c0, ll a, ll b, ll c)
{
  gen_t<N> g{};
  ll const co[3] = {a, b, c};
  g[0] = c0;
  for (std::size_t i = 0; i < N; ++i) g[i + 1] = co[i];
  return g;
}
template <std::size_t N, typename P>
int lin(gen_t<N> const &g, P const &p)
{
  ll r = g[0];
  for (std::size_t i = 0; i < N; ++i) r += g[i + 1] * static_cast<ll>(p.get_unsafe(i));
  return static_cast<int>(r);
}

template <std::size_t N>
using grid_t = grid::object<int, N>;

template <std::size_t N>
grid_t<N> make_grid(tup<N> const &size, gen_t<N> const &g)
{
  using G = grid_t<N>;
  return G(mkdim<typename G::dim>(size), [&g](typename G::pos const &p) { return lin<N>(g, p); });
}

// the observable part of a grid: size(), content(), empty(), every cell read with get_unsafe
// over the positions of size() (extents read up to 8: watchdog), the storage sequence begin()..end()
template <std::size_t N>
std::string grid_obs(grid_t<N> const &g)
{
  using G = grid_t<N>;
  vj::J j;
  tup<N> hi;
  bool any = true;
  for (std::size_t i = 0; i < N; ++i)
  {
    ll e = sat(g.size().get_unsafe(i));
    if (e > 8) e = 8;
    hi[i] = e - 1;
    if (e == 0) any = false;
  }
  std::string cells = "[";
  bool first = true;
  if (any)
    for_box<N>(fill_tup<N>(0), hi, [&](tup<N> const &p) {
      if (!first) cells += ',';
      first = false;
      cells += "[";
      for (std::size_t i = 0; i < N; ++i) cells += std::to_string(p[i]) + ",";
      cells += std::to_string(g.get_unsafe(mkvec<typename G::pos>(p))) + "]";
    });
  cells += "]";
  std::vector<ll> flat;
  int n = 0;
  for (auto it = g.begin(); it != g.end() && n < 100000; ++it, ++n) flat.push_back(*it);
  std::string s = "\"gsize\":" + jv<N>(g.size()) + ",\"content\":" + std::to_string(sat(g.content())) +
                  ",\"empty\":" + (g.empty() ? "true" : "false") + ",\"cells\":" + cells + ",\"flat\":" + jl(flat);
  return s;
}

template <typename T>
char const *tname();
template <>
char const *tname<unsigned>() { return "u32"; }
template <>
char const *tname<unsigned long>() { return "u64"; }
template <>
char const *tname<int>() { return "i32"; }
template <>
char const *tname<long>() { return "i64"; }

// ------------------------------------------------------------------ position ranges
template <typename Range, std::size_t N>
void walk(Range const &r, std::string &vis, bool &capped)
{
  vis = "[";
  int n = 0;
  capped = false;
  auto const e = r.end();
  for (auto it = r.begin(); it != e; ++it)
  {
    if (n == CAP)
    {
      capped = true;
      runaway = true;
      break;
    }
    if (n) vis += ',';
    vis += jv<N>(*it);
    ++n;
  }
  vis += "]";
}

template <typename T, std::size_t N>
void op_pos_range(tup<N> const &mn, tup<N> const &sp, bool via_mk)
{
  using pos = grid::pos<T, N>;
  using min_t = grid::min<T, N>;
  using sup_t = grid::sup<T, N>;
  vj::begin_call(vj::J().kv("f", "pos_range").kv("N", static_cast<ll>(N)).kv("T", tname<T>()).kv("via", via_mk ? "mk" : "ctor")
                     .raw("min", js<N>(mn)).raw("sup", js<N>(sp)).s);
  min_t const m{mkvec<pos>(mn)};
  sup_t const s{mkvec<pos>(sp)};
  grid::pos_range<T, N> const r = via_mk ? grid::make_pos_range_start_end(m, s) : grid::pos_range<T, N>(m, s);
  std::string vis;
  bool capped;
  walk<decltype(r), N>(r, vis, capped);
  vj::end_call(",\"vis\":" + vis + ",\"capped\":" + (capped ? "true" : "false") + ",\"size\":" + std::to_string(sat(r.size())) +
               ",\"rmin\":" + jv<N>(r.min().get()) + ",\"rsup\":" + jv<N>(r.sup().get()) + "}");
}

template <typename T, std::size_t N>
void op_whole_range(tup<N> const &size)
{
  vj::begin_call(vj::J().kv("f", "whole_range").kv("N", static_cast<ll>(N)).kv("T", tname<T>()).raw("dim", js<N>(size)).s);
  auto const r = grid::make_pos_range(mkdim<grid::dim<T, N>>(size));
  std::string vis;
  bool capped;
  walk<decltype(r), N>(r, vis, capped);
  vj::end_call(",\"vis\":" + vis + ",\"capped\":" + (capped ? "true" : "false") + ",\"size\":" + std::to_string(sat(r.size())) + "}");
}

template <typename Range, std::size_t N>
void walk_ref(Range const &r, std::string &vis, std::vector<ll> &vals, bool &capped)
{
  vis = "[";
  int n = 0;
  capped = false;
  auto const e = r.end();
  for (auto it = r.begin(); it != e; ++it)
  {
    if (n == CAP)
    {
      capped = true;
      runaway = true;
      break;
    }
    auto const ref = *it;
    if (n) vis += ',';
    vis += jv<N>(ref.pos());
    vals.push_back(ref.value());
    ++n;
  }
  vis += "]";
}

template <std::size_t N>
void op_pos_ref_range(tup<N> const &gsize, gen_t<N> const &g, tup<N> const &mn, tup<N> const &sp, bool cnst)
{
  using G = grid_t<N>;
  using pos = typename G::pos;
  vj::begin_call(vj::J().kv("f", "pos_ref_range").kv("N", static_cast<ll>(N)).raw("gsize", js<N + 0>(gsize)).raw("gen", js<N + 1>(g))
                     .raw("min", js<N>(mn)).raw("sup", js<N>(sp)).kv("c", cnst).s);
  G gr = make_grid<N>(gsize, g);
  std::string vis;
  std::vector<ll> vals;
  bool capped;
  ll size;
  if (cnst)
  {
    using R = grid::pos_ref_range<G const>;
    R const r = grid::make_pos_ref_crange_start_end(gr, typename R::min_type{mkvec<pos>(mn)}, typename R::sup_type{mkvec<pos>(sp)});
    walk_ref<R, N>(r, vis, vals, capped);
    size = sat(r.size());
  }
  else
  {
    using R = grid::pos_ref_range<G>;
    R const r = grid::make_pos_ref_range_start_end(gr, typename R::min_type{mkvec<pos>(mn)}, typename R::sup_type{mkvec<pos>(sp)});
    walk_ref<R, N>(r, vis, vals, capped);
    size = sat(r.size());
  }
  vj::end_call(",\"vis\":" + vis + ",\"vals\":" + jl(vals) + ",\"capped\":" + (capped ? "true" : "false") + ",\"size\":" + std::to_string(size) + "}");
}

template <std::size_t N>
void op_whole_ref_range(tup<N> const &gsize, gen_t<N> const &g, bool cnst)
{
  using G = grid_t<N>;
  vj::begin_call(vj::J().kv("f", "whole_ref_range").kv("N", static_cast<ll>(N)).raw("gsize", js<N>(gsize)).raw("gen", js<N + 1>(g)).kv("c", cnst).s);
  G gr = make_grid<N>(gsize, g);
  std::string vis;
  std::vector<ll> vals;
  bool capped;
  ll size;
  if (cnst)
  {
    auto const r = grid::make_pos_ref_crange(gr);
    walk_ref<decltype(r), N>(r, vis, vals, capped);
    size = sat(r.size());
  }
  else
  {
    auto const r = grid::make_pos_ref_range(gr);
    walk_ref<decltype(r), N>(r, vis, vals, capped);
    size = sat(r.size());
  }
  vj::end_call(",\"vis\":" + vis + ",\"vals\":" + jl(vals) + ",\"capped\":" + (capped ? "true" : "false") + ",\"size\":" + std::to_string(size) + "}");
}

// ------------------------------------------------------------------ offset
template <typename T, std::size_t N>
void op_offset(tup<N> const &size)
{
  vj::begin_call(vj::J().kv("f", "offset").kv("N", static_cast<ll>(N)).kv("T", tname<T>()).raw("size", js<N>(size)).s);
  std::string ps = "[";
  std::vector<ll> offs;
  auto const d = mkdim<grid::dim<T, N>>(size);
  for_box<N>(fill_tup<N>(0), minus1<N>(size), [&](tup<N> const &p) {
    if (!offs.empty()) ps += ',';
    ps += js<N>(p);
    offs.push_back(sat(grid::offset(mkvec<grid::pos<T, N>>(p), d)));
  });
  ps += "]";
  vj::end_call(",\"ps\":" + ps + ",\"offs\":" + jl(offs) + "}");
}

// ------------------------------------------------------------------ at_optional / in_range
// the probe positions around a grid: components 0 .. extent+2 and the two largest values of the
// (unsigned) size type
template <std::size_t N, typename F>
void for_probes(tup<N> const &gsize, F const &f)
{
  using pos = typename grid_t<N>::pos;
  tup<N> hi;
  for (std::size_t i = 0; i < N; ++i) hi[i] = gsize[i] + 4;
  constexpr std::size_t mx = std::numeric_limits<std::size_t>::max();
  for_box<N>(fill_tup<N>(0), hi, [&](tup<N> const &c) {
    pos p = mkvec<pos>(c);
    for (std::size_t i = 0; i < N; ++i)
      if (c[i] > gsize[i] + 2) p.get_unsafe(i) = mx - static_cast<std::size_t>(gsize[i] + 4 - c[i]);
    f(p);
  });
}

template <std::size_t N>
void op_in_range(tup<N> const &gsize, gen_t<N> const &g)
{
  using G = grid_t<N>;
  using pos = typename G::pos;
  vj::begin_call(vj::J().kv("f", "in_range").kv("N", static_cast<ll>(N)).raw("gsize", js<N>(gsize)).raw("gen", js<N + 1>(g)).s);
  G const gr = make_grid<N>(gsize, g);
  std::string ps = "[";
  std::vector<ll> inr, ird;
  for_probes<N>(gsize, [&](pos const &p) {
    if (!inr.empty()) ps += ',';
    ps += jv<N>(p);
    inr.push_back(grid::in_range(gr, p) ? 1 : 0);
    ird.push_back(grid::in_range_dim(gr.size(), p) ? 1 : 0);
  });
  ps += "]";
  vj::end_call(",\"ps\":" + ps + ",\"inr\":" + jl(inr) + ",\"ird\":" + jl(ird) + "}");
}

template <std::size_t N>
void op_at(tup<N> const &gsize, gen_t<N> const &g)
{
  using G = grid_t<N>;
  using pos = typename G::pos;
  vj::begin_call(vj::J().kv("f", "at").kv("N", static_cast<ll>(N)).raw("gsize", js<N>(gsize)).raw("gen", js<N + 1>(g)).s);
  G gr = make_grid<N>(gsize, g);
  G const &cgr = gr;
  std::string ps = "[";
  std::vector<ll> some, val, somec, valc;
  for_probes<N>(gsize, [&](pos const &p) {
    if (!some.empty()) ps += ',';
    ps += jv<N>(p);
    fcppt::optional::reference<int> const r = grid::at_optional(gr, p);
    some.push_back(r.has_value() ? 1 : 0);
    val.push_back(fcppt::optional::maybe(r, [] { return 0; }, [](fcppt::reference<int> const x) { return x.get(); }));
    fcppt::optional::reference<int const> const rc = grid::at_optional(cgr, p);
    somec.push_back(rc.has_value() ? 1 : 0);
    valc.push_back(fcppt::optional::maybe(rc, [] { return 0; }, [](fcppt::reference<int const> const x) { return x.get(); }));
  });
  ps += "]";
  vj::end_call(",\"ps\":" + ps + ",\"some\":" + jl(some) + ",\"val\":" + jl(val) + ",\"somec\":" + jl(somec) + ",\"valc\":" + jl(valc) + "}");
}

// ------------------------------------------------------------------ constructors
template <std::size_t N>
void op_construct(tup<N> const &size, gen_t<N> const &g, std::string const &kind)
{
  using G = grid_t<N>;
  vj::begin_call(vj::J().kv("f", "construct").kv("N", static_cast<ll>(N)).kv("kind", kind).raw("size", js<N>(size)).raw("gen", js<N + 1>(g)).s + ",");
  if (kind == "fn")
  {
    G const gr = make_grid<N>(size, g);
    vj::end_call(grid_obs<N>(gr) + "}");
  }
  else if (kind == "value")
  {
    G const gr(mkdim<typename G::dim>(size), static_cast<int>(g[0]));
    vj::end_call(grid_obs<N>(gr) + "}");
  }
  else
  {
    G const gr{};
    vj::end_call(grid_obs<N>(gr) + "}");
  }
}

// ------------------------------------------------------------------ resize / map / apply / fill
template <std::size_t N>
void op_resize(tup<N> const &size, gen_t<N> const &g, tup<N> const &nsize, gen_t<N> const &ig, bool rv)
{
  using G = grid_t<N>;
  vj::begin_call(vj::J().kv("f", "resize").kv("N", static_cast<ll>(N)).raw("size", js<N>(size)).raw("gen", js<N + 1>(g))
                     .raw("nsize", js<N>(nsize)).raw("igen", js<N + 1>(ig)).kv("rv", rv).s + ",");
  G src = make_grid<N>(size, g);
  auto const init = [&ig](typename G::pos const &p) { return lin<N>(ig, p); };
  auto const nd = mkdim<typename G::dim>(nsize);
  G const res = rv ? grid::resize(std::move(src), nd, init) : grid::resize(src, nd, init);
  vj::end_call(grid_obs<N>(res) + "}");
}

template <std::size_t N>
void op_map(tup<N> const &size, gen_t<N> const &g, ll fa, ll fb, bool rv)
{
  using G = grid_t<N>;
  vj::begin_call(vj::J().kv("f", "map").kv("N", static_cast<ll>(N)).raw("size", js<N>(size)).raw("gen", js<N + 1>(g)).kv("fa", fa).kv("fb", fb).kv("rv", rv).s + ",");
  G src = make_grid<N>(size, g);
  auto const f = [fa, fb](int const x) { return static_cast<int>(fa * x + fb); };
  G const res = rv ? grid::map(std::move(src), f) : grid::map(src, f);
  vj::end_call(grid_obs<N>(res) + "}");
}

template <std::size_t N>
void op_apply(std::vector<tup<N>> const &sizes, std::vector<gen_t<N>> const &gens, std::vector<ll> const &co)
{
  using G = grid_t<N>;
  std::string ss = "[", gs = "[";
  for (std::size_t k = 0; k < sizes.size(); ++k)
  {
    if (k) { ss += ','; gs += ','; }
    ss += js<N>(sizes[k]);
    gs += js<N + 1>(gens[k]);
  }
  ss += "]";
  gs += "]";
  vj::begin_call(vj::J().kv("f", "apply").kv("N", static_cast<ll>(N)).raw("sizes", ss).raw("gens", gs).raw("co", jl(co)).s + ",");
  std::vector<G> in;
  for (std::size_t k = 0; k < sizes.size(); ++k) in.push_back(make_grid<N>(sizes[k], gens[k]));
  if (in.size() == 1)
  {
    G const res = grid::apply([&co](int a) { return static_cast<int>(co[0] * a); }, in[0]);
    vj::end_call(grid_obs<N>(res) + "}");
  }
  else if (in.size() == 2)
  {
    G const res = grid::apply([&co](int a, int b) { return static_cast<int>(co[0] * a + co[1] * b); }, in[0], in[1]);
    vj::end_call(grid_obs<N>(res) + "}");
  }
  else
  {
    G const res = grid::apply([&co](int a, int b, int c) { return static_cast<int>(co[0] * a + co[1] * b + co[2] * c); }, in[0], in[1], in[2]);
    vj::end_call(grid_obs<N>(res) + "}");
  }
}

template <std::size_t N>
void op_fill(tup<N> const &size, gen_t<N> const &g, gen_t<N> const &fg)
{
  using G = grid_t<N>;
  vj::begin_call(vj::J().kv("f", "fill").kv("N", static_cast<ll>(N)).raw("size", js<N>(size)).raw("gen", js<N + 1>(g)).raw("fgen", js<N + 1>(fg)).s + ",");
  G gr = make_grid<N>(size, g);
  grid::fill(gr, [&fg](typename G::pos const &p) { return lin<N>(fg, p); });
  vj::end_call(grid_obs<N>(gr) + "}");
}

// ------------------------------------------------------------------ clamp helpers
template <typename S, std::size_t N>
void op_clamped_min()
{
  vj::begin_call(vj::J().kv("f", "clamped_min").kv("N", static_cast<ll>(N)).kv("T", tname<S>()).s);
  std::string ps = "[", rs = "[";
  bool first = true;
  for_box<N>(fill_tup<N>(-2), fill_tup<N>(6), [&](tup<N> const &p) {
    if (!first) { ps += ','; rs += ','; }
    first = false;
    ps += js<N>(p);
    rs += jv<N>(grid::clamped_min(mkvec<grid::pos<S, N>>(p)).get());
  });
  vj::end_call(",\"ps\":" + ps + "],\"rs\":" + rs + "]}");
}

template <typename U, std::size_t N>
void op_clamped_sup(tup<N> const &size)
{
  vj::begin_call(vj::J().kv("f", "clamped_sup").kv("N", static_cast<ll>(N)).kv("T", tname<U>()).raw("size", js<N>(size)).s);
  std::string ps = "[", rs = "[";
  bool first = true;
  auto const d = mkdim<grid::dim<U, N>>(size);
  for_box<N>(fill_tup<N>(0), fill_tup<N>(6), [&](tup<N> const &p) {
    if (!first) { ps += ','; rs += ','; }
    first = false;
    ps += js<N>(p);
    rs += jv<N>(grid::clamped_sup(mkvec<grid::pos<U, N>>(p), d).get());
  });
  vj::end_call(",\"ps\":" + ps + "],\"rs\":" + rs + "]}");
}

template <typename S, std::size_t N>
void op_clamped_sup_signed(tup<N> const &size)
{
  using U = std::make_unsigned_t<S>;
  vj::begin_call(vj::J().kv("f", "clamped_sup_signed").kv("N", static_cast<ll>(N)).kv("T", tname<S>()).raw("size", js<N>(size)).s);
  std::string ps = "[", rs = "[";
  bool first = true;
  auto const d = mkdim<grid::dim<U, N>>(size);
  for_box<N>(fill_tup<N>(-2), fill_tup<N>(6), [&](tup<N> const &p) {
    if (!first) { ps += ','; rs += ','; }
    first = false;
    ps += js<N>(p);
    rs += jv<N>(grid::clamped_sup_signed(mkvec<grid::pos<S, N>>(p), d).get());
  });
  vj::end_call(",\"ps\":" + ps + "],\"rs\":" + rs + "]}");
}

// ------------------------------------------------------------------ enumeration
template <std::size_t N>
void record_n(int maxe, int maxc)
{
  tup<N> const z = fill_tup<N>(0);
  tup<N> const E = fill_tup<N>(maxe);
  tup<N> const C = fill_tup<N>(maxc);
  gen_t<N> const g1 = std_gen<N>(1000, 1, 10, 100);
  gen_t<N> const g2 = std_gen<N>(5000, 3, 7, 11);
  gen_t<N> const g3 = std_gen<N>(-40, -1, 2, 9);
  // 1. position ranges: every (min, sup) with components 0..maxc, with and without a grid
  for_box<N>(z, C, [&](tup<N> const &mn) {
    for_box<N>(z, C, [&](tup<N> const &sp) {
      op_pos_range<unsigned, N>(mn, sp, false);
      op_pos_range<unsigned long, N>(mn, sp, true);
    });
  });
  for_box<N>(z, E, [&](tup<N> const &size) {
    op_whole_range<unsigned, N>(size);
    op_whole_range<unsigned long, N>(size);
    op_offset<unsigned, N>(size);
    op_offset<unsigned long, N>(size);
    op_clamped_sup<unsigned, N>(size);
    op_clamped_sup<unsigned long, N>(size);
    op_clamped_sup_signed<int, N>(size);
    op_clamped_sup_signed<long, N>(size);
  });
  op_clamped_min<int, N>();
  op_clamped_min<long, N>();
  if (runaway)
  {
    vj::line(vj::J().kv("f", "stopped").kv("N", static_cast<ll>(N)).kv("why", "a position range did not terminate; operations that iterate inside the library are not driven"));
    return;
  }
  // 2. grids
  op_construct<N>(z, g1, "default");
  for_box<N>(z, E, [&](tup<N> const &size) {
    op_construct<N>(size, g1, "fn");
    op_construct<N>(size, g3, "fn");
    op_construct<N>(size, std_gen<N>(42, 0, 0, 0), "value");
    op_in_range<N>(size, g1);
    op_at<N>(size, g1);
    for (int c = 0; c < 2; ++c)
    {
      op_whole_ref_range<N>(size, g1, c != 0);
      // sub-ranges inside the grid only (min, sup <= size component-wise; includes empty and inverted ones)
      for_box<N>(z, size, [&](tup<N> const &mn) {
        for_box<N>(z, size, [&](tup<N> const &sp) { op_pos_ref_range<N>(size, g1, mn, sp, c != 0); });
      });
    }
    op_map<N>(size, g1, 3, 7, false);
    op_map<N>(size, g3, -2, 1, true);
    op_fill<N>(size, g1, g2);
    op_apply<N>({size}, {g1}, {3});
    for_box<N>(z, E, [&](tup<N> const &other) {
      op_resize<N>(size, g1, other, g2, false);
      op_resize<N>(size, g1, other, g2, true);
      op_apply<N>({size, other}, {g1, g2}, {2, 3});
      bool small = true;
      for (std::size_t i = 0; i < N; ++i) small = small && size[i] <= 2 && other[i] <= 2;
      if (small)
      {
        op_apply<N>({size, size, other}, {g1, g2, g3}, {2, 3, 5});
        op_apply<N>({size, other, size}, {g1, g2, g3}, {2, 3, 5});
        op_apply<N>({other, size, size}, {g1, g2, g3}, {2, 3, 5});
      }
    });
  });
}

template <std::size_t N>
tup<N> get_tup(vj::V const &v, char const *k)
{
  auto const x = v.nums(k);
  if (x.size() != N) throw std::runtime_error(std::string("replay: bad arity of ") + k);
  tup<N> t;
  for (std::size_t i = 0; i < N; ++i) t[i] = x[i];
  return t;
}
template <std::size_t N>
gen_t<N> get_gen(vj::V const &v, char const *k)
{
  auto const x = v.nums(k);
  if (x.size() != N + 1) throw std::runtime_error(std::string("replay: bad arity of ") + k);
  gen_t<N> t;
  for (std::size_t i = 0; i <= N; ++i) t[i] = x[i];
  return t;
}

template <std::size_t N>
void replay_n(vj::V const &v)
{
  std::string const f = v.str("f");
  std::string const T = v.has("T") ? v.str("T") : "";
  if (f == "pos_range")
  {
    bool const mk = v.str("via") == "mk";
    if (T == "u32") op_pos_range<unsigned, N>(get_tup<N>(v, "min"), get_tup<N>(v, "sup"), mk);
    else op_pos_range<unsigned long, N>(get_tup<N>(v, "min"), get_tup<N>(v, "sup"), mk);
  }
  else if (f == "whole_range")
  {
    if (T == "u32") op_whole_range<unsigned, N>(get_tup<N>(v, "dim"));
    else op_whole_range<unsigned long, N>(get_tup<N>(v, "dim"));
  }
  else if (f == "pos_ref_range")
    op_pos_ref_range<N>(get_tup<N>(v, "gsize"), get_gen<N>(v, "gen"), get_tup<N>(v, "min"), get_tup<N>(v, "sup"), v.at("c").b);
  else if (f == "whole_ref_range")
    op_whole_ref_range<N>(get_tup<N>(v, "gsize"), get_gen<N>(v, "gen"), v.at("c").b);
  else if (f == "offset")
  {
    if (T == "u32") op_offset<unsigned, N>(get_tup<N>(v, "size"));
    else op_offset<unsigned long, N>(get_tup<N>(v, "size"));
  }
  else if (f == "at")
    op_at<N>(get_tup<N>(v, "gsize"), get_gen<N>(v, "gen"));
  else if (f == "in_range")
    op_in_range<N>(get_tup<N>(v, "gsize"), get_gen<N>(v, "gen"));
  else if (f == "construct")
    op_construct<N>(get_tup<N>(v, "size"), get_gen<N>(v, "gen"), v.str("kind"));
  else if (f == "resize")
    op_resize<N>(get_tup<N>(v, "size"), get_gen<N>(v, "gen"), get_tup<N>(v, "nsize"), get_gen<N>(v, "igen"), v.at("rv").b);
  else if (f == "map")
    op_map<N>(get_tup<N>(v, "size"), get_gen<N>(v, "gen"), v.num("fa"), v.num("fb"), v.at("rv").b);
  else if (f == "fill")
    op_fill<N>(get_tup<N>(v, "size"), get_gen<N>(v, "gen"), get_gen<N>(v, "fgen"));
  else if (f == "apply")
  {
    std::vector<tup<N>> sizes;
    std::vector<gen_t<N>> gens;
    for (auto const &s : v.at("sizes").a)
    {
      tup<N> t;
      for (std::size_t i = 0; i < N; ++i) t[i] = s->a.at(i)->n;
      sizes.push_back(t);
    }
    for (auto const &s : v.at("gens").a)
    {
      gen_t<N> t;
      for (std::size_t i = 0; i <= N; ++i) t[i] = s->a.at(i)->n;
      gens.push_back(t);
    }
    op_apply<N>(sizes, gens, v.nums("co"));
  }
  else if (f == "clamped_min")
  {
    if (T == "i32") op_clamped_min<int, N>();
    else op_clamped_min<long, N>();
  }
  else if (f == "clamped_sup")
  {
    if (T == "u32") op_clamped_sup<unsigned, N>(get_tup<N>(v, "size"));
    else op_clamped_sup<unsigned long, N>(get_tup<N>(v, "size"));
  }
  else if (f == "clamped_sup_signed")
  {
    if (T == "i32") op_clamped_sup_signed<int, N>(get_tup<N>(v, "size"));
    else op_clamped_sup_signed<long, N>(get_tup<N>(v, "size"));
  }
  else
    throw std::runtime_error("replay: unknown f " + f);
}
}

int main(int argc, char **argv)
{
  if (argc < 4)
  {
    std::fprintf(stderr, "usage: c08_grid record OUT tier | replay RECORD OUT\n");
    return 3;
  }
  std::string const mode = argv[1];
  alarm(1500);
  if (mode == "record")
  {
    vj::open(argv[2]);
    bool const thorough = std::string(argv[3]) == "thorough";
    record_n<1>(4, 5);
    record_n<2>(4, 5);
    if (thorough)
      record_n<3>(4, 5);
    else
      record_n<3>(3, 3);
    vj::close();
    return 0;
  }
  if (mode == "replay")
  {
    auto const lines = vj::read_lines(argv[2]);
    vj::open(argv[3]);
    for (auto const &l : lines)
    {
      auto const v = vj::parse(l);
      switch (v->num("N"))
      {
      case 1: replay_n<1>(*v); break;
      case 2: replay_n<2>(*v); break;
      case 3: replay_n<3>(*v); break;
      default: throw std::runtime_error("replay: bad N");
      }
    }
    vj::close();
    return 0;
  }
  return 3;
}
