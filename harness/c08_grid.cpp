// C08 conformance harness: drives the real fcppt::container::grid position ranges, offset,
// at_optional / in_range, the grid constructors, resize / map / apply / fill and the clamp
// helpers over an exhaustively enumerated input space and records what they did (ndjson).
// It contains no expected values: spec/GridJudge.tla (TLC) judges every record against
// spec/Grid.tla.
//
//   c08_grid record OUT tier          (tier: quick | thorough)
//   c08_grid replay RECORD.json OUT   (re-drive the inputs of one saved record)
//   c08_grid objreplay SCRIPTS.ndjson OUT       (one JSON array of grid-object operations per line)
//   c08_grid objrecord OUT seed histories maxlen (seeded random grid-object histories)
//
// Representation conventions (not expectations): unsigned values >= 2^31-1 are logged as
// 2147483647 (TLC integers are 32 bit; every value the specification can demand in this
// input space is far smaller, so a saturated value never equals a demanded one);
// iteration is cut after CAP steps (watchdog; the record then carries "capped":true) and
// after a capped iteration the operations that loop inside the library are not driven
// any further (they could not terminate).
#include <common/vjson.hpp>

#include <fcppt/make_cref.hpp>
#include <fcppt/container/grid/apply.hpp>
#include <fcppt/container/grid/at_optional.hpp>
#include <fcppt/container/grid/clamped_min.hpp>
#include <fcppt/container/grid/clamped_sup.hpp>
#include <fcppt/container/grid/clamped_sup_signed.hpp>
#include <fcppt/container/grid/dim.hpp>
#include <fcppt/container/grid/fill.hpp>
#include <fcppt/container/grid/in_range.hpp>
#include <fcppt/container/grid/in_range_dim.hpp>
#include <fcppt/container/grid/interpolate.hpp>
#include <fcppt/container/grid/make_spiral_range.hpp>
#include <fcppt/container/grid/output.hpp>
#include <fcppt/container/grid/static_row.hpp>
#include <fcppt/math/interpolation/linear.hpp>
#include <fcppt/container/grid/make_pos_range.hpp>
#include <fcppt/container/grid/make_pos_range_start_end.hpp>
#include <fcppt/container/grid/make_pos_ref_crange.hpp>
#include <fcppt/container/grid/make_pos_ref_crange_start_end.hpp>
#include <fcppt/container/grid/make_pos_ref_range.hpp>
#include <fcppt/container/grid/make_pos_ref_range_start_end.hpp>
#include <fcppt/container/grid/map.hpp>
#include <fcppt/container/grid/min.hpp>
#include <fcppt/container/grid/object.hpp>
#include <fcppt/container/grid/offset.hpp>
#include <fcppt/container/grid/pos.hpp>
#include <fcppt/container/grid/pos_range.hpp>
#include <fcppt/container/grid/pos_ref_range.hpp>
#include <fcppt/container/grid/pos_reference.hpp>
#include <fcppt/container/grid/resize.hpp>
#include <fcppt/container/grid/sup.hpp>
#include <fcppt/math/dim/init.hpp>
#include <fcppt/math/vector/init.hpp>
#include <fcppt/optional/maybe.hpp>
#include <fcppt/optional/object.hpp>
#include <fcppt/optional/reference.hpp>

#include <sys/time.h>
#include <array>
#include <optional>
#include <sstream>
#include <cstdint>
#include <limits>
#include <string>
#include <utility>
#include <vector>

namespace
{
namespace grid = fcppt::container::grid;

using ll = long long;
template <std::size_t N>
using tup = std::array<ll, N>;

constexpr int CAP = 400;
bool runaway = false; // a capped iteration was observed

// ---- per-call watchdog (round 3): every driven call re-arms a CPU-time timer (ITIMER_VIRTUAL: user
// time of this process only, so a loaded machine cannot fire it); a call that spins for WD_SECS of CPU
// ends the process with a {"e":"crash","what":"hang"} line and rc 68 while the partial line names the call.
constexpr int WD_SECS = 20;
void wd_fire(int) { vj::crash_line("hang", SIGVTALRM); _exit(68); }
void wd_arm()
{
  static bool installed = false;
  if (!installed) { std::signal(SIGVTALRM, wd_fire); installed = true; }
  struct itimerval t{};
  t.it_value.tv_sec = WD_SECS;
  setitimer(ITIMER_VIRTUAL, &t, nullptr);
}
void wd_begin(std::string const &prefix) { wd_arm(); vj::begin_call(prefix); }

ll sat(unsigned long long v) { return v >= 2147483647ULL ? 2147483647LL : static_cast<ll>(v); }
ll sat(unsigned long v) { return sat(static_cast<unsigned long long>(v)); }
ll sat(unsigned v) { return sat(static_cast<unsigned long long>(v)); }
ll sat(long long v) { return v >= 2147483647LL ? 2147483647LL : (v <= -2147483647LL ? -2147483647LL : v); }
ll sat(long v) { return sat(static_cast<long long>(v)); }
ll sat(int v) { return static_cast<ll>(v); }

template <typename V, std::size_t N>
V mkvec(tup<N> const &a)
{
  return fcppt::math::vector::init<V>(
      [&a](auto const i) { return static_cast<typename V::value_type>(a[decltype(i)::value]); });
}
template <typename D, std::size_t N>
D mkdim(tup<N> const &a)
{
  return fcppt::math::dim::init<D>(
      [&a](auto const i) { return static_cast<typename D::value_type>(a[decltype(i)::value]); });
}

template <std::size_t N>
std::string js(tup<N> const &a)
{
  std::string s = "[";
  for (std::size_t i = 0; i < N; ++i)
  {
    if (i) s += ',';
    s += std::to_string(a[i]);
  }
  return s + "]";
}
// components of a vector / dim, saturated
template <std::size_t N, typename V>
std::string jv(V const &v)
{
  std::string s = "[";
  for (std::size_t i = 0; i < N; ++i)
  {
    if (i) s += ',';
    s += std::to_string(sat(v.get_unsafe(i)));
  }
  return s + "]";
}
std::string jl(std::vector<ll> const &v) { return vj::arr(v); }

// odometer over the box lo[i]..hi[i] (inclusive), x fastest; the order is irrelevant to the judge
template <std::size_t N, typename F>
void for_box(tup<N> const &lo, tup<N> const &hi, F const &f)
{
  for (std::size_t i = 0; i < N; ++i)
    if (lo[i] > hi[i]) return;
  tup<N> c = lo;
  for (;;)
  {
    f(c);
    std::size_t i = 0;
    for (; i < N; ++i)
    {
      if (c[i] < hi[i])
      {
        ++c[i];
        break;
      }
      c[i] = lo[i];
    }
    if (i == N) return;
  }
}
template <std::size_t N>
tup<N> fill_tup(ll v)
{
  tup<N> t;
  t.fill(v);
  return t;
}
template <std::size_t N>
tup<N> minus1(tup<N> t)
{
  for (auto &x : t) --x;
  return t;
}

template <std::size_t N>
using gen_t = std::array<ll, N + 1>; // c0 + sum c[i+1]*p[i]
template <std::size_t N>
gen_t<N> std_gen(ll c0, ll a, ll b, ll c)
{
  gen_t<N> g{};
  ll const co[3] = {a, b, c};
  g[0] = c0;
  for (std::size_t i = 0; i < N; ++i) g[i + 1] = co[i];
  return g;
}
template <std::size_t N, typename P>
int lin(gen_t<N> const &g, P const &p)
{
  ll r = g[0];
  for (std::size_t i = 0; i < N; ++i) r += g[i + 1] * static_cast<ll>(p.get_unsafe(i));
  return static_cast<int>(r);
}

template <std::size_t N>
using grid_t = grid::object<int, N>;

template <std::size_t N>
grid_t<N> make_grid(tup<N> const &size, gen_t<N> const &g)
{
  using G = grid_t<N>;
  return G(mkdim<typename G::dim>(size), [&g](typename G::pos const &p) { return lin<N>(g, p); });
}

// the observable part of a grid: size(), content(), empty(), every cell read with get_unsafe
// over the positions of size() (extents read up to 8: watchdog), the storage sequence begin()..end()
template <std::size_t N>
std::string grid_obs(grid_t<N> const &g)
{
  using G = grid_t<N>;
  vj::J j;
  tup<N> hi;
  bool any = true;
  for (std::size_t i = 0; i < N; ++i)
  {
    ll e = sat(g.size().get_unsafe(i));
    if (e > 8) e = 8;
    hi[i] = e - 1;
    if (e == 0) any = false;
  }
  std::string cells = "[";
  bool first = true;
  if (any)
    for_box<N>(fill_tup<N>(0), hi, [&](tup<N> const &p) {
      if (!first) cells += ',';
      first = false;
      cells += "[";
      for (std::size_t i = 0; i < N; ++i) cells += std::to_string(p[i]) + ",";
      cells += std::to_string(g.get_unsafe(mkvec<typename G::pos>(p))) + "]";
    });
  cells += "]";
  std::vector<ll> flat;
  int n = 0;
  for (auto it = g.begin(); it != g.end() && n < 100000; ++it, ++n) flat.push_back(*it);
  std::string s = "\"gsize\":" + jv<N>(g.size()) + ",\"content\":" + std::to_string(sat(g.content())) +
                  ",\"empty\":" + (g.empty() ? "true" : "false") + ",\"cells\":" + cells + ",\"flat\":" + jl(flat);
  return s;
}

template <typename T>
char const *tname();
template <>
char const *tname<unsigned>() { return "u32"; }
template <>
char const *tname<unsigned long>() { return "u64"; }
template <>
char const *tname<int>() { return "i32"; }
template <>
char const *tname<long>() { return "i64"; }

// ------------------------------------------------------------------ position ranges
template <typename Range, std::size_t N>
void walk(Range const &r, std::string &vis, bool &capped)
{
  vis = "[";
  int n = 0;
  capped = false;
  auto const e = r.end();
  for (auto it = r.begin(); it != e; ++it)
  {
    if (n == CAP)
    {
      capped = true;
      runaway = true;
      break;
    }
    if (n) vis += ',';
    vis += jv<N>(*it);
    ++n;
  }
  vis += "]";
}

template <typename T, std::size_t N>
void op_pos_range(tup<N> const &mn, tup<N> const &sp, bool via_mk)
{
  using pos = grid::pos<T, N>;
  using min_t = grid::min<T, N>;
  using sup_t = grid::sup<T, N>;
  wd_begin(vj::J().kv("f", "pos_range").kv("N", static_cast<ll>(N)).kv("T", tname<T>()).kv("via", via_mk ? "mk" : "ctor")
                     .raw("min", js<N>(mn)).raw("sup", js<N>(sp)).s);
  min_t const m{mkvec<pos>(mn)};
  sup_t const s{mkvec<pos>(sp)};
  grid::pos_range<T, N> const r = via_mk ? grid::make_pos_range_start_end(m, s) : grid::pos_range<T, N>(m, s);
  std::string vis;
  bool capped;
  walk<decltype(r), N>(r, vis, capped);
  vj::end_call(",\"vis\":" + vis + ",\"capped\":" + (capped ? "true" : "false") + ",\"size\":" + std::to_string(sat(r.size())) +
               ",\"rmin\":" + jv<N>(r.min().get()) + ",\"rsup\":" + jv<N>(r.sup().get()) + "}");
}

template <typename T, std::size_t N>
void op_whole_range(tup<N> const &size)
{
  wd_begin(vj::J().kv("f", "whole_range").kv("N", static_cast<ll>(N)).kv("T", tname<T>()).raw("dim", js<N>(size)).s);
  auto const r = grid::make_pos_range(mkdim<grid::dim<T, N>>(size));
  std::string vis;
  bool capped;
  walk<decltype(r), N>(r, vis, capped);
  vj::end_call(",\"vis\":" + vis + ",\"capped\":" + (capped ? "true" : "false") + ",\"size\":" + std::to_string(sat(r.size())) + "}");
}

template <typename Range, std::size_t N>
void walk_ref(Range const &r, std::string &vis, std::vector<ll> &vals, bool &capped)
{
  vis = "[";
  int n = 0;
  capped = false;
  auto const e = r.end();
  for (auto it = r.begin(); it != e; ++it)
  {
    if (n == CAP)
    {
      capped = true;
      runaway = true;
      break;
    }
    auto const ref = *it;
    if (n) vis += ',';
    vis += jv<N>(ref.pos());
    vals.push_back(ref.value());
    ++n;
  }
  vis += "]";
}

template <std::size_t N>
void op_pos_ref_range(tup<N> const &gsize, gen_t<N> const &g, tup<N> const &mn, tup<N> const &sp, bool cnst)
{
  using G = grid_t<N>;
  using pos = typename G::pos;
  wd_begin(vj::J().kv("f", "pos_ref_range").kv("N", static_cast<ll>(N)).raw("gsize", js<N + 0>(gsize)).raw("gen", js<N + 1>(g))
                     .raw("min", js<N>(mn)).raw("sup", js<N>(sp)).kv("c", cnst).s);
  G gr = make_grid<N>(gsize, g);
  std::string vis;
  std::vector<ll> vals;
  bool capped;
  ll size;
  if (cnst)
  {
    using R = grid::pos_ref_range<G const>;
    R const r = grid::make_pos_ref_crange_start_end(gr, typename R::min_type{mkvec<pos>(mn)}, typename R::sup_type{mkvec<pos>(sp)});
    walk_ref<R, N>(r, vis, vals, capped);
    size = sat(r.size());
  }
  else
  {
    using R = grid::pos_ref_range<G>;
    R const r = grid::make_pos_ref_range_start_end(gr, typename R::min_type{mkvec<pos>(mn)}, typename R::sup_type{mkvec<pos>(sp)});
    walk_ref<R, N>(r, vis, vals, capped);
    size = sat(r.size());
  }
  vj::end_call(",\"vis\":" + vis + ",\"vals\":" + jl(vals) + ",\"capped\":" + (capped ? "true" : "false") + ",\"size\":" + std::to_string(size) + "}");
}

template <std::size_t N>
void op_whole_ref_range(tup<N> const &gsize, gen_t<N> const &g, bool cnst)
{
  using G = grid_t<N>;
  wd_begin(vj::J().kv("f", "whole_ref_range").kv("N", static_cast<ll>(N)).raw("gsize", js<N>(gsize)).raw("gen", js<N + 1>(g)).kv("c", cnst).s);
  G gr = make_grid<N>(gsize, g);
  std::string vis;
  std::vector<ll> vals;
  bool capped;
  ll size;
  if (cnst)
  {
    auto const r = grid::make_pos_ref_crange(gr);
    walk_ref<decltype(r), N>(r, vis, vals, capped);
    size = sat(r.size());
  }
  else
  {
    auto const r = grid::make_pos_ref_range(gr);
    walk_ref<decltype(r), N>(r, vis, vals, capped);
    size = sat(r.size());
  }
  vj::end_call(",\"vis\":" + vis + ",\"vals\":" + jl(vals) + ",\"capped\":" + (capped ? "true" : "false") + ",\"size\":" + std::to_string(size) + "}");
}

// ------------------------------------------------------------------ offset
template <typename T, std::size_t N>
void op_offset(tup<N> const &size)
{
  wd_begin(vj::J().kv("f", "offset").kv("N", static_cast<ll>(N)).kv("T", tname<T>()).raw("size", js<N>(size)).s);
  std::string ps = "[";
  std::vector<ll> offs;
  auto const d = mkdim<grid::dim<T, N>>(size);
  for_box<N>(fill_tup<N>(0), minus1<N>(size), [&](tup<N> const &p) {
    if (!offs.empty()) ps += ',';
    ps += js<N>(p);
    offs.push_back(sat(grid::offset(mkvec<grid::pos<T, N>>(p), d)));
  });
  ps += "]";
  vj::end_call(",\"ps\":" + ps + ",\"offs\":" + jl(offs) + "}");
}

// ------------------------------------------------------------------ at_optional / in_range
// the probe positions around a grid: components 0 .. extent+2 and the two largest values of the
// (unsigned) size type
template <std::size_t N, typename F>
void for_probes(tup<N> const &gsize, F const &f)
{
  using pos = typename grid_t<N>::pos;
  tup<N> hi;
  for (std::size_t i = 0; i < N; ++i) hi[i] = gsize[i] + 4;
  constexpr std::size_t mx = std::numeric_limits<std::size_t>::max();
  for_box<N>(fill_tup<N>(0), hi, [&](tup<N> const &c) {
    pos p = mkvec<pos>(c);
    for (std::size_t i = 0; i < N; ++i)
      if (c[i] > gsize[i] + 2) p.get_unsafe(i) = mx - static_cast<std::size_t>(gsize[i] + 4 - c[i]);
    f(p);
  });
}

template <std::size_t N>
void op_in_range(tup<N> const &gsize, gen_t<N> const &g)
{
  using G = grid_t<N>;
  using pos = typename G::pos;
  wd_begin(vj::J().kv("f", "in_range").kv("N", static_cast<ll>(N)).raw("gsize", js<N>(gsize)).raw("gen", js<N + 1>(g)).s);
  G const gr = make_grid<N>(gsize, g);
  std::string ps = "[";
  std::vector<ll> inr, ird;
  for_probes<N>(gsize, [&](pos const &p) {
    if (!inr.empty()) ps += ',';
    ps += jv<N>(p);
    inr.push_back(grid::in_range(gr, p) ? 1 : 0);
    ird.push_back(grid::in_range_dim(gr.size(), p) ? 1 : 0);
  });
  ps += "]";
  vj::end_call(",\"ps\":" + ps + ",\"inr\":" + jl(inr) + ",\"ird\":" + jl(ird) + "}");
}

template <std::size_t N>
void op_at(tup<N> const &gsize, gen_t<N> const &g)
{
  using G = grid_t<N>;
  using pos = typename G::pos;
  wd_begin(vj::J().kv("f", "at").kv("N", static_cast<ll>(N)).raw("gsize", js<N>(gsize)).raw("gen", js<N + 1>(g)).s);
  G gr = make_grid<N>(gsize, g);
  G const &cgr = gr;
  std::string ps = "[";
  std::vector<ll> some, val, somec, valc;
  for_probes<N>(gsize, [&](pos const &p) {
    if (!some.empty()) ps += ',';
    ps += jv<N>(p);
    fcppt::optional::reference<int> const r = grid::at_optional(gr, p);
    some.push_back(r.has_value() ? 1 : 0);
    val.push_back(fcppt::optional::maybe(r, [] { return 0; }, [](fcppt::reference<int> const x) { return x.get(); }));
    fcppt::optional::reference<int const> const rc = grid::at_optional(cgr, p);
    somec.push_back(rc.has_value() ? 1 : 0);
    valc.push_back(fcppt::optional::maybe(rc, [] { return 0; }, [](fcppt::reference<int const> const x) { return x.get(); }));
  });
  ps += "]";
  vj::end_call(",\"ps\":" + ps + ",\"some\":" + jl(some) + ",\"val\":" + jl(val) + ",\"somec\":" + jl(somec) + ",\"valc\":" + jl(valc) + "}");
}

// ------------------------------------------------------------------ constructors
template <std::size_t N>
void op_construct(tup<N> const &size, gen_t<N> const &g, std::string const &kind)
{
  using G = grid_t<N>;
  wd_begin(vj::J().kv("f", "construct").kv("N", static_cast<ll>(N)).kv("kind", kind).raw("size", js<N>(size)).raw("gen", js<N + 1>(g)).s + ",");
  if (kind == "fn")
  {
    G const gr = make_grid<N>(size, g);
    vj::end_call(grid_obs<N>(gr) + "}");
  }
  else if (kind == "value")
  {
    G const gr(mkdim<typename G::dim>(size), static_cast<int>(g[0]));
    vj::end_call(grid_obs<N>(gr) + "}");
  }
  else
  {
    G const gr{};
    vj::end_call(grid_obs<N>(gr) + "}");
  }
}

// ------------------------------------------------------------------ resize / map / apply / fill
template <std::size_t N>
void op_resize(tup<N> const &size, gen_t<N> const &g, tup<N> const &nsize, gen_t<N> const &ig, bool rv)
{
  using G = grid_t<N>;
  wd_begin(vj::J().kv("f", "resize").kv("N", static_cast<ll>(N)).raw("size", js<N>(size)).raw("gen", js<N + 1>(g))
                     .raw("nsize", js<N>(nsize)).raw("igen", js<N + 1>(ig)).kv("rv", rv).s + ",");
  G src = make_grid<N>(size, g);
  auto const init = [&ig](typename G::pos const &p) { return lin<N>(ig, p); };
  auto const nd = mkdim<typename G::dim>(nsize);
  G const res = rv ? grid::resize(std::move(src), nd, init) : grid::resize(src, nd, init);
  vj::end_call(grid_obs<N>(res) + "}");
}

template <std::size_t N>
void op_map(tup<N> const &size, gen_t<N> const &g, ll fa, ll fb, bool rv)
{
  using G = grid_t<N>;
  wd_begin(vj::J().kv("f", "map").kv("N", static_cast<ll>(N)).raw("size", js<N>(size)).raw("gen", js<N + 1>(g)).kv("fa", fa).kv("fb", fb).kv("rv", rv).s + ",");
  G src = make_grid<N>(size, g);
  auto const f = [fa, fb](int const x) { return static_cast<int>(fa * x + fb); };
  G const res = rv ? grid::map(std::move(src), f) : grid::map(src, f);
  vj::end_call(grid_obs<N>(res) + "}");
}

template <std::size_t N>
void op_apply(std::vector<tup<N>> const &sizes, std::vector<gen_t<N>> const &gens, std::vector<ll> const &co)
{
  using G = grid_t<N>;
  std::string ss = "[", gs = "[";
  for (std::size_t k = 0; k < sizes.size(); ++k)
  {
    if (k) { ss += ','; gs += ','; }
    ss += js<N>(sizes[k]);
    gs += js<N + 1>(gens[k]);
  }
  ss += "]";
  gs += "]";
  wd_begin(vj::J().kv("f", "apply").kv("N", static_cast<ll>(N)).raw("sizes", ss).raw("gens", gs).raw("co", jl(co)).s + ",");
  std::vector<G> in;
  for (std::size_t k = 0; k < sizes.size(); ++k) in.push_back(make_grid<N>(sizes[k], gens[k]));
  if (in.size() == 1)
  {
    G const res = grid::apply([&co](int a) { return static_cast<int>(co[0] * a); }, in[0]);
    vj::end_call(grid_obs<N>(res) + "}");
  }
  else if (in.size() == 2)
  {
    G const res = grid::apply([&co](int a, int b) { return static_cast<int>(co[0] * a + co[1] * b); }, in[0], in[1]);
    vj::end_call(grid_obs<N>(res) + "}");
  }
  else
  {
    G const res = grid::apply([&co](int a, int b, int c) { return static_cast<int>(co[0] * a + co[1] * b + co[2] * c); }, in[0], in[1], in[2]);
    vj::end_call(grid_obs<N>(res) + "}");
  }
}

template <std::size_t N>
void op_fill(tup<N> const &size, gen_t<N> const &g, gen_t<N> const &fg)
{
  using G = grid_t<N>;
  wd_begin(vj::J().kv("f", "fill").kv("N", static_cast<ll>(N)).raw("size", js<N>(size)).raw("gen", js<N + 1>(g)).raw("fgen", js<N + 1>(fg)).s + ",");
  G gr = make_grid<N>(size, g);
  grid::fill(gr, [&fg](typename G::pos const &p) { return lin<N>(fg, p); });
  vj::end_call(grid_obs<N>(gr) + "}");
}

// ------------------------------------------------------------------ clamp helpers
template <typename S, std::size_t N>
void op_clamped_min()
{
  wd_begin(vj::J().kv("f", "clamped_min").kv("N", static_cast<ll>(N)).kv("T", tname<S>()).s);
  std::string ps = "[", rs = "[";
  bool first = true;
  for_box<N>(fill_tup<N>(-2), fill_tup<N>(6), [&](tup<N> const &p) {
    if (!first) { ps += ','; rs += ','; }
    first = false;
    ps += js<N>(p);
    rs += jv<N>(grid::clamped_min(mkvec<grid::pos<S, N>>(p)).get());
  });
  vj::end_call(",\"ps\":" + ps + "],\"rs\":" + rs + "]}");
}

template <typename U, std::size_t N>
void op_clamped_sup(tup<N> const &size)
{
  wd_begin(vj::J().kv("f", "clamped_sup").kv("N", static_cast<ll>(N)).kv("T", tname<U>()).raw("size", js<N>(size)).s);
  std::string ps = "[", rs = "[";
  bool first = true;
  auto const d = mkdim<grid::dim<U, N>>(size);
  for_box<N>(fill_tup<N>(0), fill_tup<N>(6), [&](tup<N> const &p) {
    if (!first) { ps += ','; rs += ','; }
    first = false;
    ps += js<N>(p);
    rs += jv<N>(grid::clamped_sup(mkvec<grid::pos<U, N>>(p), d).get());
  });
  vj::end_call(",\"ps\":" + ps + "],\"rs\":" + rs + "]}");
}

template <typename S, std::size_t N>
void op_clamped_sup_signed(tup<N> const &size)
{
  using U = std::make_unsigned_t<S>;
  wd_begin(vj::J().kv("f", "clamped_sup_signed").kv("N", static_cast<ll>(N)).kv("T", tname<S>()).raw("size", js<N>(size)).s);
  std::string ps = "[", rs = "[";
  bool first = true;
  auto const d = mkdim<grid::dim<U, N>>(size);
  for_box<N>(fill_tup<N>(-2), fill_tup<N>(6), [&](tup<N> const &p) {
    if (!first) { ps += ','; rs += ','; }
    first = false;
    ps += js<N>(p);
    rs += jv<N>(grid::clamped_sup_signed(mkvec<grid::pos<S, N>>(p), d).get());
  });
  vj::end_call(",\"ps\":" + ps + "],\"rs\":" + rs + "]}");
}

// ------------------------------------------------------------------ round 3: wide values
// offset on grids far larger than the enumerated ones (offset is a pure function of position and size, no
// grid is allocated): strides beyond 2^16, every offset below 2^31 (TLC integers)
template <typename T, std::size_t N>
void op_offset_at(tup<N> const &size)
{
  wd_begin(vj::J().kv("f", "offset_at").kv("N", static_cast<ll>(N)).kv("T", tname<T>()).raw("size", js<N>(size)).s);
  std::string ps = "[";
  std::vector<ll> offs;
  auto const d = mkdim<grid::dim<T, N>>(size);
  tup<N> lo, hi;
  for (std::size_t i = 0; i < N; ++i) { lo[i] = 0; hi[i] = 3; }
  // per coordinate: 0, 1, extent / 2, extent - 1
  for_box<N>(lo, hi, [&](tup<N> const &c) {
    tup<N> p;
    for (std::size_t i = 0; i < N; ++i) p[i] = c[i] == 0 ? 0 : c[i] == 1 ? 1 : c[i] == 2 ? size[i] / 2 : size[i] - 1;
    if (!offs.empty()) ps += ',';
    ps += js<N>(p);
    offs.push_back(sat(grid::offset(mkvec<grid::pos<T, N>>(p), d)));
  });
  ps += "]";
  vj::end_call(",\"ps\":" + ps + ",\"offs\":" + jl(offs) + "}");
}

// the clamp helpers on extreme coordinates of the position type (N = 1, 2).  Inputs and results are logged
// saturated to +-(2^31-1); clamping is monotone, so the saturated result of the documented function is the
// documented function of the saturated input whenever the bound (size <= 6 / 0) is small.
template <typename S>
std::vector<S> extreme_values()
{
  using L = std::numeric_limits<S>;
  std::vector<S> v{L::min(), static_cast<S>(L::min() + 1), static_cast<S>(3), static_cast<S>(L::max() - 1), L::max()};
  if constexpr (std::is_signed_v<S>) v.push_back(static_cast<S>(-1));
  if constexpr (sizeof(S) == 8)
  {
    v.push_back(static_cast<S>((1ULL << 32) + 2U));
    v.push_back(static_cast<S>(1ULL << 31));
    v.push_back(static_cast<S>((1ULL << 40) + 1U));
    if constexpr (std::is_signed_v<S>) v.push_back(static_cast<S>(-((1LL << 32) + 2)));
  }
  return v;
}
template <typename S, std::size_t N, typename F>
void for_extremes(F const &f)
{
  auto const vals = extreme_values<S>();
  if constexpr (N == 1)
    for (S a : vals) f(grid::pos<S, 1>(a));
  else
    for (S a : vals)
      for (S b : vals) f(grid::pos<S, 2>(a, b));
}
template <typename S, std::size_t N>
void op_clamped_ext(std::string const &f, tup<N> const &size)
{
  using U = std::make_unsigned_t<S>;
  wd_begin(vj::J().kv("f", f).kv("N", static_cast<ll>(N)).kv("T", tname<S>()).kv("ext", true).raw("size", js<N>(size)).s);
  std::string ps = "[", rs = "[";
  bool first = true;
  auto const d = mkdim<grid::dim<U, N>>(size);
  for_extremes<S, N>([&](grid::pos<S, N> const &p) {
    if (!first) { ps += ','; rs += ','; }
    first = false;
    ps += jv<N>(p);
    if constexpr (std::is_signed_v<S>)
    {
      if (f == "clamped_min") rs += jv<N>(grid::clamped_min(p).get());
      else rs += jv<N>(grid::clamped_sup_signed(p, d).get());
    }
    else
      rs += jv<N>(grid::clamped_sup(p, d).get());
  });
  vj::end_call(",\"ps\":" + ps + "],\"rs\":" + rs + "]}");
}
template <std::size_t N>
void record_wide()
{
  for (ll e : {0LL, 4LL})
  {
    tup<N> const size = fill_tup<N>(e);
    op_clamped_ext<int, N>("clamped_min", size);
    op_clamped_ext<long, N>("clamped_min", size);
    op_clamped_ext<int, N>("clamped_sup_signed", size);
    op_clamped_ext<long, N>("clamped_sup_signed", size);
    op_clamped_ext<unsigned, N>("clamped_sup", size);
    op_clamped_ext<unsigned long, N>("clamped_sup", size);
  }
}

// ------------------------------------------------------------------ enumeration
template <std::size_t N>
void record_n(int maxe, int maxc)
{
  tup<N> const z = fill_tup<N>(0);
  tup<N> const E = fill_tup<N>(maxe);
  tup<N> const C = fill_tup<N>(maxc);
  gen_t<N> const g1 = std_gen<N>(1000, 1, 10, 100);
  gen_t<N> const g2 = std_gen<N>(5000, 3, 7, 11);
  gen_t<N> const g3 = std_gen<N>(-40, -1, 2, 9);
  // 1. position ranges: every (min, sup) with components 0..maxc, with and without a grid
  for_box<N>(z, C, [&](tup<N> const &mn) {
    for_box<N>(z, C, [&](tup<N> const &sp) {
      op_pos_range<unsigned, N>(mn, sp, false);
      op_pos_range<unsigned long, N>(mn, sp, true);
    });
  });
  // round 3: signed position types (components -2..2; N = 3: -1..1)
  {
    tup<N> const slo = fill_tup<N>(N == 3 ? -1 : -2), shi = fill_tup<N>(N == 3 ? 1 : 2);
    for_box<N>(slo, shi, [&](tup<N> const &mn) {
      for_box<N>(slo, shi, [&](tup<N> const &sp) {
        op_pos_range<int, N>(mn, sp, false);
        op_pos_range<long, N>(mn, sp, true);
      });
    });
  }
  if constexpr (N == 2)
  {
    for (tup<N> const &size : {tup<N>{300, 300}, tup<N>{70000, 3}, tup<N>{3, 70000}, tup<N>{46000, 46000}})
    {
      op_offset_at<unsigned, N>(size);
      op_offset_at<unsigned long, N>(size);
    }
    record_wide<2>();
  }
  if constexpr (N == 1) record_wide<1>();
  if constexpr (N == 3)
    for (tup<N> const &size : {tup<N>{300, 300, 20}, tup<N>{1000, 1000, 1000}, tup<N>{2, 70000, 3}, tup<N>{256, 256, 256}})
    {
      op_offset_at<unsigned, N>(size);
      op_offset_at<unsigned long, N>(size);
    }
  for_box<N>(z, E, [&](tup<N> const &size) {
    op_whole_range<unsigned, N>(size);
    op_whole_range<unsigned long, N>(size);
    op_offset<unsigned, N>(size);
    op_offset<unsigned long, N>(size);
    op_clamped_sup<unsigned, N>(size);
    op_clamped_sup<unsigned long, N>(size);
    op_clamped_sup_signed<int, N>(size);
    op_clamped_sup_signed<long, N>(size);
  });
  op_clamped_min<int, N>();
  op_clamped_min<long, N>();
  if (runaway)
  {
    vj::line(vj::J().kv("f", "stopped").kv("N", static_cast<ll>(N)).kv("why", "a position range did not terminate; operations that iterate inside the library are not driven"));
    return;
  }
  // 2. grids
  op_construct<N>(z, g1, "default");
  for_box<N>(z, E, [&](tup<N> const &size) {
    op_construct<N>(size, g1, "fn");
    op_construct<N>(size, g3, "fn");
    op_construct<N>(size, std_gen<N>(42, 0, 0, 0), "value");
    op_in_range<N>(size, g1);
    op_at<N>(size, g1);
    for (int c = 0; c < 2; ++c)
    {
      op_whole_ref_range<N>(size, g1, c != 0);
      // sub-ranges inside the grid only (min, sup <= size component-wise; includes empty and inverted ones)
      for_box<N>(z, size, [&](tup<N> const &mn) {
        for_box<N>(z, size, [&](tup<N> const &sp) { op_pos_ref_range<N>(size, g1, mn, sp, c != 0); });
      });
    }
    op_map<N>(size, g1, 3, 7, false);
    op_map<N>(size, g3, -2, 1, true);
    op_fill<N>(size, g1, g2);
    op_apply<N>({size}, {g1}, {3});
    for_box<N>(z, E, [&](tup<N> const &other) {
      op_resize<N>(size, g1, other, g2, false);
      op_resize<N>(size, g1, other, g2, true);
      op_apply<N>({size, other}, {g1, g2}, {2, 3});
      bool small = true;
      for (std::size_t i = 0; i < N; ++i) small = small && size[i] <= 2 && other[i] <= 2;
      if (small)
      {
        op_apply<N>({size, size, other}, {g1, g2, g3}, {2, 3, 5});
        op_apply<N>({size, other, size}, {g1, g2, g3}, {2, 3, 5});
        op_apply<N>({other, size, size}, {g1, g2, g3}, {2, 3, 5});
      }
    });
  });
}

template <std::size_t N>
tup<N> get_tup(vj::V const &v, char const *k)
{
  auto const x = v.nums(k);
  if (x.size() != N) throw std::runtime_error(std::string("replay: bad arity of ") + k);
  tup<N> t;
  for (std::size_t i = 0; i < N; ++i) t[i] = x[i];
  return t;
}
template <std::size_t N>
gen_t<N> get_gen(vj::V const &v, char const *k)
{
  auto const x = v.nums(k);
  if (x.size() != N + 1) throw std::runtime_error(std::string("replay: bad arity of ") + k);
  gen_t<N> t;
  for (std::size_t i = 0; i <= N; ++i) t[i] = x[i];
  return t;
}


// ================================================================== extension round
// ------------------------------------------------------------------ interpolate (dyadic positions, exact)
// grid<double> with integer cell values, position = q / 4 per coordinate, linear interpolator:
// the result times 16 is an integer and is logged as such.  Only positions whose 2^N neighbours
// floor(q/4) + {0,1}^N are inside the grid are driven (the function reads all of them).
template <std::size_t N>
void op_interp(tup<N> const &gsize, gen_t<N> const &g, tup<N> const &q)
{
  using G = grid::object<double, N>;
  wd_begin(vj::J().kv("f", "interp").kv("N", static_cast<ll>(N)).raw("gsize", js<N>(gsize)).raw("gen", js<N + 1>(g)).raw("q", js<N>(q)).s);
  G const gr(mkdim<typename G::dim>(gsize), [&g](typename G::pos const &p) { return static_cast<double>(lin<N>(g, p)); });
  auto const pos = fcppt::math::vector::init<fcppt::math::vector::static_<double, N>>(
      [&q](auto const i) { return static_cast<double>(q[decltype(i)::value]) / 4.0; });
  double const r = grid::interpolate(gr, pos, [](double const f, double const a, double const b) { return fcppt::math::interpolation::linear(f, a, b); });
  double const r16 = r * 16.0;
  ll const ri = static_cast<ll>(r16);
  vj::end_call(",\"r16\":" + std::to_string(ri) + ",\"exact\":" + (static_cast<double>(ri) == r16 ? "true" : "false") + "}");
}

// ------------------------------------------------------------------ spiral range x grid
// walk make_spiral_range around a (signed) origin; every produced position with non-negative
// coordinates is looked up with at_optional; the cells found are logged in the order found
void op_spiral_grid(tup<2> const &gsize, gen_t<2> const &g, tup<2> const &o, ll d)
{
  using G = grid_t<2>;
  using spos = grid::pos<long, 2>;
  wd_begin(vj::J().kv("f", "spiral_grid").kv("N", 2).raw("gsize", js<2>(gsize)).raw("gen", js<3>(g)).raw("o", js<2>(o)).kv("d", d).s);
  G gr = make_grid<2>(gsize, g);
  std::string hits = "[";
  std::vector<ll> vals;
  int n = 0;
  bool capped = false;
  auto const r = grid::make_spiral_range(spos(static_cast<long>(o[0]), static_cast<long>(o[1])), static_cast<long>(d));
  for (auto it = r.begin(); it != r.end(); ++it)
  {
    if (++n > CAP)
    {
      capped = true;
      break;
    }
    spos const sp = *it;
    if (sp.x() < 0 || sp.y() < 0) continue;
    typename G::pos const up(static_cast<std::size_t>(sp.x()), static_cast<std::size_t>(sp.y()));
    auto const ref = grid::at_optional(gr, up);
    if (ref.has_value())
    {
      if (!vals.empty()) hits += ',';
      hits += jv<2>(up);
      vals.push_back(fcppt::optional::maybe(ref, [] { return 0; }, [](fcppt::reference<int> const x) { return x.get(); }));
    }
  }
  vj::end_call(",\"hits\":" + hits + "],\"vals\":" + jl(vals) + ",\"capped\":" + (capped ? "true" : "false") + "}");
}

// ------------------------------------------------------------------ the grid object as a state machine
constexpr int NSLOT = 2;
using G2 = grid_t<2>;
struct slot_t
{
  std::optional<G2> g;
  bool moved = false;
};
slot_t slots[NSLOT + 1]; // 1-based

std::string slot_obs(slot_t const &s)
{
  if (!s.g.has_value()) return "{\"k\":\"dead\"}";
  if (s.moved) return "{\"k\":\"moved\"}";
  return "{\"k\":\"live\"," + grid_obs<2>(*s.g) + "}";
}
std::string all_slots()
{
  std::string r = "[";
  for (int k = 1; k <= NSLOT; ++k)
  {
    if (k > 1) r += ',';
    r += slot_obs(slots[k]);
  }
  return r + "]";
}

G2 rows_grid(ll w, ll h)
{
  using grid::static_row;
  if (w == 1 && h == 1) return G2(static_row(1));
  if (w == 3 && h == 2) return G2(static_row(1, 2, 3), static_row(4, 5, 6));
  if (w == 2 && h == 3) return G2(static_row(1, 2), static_row(3, 4), static_row(5, 6));
  if (w == 4 && h == 1) return G2(static_row(1, 2, 3, 4));
  if (w == 1 && h == 3) return G2(static_row(1), static_row(2), static_row(3));
  throw std::runtime_error("rows shape not instantiated");
}

struct action
{
  std::string op;
  int d = 0, s = 0;
  tup<2> size{{0, 0}};
  ll v = 0;
  gen_t<2> gen{{0, 0, 0}};
  tup<2> p{{0, 0}};
  ll k = 0;
};
std::string action_json(action const &a)
{
  return vj::J().kv("op", a.op).kv("d", a.d).kv("s", a.s).raw("size", js<2>(a.size)).kv("v", a.v).raw("gen", js<3>(a.gen)).raw("p", js<2>(a.p)).kv("k", a.k).s;
}

// get_unsafe / iterator writes outside the object are undefined: a script (generated from the model) is
// only continued while its next operation is defined on the REAL object; otherwise the history is
// abandoned with an "obj_stop" record (the divergence was caused by an earlier, already judged event)
bool obj_defined(action const &a)
{
  if (a.op != "write_unsafe" && a.op != "write_iter") return true;
  slot_t const &D = slots[a.d];
  if (!D.g.has_value() || D.moved) return false;
  if (a.op == "write_iter") return a.k >= 0 && static_cast<unsigned long long>(a.k) < D.g->content();
  return a.p[0] >= 0 && a.p[1] >= 0 && static_cast<unsigned long long>(a.p[0]) < D.g->size().w() &&
         static_cast<unsigned long long>(a.p[1]) < D.g->size().h() && D.g->content() == static_cast<std::size_t>(std::distance(D.g->begin(), D.g->end()));
}

bool obj_step(long h, int i, action const &a)
{
  if (!obj_defined(a))
  {
    vj::line("{\"f\":\"obj_stop\",\"N\":2,\"h\":" + std::to_string(h) + ",\"i\":" + std::to_string(i) + "," + action_json(a).substr(1) + "}");
    return false;
  }
  // the operation is named before anything is touched; observing the slots before the operation can
  // itself abort if an earlier operation left an object inconsistent - the partial line then has no "pre"
  wd_begin("{\"f\":\"obj\",\"N\":2,\"h\":" + std::to_string(h) + ",\"i\":" + std::to_string(i) + "," + action_json(a).substr(1));
  wd_begin(",\"pre\":" + all_slots());
  slot_t &D = slots[a.d];
  int ret = 0;
  std::string text = "[]";
  auto const dimof = [](tup<2> const &t) { return mkdim<G2::dim>(t); };
  auto const posof = [](tup<2> const &t) { return mkvec<G2::pos>(t); };
  gen_t<2> const gen = a.gen;
  if (a.op == "ctor_value")
  {
    D.g.emplace(dimof(a.size), static_cast<int>(a.v));
    D.moved = false;
  }
  else if (a.op == "ctor_fn")
  {
    D.g.emplace(dimof(a.size), [&gen](G2::pos const &p) { return lin<2>(gen, p); });
    D.moved = false;
  }
  else if (a.op == "ctor_rows")
  {
    D.g.emplace(rows_grid(a.size[0], a.size[1]));
    D.moved = false;
  }
  else if (a.op == "copy_ctor")
  {
    G2 const &src = *slots[a.s].g;
    D.g.emplace(src);
    D.moved = false;
  }
  else if (a.op == "move_ctor")
  {
    D.g.emplace(std::move(*slots[a.s].g));
    D.moved = false;
    slots[a.s].moved = true;
  }
  else if (a.op == "copy_assign")
  {
    G2 const &src = *slots[a.s].g;
    *D.g = src;
    D.moved = false;
  }
  else if (a.op == "move_assign")
  {
    G2 &src = *slots[a.s].g;
    *D.g = std::move(src);
    if (a.d != a.s)
    {
      slots[a.s].moved = true;
      D.moved = false;
    }
  }
  else if (a.op == "swap")
  {
    if ((a.k & 1) != 0)
      D.g->swap(*slots[a.s].g);
    else
      grid::swap(*D.g, *slots[a.s].g);
  }
  else if (a.op == "write_unsafe")
    D.g->get_unsafe(posof(a.p)) = static_cast<int>(a.v);
  else if (a.op == "write_at")
  {
    auto const ref = grid::at_optional(*D.g, posof(a.p));
    ret = ref.has_value() ? 1 : 0;
    fcppt::optional::maybe(ref, [] {}, [&a](fcppt::reference<int> const x) { x.get() = static_cast<int>(a.v); });
  }
  else if (a.op == "write_iter")
    *(D.g->begin() + static_cast<G2::difference_type>(a.k)) = static_cast<int>(a.v);
  else if (a.op == "resize_assign")
  {
    // the result of resize is observed before it is stored: storing it is a move assignment, which is
    // a different (observed-only) operation of the object
    G2 res = grid::resize(*D.g, dimof(a.size), [&gen](G2::pos const &p) { return lin<2>(gen, p); });
    std::string post = "[";
    for (int k = 1; k <= NSLOT; ++k)
    {
      if (k > 1) post += ',';
      post += k == a.d ? "{\"k\":\"live\"," + grid_obs<2>(res) + "}" : slot_obs(slots[k]);
    }
    post += "]";
    vj::end_call(",\"post\":" + post + ",\"ret\":0,\"text\":[]}");
    *D.g = std::move(res);
    return true;
  }
  else if (a.op == "fill")
    grid::fill(*D.g, [&gen](G2::pos const &p) { return lin<2>(gen, p); });
  else if (a.op == "output")
  {
    std::ostringstream os;
    os << *D.g;
    text = vj::cps(os.str());
  }
  else if (a.op == "destroy")
  {
    D.g.reset();
    D.moved = false;
  }
  else
    throw std::runtime_error("obj: unknown op " + a.op);
  vj::end_call(",\"post\":" + all_slots() + ",\"ret\":" + std::to_string(ret) + ",\"text\":" + text + "}");
  return true;
}

void obj_reset()
{
  for (int k = 1; k <= NSLOT; ++k)
  {
    slots[k].g.reset();
    slots[k].moved = false;
  }
}

action action_of(vj::V const &v)
{
  action a;
  a.op = v.str("op");
  a.d = static_cast<int>(v.num("d"));
  a.s = static_cast<int>(v.num("s"));
  a.size = get_tup<2>(v, "size");
  a.v = v.num("v");
  a.gen = get_gen<2>(v, "gen");
  a.p = get_tup<2>(v, "p");
  a.k = v.num("k");
  return a;
}

// one script = JSON array of actions (TLC-generated or a saved history)
void obj_replay(char const *scripts, char const *out)
{
  auto const lines = vj::read_lines(scripts);
  vj::open(out);
  long h = 0;
  for (auto const &l : lines)
  {
    ++h;
    obj_reset();
    auto const arr = vj::parse(l);
    int i = 0;
    for (auto const &e : arr->a)
      if (!obj_step(h, ++i, action_of(*e))) break;
  }
  obj_reset();
  vj::close();
}

// seeded random histories; arguments are chosen from what the driver itself has done so far
// (kinds of the slots) and from the sizes the objects report
void obj_record(char const *out, unsigned long long seed, int nhist, int maxlen)
{
  vj::open(out);
  vj::Rng rng(seed);
  static char const *const ops[] = {"ctor_value", "ctor_fn", "ctor_rows", "copy_ctor", "move_ctor", "copy_assign", "move_assign", "swap",
                                    "write_unsafe", "write_at", "write_iter", "resize_assign", "fill", "output", "destroy"};
  static ll const shapes[][2] = {{1, 1}, {3, 2}, {2, 3}, {4, 1}, {1, 3}};
  for (long h = 1; h <= nhist; ++h)
  {
    obj_reset();
    int const len = static_cast<int>(rng.range(1, maxlen));
    int i = 0;
    for (int tries = 0; i < len && tries < 40 * len; ++tries)
    {
      action a;
      a.op = ops[rng.below(sizeof ops / sizeof ops[0])];
      a.d = static_cast<int>(rng.range(1, NSLOT));
      a.s = static_cast<int>(rng.range(1, NSLOT));
      slot_t const &D = slots[a.d];
      slot_t const &S = slots[a.s];
      bool const dlive = D.g.has_value() && !D.moved, slive = S.g.has_value() && !S.moved;
      a.size = {rng.range(0, 3), rng.range(0, 3)};
      a.v = rng.range(-9, 99);
      a.gen = {rng.range(-50, 500), rng.range(-3, 9), rng.range(-3, 20)};
      a.k = static_cast<ll>(rng.below(2));
      bool ok = false;
      if (a.op == "ctor_value" || a.op == "ctor_fn")
        ok = !D.g.has_value();
      else if (a.op == "ctor_rows")
      {
        auto const &sh = shapes[rng.below(5)];
        a.size = {sh[0], sh[1]};
        ok = !D.g.has_value();
      }
      else if (a.op == "copy_ctor" || a.op == "move_ctor")
        ok = !D.g.has_value() && slive && a.d != a.s;
      else if (a.op == "copy_assign" || a.op == "move_assign")
        ok = D.g.has_value() && slive && (a.d != a.s || dlive);
      else if (a.op == "swap")
        ok = dlive && slive;
      else if (a.op == "write_unsafe")
      {
        ok = dlive && D.g->content() > 0;
        if (ok) a.p = {static_cast<ll>(rng.below(D.g->size().w())), static_cast<ll>(rng.below(D.g->size().h()))};
      }
      else if (a.op == "write_at")
      {
        ok = dlive;
        a.p = {rng.range(0, 4), rng.range(0, 4)};
      }
      else if (a.op == "write_iter")
      {
        ok = dlive && D.g->content() > 0;
        if (ok) a.k = static_cast<ll>(rng.below(D.g->content()));
      }
      else if (a.op == "resize_assign" || a.op == "fill" || a.op == "output")
        ok = dlive;
      else if (a.op == "destroy")
        ok = D.g.has_value() && rng.below(3) == 0;
      if (!ok) continue;
      if (!obj_step(h, ++i, a)) break;
    }
  }
  obj_reset();
  vj::close();
}

template <std::size_t N>
void record_interp()
{
  gen_t<N> const g1 = std_gen<N>(1000, 1, 10, 100);
  gen_t<N> const g3 = std_gen<N>(-40, -1, 2, 9);
  for_box<N>(fill_tup<N>(2), fill_tup<N>(N == 1 ? 4 : 3), [&](tup<N> const &size) {
    tup<N> hi;
    for (std::size_t i = 0; i < N; ++i) hi[i] = 4 * (size[i] - 1) - 1;
    for_box<N>(fill_tup<N>(0), hi, [&](tup<N> const &q) {
      op_interp<N>(size, g1, q);
      op_interp<N>(size, g3, q);
    });
  });
}

void record_ext(bool thorough)
{
  record_interp<1>();
  record_interp<2>();
  gen_t<2> const g1 = std_gen<2>(1000, 1, 10, 100);
  for_box<2>(fill_tup<2>(0), fill_tup<2>(3), [&](tup<2> const &size) {
    for_box<2>(fill_tup<2>(-1), fill_tup<2>(3), [&](tup<2> const &o) {
      for (ll d = 0; d <= (thorough ? 5 : 3); ++d) op_spiral_grid(size, g1, o, d);
    });
  });
}

template <std::size_t N>
void replay_n(vj::V const &v)
{
  std::string const f = v.str("f");
  std::string const T = v.has("T") ? v.str("T") : "";
  if (f == "pos_range")
  {
    bool const mk = v.str("via") == "mk";
    if (T == "u32") op_pos_range<unsigned, N>(get_tup<N>(v, "min"), get_tup<N>(v, "sup"), mk);
    else if (T == "i32") op_pos_range<int, N>(get_tup<N>(v, "min"), get_tup<N>(v, "sup"), mk);
    else if (T == "i64") op_pos_range<long, N>(get_tup<N>(v, "min"), get_tup<N>(v, "sup"), mk);
    else op_pos_range<unsigned long, N>(get_tup<N>(v, "min"), get_tup<N>(v, "sup"), mk);
  }
  else if (f == "whole_range")
  {
    if (T == "u32") op_whole_range<unsigned, N>(get_tup<N>(v, "dim"));
    else op_whole_range<unsigned long, N>(get_tup<N>(v, "dim"));
  }
  else if (f == "pos_ref_range")
    op_pos_ref_range<N>(get_tup<N>(v, "gsize"), get_gen<N>(v, "gen"), get_tup<N>(v, "min"), get_tup<N>(v, "sup"), v.at("c").b);
  else if (f == "whole_ref_range")
    op_whole_ref_range<N>(get_tup<N>(v, "gsize"), get_gen<N>(v, "gen"), v.at("c").b);
  else if (f == "offset")
  {
    if (T == "u32") op_offset<unsigned, N>(get_tup<N>(v, "size"));
    else op_offset<unsigned long, N>(get_tup<N>(v, "size"));
  }
  else if (f == "offset_at")
  {
    if (T == "u32") op_offset_at<unsigned, N>(get_tup<N>(v, "size"));
    else op_offset_at<unsigned long, N>(get_tup<N>(v, "size"));
  }
  else if (v.has("ext"))
  {
    if constexpr (N <= 2)
    {
      if (T == "i32") op_clamped_ext<int, N>(f, get_tup<N>(v, "size"));
      else if (T == "i64") op_clamped_ext<long, N>(f, get_tup<N>(v, "size"));
      else if (T == "u32") op_clamped_ext<unsigned, N>(f, get_tup<N>(v, "size"));
      else op_clamped_ext<unsigned long, N>(f, get_tup<N>(v, "size"));
    }
  }
  else if (f == "at")
    op_at<N>(get_tup<N>(v, "gsize"), get_gen<N>(v, "gen"));
  else if (f == "in_range")
    op_in_range<N>(get_tup<N>(v, "gsize"), get_gen<N>(v, "gen"));
  else if (f == "construct")
    op_construct<N>(get_tup<N>(v, "size"), get_gen<N>(v, "gen"), v.str("kind"));
  else if (f == "resize")
    op_resize<N>(get_tup<N>(v, "size"), get_gen<N>(v, "gen"), get_tup<N>(v, "nsize"), get_gen<N>(v, "igen"), v.at("rv").b);
  else if (f == "map")
    op_map<N>(get_tup<N>(v, "size"), get_gen<N>(v, "gen"), v.num("fa"), v.num("fb"), v.at("rv").b);
  else if (f == "fill")
    op_fill<N>(get_tup<N>(v, "size"), get_gen<N>(v, "gen"), get_gen<N>(v, "fgen"));
  else if (f == "apply")
  {
    std::vector<tup<N>> sizes;
    std::vector<gen_t<N>> gens;
    for (auto const &s : v.at("sizes").a)
    {
      tup<N> t;
      for (std::size_t i = 0; i < N; ++i) t[i] = s->a.at(i)->n;
      sizes.push_back(t);
    }
    for (auto const &s : v.at("gens").a)
    {
      gen_t<N> t;
      for (std::size_t i = 0; i <= N; ++i) t[i] = s->a.at(i)->n;
      gens.push_back(t);
    }
    op_apply<N>(sizes, gens, v.nums("co"));
  }
  else if (f == "interp")
    op_interp<N>(get_tup<N>(v, "gsize"), get_gen<N>(v, "gen"), get_tup<N>(v, "q"));
  else if (f == "clamped_min")
  {
    if (T == "i32") op_clamped_min<int, N>();
    else op_clamped_min<long, N>();
  }
  else if (f == "clamped_sup")
  {
    if (T == "u32") op_clamped_sup<unsigned, N>(get_tup<N>(v, "size"));
    else op_clamped_sup<unsigned long, N>(get_tup<N>(v, "size"));
  }
  else if (f == "clamped_sup_signed")
  {
    if (T == "i32") op_clamped_sup_signed<int, N>(get_tup<N>(v, "size"));
    else op_clamped_sup_signed<long, N>(get_tup<N>(v, "size"));
  }
  else
    throw std::runtime_error("replay: unknown f " + f);
}
}

int main(int argc, char **argv)
{
  if (argc < 4)
  {
    std::fprintf(stderr, "usage: c08_grid record OUT tier | replay RECORD OUT\n");
    return 3;
  }
  std::string const mode = argv[1];
  alarm(1500);
  if (mode == "record")
  {
    vj::open(argv[2]);
    bool const thorough = std::string(argv[3]) == "thorough";
    // round 3: `record OUT tier SECTION` drives one section (1..4) only; the check runs every section in
    // its own process, so that a call that kills the process does not hide the other sections
    int const sec = argc > 4 ? std::atoi(argv[4]) : 0;
    if (sec == 0 || sec == 1) record_n<1>(4, 5);
    if (sec == 0 || sec == 2) record_n<2>(4, 5);
    if (sec == 0 || sec == 3)
    {
      if (thorough)
        record_n<3>(4, 5);
      else
        record_n<3>(3, 3);
    }
    if ((sec == 0 || sec == 4) && !runaway) record_ext(thorough);
    vj::close();
    return 0;
  }
  if (mode == "objreplay")
  {
    obj_replay(argv[2], argv[3]);
    return 0;
  }
  if (mode == "objrecord")
  {
    if (argc < 6) return 3;
    obj_record(argv[2], std::strtoull(argv[3], nullptr, 10), std::atoi(argv[4]), std::atoi(argv[5]));
    return 0;
  }
  if (mode == "replay")
  {
    auto const lines = vj::read_lines(argv[2]);
    vj::open(argv[3]);
    for (auto const &l : lines)
    {
      auto const v = vj::parse(l);
      if (v->str("f") == "spiral_grid")
      {
        op_spiral_grid(get_tup<2>(*v, "gsize"), get_gen<2>(*v, "gen"), get_tup<2>(*v, "o"), v->num("d"));
        continue;
      }
      switch (v->num("N"))
      {
      case 1: replay_n<1>(*v); break;
      case 2: replay_n<2>(*v); break;
      case 3: replay_n<3>(*v); break;
      default: throw std::runtime_error("replay: bad N");
      }
    }
    vj::close();
    return 0;
  }
  return 3;
}
