// C16 conformance harness: one group of source ranges (see c16_range.hpp).  Drives and records only.
#include "c16_range.hpp"


// entry point of part "deque" (see c16_main.cpp)
extern "C" void c16_part_deque(unsigned long long const seed, int const thorough_flag)
{
  using namespace c16;
  bool const thorough = thorough_flag != 0;
  (void)thorough;
  Sel sel(seed, thorough);
  seq_source<std::deque<int>>("deque", thorough ? 6U : 5U, thorough ? 6U : 3U, true, sel);
  index_source<std::deque<int>>("deque", 5);
}
