// C16 conformance harness: one group of source ranges (see c16_range.hpp).  Drives and records only.
#include "c16_range.hpp"

namespace c16
{
void run_deque(Sel &sel, bool const thorough)
{
  seq_source<std::deque<int>>("deque", thorough ? 6U : 5U, thorough ? 6U : 3U, true, sel);
  index_source<std::deque<int>>("deque", 5);
}
}
