// C03: every public parser header of fcppt.options in ONE translation unit, in two orders
// (compiled with -fsyntax-only by checks/c03.py; the outcome is a "headers" record judged by
// spec/OptionsJudge.tla).  A program that composes argument, flag, switch, option, unit,
// unit_switch, optional, many, product, sum and commands has to include all of them.
#ifdef C03_PROBE_REVERSE
#include <fcppt/options/unit_switch.hpp>
#include <fcppt/options/unit.hpp>
#include <fcppt/options/switch.hpp>
#include <fcppt/options/parse_help.hpp>
#include <fcppt/options/parse.hpp>
#include <fcppt/options/option.hpp>
#include <fcppt/options/make_sum.hpp>
#include <fcppt/options/make_sub_command.hpp>
#include <fcppt/options/make_optional.hpp>
#include <fcppt/options/make_many.hpp>
#include <fcppt/options/make_commands.hpp>
#include <fcppt/options/flag.hpp>
#include <fcppt/options/default_help_switch.hpp>
#include <fcppt/options/argument.hpp>
#include <fcppt/options/apply.hpp>
#else
#include <fcppt/options/apply.hpp>
#include <fcppt/options/argument.hpp>
#include <fcppt/options/default_help_switch.hpp>
#include <fcppt/options/flag.hpp>
#include <fcppt/options/make_commands.hpp>
#include <fcppt/options/make_many.hpp>
#include <fcppt/options/make_optional.hpp>
#include <fcppt/options/make_sub_command.hpp>
#include <fcppt/options/make_sum.hpp>
#include <fcppt/options/option.hpp>
#include <fcppt/options/parse.hpp>
#include <fcppt/options/parse_help.hpp>
#include <fcppt/options/switch.hpp>
#include <fcppt/options/unit.hpp>
#include <fcppt/options/unit_switch.hpp>
#endif

int main() { return 0; }
