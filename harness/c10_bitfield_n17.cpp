// C10 harness: the executable for the enum with 17 enumerators, stored in 8/16/32/64-bit
// words (driver and main: c10_bitfield.hpp; compiled a second time, with C10_OBSERVED, by
// c10_bitfield_x17.cpp for the record kinds outside the statement)
#include "c10_bitfield.hpp"

namespace
{
enum class e17
{
  v0, v1, v2, v3, v4, v5, v6, v7, v8, v9, v10, v11,
  v12, v13, v14, v15, v16,
  fcppt_maximum = v16
};
}

C10_MAIN(e17)
