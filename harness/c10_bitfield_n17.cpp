// C10 harness: instantiations for the enum with 17 enumerators (8/16/32/64-bit words)
#include "c10_bitfield.hpp"

int c10_run_n17(int const w, c10_args const &a) { return run_enum<e17>(w, a); }
