// C14 harness unit "extension": functions of fcppt::math OUTSIDE the statement of C14 (observed only:
// a disagreement is an OBSERVATION, never a VIOLATION; if this unit no longer compiles that is an
// observation as well): operator/ and mod (optional results), ceil_div_signed, unit, is_quadratic,
// to_signed / to_unsigned, to_dim / to_vector, contents, bit_strings, transform_point / direction,
// infinity_norm, inverse, spheres, interval_distance.  See c14_common.hpp.
#include <c14_common.hpp>

#include <fcppt/cast/to_signed_fun.hpp>
#include <fcppt/cast/to_unsigned_fun.hpp>
#include <fcppt/math/interval_distance.hpp>
#include <fcppt/math/dim/arithmetic.hpp>
#include <fcppt/math/dim/contents.hpp>
#include <fcppt/math/dim/is_quadratic.hpp>
#include <fcppt/math/dim/narrow_cast.hpp>
#include <fcppt/math/dim/to_signed.hpp>
#include <fcppt/math/dim/to_unsigned.hpp>
#include <fcppt/math/dim/to_vector.hpp>
#include <fcppt/math/matrix/adjugate.hpp>
#include <fcppt/math/matrix/determinant.hpp>
#include <fcppt/math/matrix/infinity_norm.hpp>
#include <fcppt/math/matrix/inverse.hpp>
#include <fcppt/math/matrix/transform_direction.hpp>
#include <fcppt/math/matrix/transform_point.hpp>
#include <fcppt/math/sphere/comparison.hpp>
#include <fcppt/math/sphere/object.hpp>
#include <fcppt/math/vector/arithmetic.hpp>
#include <fcppt/math/vector/bit_strings.hpp>
#include <fcppt/math/vector/ceil_div_signed.hpp>
#include <fcppt/math/vector/dim.hpp>
#include <fcppt/math/vector/mod.hpp>
#include <fcppt/math/vector/to_dim.hpp>
#include <fcppt/math/vector/to_signed.hpp>
#include <fcppt/math/vector/to_unsigned.hpp>
#include <fcppt/math/vector/unit.hpp>
#include <fcppt/optional/object.hpp>
#include <fcppt/tuple/make.hpp>
#include <fcppt/tuple/object.hpp>

namespace
{
using namespace c14;

template <sz N>
void bit_strings_case()
{
  Rec r("bit_strings");
  r.ki("n", N).begin();
  auto const res(fm::vector::bit_strings<int, N>());
  std::string s = "[";
  bool first = true;
  for (auto const &v : res)
  {
    if (!first) s += ',';
    first = false;
    s += vj_(v);
  }
  r.k("r", s + "]").end();
}

// unsigned <-> signed structure casts on non-negative vectors
template <sz N>
void sign_casts(ivec const &v)
{
  ivec w(v);
  for (auto &x : w) x = x < 0 ? -x : x;
  auto const a(mk_vec<N>(w, 0));
  std::string const aj = vals_vec(w, 0, N);
  Rec r("sign_cast");
  r.ks("k", "vector").ks("to", "unsigned->signed").k("a", aj).begin();
  auto const u(fm::vector::to_unsigned(a));
  auto const res(fm::vector::to_signed(u));
  r.k("r", vj_(res)).end();
}

template <typename V>
std::string optvj(fcppt::optional::object<V> const &o)
{
  return o.has_value() ? "[" + vj_(o.get_unsafe()) + "]" : std::string("[]");
}

template <sz N>
void ext_vector_cases(ivec const &v, int const k)
{
  // a = v[0..N), b = v[N..2N) (b contains zeros now and then), views as before
  auto const a(mk_vec<N>(v, 0));
  auto const b(mk_vec<N>(v, N));
  auto m(mk_mat<2, N>(v, 0));
  auto const &cm(m);
  auto const va(m.get_unsafe(0));
  auto const vb(cm.get_unsafe(1));
  auto const da(mk_dim<N>(v, 0));
  auto const db(mk_dim<N>(v, N));
  std::string const aj = vals_vec(v, 0, N), bj = vals_vec(v, N, N);
  {
    Rec r("div");
    r.ks("k", "vector").ks("st", "static,static").k("a", aj).k("b", bj).begin();
    auto const res(a / b);
    r.k("r", optvj(res)).end();
  }
  {
    Rec r("div");
    r.ks("k", "vector").ks("st", "view,constview").k("a", aj).k("b", bj).begin();
    auto const res(va / vb);
    r.k("r", optvj(res)).end();
  }
  {
    Rec r("div");
    r.ks("k", "vector,dim").ks("st", "static,static").k("a", aj).k("b", bj).begin();
    auto const res(a / db);
    r.k("r", optvj(res)).end();
  }
  {
    Rec r("div");
    r.ks("k", "dim").ks("st", "static,static").k("a", aj).k("b", bj).begin();
    auto const res(da / db);
    r.k("r", optvj(res)).end();
  }
  {
    Rec r("div_scalar");
    r.ks("k", "vector").ks("st", "view").k("a", aj).ki("k", k).begin();
    auto const res(va / k);
    r.k("r", optvj(res)).end();
  }
  {
    Rec r("div_scalar");
    r.ks("k", "dim").ks("st", "static").k("a", aj).ki("k", k).begin();
    auto const res(da / k);
    r.k("r", optvj(res)).end();
  }
  {
    // fcppt::math::mod exists for unsigned (and floating point) types only: |components| as unsigned
    std::vector<unsigned> w;
    for (int x : v) w.push_back(static_cast<unsigned>(x < 0 ? -x : x));
    unsigned const uk = static_cast<unsigned>(k < 0 ? -k : k);
    auto const ua([&w]<std::size_t... Is>(std::index_sequence<Is...>) {
      return fm::vector::static_<unsigned, N>{w[Is]...};
    }(std::make_index_sequence<N>{}));
    auto const ub([&w]<std::size_t... Is>(std::index_sequence<Is...>) {
      return fm::vector::static_<unsigned, N>{w[N + Is]...};
    }(std::make_index_sequence<N>{}));
    std::string const uaj = vj_(ua), ubj = vj_(ub);
    {
      Rec r("mod");
      r.ks("k", "vector").ks("st", "static,static").k("a", uaj).k("b", ubj).begin();
      auto const res(fm::vector::mod(ua, ub));
      r.k("r", optvj(res)).end();
    }
    {
      Rec r("mod_scalar");
      r.ks("k", "vector").ks("st", "static").k("a", uaj).ki("k", uk).begin();
      auto const res(fm::vector::mod(ua, uk));
      r.k("r", optvj(res)).end();
    }
    {
      Rec r("div");
      r.ks("k", "vector").ks("st", "unsigned").k("a", uaj).k("b", ubj).begin();
      auto const res(ua / ub);
      r.k("r", optvj(res)).end();
    }
  }
  {
    Rec r("ceil_div_signed");
    r.ks("k", "vector").ks("st", "static").k("a", aj).ki("k", k).begin();
    auto const res(fm::vector::ceil_div_signed(a, k));
    r.k("r", optvj(res)).end();
  }
  {
    Rec r("ceil_div_signed");
    r.ks("k", "vector").ks("st", "view").k("a", aj).ki("k", k).begin();
    auto const res(fm::vector::ceil_div_signed(va, k));
    r.k("r", optvj(res)).end();
  }
  {
    Rec r("is_quadratic");
    r.ks("k", "dim").k("a", aj).begin();
    bool const res = fm::dim::is_quadratic(da);
    r.kb("r", res).end();
  }
  if constexpr (N >= 2)
  {
    Rec r("narrow_cast");
    r.ks("k", "dim").ks("st", "static").k("a", aj).ki("n", N - 1).begin();
    auto const res(fm::dim::narrow_cast<fm::dim::static_<int, N - 1>>(da));
    r.k("r", vj_(res)).end();
  }
  {
    // unsigned -> signed and back on non-negative components, vectors and dims
    ivec w(v);
    for (auto &x : w) x = x < 0 ? -x : x;
    auto const na(mk_vec<N>(w, 0));
    auto const nd(mk_dim<N>(w, 0));
    std::string const nj = vals_vec(w, 0, N);
    {
      Rec r("sign_cast");
      r.ks("k", "vector").ks("to", "to_unsigned").k("a", nj).begin();
      auto const res(fm::vector::to_unsigned(na));
      r.k("r", vj_(res)).end();
    }
    {
      auto const u(fm::vector::to_unsigned(na));
      Rec r("sign_cast");
      r.ks("k", "vector").ks("to", "to_signed").k("a", nj).begin();
      auto const res(fm::vector::to_signed(u));
      r.k("r", vj_(res)).end();
    }
    {
      Rec r("sign_cast");
      r.ks("k", "dim").ks("to", "to_unsigned").k("a", nj).begin();
      auto const res(fm::dim::to_unsigned(nd));
      r.k("r", vj_(res)).end();
    }
    {
      auto const u(fm::dim::to_unsigned(nd));
      Rec r("sign_cast");
      r.ks("k", "dim").ks("to", "to_signed").k("a", nj).begin();
      auto const res(fm::dim::to_signed(u));
      r.k("r", vj_(res)).end();
    }
  }
  static_for<N>([&](auto idx) {
    constexpr sz I = decltype(idx)::value;
    Rec r("unit");
    r.ks("k", "vector").ki("n", N).ki("axis", I).begin();
    auto const res(fm::vector::unit<fm::vector::static_<int, N>>(I));
    r.k("r", vj_(res)).end();
  });
  // spheres with integer components: members and comparison
  {
    fm::sphere::object<int, N> const s1(a, k);
    fm::sphere::object<int, N> const s2(b, (v[0] + v[1]) % 2 == 0 ? k : k + 1);
    fm::sphere::object<int, N> const s3(a, k);
    {
      Rec r("sphere_members");
      r.k("a", aj).ki("ra", k).begin();
      r.k("origin", vj_(s1.origin())).ki("radius", s1.radius()).end();
    }
    {
      Rec r("sphere_eq");
      r.k("a", aj).ki("ra", k).k("b", bj).ki("rb", s2.radius()).begin();
      bool const res = s1 == s2;
      r.kb("r", res).end();
    }
    {
      Rec r("sphere_ne");
      r.k("a", aj).ki("ra", k).k("b", bj).ki("rb", s2.radius()).begin();
      bool const res = s1 != s2;
      r.kb("r", res).end();
    }
    {
      Rec r("sphere_eq");
      r.k("a", aj).ki("ra", k).k("b", aj).ki("rb", k).begin();
      bool const res = s1 == s3;
      r.kb("r", res).end();
    }
  }
}


// conversions between vectors and dims, contents
template <sz N>
void ext_conversions(ivec const &v)
{
  auto const da(mk_dim<N>(v, 0));
  auto m(mk_mat<2, N>(v, 0));
  auto const &cm(m);
  auto const vb(cm.get_unsafe(1));
  std::string const aj = vals_vec(v, 0, N), bj = vals_vec(v, N, N);
  {
    Rec r("to_dim");
    r.ks("k", "vector").ks("st", "constview").k("a", bj).begin();
    auto const res(fm::vector::to_dim(vb));
    r.k("r", vj_(res)).end();
  }
  {
    Rec r("to_dim");
    r.ks("k", "vector").ks("st", "static").k("a", aj).begin();
    auto const res(fm::vector::to_dim(mk_vec<N>(v, 0)));
    r.k("r", vj_(res)).end();
  }
  {
    Rec r("contents");
    r.ks("k", "dim").k("a", aj).begin();
    int const res = fm::dim::contents(da);
    r.ki("r", res).end();
  }
  {
    Rec r("to_vector");
    r.ks("k", "dim").k("a", aj).begin();
    auto const res(fm::dim::to_vector(da));
    r.k("r", vj_(res)).end();
  }
}

// 4x4 homogeneous transforms; inverse (integer division: the reference uses C++ truncation)
void ext_transforms(ivec const &v)
{
  // v: a 4x4 matrix, a 3-vector
  auto const a(mk_mat<4, 4>(v, 0));
  auto const p(mk_vec<3>(v, 16));
  {
    Rec r("transform_point");
    r.k("a", vals_mat(v, 0, 4, 4)).k("v", vals_vec(v, 16, 3)).begin();
    auto const res(fm::matrix::transform_point(a, p));
    r.k("r", vj_(res)).end();
  }
  {
    Rec r("transform_direction");
    r.k("a", vals_mat(v, 0, 4, 4)).k("v", vals_vec(v, 16, 3)).begin();
    auto const res(fm::matrix::transform_direction(a, p));
    r.k("r", vj_(res)).end();
  }
}

// inverse of an integer matrix with determinant +-1 (a product of elementary matrices) and of
// matrices with |det| > 1 (the integer quotient 1 / det is 0); det = 0 is a division by zero and
// is not driven.  The determinant is read from the code only to decide whether to make the call.
template <sz N>
void ext_inverse(char const *grp, ivec const &v)
{
  auto const a(mk_mat<N, N>(v, 0));
  if (fm::matrix::determinant(a) == 0) return;
  Rec r(N == 1 ? "inverse_1x1" : "inverse");
  r.ks("g", grp).k("a", vals_mat(v, 0, N, N)).begin();
  auto const res(fm::matrix::inverse(a));
  r.k("r", mj_(res)).end();
}
// a random unimodular matrix: identity with a few row operations row_i += c * row_j, and a row swap
template <sz N>
ivec unimodular(vj::Rng &rng)
{
  ivec m(N * N, 0);
  for (std::size_t i = 0; i < N; ++i) m[i * N + i] = rng.coin() ? 1 : -1;
  if constexpr (N >= 2)
  {
    for (unsigned s = 0; s < 2 * N; ++s)
    {
      std::size_t const i = rng.below(N);
      std::size_t j = rng.below(N - 1);
      if (j >= i) ++j;
      int const c = static_cast<int>(rng.range(-2, 2));
      if (rng.below(4) == 0)
        for (std::size_t t = 0; t < N; ++t) std::swap(m[i * N + t], m[j * N + t]);
      else
        for (std::size_t t = 0; t < N; ++t)
        {
          int const x = m[i * N + t] + c * m[j * N + t];
          if (x > 9 || x < -9) return m;
          m[i * N + t] = x;
        }
    }
  }
  return m;
}
template <sz R, sz C>
void ext_matrix_cases(char const *grp, ivec const &v)
{
  auto const a(mk_mat<R, C>(v, 0));
  std::string const aj = vals_mat(v, 0, R, C);
  {
    Rec r("infinity_norm");
    r.ks("g", grp).k("a", aj).begin();
    int const res = fm::matrix::infinity_norm(a);
    r.ki("r", res).end();
  }
}

void part_extension(vj::Rng &rng, bool const thorough)
{
  bit_strings_case<1>();
  bit_strings_case<2>();
  bit_strings_case<3>();
  bit_strings_case<4>();
  // interval_distance over all well-formed integer intervals with end points in -3..3
  for (int a1 = -3; a1 <= 3; ++a1)
    for (int b1 = a1; b1 <= 3; ++b1)
      for (int a2 = -3; a2 <= 3; ++a2)
        for (int b2 = a2; b2 <= 3; ++b2)
        {
          Rec r("interval_distance");
          r.k("a", "[" + std::to_string(a1) + "," + std::to_string(b1) + "]")
              .k("b", "[" + std::to_string(a2) + "," + std::to_string(b2) + "]").begin();
          int const res = fm::interval_distance(fcppt::tuple::make(a1, b1), fcppt::tuple::make(a2, b2));
          r.ki("r", res).end();
        }
  // dimension 1 and 2: all pairs over {-2..2} with every divisor -3..3
  for (int a = -2; a <= 2; ++a)
    for (int b = -2; b <= 2; ++b)
      for (int k = -3; k <= 3; ++k) ext_vector_cases<1>(ivec{a, b}, k);
  for (unsigned c = 0; c < 256; ++c)
  {
    ivec v(mat2_of(c));
    for (int k = -2; k <= 2; ++k)
    {
      if ((static_cast<int>(c) + k) % 3 != 0 && k != 0) continue;
      ext_vector_cases<2>(v, k);
    }
    ivec w(v);
    w.insert(w.end(), v.rbegin(), v.rend());
    ext_matrix_cases<2, 2>("2x2", w);
  }
  unsigned const n = thorough ? 4000U : 400U;
  for (unsigned i = 0; i < n; ++i)
  {
    int const k = static_cast<int>(rng.range(-4, 4));
    auto const zeros = [&rng](ivec &v) {
      // divisors: zero components with probability 1/4
      for (std::size_t j = v.size() / 2; j < v.size(); ++j)
        if (rng.below(8) == 0) v[j] = 0;
    };
    {
      ivec v(random_vals(rng, 6, -9, 9));
      ext_conversions<3>(v);
      sign_casts<3>(v);
      zeros(v);
      ext_vector_cases<3>(v, k);
    }
    {
      ivec v(random_vals(rng, 4, -9, 9));
      ext_conversions<2>(v);
      sign_casts<2>(v);
      ext_conversions<1>(v);
    }
    {
      ivec const v(random_vals(rng, 19, -9, 9));
      ext_transforms(v);
    }
    {
      ivec const v(random_vals(rng, 1, -3, 3));
      ext_inverse<1>("1x1", v);
      Rec r("adjugate_1x1");
      r.k("a", vals_mat(v, 0, 1, 1)).begin();
      auto const res(fm::matrix::adjugate(mk_mat<1, 1>(v, 0)));
      r.k("r", mj_(res)).end();
    }
    ext_inverse<2>("2x2 unimodular", unimodular<2>(rng));
    ext_inverse<3>("3x3 unimodular", unimodular<3>(rng));
    ext_inverse<4>("4x4 unimodular", unimodular<4>(rng));
    ext_inverse<2>("2x2", random_vals(rng, 4, -4, 4));
    ext_inverse<3>("3x3", random_vals(rng, 9, -3, 3));
    {
      ivec v(random_vals(rng, 8, -9, 9));
      ext_conversions<4>(v);
      sign_casts<4>(v);
      zeros(v);
      ext_vector_cases<4>(v, k);
    }
    {
      ivec const v(random_vals(rng, 18, -9, 9));
      ext_matrix_cases<3, 3>("3x3", v);
    }
    {
      ivec const v(random_vals(rng, 32, -9, 9));
      ext_matrix_cases<4, 4>("4x4", v);
    }
    if (i % 4U == 0U)
    {
      ivec const v(random_vals(rng, 24, -9, 9));
      ext_matrix_cases<2, 3>("2x3", v);
      ext_matrix_cases<3, 1>("3x1", v);
      ext_matrix_cases<1, 4>("1x4", v);
    }
  }
}
}

int main(int argc, char **argv) { return c14::unit_main(argc, argv, "extension", 5U, part_extension); }
