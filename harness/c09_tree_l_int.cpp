// C09 harness, label type int (see c09_tree.cpp)
#include "c09_run.hpp"
int c09_run_int(std::string const &mode, int argc, char **argv) { return c09::run<int>(mode, argc, argv); }
