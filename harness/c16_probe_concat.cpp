// Compile-only probe used by checks/c16.py: does fcppt::tuple::concat accept lvalue / const tuples?
// On the tree this framework was written against it does not (its enable_if tests
// is_object<Tuples> on the deduced reference types).
#include <fcppt/tuple/concat.hpp>
#include <fcppt/tuple/get.hpp>
#include <fcppt/tuple/object.hpp>

int probe()
{
  fcppt::tuple::object<int, long> const a{1, 2L};
  fcppt::tuple::object<int> b{3};
  auto const c(fcppt::tuple::concat(a, b));
  return fcppt::tuple::get<2>(c);
}
