// C16 conformance harness: one group of source ranges (see c16_range.hpp).  Drives and records only.
#include "c16_range.hpp"

namespace c16
{
void run_static(Sel &sel, bool)
{
  array_source<0>(sel);
  array_source<1>(sel);
  array_source<2>(sel);
  array_source<3>(sel);
  array_source<4>(sel);
  array_source<5>(sel);
  tuple_sources(sel);
  mpl_sources(sel);
}
}
