// C16 conformance harness: static-size source ranges (see c16_range.hpp).  Drives and records only.
// checks/c16.py compiles this file three times (-DC16_STATIC_ARRAYS / _TUPLES / _MPL: parts "static",
// "static2", "static3") to keep the translation units small; without a macro all three are compiled.
#if !defined(C16_STATIC_ARRAYS) && !defined(C16_STATIC_TUPLES) && !defined(C16_STATIC_MPL)
#define C16_STATIC_ARRAYS
#define C16_STATIC_TUPLES
#define C16_STATIC_MPL
#endif
#include "c16_range.hpp"

#ifdef C16_STATIC_ARRAYS
// entry point of part "static" (see c16_main.cpp): fcppt::array::object sources
extern "C" void c16_part_static(unsigned long long const seed, int const thorough_flag)
{
  using namespace c16;
  Sel sel(seed, thorough_flag != 0);
  array_source<0>(sel);
  array_source<1>(sel);
  array_source<2>(sel);
  array_source<3>(sel);
  array_source<4>(sel);
  array_source<5>(sel);
  array_source_sampled<6>(sel, 6);
  array_source_sampled<9>(sel, 4);
}
#endif

#ifdef C16_STATIC_TUPLES
// entry point of part "static2": fcppt::tuple::object sources
extern "C" void c16_part_static2(unsigned long long const seed, int const thorough_flag)
{
  using namespace c16;
  Sel sel(seed + 1U, thorough_flag != 0);
  tuple_sources(sel);
}
#endif

#ifdef C16_STATIC_MPL
// entry point of part "static3": fcppt::mpl::list::object sources
extern "C" void c16_part_static3(unsigned long long const seed, int const thorough_flag)
{
  using namespace c16;
  Sel sel(seed + 2U, thorough_flag != 0);
  mpl_sources(sel);
}
#endif
