// C10 harness, OBSERVED-ONLY part for the enum with 3 enumerators: operator<<, underlying_value,
// construction from the word array / from fcppt::enum_::array, details of the proxy type.  A separate
// executable: if it does not compile or crashes, the records inside the statement of C10 are unaffected.
#define C10_OBSERVED
#include "c10_bitfield_n3.cpp"
