// C09 conformance harness: drives fcppt::container::tree::object<L> through operation histories
// over a forest of 4 slots, with operands chosen among ALL live nodes (roots and inner nodes),
// and records after every operation a DFS dump of every slot (see c09_forest.hpp): label, child
// count, the node parent() refers to (looked up by address among all live nodes), the outputs of
// pre_order / to_root (const and non-const, iterator protocol) / depth / level / child_position /
// map (copyable and move-only result) / operator<< / == / !=.
// Label types L: int, std::string, std::unique_ptr<int> (move-only), tree<int> (nested).
// It contains no expected values: spec/TreeTrace.tla (TLC) is the judge.
//
//   c09_tree record OUT seed histories maxlen [assign-from-descendant 0|1] [label type, ignored]
//   c09_tree replay SCRIPTS.ndjson OUT [label type, ignored] [stride] [phase]
// This file is the PRIMARY harness (label type int).  The other label types are separate binaries
// (c09_tree_l_str.cpp, c09_tree_l_uptr.cpp, c09_tree_l_tree.cpp) and the log context's tree is
// c09_logtree.cpp: if one of those does not compile against the tree under test, the check records
// that as an observation and carries on - they cannot block the judgement of the int histories.
#include "c09_run.hpp"

int main(int argc, char **argv) { return c09::main_for<int>(argc, argv); }
