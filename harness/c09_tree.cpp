// C09 conformance harness: drives fcppt::container::tree::object<int> through operation
// histories over a forest of 4 slots, with operands chosen among ALL live nodes (roots and
// inner nodes), and records after every operation a DFS dump of every slot: label, child
// count, the node parent() refers to (looked up by address among all live nodes), the
// outputs of pre_order / to_root / depth / level / child_position / map / == / !=.
// It contains no expected values: spec/TreeTrace.tla (TLC) is the judge.
//
//   c09_tree record OUT seed histories maxlen [assign-from-descendant 0|1]
//   c09_tree replay SCRIPTS.ndjson OUT      (one JSON array of op records per line)
#include <common/vjson.hpp>

#include <fcppt/reference_impl.hpp>
#include <fcppt/container/tree/child_position.hpp>
#include <fcppt/container/tree/comparison.hpp>
#include <fcppt/container/tree/depth.hpp>
#include <fcppt/container/tree/level.hpp>
#include <fcppt/container/tree/make_pre_order.hpp>
#include <fcppt/container/tree/make_to_root.hpp>
#include <fcppt/container/tree/map.hpp>
#include <fcppt/container/tree/object.hpp>
#include <fcppt/container/tree/pre_order.hpp>
#include <fcppt/container/tree/to_root.hpp>
#include <fcppt/optional/object.hpp>
#include <fcppt/optional/reference.hpp>

#include <iterator>
#include <map>
#include <optional>
#include <string>
#include <utility>
#include <vector>

namespace
{
using tree = fcppt::container::tree::object<int>;
using ltree = fcppt::container::tree::object<long>;

constexpr int NS = 4;
constexpr std::size_t max_nodes = 14; // the generator does not grow the forest beyond this
std::optional<tree> slots[NS + 1];
bool drive_assign_from_descendant = true; // record mode, 6th argument 0 switches it off

struct Op
{
  std::string op;
  int as = 0, bs = 0, d = 0;
  std::vector<int> ap, bp, ss;
  long pos = 0, pos2 = 0, x = 0;
  bool rv = false;
};

// ------------------------------------------------------------------ address table
struct Entry
{
  tree *ptr;
  tree *lister; // the node whose children() contains ptr (nullptr for a slot root)
  int slot;
  int idx; // DFS index within the slot
  std::vector<int> path;
};

std::vector<Entry> table;
std::map<tree const *, long> refs; // address -> slot * 1000 + DFS index

void collect(tree &t, tree *lister, int slot, std::vector<int> &path, int &idx)
{
  table.push_back(Entry{&t, lister, slot, idx, path});
  refs[&t] = static_cast<long>(slot) * 1000 + idx;
  ++idx;
  int i = 0;
  for (tree &c : t)
  {
    path.push_back(i++);
    collect(c, &t, slot, path, idx);
    path.pop_back();
  }
}

void rebuild_table()
{
  table.clear();
  refs.clear();
  for (int s = 1; s <= NS; ++s)
    if (slots[s].has_value())
    {
      std::vector<int> path;
      int idx = 0;
      collect(*slots[s], nullptr, s, path, idx);
    }
}

// -1 = null, -2 = not the address of a live node
long ref_of(tree const *p)
{
  if (p == nullptr) return -1;
  auto it = refs.find(p);
  return it == refs.end() ? -2 : it->second;
}

template <typename OptRef>
long ref_of_opt(OptRef const &r)
{
  return r.has_value() ? ref_of(&r.get_unsafe().get()) : -1;
}

tree &node_at(int s, std::vector<int> const &p)
{
  tree *t = &*slots[s];
  for (int i : p)
  {
    tree::iterator it = t->begin();
    std::advance(it, i);
    t = &*it;
  }
  return *t;
}

// ------------------------------------------------------------------ dump
// DFS dump [v, nk, par] of a mapped tree (a temporary with its own addresses)
void dump_mapped(ltree const &t, ltree const *lister, std::map<ltree const *, long> &ids, vj::J &out)
{
  long const my = static_cast<long>(ids.size());
  ids[&t] = my;
  long nk = 0;
  for (auto it = t.children().begin(); it != t.children().end(); ++it) ++nk;
  long par = -1;
  auto p = t.parent();
  if (p.has_value())
  {
    auto f = ids.find(&p.get_unsafe().get());
    par = f == ids.end() ? -2 : f->second;
  }
  (void)lister;
  out.el_raw(vj::J().kv("v", t.value()).kv("nk", nk).kv("par", par).str());
  for (ltree const &c : t.children()) dump_mapped(c, &t, ids, out);
}

std::string state_json()
{
  rebuild_table();
  vj::J sl('[');
  for (int s = 1; s <= NS; ++s)
  {
    vj::J o;
    o.kv("live", slots[s].has_value());
    vj::J nodes('[');
    std::vector<long> pre, prev;
    vj::J mapped('[');
    long cpself = 0;
    if (slots[s].has_value())
    {
      for (Entry const &e : table)
      {
        if (e.slot != s) continue;
        tree &t = *e.ptr;
        tree const &ct = t;
        vj::J n;
        long nk = 0;
        for (auto it = ct.children().begin(); it != ct.children().end(); ++it) ++nk;
        n.kv("v", ct.value()).kv("nk", nk).kv("sz", ct.size()).kv("em", ct.empty());
        n.kv("par", ref_of_opt(t.parent()));
        n.kv("fr", ref_of_opt(ct.front())).kv("bk", ref_of_opt(t.back()));
        n.kv("d", fcppt::container::tree::depth(ct));
        // to_root: never follow a link that is not the address of a live node, stop after 64 steps
        std::vector<long> tr;
        bool safe = true;
        {
          auto const range = fcppt::container::tree::make_to_root(ct);
          auto it = range.begin();
          auto const end = range.end();
          int steps = 0;
          while (it != end)
          {
            tree const &cur = *it;
            long const r = ref_of(&cur);
            tr.push_back(r);
            if (r == -2 || ++steps > 64)
            {
              safe = false;
              break;
            }
            ++it;
          }
        }
        n.kv("l", safe ? static_cast<long>(fcppt::container::tree::level(ct)) : -3L);
        long cp = -1;
        if (e.lister != nullptr)
        {
          auto const pos = fcppt::container::tree::child_position(*e.lister, t);
          if (pos.has_value()) cp = static_cast<long>(std::distance(e.lister->begin(), pos.get_unsafe()));
        }
        n.kv("cp", cp).kv("tr", tr);
        nodes.el_raw(n.str());
      }
      tree &root = *slots[s];
      for (tree &t : fcppt::container::tree::make_pre_order(root)) pre.push_back(ref_of(&t));
      tree const &croot = root;
      for (tree const &t : fcppt::container::tree::make_pre_order(croot)) prev.push_back(t.value());
      ltree const m = fcppt::container::tree::map<ltree>(croot, [](int const x) { return 2L * x + 1L; });
      std::map<ltree const *, long> ids;
      dump_mapped(m, nullptr, ids, mapped);
      cpself = fcppt::container::tree::child_position(root, root).has_value() ? 1 : 0;
    }
    o.raw("nodes", nodes.str()).kv("pre", pre).kv("prev", prev).raw("map", mapped.str()).kv("cpself", cpself);
    sl.el_raw(o.str());
  }
  vj::J eq('['), ne('[');
  for (int s = 1; s <= NS; ++s)
  {
    std::vector<long> e, n;
    for (int u = 1; u <= NS; ++u)
    {
      bool const both = slots[s].has_value() && slots[u].has_value();
      e.push_back(both ? (*slots[s] == *slots[u] ? 1 : 0) : -1);
      n.push_back(both ? (*slots[s] != *slots[u] ? 1 : 0) : -1);
    }
    eq.el_raw(vj::arr(e));
    ne.el_raw(vj::arr(n));
  }
  return "\"slots\":" + sl.str() + ",\"eq\":" + eq.str() + ",\"ne\":" + ne.str();
}

// ------------------------------------------------------------------ executing one operation
void exec(Op const &op)
{
  vj::J pre;
  pre.kv("e", "op").kv("op", op.op).kv("as", op.as).kv("ap", op.ap).kv("bs", op.bs).kv("bp", op.bp).kv("d", op.d);
  pre.kv("pos", op.pos).kv("pos2", op.pos2).kv("x", op.x).kv("rv", op.rv).kv("ss", op.ss);
  vj::begin_call(pre.s);
  std::string const &o = op.op;
  int const xv = static_cast<int>(op.x);
  tree const *ret = nullptr;
  bool has_ret = false;
  bool some = false;
  bool rb = false;
  auto A = [&]() -> tree & { return node_at(op.as, op.ap); };
  auto B = [&]() -> tree & { return node_at(op.bs, op.bp); };
  auto at = [](tree &t, long pos) {
    tree::iterator it = t.begin();
    std::advance(it, pos);
    return it;
  };
  if (o == "ctor")
  {
    if (op.rv) slots[op.d].emplace(static_cast<int>(op.x));
    else slots[op.d].emplace(xv);
  }
  else if (o == "ctor_list")
  {
    tree::child_list l;
    for (int s : op.ss)
    {
      l.push_back(std::move(*slots[s]));
      slots[s].reset();
    }
    slots[op.d].emplace(static_cast<int>(op.x), std::move(l));
  }
  else if (o == "copy_ctor") slots[op.d].emplace(static_cast<tree const &>(A()));
  else if (o == "move_ctor") slots[op.d].emplace(std::move(A()));
  else if (o == "destroy") slots[op.as].reset();
  else if (o == "push_back")
  {
    tree &a = A();
    ret = op.rv ? &a.push_back(static_cast<int>(op.x)).get() : &a.push_back(xv).get();
    has_ret = true;
  }
  else if (o == "push_front")
  {
    tree &a = A();
    ret = op.rv ? &a.push_front(static_cast<int>(op.x)).get() : &a.push_front(xv).get();
    has_ret = true;
  }
  else if (o == "push_back_tree")
  {
    tree &a = A();
    tree &b = B();
    ret = &a.push_back(std::move(b)).get();
    has_ret = true;
  }
  else if (o == "push_front_tree")
  {
    tree &a = A();
    tree &b = B();
    ret = &a.push_front(std::move(b)).get();
    has_ret = true;
  }
  else if (o == "insert")
  {
    tree &a = A();
    if (op.rv) a.insert(at(a, op.pos), static_cast<int>(op.x));
    else a.insert(at(a, op.pos), xv);
  }
  else if (o == "insert_tree")
  {
    tree &a = A();
    tree &b = B();
    a.insert(at(a, op.pos), std::move(b));
  }
  else if (o == "pop_back" || o == "pop_front")
  {
    tree &a = A();
    tree::optional_object r = o == "pop_back" ? a.pop_back() : a.pop_front();
    some = r.has_value();
    if (some && op.d != 0) slots[op.d].emplace(std::move(r.get_unsafe()));
  }
  else if (o == "erase")
  {
    tree &a = A();
    a.erase(at(a, op.pos));
  }
  else if (o == "erase_range")
  {
    tree &a = A();
    a.erase(at(a, op.pos), at(a, op.pos2));
  }
  else if (o == "release")
  {
    tree &a = A();
    tree r = a.release(at(a, op.pos));
    if (op.d != 0) slots[op.d].emplace(std::move(r));
  }
  else if (o == "clear") A().clear();
  else if (o == "sort")
  {
    if (op.x == 1) A().sort([](int const l, int const r) { return l > r; });
    else A().sort();
  }
  else if (o == "swap")
  {
    tree &a = A();
    tree &b = B();
    a.swap(b);
  }
  else if (o == "swap_free")
  {
    tree &a = A();
    tree &b = B();
    swap(a, b); // fcppt::container::tree::swap by ADL
  }
  else if (o == "copy_assign")
  {
    tree &a = A();
    tree const &b = B();
    a = b;
  }
  else if (o == "move_assign")
  {
    tree &a = A();
    tree &b = B();
    a = std::move(b);
  }
  else if (o == "set_value")
  {
    if (op.rv) A().value(static_cast<int>(op.x));
    else A().value(xv);
  }
  else if (o == "eq")
  {
    tree const &a = A();
    tree const &b = B();
    rb = (a == b);
  }
  else if (o == "ne")
  {
    tree const &a = A();
    tree const &b = B();
    rb = (a != b);
  }
  else
  {
    std::fprintf(stderr, "unknown op %s\n", o.c_str());
    std::exit(3);
  }
  std::string const st = state_json(); // rebuilds the address table
  std::string rest = ",\"ret\":" + std::to_string(has_ret ? ref_of(ret) : -1L);
  rest += std::string(",\"some\":") + (some ? "true" : "false") + ",\"rb\":" + (rb ? "true" : "false") + "," + st + "}";
  vj::end_call(rest);
}

void begin_history(long h) { vj::line(vj::J().kv("e", "reset").kv("h", h)); }

void end_history()
{
  vj::begin_call(vj::J().kv("e", "end").s);
  for (int i = 1; i <= NS; ++i) slots[i].reset();
  vj::end_call("}");
}

// ------------------------------------------------------------------ random driver
bool is_prefix(std::vector<int> const &p, std::vector<int> const &q)
{
  if (p.size() > q.size()) return false;
  for (std::size_t i = 0; i < p.size(); ++i)
    if (p[i] != q[i]) return false;
  return true;
}

std::size_t subtree_size(tree const &t)
{
  std::size_t n = 1;
  for (tree const &c : t.children()) n += subtree_size(c);
  return n;
}

std::size_t child_count(tree const &t)
{
  return static_cast<std::size_t>(std::distance(t.children().begin(), t.children().end()));
}

// chooses an operation that is valid in the current state (API preconditions only)
bool gen(vj::Rng &r, Op &op)
{
  rebuild_table();
  std::vector<int> dead, live;
  for (int s = 1; s <= NS; ++s) (slots[s].has_value() ? live : dead).push_back(s);
  std::size_t const total = table.size();
  auto pick_dead = [&]() { return dead[r.below(dead.size())]; };
  auto pick_dead0 = [&]() { return (dead.empty() || r.below(4) == 0) ? 0 : pick_dead(); };
  for (int tries = 0; tries < 200; ++tries)
  {
    op = Op{};
    op.x = static_cast<long>(r.below(4));
    op.rv = r.coin();
    int const which = static_cast<int>(r.below(48));
    if (table.empty() || which < 3)
    {
      if (dead.empty() || total >= max_nodes) continue;
      if (which == 2 && !live.empty())
      {
        op.op = "ctor_list";
        op.d = pick_dead();
        std::vector<int> cand = live;
        std::size_t const n = r.below(cand.size() < 2 ? cand.size() + 1 : 3);
        for (std::size_t i = 0; i < n; ++i)
        {
          std::size_t const j = r.below(cand.size());
          op.ss.push_back(cand[j]);
          cand.erase(cand.begin() + static_cast<long>(j));
        }
        return true;
      }
      op.op = "ctor";
      op.d = pick_dead();
      return true;
    }
    Entry const &a = table[r.below(table.size())];
    Entry const &b = table[r.below(table.size())];
    op.as = a.slot;
    op.ap = a.path;
    std::size_t const nk = child_count(*a.ptr);
    bool const same_slot = a.slot == b.slot;
    bool const related = same_slot && (is_prefix(a.path, b.path) || is_prefix(b.path, a.path));
    bool const b_above_a = same_slot && is_prefix(b.path, a.path);
    // the source of an assignment may be a proper descendant of the destination ("replace a node
    // by one of its children"); it may not be the destination itself or one of its ancestors
    bool const assignable = !related || (drive_assign_from_descendant && !b_above_a);
    auto with_b = [&]() { op.bs = b.slot; op.bp = b.path; };
    switch (which)
    {
    case 3: case 4:
      if (dead.empty() || total + subtree_size(*a.ptr) > max_nodes) continue;
      op.op = "copy_ctor"; op.d = pick_dead(); return true;
    case 5:
      if (dead.empty() || total >= max_nodes) continue;
      op.op = "move_ctor"; op.d = pick_dead(); return true;
    case 6:
      if (!a.path.empty() || r.below(3) != 0) continue;
      op.op = "destroy"; return true;
    case 7: case 8: case 9: case 10:
      if (total >= max_nodes) continue;
      op.op = r.coin() ? "push_back" : "push_front"; return true;
    case 11: case 12: case 13:
      if (total >= max_nodes || b_above_a) continue;
      op.op = r.coin() ? "push_back_tree" : "push_front_tree"; with_b(); return true;
    case 14: case 15: case 16:
      if (total >= max_nodes) continue;
      op.op = "insert"; op.pos = static_cast<long>(r.below(nk + 1)); return true;
    case 17: case 18:
      if (total >= max_nodes || b_above_a) continue;
      op.op = "insert_tree"; op.pos = static_cast<long>(r.below(nk + 1)); with_b(); return true;
    case 19: case 20:
      op.op = r.coin() ? "pop_back" : "pop_front"; op.d = pick_dead0(); return true;
    case 21: case 22:
      if (nk == 0) continue;
      op.op = "erase"; op.pos = static_cast<long>(r.below(nk)); return true;
    case 23:
      op.op = "erase_range"; op.pos = static_cast<long>(r.below(nk + 1));
      op.pos2 = op.pos + static_cast<long>(r.below(nk - static_cast<std::size_t>(op.pos) + 1)); return true;
    case 24: case 25:
      if (nk == 0) continue;
      op.op = "release"; op.pos = static_cast<long>(r.below(nk)); op.d = pick_dead0(); return true;
    case 26:
      if (r.below(3) != 0) continue;
      op.op = "clear"; return true;
    case 27: case 28:
      op.op = "sort"; op.x = static_cast<long>(r.below(2)); return true;
    case 29: case 30: case 31: case 32:
      if (related) continue;
      op.op = r.coin() ? "swap" : "swap_free"; with_b(); return true;
    case 33: case 34: case 35: case 36:
      if (!assignable || total + subtree_size(*b.ptr) > max_nodes + subtree_size(*a.ptr)) continue;
      op.op = "copy_assign"; with_b(); return true;
    case 37: case 38: case 39: case 40:
      if (!assignable) continue;
      op.op = "move_assign"; with_b(); return true;
    case 41: case 42: case 43:
      op.op = "set_value"; return true;
    case 44: case 45:
      op.op = r.coin() ? "eq" : "ne"; with_b(); return true;
    default:
      if (total >= max_nodes) continue;
      op.op = "push_back"; return true;
    }
  }
  return false;
}

Op from_json(vj::V const &v)
{
  Op op;
  op.op = v.str("op");
  op.as = static_cast<int>(v.num_or("as", 0));
  op.bs = static_cast<int>(v.num_or("bs", 0));
  op.d = static_cast<int>(v.num_or("d", 0));
  if (v.has("ap")) for (long long q : v.nums("ap")) op.ap.push_back(static_cast<int>(q));
  if (v.has("bp")) for (long long q : v.nums("bp")) op.bp.push_back(static_cast<int>(q));
  if (v.has("ss")) for (long long q : v.nums("ss")) op.ss.push_back(static_cast<int>(q));
  op.pos = v.num_or("pos", 0);
  op.pos2 = v.num_or("pos2", 0);
  op.x = v.num_or("x", 0);
  op.rv = v.has("rv") ? v.at("rv").b : false;
  return op;
}

}

int main(int argc, char **argv)
{
  if (argc < 4)
  {
    std::fprintf(stderr, "usage: c09_tree record OUT seed histories maxlen | replay SCRIPTS OUT\n");
    return 3;
  }
  std::string const mode = argv[1];
  if (mode == "record" && argc >= 6)
  {
    vj::open(argv[2]);
    std::uint64_t const seed = std::strtoull(argv[3], nullptr, 10);
    long const hist = std::strtol(argv[4], nullptr, 10);
    long const maxlen = std::strtol(argv[5], nullptr, 10);
    if (argc >= 7) drive_assign_from_descendant = std::strtol(argv[6], nullptr, 10) != 0;
    for (long h = 0; h < hist; ++h)
    {
      vj::Rng r(seed * 1000003ULL + static_cast<std::uint64_t>(h));
      begin_history(h);
      // lengths 1..maxlen, biased towards the long ones (every fourth history is short)
      long const lo = (h % 4 == 0 || maxlen < 8) ? 1 : maxlen / 2;
      long const len = lo + static_cast<long>(r.below(static_cast<std::uint64_t>(maxlen - lo + 1)));
      for (long i = 0; i < len; ++i)
      {
        Op op;
        if (!gen(r, op)) break;
        exec(op);
      }
      end_history();
    }
    vj::close();
    return 0;
  }
  if (mode == "replay")
  {
    auto lines = vj::read_lines(argv[2]);
    vj::open(argv[3]);
    long h = 0;
    for (auto const &l : lines)
    {
      vj::VP script = vj::parse(l);
      begin_history(h++);
      for (auto const &e : script->a) exec(from_json(*e));
      end_history();
    }
    vj::close();
    return 0;
  }
  return 3;
}
