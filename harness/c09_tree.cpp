// C09 conformance harness: drives fcppt::container::tree::object<L> through operation histories
// over a forest of 4 slots, with operands chosen among ALL live nodes (roots and inner nodes),
// and records after every operation a DFS dump of every slot (see c09_forest.hpp): label, child
// count, the node parent() refers to (looked up by address among all live nodes), the outputs of
// pre_order / to_root (const and non-const, iterator protocol) / depth / level / child_position /
// map (copyable and move-only result) / operator<< / == / !=.
// Label types L: int, std::string, std::unique_ptr<int> (move-only), tree<int> (nested).
// It contains no expected values: spec/TreeTrace.tla (TLC) is the judge.
//
//   c09_tree record OUT seed histories maxlen [assign-from-descendant 0|1] [int|str|uptr|tree]
//   c09_tree replay SCRIPTS.ndjson OUT [int|str|uptr|tree] [stride] [phase]
#include <cstdio>
#include <string>

int c09_run_int(std::string const &, int, char **);
int c09_run_str(std::string const &, int, char **);
int c09_run_uptr(std::string const &, int, char **);
int c09_run_tree(std::string const &, int, char **);

int main(int argc, char **argv)
{
  if (argc < 4)
  {
    std::fprintf(stderr, "usage: c09_tree record OUT seed histories maxlen [desc] [lt] | replay SCRIPTS OUT [lt stride phase]\n");
    return 3;
  }
  std::string const mode = argv[1];
  std::string lt = "int";
  if (mode == "record" && argc >= 6) { if (argc >= 8) lt = argv[7]; }
  else if (mode == "replay") { if (argc >= 5) lt = argv[4]; }
  else return 3;
  if (lt == "int") return c09_run_int(mode, argc, argv);
  if (lt == "str") return c09_run_str(mode, argc, argv);
  if (lt == "uptr") return c09_run_uptr(mode, argc, argv);
  if (lt == "tree") return c09_run_tree(mode, argc, argv);
  return 3;
}
