// C10 harness: the executable for the enum with 64 enumerators, stored in 8/16/32/64-bit
// words (driver and main: c10_bitfield.hpp; compiled a second time, with C10_OBSERVED, by
// c10_bitfield_x64.cpp for the record kinds outside the statement)
#include "c10_bitfield.hpp"

namespace
{
enum class e64
{
  v0, v1, v2, v3, v4, v5, v6, v7, v8, v9, v10, v11,
  v12, v13, v14, v15, v16, v17, v18, v19, v20, v21, v22, v23,
  v24, v25, v26, v27, v28, v29, v30, v31, v32, v33, v34, v35,
  v36, v37, v38, v39, v40, v41, v42, v43, v44, v45, v46, v47,
  v48, v49, v50, v51, v52, v53, v54, v55, v56, v57, v58, v59,
  v60, v61, v62, v63,
  fcppt_maximum = v63
};
}

C10_MAIN(e64)
