// C16 conformance harness: one group of source ranges (see c16_range.hpp).  Drives and records only.
#include "c16_range.hpp"

namespace c16
{
void run_assoc(Sel &sel, bool)
{
  set_sources(sel);
  multiset_sources(6, sel);
  map_sources(sel);
}
}
