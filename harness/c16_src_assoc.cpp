// C16 conformance harness: one group of source ranges (see c16_range.hpp).  Drives and records only.
#include "c16_range.hpp"


// entry point of part "assoc" (see c16_main.cpp)
extern "C" void c16_part_assoc(unsigned long long const seed, int const thorough_flag)
{
  using namespace c16;
  bool const thorough = thorough_flag != 0;
  (void)thorough;
  Sel sel(seed, thorough);
  set_sources(sel);
  multiset_sources(6, sel);
  map_sources(sel);
}
