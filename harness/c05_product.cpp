// C05 harness, part 3: fcppt::array / fcppt::tuple / fcppt::record operations.
// Compiled once per unit (-DC05_UNIT_ARRAYS, -DC05_UNIT_TUPLES, -DC05_UNIT_RECORDS).
#include "c05_common.hpp"

#include <fcppt/array/append.hpp>
#include <fcppt/array/apply.hpp>
#include <fcppt/array/from_range.hpp>
#include <fcppt/array/init.hpp>
#include <fcppt/array/join.hpp>
#include <fcppt/array/make.hpp>
#include <fcppt/array/map.hpp>
#include <fcppt/array/object_impl.hpp>
#include <fcppt/array/push_back.hpp>
#include <fcppt/record/element.hpp>
#include <fcppt/record/get.hpp>
#include <fcppt/record/has_label.hpp>
#include <fcppt/algorithm/map.hpp>
#include <fcppt/algorithm/map_array.hpp>
#include <fcppt/algorithm/map_tuple.hpp>
#include <fcppt/algorithm/loop_break_mpl.hpp>
#include <fcppt/algorithm/loop_break_tuple.hpp>
#include <fcppt/mpl/list/object.hpp>
#include <fcppt/tag.hpp>
#include <fcppt/tuple/invoke.hpp>
#include <fcppt/record/init.hpp>
#include <fcppt/record/make_label.hpp>
#include <fcppt/record/map.hpp>
#include <fcppt/record/multiply_disjoint.hpp>
#include <fcppt/record/object_impl.hpp>
#include <fcppt/record/permute.hpp>
#include <fcppt/record/set.hpp>
#include <fcppt/tuple/apply.hpp>
#include <fcppt/tuple/concat.hpp>
#include <fcppt/tuple/from_array.hpp>
#include <fcppt/tuple/init.hpp>
#include <fcppt/tuple/make.hpp>
#include <fcppt/tuple/map.hpp>
#include <fcppt/tuple/object_impl.hpp>
#include <fcppt/tuple/push_back.hpp>

#include <deque>
#include <string>
#include <utility>
#include <vector>

namespace
{
using namespace c05;
using T2 = trk::tracked2;
using T3 = trk::tracked3;
using vec = std::vector<T>;
using arr2 = fcppt::array::object<T, 2>;
using arr3 = fcppt::array::object<T, 3>;
using arr1 = fcppt::array::object<T, 1>;
using tup = fcppt::tuple::object<T, T2>;
using tup1 = fcppt::tuple::object<T3>;
using tup_tt = fcppt::tuple::object<T, T>; // homogeneous: elements can be confused with each other

FCPPT_RECORD_MAKE_LABEL(label_a);
FCPPT_RECORD_MAKE_LABEL(label_b);
FCPPT_RECORD_MAKE_LABEL(label_c);
using rec_ab = fcppt::record::object<fcppt::record::element<label_a, T>, fcppt::record::element<label_b, T2>>;
using rec_ba = fcppt::record::object<fcppt::record::element<label_b, T2>, fcppt::record::element<label_a, T>>;
using rec_c = fcppt::record::object<fcppt::record::element<label_c, T3>>;

arr2 mk_arr2() { return arr2{T(next_tok()), T(next_tok())}; }
arr3 mk_arr3() { return arr3{T(next_tok()), T(next_tok()), T(next_tok())}; }
arr1 mk_arr1() { return arr1{T(next_tok())}; }
tup mk_tup() { return tup{T(next_tok()), T2(next_tok())}; }
tup1 mk_tup1() { return tup1{T3(next_tok())}; }
tup_tt mk_tup_tt() { return tup_tt{T(next_tok()), T(next_tok())}; }
using tup3 = fcppt::tuple::object<T, T2, T3>;
tup3 mk_tup3() { return tup3{T(next_tok()), T2(next_tok()), T3(next_tok())}; }
rec_ab mk_rec_ab() { return rec_ab{label_a{} = T(next_tok()), label_b{} = T2(next_tok())}; }
rec_c mk_rec_c() { return rec_c{label_c{} = T3(next_tok())}; }

// which tracked member sits under which label (a lone element is labelled "x")
template <typename X>
std::vector<lab> labs_of(X const &x)
{
  using U = std::remove_cvref_t<X>;
  std::vector<lab> r;
  if constexpr (trk::is_tracked_v<U>) r.push_back(lab{"x", x.raw().id});
  else if constexpr (is_fcppt_reference<U>::value) return labs_of(x.get());
  else
  {
    if constexpr (fcppt::record::has_label<U, label_a>::value) r.push_back(lab{"a", fcppt::record::get<label_a>(x).raw().id});
    if constexpr (fcppt::record::has_label<U, label_b>::value) r.push_back(lab{"b", fcppt::record::get<label_b>(x).raw().id});
    if constexpr (fcppt::record::has_label<U, label_c>::value) r.push_back(lab{"c", fcppt::record::get<label_c>(x).raw().id});
  }
  return r;
}
// like run1 / run2, additionally emitting the "labels" event before end
template <char C, typename Make, typename Call>
void runL1(char const *op, bool keeps, std::string const &shape, Make const &make, Call const &call)
{
  if (!wanted(op)) return;
  if constexpr (!std::is_invocable_v<Call const &, decltype(as_cat<C>(std::declval<decltype(make()) &>()))>)
    not_instantiable(op, shape, std::string(1, C));
  else
  {
    if (!reset(op, shape, std::string(1, C))) return;
    guarded([&]
    {
      auto a = make();
      auto const la = labs_of(a);
      guarded([&]
      {
        begin(op, keeps, {desc(C, a)});
        decltype(auto) r = call(as_cat<C>(a));
        labels({la}, labs_of(r));
        end(r, {ids_of(a)});
      });
    });
  }
}
template <char C1, char C2, typename Make1, typename Make2, typename Call>
void runL2(char const *op, bool keeps, std::string const &shape, Make1 const &make1, Make2 const &make2, Call const &call)
{
  if (!wanted(op)) return;
  if constexpr (!std::is_invocable_v<Call const &, decltype(as_cat<C1>(std::declval<decltype(make1()) &>())),
                                     decltype(as_cat<C2>(std::declval<decltype(make2()) &>()))>)
    not_instantiable(op, shape, std::string{C1, C2});
  else
  {
    if (!reset(op, shape, std::string{C1, C2})) return;
    guarded([&]
    {
      auto a = make1();
      auto b = make2();
      auto const la = labs_of(a);
      auto const lb = labs_of(b);
      guarded([&]
      {
        begin(op, keeps, {desc(C1, a), desc(C2, b)});
        decltype(auto) r = call(as_cat<C1>(a), as_cat<C2>(b));
        labels({la, lb}, labs_of(r));
        end(r, {ids_of(a), ids_of(b)});
      });
    });
  }
}

#ifdef C05_UNIT_ARRAYS
void arrays()
{
  for_cats<'r', 'l', 'c'>([&](auto c)
  {
    constexpr char C = decltype(c)::value;
    run1<C>("array::map", true, "array3", mk_arr3, [](auto &&a) C05_CALL(fcppt::array::map(C05_FWD(a), pass)));
    run1<C>("array::join", true, "array3", mk_arr3, [](auto &&a) C05_CALL(fcppt::array::join(C05_FWD(a))));
    run1<C>("tuple::from_array", true, "array3", mk_arr3, [](auto &&a) C05_CALL(fcppt::tuple::from_array(C05_FWD(a))));
    run1<C>("array::object(array)", true, "array3", mk_arr3, [](auto &&a) C05_CALL(arr3(C05_FWD(a))));
    run1<C>("array::map", true, "array1", mk_arr1, [](auto &&a) C05_CALL(fcppt::array::map(C05_FWD(a), pass)));
    run1<C>("array::map", true, "array2/by-value", mk_arr2, [](auto &&a) C05_CALL(fcppt::array::map(C05_FWD(a), pass_by_value)));
    run1<C>("array::from_range", true, "deque:3", [] { return make_seq<std::deque<T>>(3); },
            [](auto &&a) C05_CALL(fcppt::array::from_range<3>(C05_FWD(a))));
    // from_range: matching and non-matching sizes
    for (int n : {2, 3})
      run1<C>("array::from_range", n == 3, "vector:" + std::to_string(n), [n] { return make_seq<vec>(n); },
              [](auto &&a) C05_CALL(fcppt::array::from_range<3>(C05_FWD(a))));
  });
  for_cats<'r', 'l', 'c'>([&](auto c1)
  {
    for_cats<'r', 'l', 'c'>([&](auto c2)
    {
      constexpr char C1 = decltype(c1)::value;
      constexpr char C2 = decltype(c2)::value;
      // array::append names fcppt::array::size<Array1> with the unstripped (reference) type in its
      // body, so an lvalue FIRST array is a hard compile error (append, push_back, join of >= 2
      // arrays); only an rvalue first argument can be driven.  See docs/notes_C05.md.
#ifdef C05_ARRAY_APPEND_LVALUE
      constexpr bool first_ok = true; // the tree under test has array::append repaired
#else
      constexpr bool first_ok = C1 == 'r';
#endif
      if constexpr (first_ok)
      {
        run2<C1, C2>("array::append", true, "array2+array3", mk_arr2, mk_arr3,
                     [](auto &&a, auto &&b) C05_CALL(fcppt::array::append(C05_FWD(a), C05_FWD(b))));
        run2<C1, C2>("array::join", true, "array2+array3", mk_arr2, mk_arr3,
                     [](auto &&a, auto &&b) C05_CALL(fcppt::array::join(C05_FWD(a), C05_FWD(b))));
        run2<C1, C2>("array::push_back", true, "array2+element", mk_arr2, [] { return T(next_tok()); },
                     [](auto &&a, auto &&b) C05_CALL(fcppt::array::push_back(C05_FWD(a), C05_FWD(b))));
      }
      run2<C1, C2>("array::apply", true, "array2,array2", mk_arr2, mk_arr2, [](auto &&a, auto &&b)
      {
        return fcppt::array::apply([](auto &&x, auto &&y)
        {
          cb_scope const g{C05_RECV(x) + "," + C05_RECV(y)};
          vec r;
          r.reserve(2U);
          r.emplace_back(C05_FWD(x));
          r.emplace_back(C05_FWD(y));
          return r;
        },
        C05_FWD(a), C05_FWD(b));
      });
    });
  });
  // three arrays / tuples, every combination of value categories of every position
  for_cats3([&](auto c1, auto c2, auto c3)
  {
    constexpr char C1 = decltype(c1)::value;
    constexpr char C2 = decltype(c2)::value;
    constexpr char C3 = decltype(c3)::value;
#ifdef C05_ARRAY_APPEND_LVALUE
    constexpr bool first_ok = true;
#else
    constexpr bool first_ok = C1 == 'r'; // array::append with an lvalue first array is a hard error there
#endif
    if constexpr (first_ok)
      run3<C1, C2, C3>("array::join", true, "array1+array2+array3/all", mk_arr1, mk_arr2, mk_arr3,
          [](auto &&a, auto &&b, auto &&cc) C05_CALL(fcppt::array::join(C05_FWD(a), C05_FWD(b), C05_FWD(cc))));
    run3<C1, C2, C3>("tuple::concat", true, "tuple2+tuple1+tuple<T,T>", mk_tup, mk_tup1, mk_tup_tt,
        [](auto &&a, auto &&b, auto &&cc) C05_CALL(fcppt::tuple::concat(C05_FWD(a), C05_FWD(b), C05_FWD(cc))));
    run3<C1, C2, C3>("array::apply", true, "array2,array2,array2", mk_arr2, mk_arr2, mk_arr2, [](auto &&a, auto &&b, auto &&cc)
    {
      return fcppt::array::apply([](auto &&x, auto &&y, auto &&z)
      {
        cb_scope const g{C05_RECV(x) + "," + C05_RECV(y) + "," + C05_RECV(z)};
        vec r;
        r.reserve(3U);
        r.emplace_back(C05_FWD(x));
        r.emplace_back(C05_FWD(y));
        r.emplace_back(C05_FWD(z));
        return r;
      },
      C05_FWD(a), C05_FWD(b), C05_FWD(cc));
    });
  });
  run3<'r', 'c', 'r'>("array::join", true, "array1+array2+array3", mk_arr1, mk_arr2, mk_arr3,
      [](auto &&a, auto &&b, auto &&cc) { return fcppt::array::join(C05_FWD(a), C05_FWD(b), C05_FWD(cc)); });
  run3<'r', 'r', 'l'>("array::join", true, "array1+array2+array3", mk_arr1, mk_arr2, mk_arr3,
      [](auto &&a, auto &&b, auto &&cc) { return fcppt::array::join(C05_FWD(a), C05_FWD(b), C05_FWD(cc)); });
  // make / init: elements come from the arguments / the continuation
  for_cats<'r', 'c'>([&](auto c1)
  {
    for_cats<'r', 'c'>([&](auto c2)
    {
      run2<decltype(c1)::value, decltype(c2)::value>("array::make", true, "2 elements", [] { return T(next_tok()); },
          [] { return T(next_tok()); }, [](auto &&a, auto &&b) C05_CALL(fcppt::array::make(C05_FWD(a), C05_FWD(b))));
      run2<decltype(c1)::value, decltype(c2)::value>("tuple::make", true, "2 elements", [] { return T(next_tok()); },
          [] { return T2(next_tok()); }, [](auto &&a, auto &&b) C05_CALL(fcppt::tuple::make(C05_FWD(a), C05_FWD(b))));
    });
  });
  for_cats<'r', 'l', 'c'>([&](auto c)
  {
    // init with a continuation that hands out the elements of a vector
    run1<decltype(c)::value>("array::init", true, "from vector:3", [] { return make_seq<vec>(3); }, [](auto &&a)
    {
      return fcppt::array::init<arr3>([&a]<std::size_t I>(std::integral_constant<std::size_t, I>)
      {
        cb_scope const g{""};
        return T(fcppt::move_if_rvalue<decltype(a)>(a[I]));
      });
    });
  });
}
#endif

#ifdef C05_UNIT_TUPLES
void map_sources()
{
  for_cats<'r', 'l', 'c'>([&](auto c)
  {
    constexpr char C = decltype(c)::value;
    // map_impl specialisations: tuple -> tuple (tuple::map), array -> array (array::map)
    run1<C>("algorithm::map", true, "tuple<T,T>->tuple<T,T>", mk_tup_tt, [](auto &&a) C05_CALL(fcppt::algorithm::map<tup_tt>(C05_FWD(a), pass)));
    run1<C>("algorithm::map", true, "array3->array3", mk_arr3, [](auto &&a) C05_CALL(fcppt::algorithm::map<arr3>(C05_FWD(a), pass)));
    // generic map_impl over loop_break_impl<tuple> / <array>
    run1<C>("algorithm::map", true, "tuple<T,T>->vector", mk_tup_tt, [](auto &&a) C05_CALL(fcppt::algorithm::map<vec>(C05_FWD(a), pass)));
    run1<C>("algorithm::map", true, "array3->vector", mk_arr3, [](auto &&a) C05_CALL(fcppt::algorithm::map<vec>(C05_FWD(a), pass)));
    run1<C>("tuple::invoke", true, "tuple<T,T>", mk_tup_tt, [](auto &&a)
    {
      return fcppt::tuple::invoke([](auto &&x, auto &&y)
      {
        cb_scope const g{C05_RECV(x) + "," + C05_RECV(y)};
        vec r;
        r.reserve(2U);
        r.emplace_back(C05_FWD(x));
        r.emplace_back(C05_FWD(y));
        return r;
      },
      C05_FWD(a));
    });
  });
  // an mpl list as source: the elements are tags, the function makes the values
  if (wanted("algorithm::map") && reset("algorithm::map", "mpl::list->vector", ""))
  {
    guarded([]
    {
      begin("algorithm::map", false, {});
      int k = 0;
      auto const r = fcppt::algorithm::map<vec>(fcppt::mpl::list::object<int, char, long>{}, [&k]<typename U>(fcppt::tag<U>)
      {
        cb_scope const g{""};
        return T(100 + k++);
      });
      end(r, {});
    });
  }
}

void tuples()
{
  auto const to_var = [](auto &&x)
  {
    cb_scope const g{C05_RECV(x)};
    return std::remove_cvref_t<decltype(x)>(C05_FWD(x));
  };
  auto const pair_up = [](auto &&x, auto &&y)
  {
    cb_scope const g{C05_RECV(x) + "," + C05_RECV(y)};
    using E = std::remove_cvref_t<decltype(x)>;
    std::vector<E> r;
    r.reserve(2U);
    r.emplace_back(C05_FWD(x));
    r.emplace_back(C05_FWD(y));
    return r;
  };
  for_cats<'r', 'l', 'c'>([&](auto c)
  {
    constexpr char C = decltype(c)::value;
    run1<C>("tuple::map", true, "tuple2", mk_tup, [&](auto &&a) C05_CALL(fcppt::tuple::map(C05_FWD(a), to_var)));
    run1<C>("tuple::map", true, "tuple<T,T2,T3>", mk_tup3, [&](auto &&a) C05_CALL(fcppt::tuple::map(C05_FWD(a), to_var)));
    run1<C>("tuple::map", true, "tuple<T,T>", mk_tup_tt, [&](auto &&a) C05_CALL(fcppt::tuple::map(C05_FWD(a), to_var)));
    // tuple::apply static_asserts std::is_same_v over the sizes of ALL tuples, which is only
    // well-formed for exactly two tuples: the unary form cannot be instantiated at all.
    run1<C>("tuple::concat", true, "tuple2", mk_tup, [](auto &&a) C05_CALL(fcppt::tuple::concat(C05_FWD(a))));
    run1<C>("tuple::object(tuple)", true, "tuple2", mk_tup, [](auto &&a) C05_CALL(tup(C05_FWD(a))));
  });
  for_cats<'r', 'l', 'c'>([&](auto c1)
  {
    for_cats<'r', 'l', 'c'>([&](auto c2)
    {
      constexpr char C1 = decltype(c1)::value;
      constexpr char C2 = decltype(c2)::value;
      run2<C1, C2>("tuple::push_back", true, "tuple2+element", mk_tup, [] { return T3(next_tok()); },
                   [](auto &&a, auto &&b) C05_CALL(fcppt::tuple::push_back(C05_FWD(a), C05_FWD(b))));
      run2<C1, C2>("tuple::push_back", true, "tuple<T,T2,T3>+T", mk_tup3, [] { return T(next_tok()); },
                   [](auto &&a, auto &&b) C05_CALL(fcppt::tuple::push_back(C05_FWD(a), C05_FWD(b))));
      run2<C1, C2>("tuple::push_back", true, "tuple<T,T>+T", mk_tup_tt, [] { return T(next_tok()); },
                   [](auto &&a, auto &&b) C05_CALL(fcppt::tuple::push_back(C05_FWD(a), C05_FWD(b))));
      run2<C1, C2>("tuple::concat", true, "tuple2+tuple1", mk_tup, mk_tup1,
                   [](auto &&a, auto &&b) C05_CALL(fcppt::tuple::concat(C05_FWD(a), C05_FWD(b))));
      run2<C1, C2>("tuple::apply", true, "tuple2,tuple2", mk_tup, mk_tup,
                   [&](auto &&a, auto &&b) C05_CALL(fcppt::tuple::apply(pair_up, C05_FWD(a), C05_FWD(b))));
    });
  });
}
#endif

#ifdef C05_UNIT_RECORDS
void records()
{
  for_cats<'r', 'l', 'c'>([&](auto c)
  {
    constexpr char C = decltype(c)::value;
    runL1<C>("record::permute", true, "ab->ba", mk_rec_ab, [](auto &&a) C05_CALL(fcppt::record::permute<rec_ba>(C05_FWD(a))));
    // record::map_result is computed from the unstripped Record type: an lvalue record is a
    // hard compile error, only rvalue records can be mapped
    if constexpr (C == 'r')
    runL1<C>("record::map", true, "ab", mk_rec_ab, [](auto &&a)
    {
      return fcppt::record::map(C05_FWD(a), [](auto &&x)
      {
        cb_scope const g{C05_RECV(x)};
        return std::remove_cvref_t<decltype(x)>(C05_FWD(x));
      });
    });
    runL1<C>("record::object(record)", true, "ab", mk_rec_ab, [](auto &&a) C05_CALL(rec_ab(C05_FWD(a))));
    runL1<C>("record::get", false, "ab", mk_rec_ab, [](auto &&a)
    { return T(fcppt::move_if_rvalue<decltype(a)>(fcppt::record::get<label_a>(a))); });
    runL1<C>("record::init", true, "from record", mk_rec_ab, [](auto &&a)
    {
      return fcppt::record::init<rec_ba>([&a]<typename L, typename Ty>(fcppt::record::element<L, Ty>)
      {
        cb_scope const g{""};
        return Ty(fcppt::move_if_rvalue<decltype(a)>(fcppt::record::get<L>(a)));
      });
    });
  });
  for_cats<'r', 'l', 'c'>([&](auto c1)
  {
    for_cats<'r', 'l', 'c'>([&](auto c2)
    {
      runL2<decltype(c1)::value, decltype(c2)::value>("record::multiply_disjoint", true, "ab*c", mk_rec_ab, mk_rec_c,
          [](auto &&a, auto &&b) C05_CALL(fcppt::record::multiply_disjoint(C05_FWD(a), C05_FWD(b))));
    });
  });
  // set: the record is modified (inout); the new value is passed by const reference or rvalue
  for_cats<'r', 'c'>([&](auto c2)
  {
    runL2<'m', decltype(c2)::value>("record::set", false, "ab", mk_rec_ab, [] { return T(next_tok()); }, [](auto &&a, auto &&b)
    {
      fcppt::record::set<label_a>(a, C05_FWD(b));
      return fcppt::make_cref(a);
    });
  });
  // construction from label assignments
  for_cats<'r', 'c'>([&](auto c1)
  {
    for_cats<'r', 'c'>([&](auto c2)
    {
      runL2<decltype(c1)::value, decltype(c2)::value>("record::object(labels)", true, "ab", [] { return T(next_tok()); },
          [] { return T2(next_tok()); },
          [](auto &&a, auto &&b) C05_CALL(rec_ab{label_a{} = C05_FWD(a), label_b{} = C05_FWD(b)}));
    });
  });
}
#endif
}

namespace c05
{
#ifdef C05_UNIT_ARRAYS
void drive_arrays() { arrays(); }
#endif
#ifdef C05_UNIT_TUPLES
void drive_tuples()
{
  map_sources();
  tuples();
}
#endif
#ifdef C05_UNIT_RECORDS
void drive_records() { records(); }
#endif
}
