// C14 harness unit "storage_mat": matrices whose storage is a view of a row-major array (c14::pview)
// and every mixed combination with static matrices: +, -, product, == / !=, compound assignment,
// assignment (template operator=, math/detail/assign.hpp), construction of a static matrix from a
// view (math/detail/copy.hpp), scalar operators, matrix * vector with the vector in every storage
// kind, transpose, structure_cast, determinant, adjugate, identity, row / element access (const,
// non-const, writes), rows assigned through views - for 1x1 ... 4x4 and non-square shapes.
// See c14_common.hpp.
#include <c14_matrix.hpp>
#include <c14_vec.hpp>

namespace
{
using namespace c14;

template <sz R, sz C>
struct moperands
{
  using smat = fm::matrix::static_<int, R, C>;
  smat as, bs;
  cells<R * C> ca, cb;
  pmat<R, C> ap, bp;
  std::string aj, bj;
  explicit moperands(ivec const &v)
      : as(mk_mat<R, C>(v, 0)), bs(mk_mat<R, C>(v, R * C)), ca(v, 0), cb(v, R * C), ap(as_pmat<R, C>(ca)),
        bp(as_pmat<R, C>(cb)), aj(vals_mat(v, 0, R, C)), bj(vals_mat(v, R * C, R, C))
  {
  }
  moperands(moperands const &) = delete;
  moperands &operator=(moperands const &) = delete;
};

// v: a (R*C), b (R*C), a vector (C)
template <sz R, sz C>
void mixed_matrix(char const *grp, ivec const &v, int const k)
{
  std::string const vecj = vals_vec(v, 2 * R * C, C);
  {
    moperands<R, C> const o(v);
    matrix_sum_of(grp, "static,pview", o.aj, o.bj, o.as, o.bp);
    matrix_sum_of(grp, "pview,static", o.aj, o.bj, o.ap, o.bs);
    matrix_sum_of(grp, "pview,pview", o.aj, o.bj, o.ap, o.bp);
    matrix_compare_of(grp, "static,pview", o.aj, o.bj, o.as, o.bp);
    matrix_compare_of(grp, "pview,static", o.aj, o.bj, o.ap, o.bs);
    matrix_compare_of(grp, "pview,pview", o.aj, o.bj, o.ap, o.bp);
    // equal operands and operands that differ in the last cell only
    {
      ivec w(v.begin(), v.begin() + static_cast<std::ptrdiff_t>(R * C));
      cells<R * C> cw(w, 0);
      matrix_compare_of(grp, "static,pview(equal)", o.aj, o.aj, o.as, as_pmat<R, C>(cw));
      matrix_compare_of(grp, "pview,pview(equal)", o.aj, o.aj, o.ap, as_pmat<R, C>(cw));
      cw.a[R * C - 1] += 1;
      w.back() += 1;
      std::string const wj = vals_mat(w, 0, R, C);
      matrix_compare_of(grp, "static,pview(last cell differs)", o.aj, wj, o.as, as_pmat<R, C>(cw));
      matrix_compare_of(grp, "pview,static(last cell differs)", wj, o.aj, as_pmat<R, C>(cw), o.as);
      matrix_compare_of(grp, "pview,pview(last cell differs)", o.aj, wj, o.ap, as_pmat<R, C>(cw));
    }
    // const access, transpose, structure_cast of the view matrix
    matrix_read_of(grp, "pview", o.aj, o.ap);
    // scalar operators, matrix * vector with the vector in every storage kind
    {
      cells<C> cv(v, 2 * R * C);
      auto rowm(mk_mat<2, C>(ivec(v.begin() + static_cast<std::ptrdiff_t>(2 * R * C - C), v.end()), 0));   // row 1 = the vector
      auto const &crowm(rowm);
      cells<2 * C> cq(ivec(v.begin() + static_cast<std::ptrdiff_t>(2 * R * C - C), v.end()), 0);
      auto pm(as_pmat<2, C>(cq));
      matrix_unary_of(grp, "pview;static", o.aj, vecj, o.ap, mk_vec<C>(v, 2 * R * C), k);
      matrix_unary_of(grp, "pview;pview", o.aj, vecj, o.ap, cv.vec(), k);
      matrix_unary_of(grp, "pview;constview", o.aj, vecj, o.ap, crowm.get_unsafe(1), k);
      matrix_unary_of(grp, "static;pview", o.aj, vecj, o.as, cv.vec(), k);
      matrix_unary_of(grp, "static;view", o.aj, vecj, o.as, rowm.get_unsafe(1), k);
      matrix_unary_of(grp, "static;pmatrow", o.aj, vecj, o.as, pm.get_unsafe(1), k);
    }
    if constexpr (R == C) matrix_square_of(grp, "pview", o.aj, o.ap);
    // a static matrix constructed from a view
    {
      Rec r("mcopy");
      r.ks("g", grp).ks("st", "pview->static").k("a", o.aj).begin();
      fm::matrix::static_<int, R, C> const res(o.ap);
      r.k("r", mj_(res)).end();
    }
  }
  // compound assignment and assignment, both directions
  for (char const op : {'+', '-'})
    for (unsigned combo = 0; combo < 3; ++combo)
    {
      moperands<R, C> o(v);
      Rec r(op == '+' ? "madd_assign" : "msub_assign");
      r.ks("g", grp).ks("st", combo == 0 ? "static,pview" : (combo == 1 ? "pview,static" : "pview,pview")).k("a", o.aj).k("b", o.bj).begin();
      if (combo == 0)
      {
        if (op == '+') o.as += o.bp;
        else o.as -= o.bp;
        r.k("r", mj_(o.as)).end();
      }
      else
      {
        if (combo == 1)
        {
          if (op == '+') o.ap += o.bs;
          else o.ap -= o.bs;
        }
        else
        {
          if (op == '+') o.ap += o.bp;
          else o.ap -= o.bp;
        }
        r.k("r", o.ca.json_rows(C)).end();
      }
    }
  {
    moperands<R, C> o(v);
    Rec r("massign");
    r.ks("g", grp).ks("st", "static=pview").k("a", o.aj).k("b", o.bj).begin();
    o.as = o.bp;
    r.k("r", mj_(o.as)).end();
  }
  {
    moperands<R, C> o(v);
    Rec r("massign");
    r.ks("g", grp).ks("st", "pview=static").k("a", o.aj).k("b", o.bj).begin();
    o.ap = o.bs;
    r.k("r", o.ca.json_rows(C)).end();
  }
  {
    moperands<R, C> o(v);
    Rec r("mscale_assign");
    r.ks("g", grp).ks("st", "pview").k("a", o.aj).ki("k", k).begin();
    o.ap *= k;
    r.k("r", o.ca.json_rows(C)).end();
  }
  {
    // M *= (its own last element)
    moperands<R, C> o(v);
    Rec r("mscale_assign");
    r.ks("g", grp).ks("st", "pview,alias").k("a", o.aj).ki("k", v[R * C - 1]).begin();
    o.ap *= o.ap.get_unsafe(R - 1).get_unsafe(C - 1);
    r.k("r", o.ca.json_rows(C)).end();
  }
  // the right operand is a view of the LEFT operand's own cells
  for (char const op : {'=', '+', '-'})
  {
    auto x(mk_mat<R, C>(v, 0));
    pmat<R, C> const alias(pview<int, R * C>(x.storage().data()));
    std::string const aj = vals_mat(v, 0, R, C);
    Rec r(op == '=' ? "massign" : (op == '+' ? "madd_assign" : "msub_assign"));
    r.ks("g", grp).ks("st", "static,pview(alias of the left operand)").k("a", aj).k("b", aj).begin();
    if (op == '=') x = alias;
    else if (op == '+') x += alias;
    else x -= alias;
    r.k("r", mj_(x)).end();
  }
  // non-const access and writes through the view matrix
  {
    moperands<R, C> o(v);
    matrix_write_of(grp, "pview", o.aj, o.ap, k + v[0]);
  }
  // rows replaced through row views of the view matrix, one after the other
  {
    moperands<R, C> o(v);
    static_for<R>([&](auto ri) {
      constexpr sz I = decltype(ri)::value;
      {
        std::string const before = o.ca.json_rows(C);
        auto row(fm::matrix::at_r<I>(o.ap));
        Rec r("row_assign");
        r.ks("g", grp).ks("st", "pmatrow=constview(static matrix)").k("a", before).ki("i", I).k("v", vals_vec(v, R * C + I * C, C)).begin();
        row = static_cast<typename moperands<R, C>::smat const &>(o.bs).get_unsafe(I);
        r.k("r", o.ca.json_rows(C)).end();
      }
      {
        std::string const before = mj_(o.as);
        auto row(fm::matrix::at_r<I>(o.as));
        Rec r("row_assign");
        r.ks("g", grp).ks("st", "view=pmatrow").k("a", before).ki("i", I).k("v", vals_vec(v, R * C + I * C, C)).begin();
        row = o.bp.get_unsafe(I);
        r.k("r", mj_(o.as)).end();
      }
    });
  }
}

template <sz M1, sz N, sz M2>
void mixed_product(char const *grp, ivec const &v)
{
  auto const as(mk_mat<M1, N>(v, 0));
  auto const bs(mk_mat<N, M2>(v, M1 * N));
  cells<M1 * N> ca(v, 0);
  cells<N * M2> cb(v, M1 * N);
  std::string const aj = vals_mat(v, 0, M1, N), bj = vals_mat(v, M1 * N, N, M2);
  matrix_product_of(grp, "static,pview", aj, bj, as, as_pmat<N, M2>(cb));
  matrix_product_of(grp, "pview,static", aj, bj, as_pmat<M1, N>(ca), bs);
  matrix_product_of(grp, "pview,pview", aj, bj, as_pmat<M1, N>(ca), as_pmat<N, M2>(cb));
}

// C14_HALF: 0 = 1x1, 2x2, 4x4, 1x4; 1 = 3x3, 2x3, 3x2, 4x1 and the builders (two translation units,
// built in parallel); anything else = all
#ifndef C14_HALF
#define C14_HALF 2
#endif

void part_storage_mat(vj::Rng &rng, bool const thorough)
{
#if C14_HALF != 1
  identity_case<pmat<1, 1>>("pview");
  identity_case<pmat<2, 2>>("pview");
  identity_case<pmat<4, 4>>("pview");
  for (unsigned c = 0; c < 256; c += (thorough ? 1U : 7U))
  {
    ivec v(mat2_of(c));
    ivec const b(mat2_of((c * 37U + 11U) % 256U));
    v.insert(v.end(), b.begin(), b.end());
    v.push_back(static_cast<int>(c % 4U) - 1);
    v.push_back(static_cast<int>(c / 64U) - 1);
    mixed_matrix<2, 2>("2x2", v, static_cast<int>(c % 6U) - 2);
    mixed_product<2, 2, 2>("2x2", v);
  }
#endif
#if C14_HALF != 0
  identity_case<pmat<3, 3>>("pview");
#endif
  unsigned const n = thorough ? 300U : 30U;
  for (unsigned i = 0; i < n; ++i)
  {
    int const k = static_cast<int>(rng.range(-9, 9));
#if C14_HALF != 1
    {
      ivec const v(random_vals(rng, 32 + 4, -9, 9));
      mixed_matrix<4, 4>("4x4", v, k);
      mixed_product<4, 4, 4>("4x4", v);
    }
    if (i % 3U == 0U)
    {
      ivec const v(random_vals(rng, 40, -9, 9));
      mixed_matrix<1, 4>("1x4", v, k);
      mixed_matrix<1, 1>("1x1", v, k);
      mixed_product<1, 4, 1>("1x4*4x1", v);
    }
#endif
#if C14_HALF != 0
    {
      ivec const v(random_vals(rng, 18 + 3, -9, 9));
      mixed_matrix<3, 3>("3x3", v, k);
      mixed_product<3, 3, 3>("3x3", v);
    }
    {
      ivec const v(random_vals(rng, 3, -9, 9));
      cells<3> cv(v, 0);
      builders_from_vector("pview", v, cv.vec());
      cells<6> cm(ivec{1, 2, 3, v[0], v[1], v[2]}, 0);
      auto pm(as_pmat<2, 3>(cm));
      builders_from_vector("pmatrow", v, pm.get_unsafe(1));
    }
    if (i % 3U == 0U)
    {
      ivec const v(random_vals(rng, 40, -9, 9));
      mixed_matrix<2, 3>("2x3", v, k);
      mixed_matrix<3, 2>("3x2", v, k);
      mixed_matrix<4, 1>("4x1", v, k);
      mixed_product<2, 3, 4>("2x3*3x4", v);
      mixed_product<3, 1, 2>("3x1*1x2", v);
      mixed_product<4, 2, 3>("4x2*2x3", v);
    }
#endif
  }
}
}

int main(int argc, char **argv) { return c14::unit_main(argc, argv, "storage_mat", 29U + C14_HALF, part_storage_mat); }
