// C16 conformance harness: one group of source ranges (see c16_range.hpp).  Drives and records only.
#include "c16_range.hpp"

namespace c16
{
void run_ranges(Sel &sel, bool)
{
  int_range_sources(sel);
  enum_range_sources(sel);
}
}
