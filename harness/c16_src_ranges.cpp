// C16 conformance harness: one group of source ranges (see c16_range.hpp).  Drives and records only.
#include "c16_range.hpp"


// entry point of part "ranges" (see c16_main.cpp)
extern "C" void c16_part_ranges(unsigned long long const seed, int const thorough_flag)
{
  using namespace c16;
  bool const thorough = thorough_flag != 0;
  (void)thorough;
  Sel sel(seed, thorough);
  int_range_sources(sel);
  long_int_range_sources();
  enum_range_sources(sel);
}
