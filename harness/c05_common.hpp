// C05 harness plumbing shared by the c05_*.cpp translation units: history brackets, argument /
// result description (walks over containers of tracked objects), value-category dispatch and
// the harness's own continuations (bracketed by cb_enter / cb_exit events).
// Nothing here knows what the library is supposed to do; spec/LinearityTrace.tla judges the log.
#ifndef VERIF_C05_COMMON_HPP
#define VERIF_C05_COMMON_HPP

#include <common/tracked.hpp>
#include <common/vjson.hpp>

#include <fcppt/reference_impl.hpp>
#include <fcppt/array/object_impl.hpp>
#include <fcppt/either/object_impl.hpp>
#include <fcppt/optional/object_impl.hpp>
#include <fcppt/record/object_impl.hpp>
#include <fcppt/tuple/get.hpp>
#include <fcppt/tuple/object_impl.hpp>
#include <fcppt/tuple/size.hpp>
#include <fcppt/make_cref.hpp>
#include <fcppt/variant/apply.hpp>
#include <fcppt/variant/object_impl.hpp>

#include <cstdio>
#include <exception>
#include <set>
#include <string>
#include <tuple>
#include <type_traits>
#include <utility>
#include <vector>
#include <unistd.h>

namespace c05
{
using T = trk::tracked;
using M = trk::move_only;

// ------------------------------------------------------------------ walking structures
template <typename X>
struct is_fcppt_optional : std::false_type {};
template <typename U>
struct is_fcppt_optional<fcppt::optional::object<U>> : std::true_type {};
template <typename X>
struct is_fcppt_either : std::false_type {};
template <typename F, typename S>
struct is_fcppt_either<fcppt::either::object<F, S>> : std::true_type {};
template <typename X>
struct is_fcppt_variant : std::false_type {};
template <typename... Ts>
struct is_fcppt_variant<fcppt::variant::object<Ts...>> : std::true_type {};
template <typename X>
struct is_fcppt_reference : std::false_type {};
template <typename U>
struct is_fcppt_reference<fcppt::reference<U>> : std::true_type {};
template <typename X>
struct is_fcppt_tuple : std::false_type {};
template <typename... Ts>
struct is_fcppt_tuple<fcppt::tuple::object<Ts...>> : std::true_type {};
template <typename X>
struct is_fcppt_record : std::false_type {};
template <typename... Es>
struct is_fcppt_record<fcppt::record::object<Es...>> : std::true_type {};
template <typename X>
struct is_std_pair : std::false_type {};
template <typename A, typename B>
struct is_std_pair<std::pair<A, B>> : std::true_type {};
template <typename X>
struct is_std_tuple : std::false_type {};
template <typename... Ts>
struct is_std_tuple<std::tuple<Ts...>> : std::true_type {};

template <typename X>
concept has_custom_walk = requires(X const &x) { c05_walk(x, [](auto const &) {}); };
template <typename X>
concept iterable = requires(X const &x) { x.begin(); x.end(); } && !std::is_same_v<X, std::string>;

// calls f(leaf) for every tracked object reachable from x, in iteration order
template <typename X, typename F>
void walk(X const &x, F const &f)
{
  using U = std::remove_cvref_t<X>;
  if constexpr (trk::is_tracked_v<U>) { f(x); }
  else if constexpr (has_custom_walk<U>) { c05_walk(x, f); }
  else if constexpr (is_fcppt_optional<U>::value) { if (x.has_value()) walk(x.get_unsafe(), f); }
  else if constexpr (is_fcppt_either<U>::value)
  {
    if (x.has_success()) walk(x.get_success_unsafe(), f);
    else walk(x.get_failure_unsafe(), f);
  }
  else if constexpr (is_fcppt_variant<U>::value) { (void)fcppt::variant::apply([&f](auto const &inner) { walk(inner, f); return 0; }, x); }
  else if constexpr (is_fcppt_reference<U>::value) { walk(x.get(), f); }
  else if constexpr (requires { typename U::value_type; typename U::tag_type; x.get(); }) { walk(x.get(), f); } // fcppt::strong_typedef
  else if constexpr (is_std_pair<U>::value) { walk(x.first, f); walk(x.second, f); }
  else if constexpr (is_fcppt_tuple<U>::value)
  {
    [&]<std::size_t... I>(std::index_sequence<I...>) { (walk(fcppt::tuple::get<I>(x), f), ...); }
    (std::make_index_sequence<fcppt::tuple::size<U>::value>{});
  }
  else if constexpr (is_fcppt_record<U>::value) { walk(x.impl(), f); }
  else if constexpr (is_std_tuple<U>::value) { std::apply([&f](auto const &...e) { (walk(e, f), ...); }, x); }
  else if constexpr (requires { x.children(); x.parent(); x.value(); }) // fcppt::container::tree::object
  {
    walk(x.value(), f);
    for (auto const &child : x.children()) walk(child, f);
  }
  else if constexpr (iterable<U>) { for (auto const &e : x) walk(e, f); }
  else { (void)x; (void)f; }
}

template <typename X>
std::vector<long> ids_of(X const &x)
{
  std::vector<long> r;
  walk(x, [&r](auto const &leaf) { r.push_back(leaf.raw().id); });
  return r;
}

// ------------------------------------------------------------------ history brackets
inline int &tok_counter()
{
  static int n = 0;
  return n;
}
inline int next_tok() { return ++tok_counter(); }
inline long &history_count()
{
  static long n = 0;
  return n;
}
inline std::string &only_op()
{
  static std::string s;
  return s;
}
inline bool &thorough()
{
  static bool b = false;
  return b;
}
// operations that are not driven any more in this run (they crashed / hung twice in earlier runs)
inline std::set<std::string> &skip_ops()
{
  static std::set<std::string> s;
  return s;
}
// histories with an index below this are not run: after a crash / hang inside history k the check
// starts the harness again with start = k + 1 (the enumeration is deterministic)
inline long &start_history()
{
  static long n = 0;
  return n;
}
// seconds a single history may take before the watchdog (SIGALRM -> exit 68) stops the process
inline unsigned &history_seconds()
{
  static unsigned n = 10U;
  return n;
}
inline bool wanted(char const *op) { return (only_op().empty() || only_op() == op) && skip_ops().count(op) == 0U; }

// starts history number history_count() (field "h"); false = this history is not to be run
[[nodiscard]] inline bool reset(char const *op, std::string const &shape, std::string const &cats)
{
  long const h = history_count()++;
  if (h < start_history())
    return false;
  tok_counter() = 0;
  trk::history_events() = 0;
  ::alarm(history_seconds());
  trk::emit(std::string{"{\"e\":\"reset\",\"op\":\""} + op + "\",\"shape\":\"" + shape + "\",\"cats\":\"" + cats + "\",\"h\":" +
            std::to_string(h) + "}");
  return true;
}
// an exception escaped the traced call (or the construction of its arguments)
inline void thrown(char const *what)
{
  trk::emit(std::string{"{\"e\":\"throw\",\"what\":\""} + vj::esc(what).substr(0, 120) + "\"}");
}
// runs one history body; exceptions end the history (event "throw") and the harness carries on
template <typename Body>
void guarded(Body const &body)
{
  try
  {
    body();
  }
  catch (std::exception const &e)
  {
    thrown(e.what());
  }
  catch (...)
  {
    thrown("(not a std::exception)");
  }
  std::fflush(vj::out_file());
}

inline char const *cat_name(char c)
{
  switch (c)
  {
  case 'r': return "rvalue";
  case 'l': return "lvalue";
  case 'c': return "clvalue";
  default: return "inout";
  }
}

struct arg_desc
{
  char cat;
  std::vector<long> objs;
  std::vector<long> xtoks{}; // tokens of tracked values held inside an opaque argument (see Linearity.tla)
};
// an argument whose tracked members cannot be walked (a parser object): only the tokens it holds are known
inline arg_desc opaque(char cat, std::vector<long> toks) { return arg_desc{cat, {}, std::move(toks)}; }
template <typename X>
arg_desc desc(char cat, X const &x) { return arg_desc{cat, ids_of(x)}; }

inline void begin(char const *op, bool keeps, std::vector<arg_desc> const &args)
{
  std::string s = std::string{"{\"e\":\"begin\",\"op\":\""} + op + "\",\"keeps\":" + (keeps ? "true" : "false") + ",\"args\":[";
  bool first = true;
  for (auto const &a : args)
  {
    if (!first) s += ',';
    first = false;
    s += std::string{"{\"cat\":\""} + cat_name(a.cat) + "\",\"objs\":" + vj::arr(a.objs) +
         (a.xtoks.empty() ? std::string{} : ",\"xtoks\":" + vj::arr(a.xtoks)) + "}";
  }
  trk::emit(s + "]}");
  std::fflush(vj::out_file()); // a sanitizer abort inside the library call leaves the begin line on disk
}

template <typename R>
void end(R const &res, std::vector<std::vector<long>> const &final_args)
{
  std::string s = "{\"e\":\"end\",\"result\":[";
  bool first = true;
  walk(res, [&](auto const &leaf)
  {
    if (!first) s += ',';
    first = false;
    s += "{\"obj\":" + std::to_string(leaf.raw().id) + ",\"tok\":" + std::to_string(leaf.raw().tok) + "}";
  });
  s += "],\"args\":[";
  first = true;
  for (auto const &a : final_args)
  {
    if (!first) s += ',';
    first = false;
    s += "{\"objs\":" + vj::arr(a) + "}";
  }
  trk::emit(s + "]}");
}

// "labels" event (record operations): which tracked member sits under which label, for the arguments
// (captured before the call) and for the result
struct lab
{
  char const *l;
  long obj;
};
inline std::string labs_json(std::vector<lab> const &v)
{
  std::string s = "[";
  bool first = true;
  for (auto const &x : v)
  {
    if (!first) s += ',';
    first = false;
    s += std::string{"{\"l\":\""} + x.l + "\",\"obj\":" + std::to_string(x.obj) + "}";
  }
  return s + "]";
}
inline void labels(std::vector<std::vector<lab>> const &args, std::vector<lab> const &res)
{
  std::string s = "{\"e\":\"labels\",\"arg\":[";
  bool first = true;
  for (auto const &a : args)
  {
    if (!first) s += ',';
    first = false;
    s += labs_json(a);
  }
  trk::emit(s + "],\"res\":" + labs_json(res) + "}");
}

// ------------------------------------------------------------------ value categories
template <char C, typename X>
decltype(auto) as_cat(X &x)
{
  if constexpr (C == 'r') return std::move(x);
  else if constexpr (C == 'c') return std::as_const(x);
  else return (x);
}
template <char... Cs, typename F>
void for_cats(F const &f) { (f(std::integral_constant<char, Cs>{}), ...); }

struct nothing {};

// A call written as  [](auto &&a) C05_CALL(op(C05_FWD(a)))  is SFINAE-friendly: a value category
// that the operation's constraints reject is skipped (and reported on stderr) instead of
// breaking the build.
#define C05_CALL(...) -> decltype(__VA_ARGS__) { return __VA_ARGS__; }
inline void not_instantiable(char const *op, std::string const &shape, std::string const &cats)
{
  std::fprintf(stderr, "NOT-INSTANTIABLE %s [%s] cats=%s\n", op, shape.c_str(), cats.c_str());
}

// one traced call with one tracked argument
// `declared`: the category written into the log when it differs from the C++ category of the call
// expression (move_if_rvalue<Type>(member) with Type naming the surrounding object's category)
template <char C, typename Make, typename Call>
void run1(char const *op, bool keeps, std::string const &shape, Make const &make, Call const &call, char const declared = C)
{
  if (!wanted(op)) return;
  if constexpr (!std::is_invocable_v<Call const &, decltype(as_cat<C>(std::declval<decltype(make()) &>()))>)
  {
    not_instantiable(op, shape, std::string(1, C));
    return;
  }
  else
  {
  if (!reset(op, shape, std::string(1, declared))) return;
  guarded([&]
  {
    auto a = make();
    guarded([&]
    {
      begin(op, keeps, {desc(declared, a)});
      decltype(auto) r = call(as_cat<C>(a));
      end(r, {ids_of(a)});
    });
  });
  }
}
template <char C1, char C2, typename Make1, typename Make2, typename Call>
void run2(char const *op, bool keeps, std::string const &shape, Make1 const &make1, Make2 const &make2, Call const &call)
{
  if (!wanted(op)) return;
  if constexpr (!std::is_invocable_v<Call const &, decltype(as_cat<C1>(std::declval<decltype(make1()) &>())),
                                     decltype(as_cat<C2>(std::declval<decltype(make2()) &>()))>)
  {
    not_instantiable(op, shape, std::string{C1, C2});
    return;
  }
  else
  {
  if (!reset(op, shape, std::string{C1, C2})) return;
  guarded([&]
  {
    auto a = make1();
    auto b = make2();
    guarded([&]
    {
      begin(op, keeps, {desc(C1, a), desc(C2, b)});
      decltype(auto) r = call(as_cat<C1>(a), as_cat<C2>(b));
      end(r, {ids_of(a), ids_of(b)});
    });
  });
  }
}
template <char C1, char C2, char C3, typename Make1, typename Make2, typename Make3, typename Call>
void run3(char const *op, bool keeps, std::string const &shape, Make1 const &make1, Make2 const &make2, Make3 const &make3, Call const &call)
{
  if (!wanted(op)) return;
  if constexpr (!std::is_invocable_v<Call const &, decltype(as_cat<C1>(std::declval<decltype(make1()) &>())),
                                     decltype(as_cat<C2>(std::declval<decltype(make2()) &>())),
                                     decltype(as_cat<C3>(std::declval<decltype(make3()) &>()))>)
    not_instantiable(op, shape, std::string{C1, C2, C3});
  else
  {
    if (!reset(op, shape, std::string{C1, C2, C3})) return;
    guarded([&]
    {
      auto a = make1();
      auto b = make2();
      auto c = make3();
      guarded([&]
      {
        begin(op, keeps, {desc(C1, a), desc(C2, b), desc(C3, c)});
        decltype(auto) r = call(as_cat<C1>(a), as_cat<C2>(b), as_cat<C3>(c));
        end(r, {ids_of(a), ids_of(b), ids_of(c)});
      });
    });
  }
}
template <char C1, char C2, char C3, char C4, typename Make1, typename Make2, typename Make3, typename Make4, typename Call>
void run4(char const *op, bool keeps, std::string const &shape, Make1 const &make1, Make2 const &make2, Make3 const &make3,
          Make4 const &make4, Call const &call)
{
  if (!wanted(op)) return;
  if constexpr (!std::is_invocable_v<Call const &, decltype(as_cat<C1>(std::declval<decltype(make1()) &>())),
                                     decltype(as_cat<C2>(std::declval<decltype(make2()) &>())),
                                     decltype(as_cat<C3>(std::declval<decltype(make3()) &>())),
                                     decltype(as_cat<C4>(std::declval<decltype(make4()) &>()))>)
    not_instantiable(op, shape, std::string{C1, C2, C3, C4});
  else
  {
    if (!reset(op, shape, std::string{C1, C2, C3, C4})) return;
    guarded([&]
    {
      auto a = make1();
      auto b = make2();
      auto c = make3();
      auto d = make4();
      guarded([&]
      {
        begin(op, keeps, {desc(C1, a), desc(C2, b), desc(C3, c), desc(C4, d)});
        decltype(auto) r = call(as_cat<C1>(a), as_cat<C2>(b), as_cat<C3>(c), as_cat<C4>(d));
        end(r, {ids_of(a), ids_of(b), ids_of(c), ids_of(d)});
      });
    });
  }
}
// every combination of value categories of three / four positions
template <typename F>
void for_cats3(F const &f)
{
  for_cats<'r', 'l', 'c'>([&](auto c1) { for_cats<'r', 'l', 'c'>([&](auto c2) { for_cats<'r', 'l', 'c'>([&](auto c3) { f(c1, c2, c3); }); }); });
}
template <typename F>
void for_cats4(F const &f)
{
  for_cats3([&](auto c1, auto c2, auto c3) { for_cats<'r', 'l', 'c'>([&](auto c4) { f(c1, c2, c3, c4); }); });
}

// ------------------------------------------------------------------ the harness's continuations
template <typename X>
std::string recv_json(X &&x)
{
  constexpr bool lv = std::is_lvalue_reference_v<X>;
  constexpr bool cst = std::is_const_v<std::remove_reference_t<X>>;
  char const *cat = lv ? (cst ? "clvalue" : "lvalue") : (cst ? "clvalue" : "rvalue");
  std::string s;
  walk(x, [&](auto const &leaf)
  {
    if (!s.empty()) s += ',';
    s += "{\"obj\":" + std::to_string(leaf.raw().id) + ",\"cat\":\"" + cat + "\"}";
  });
  return s;
}
struct cb_scope
{
  explicit cb_scope(std::string const &recv) { trk::emit("{\"e\":\"cb_enter\",\"recv\":[" + recv + "]}"); }
  cb_scope(cb_scope const &) = delete;
  cb_scope &operator=(cb_scope const &) = delete;
  ~cb_scope() { trk::emit("{\"e\":\"cb_exit\"}"); }
};
#define C05_FWD(x) std::forward<decltype(x)>(x)
#define C05_RECV(x) ::c05::recv_json(std::forward<decltype(x)>(x))

// pass-through: a new element constructed from the argument with the category it was received
// with (copy from an lvalue, move from an rvalue); the copy is the harness's, not the library's
inline auto const pass = [](auto &&x)
{
  cb_scope const g{C05_RECV(x)};
  return std::remove_cvref_t<decltype(x)>(C05_FWD(x));
};
// reads the value (a moved-from object handed to a continuation becomes a read-after-move)
inline auto const pass_read = [](auto &&x)
{
  cb_scope const g{C05_RECV(x)};
  (void)x.value();
  return std::remove_cvref_t<decltype(x)>(C05_FWD(x));
};

// A BY-VALUE continuation parameter ([](T x) in user code): the parameter object is constructed from
// whatever the library hands over - copied from an lvalue, MOVED from an rvalue (consuming it).  The
// construction is the continuation's, so it is bracketed like the continuation's own copies.
template <typename E>
struct taken
{
  E value;
  // NOLINTNEXTLINE(google-explicit-constructor)
  taken(E const &x) : value((trk::emit("{\"e\":\"cb_enter\",\"recv\":[{\"obj\":" + std::to_string(x.raw().id) + ",\"cat\":\"clvalue\"}]}"), x))
  {
    trk::emit("{\"e\":\"cb_exit\"}");
  }
  // NOLINTNEXTLINE(google-explicit-constructor)
  taken(E &&x) : value((trk::emit("{\"e\":\"cb_enter\",\"recv\":[{\"obj\":" + std::to_string(x.raw().id) + ",\"cat\":\"rvalue\"}]}"), std::move(x)))
  {
    trk::emit("{\"e\":\"cb_exit\"}");
  }
  taken(taken const &) = delete;
  taken(taken &&) = delete;
};
// pass-through taking its argument by value
inline auto const pass_by_value = [](taken<T> x)
{
  cb_scope const g{""};
  return T(std::move(x.value));
};

// containers of n fresh elements
template <typename C, typename E = typename C::value_type>
C make_seq(int n)
{
  C c;
  if constexpr (requires { c.reserve(1U); }) c.reserve(static_cast<std::size_t>(n));
  for (int i = 0; i < n; ++i) c.emplace_back(next_tok());
  return c;
}
}

#endif
