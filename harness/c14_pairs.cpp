// C14 harness unit "pairs": all ordered pairs of 2x2 int matrices over {-1,0,1,2} (product on all of
// them; +, -, ==/!= on a part of them), every 2x2 matrix alone (access, transpose, determinant, adjugate, ...)
// and with every vector over {-1,0,1,2}^2 and scalars -2..3.  See c14_common.hpp.
#include <c14_matrix.hpp>

namespace
{
using namespace c14;

void part_pairs(vj::Rng &, bool)
{
  for (unsigned ca = 0; ca < 256; ++ca)
  {
    ivec const a(mat2_of(ca));
    for (unsigned cb = 0; cb < 256; ++cb)
    {
      ivec v(a);
      ivec const b(mat2_of(cb));
      v.insert(v.end(), b.begin(), b.end());
      // the product on every ordered pair; the component-wise + and - (no interaction between cells) on
      // every fourth pair and on the diagonal
      if (ca == cb || (ca + cb) % 4U == 0U) matrix_sum<2, 2>("2x2", v);
      matrix_product<2, 2, 2>("2x2", v);
      if (ca == cb || (ca + cb) % 8U == 0U) matrix_compare<2, 2>("2x2", v);
      if ((ca + cb) % 16U == 0U) matrix_same_shape_more<2, 2>("2x2", v);
      if ((ca + 3U * cb) % 64U == 5U) matrix_assign<2, 2>("2x2", v);
    }
    // singles: every scalar -2..3, every vector over {-1,0,1,2}^2
    matrix_access<2, 2>("2x2", a);
    matrix_square<2>("2x2", a);
    for (int x = -1; x <= 2; ++x)
      for (int y = -1; y <= 2; ++y)
      {
        ivec v(a);
        v.push_back(x);
        v.push_back(y);
        matrix_unary<2, 2>("2x2", v, (x + 4 * y + static_cast<int>(ca)) % 6 - 2);
      }
  }
}
}

int main(int argc, char **argv) { return c14::unit_main(argc, argv, "pairs", 5U, part_pairs); }
