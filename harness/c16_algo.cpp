// C16 conformance harness (parts "counts" and "strings": repeat / generate_n, split_string /
// join_strings).
//
// Every unit of the harness only DRIVES the real fcppt functions and writes one ndjson record per
// call: inputs, result, final state of mutated containers, call log.  No expected values here:
// spec/AlgorithmsJudge.tla (TLC) judges every record.  Entry point and part table: c16_main.cpp.
#include "c16_common.hpp"

#include <fcppt/algorithm/generate_n.hpp>
#include <fcppt/algorithm/join_strings.hpp>
#include <fcppt/algorithm/repeat.hpp>
#include <fcppt/algorithm/split_string.hpp>

#include <deque>
#include <list>
#include <set>
#include <string>
#include <vector>

namespace c16
{
using ivec = std::vector<int>;

namespace
{
// ---------------------------------------------------------------- repeat / generate_n
struct Gen // stateful generator: the i-th call (0-based) returns t[i % 3]
{
  std::array<int, 3> t;
  mutable unsigned n = 0;
  explicit Gen(int idx) : t{idx % 3, (idx / 3) % 3, (idx / 9) % 3} {}
  int operator()() const
  {
    lg(std::to_string(n));
    return t[n++ % 3];
  }
  std::string json() const { return seqj(t); }
};

template <typename Target>
void do_generate_n(char const *tn, std::size_t n, int idx)
{
  Gen const g(idx);
  Rec r("generate_n");
  r.ks("tgt", tn).ki("n", static_cast<long long>(n)).k("ft", g.json()).begin();
  Target const res(fcppt::algorithm::generate_n<Target>(n, g));
  r.k("r", seqj(res)).end_calls();
}

template <typename Count>
void do_repeat(char const *cn, Count const n)
{
  Rec r("repeat");
  r.ks("count", cn).ki("n", static_cast<long long>(n)).begin();
  fcppt::algorithm::repeat(n, [] { lg("0"); });
  r.end_calls();
}

void count_algos()
{
  for (int n = 0; n <= 7; ++n)
  {
    do_repeat<int>("int", n);
    do_repeat<unsigned>("unsigned", static_cast<unsigned>(n));
    do_repeat<std::size_t>("size_t", static_cast<std::size_t>(n));
    do_repeat<short>("short", static_cast<short>(n));
    do_repeat<unsigned char>("uchar", static_cast<unsigned char>(n));
    for (int idx = 0; idx < 27; ++idx)
    {
      do_generate_n<std::vector<int>>("vector", static_cast<std::size_t>(n), idx);
      do_generate_n<std::list<int>>("list", static_cast<std::size_t>(n), idx);
      do_generate_n<std::set<int>>("set", static_cast<std::size_t>(n), idx);
    }
  }
  // (round 3 audit) counts beyond the exhaustive bound: around the limits of 8- and 16-bit counters
  // (a loop counter or a size of a narrower type wraps there)
  static int const big[] = {8, 20, 100, 127, 128, 255, 256, 257, 1000};
  for (int const n : big)
  {
    do_repeat<int>("int", n);
    do_repeat<unsigned>("unsigned", static_cast<unsigned>(n));
    do_repeat<std::size_t>("size_t", static_cast<std::size_t>(n));
    do_repeat<long long>("llong", static_cast<long long>(n));
    do_repeat<short>("short", static_cast<short>(n));
    if (n <= 255) do_repeat<unsigned char>("uchar", static_cast<unsigned char>(n));
    if (n <= 127) do_repeat<signed char>("schar", static_cast<signed char>(n));
    for (int idx = 5; idx < 27; idx += 7)
    {
      do_generate_n<std::vector<int>>("vector", static_cast<std::size_t>(n), idx);
      do_generate_n<std::list<int>>("list", static_cast<std::size_t>(n), idx);
      do_generate_n<std::deque<int>>("deque", static_cast<std::size_t>(n), idx);
      do_generate_n<std::set<int>>("set", static_cast<std::size_t>(n), idx);
    }
  }
  // negative counts (signed Count): the loop `for (i = 0; i < count; ++i)` makes no call.  The statement
  // says "calls it count times", which is silent about negative counts: OBSERVED ONLY (kind repeat_negative)
  for (int const n : {-1, -2, -128, -70000})
  {
    {
      Rec r("repeat_negative");
      r.ks("count", "int").ki("n", n).begin();
      fcppt::algorithm::repeat(n, [] { lg("0"); });
      r.end_calls();
    }
    {
      Rec r("repeat_negative");
      r.ks("count", "llong").ki("n", n).begin();
      fcppt::algorithm::repeat(static_cast<long long>(n), [] { lg("0"); });
      r.end_calls();
    }
    if (n >= -128)
    {
      Rec r("repeat_negative");
      r.ks("count", "schar").ki("n", n).begin();
      fcppt::algorithm::repeat(static_cast<signed char>(n), [] { lg("0"); });
      r.end_calls();
    }
  }
  do_repeat<int>("int", 65539);
  do_repeat<std::size_t>("size_t", 65539U);
  do_repeat<unsigned short>("ushort", static_cast<unsigned short>(65535U));
  do_generate_n<std::vector<int>>("vector", 65539U, 11);
}

// ---------------------------------------------------------------- split_string / join_strings
template <typename String>
String mk_string(ivec const &v, typename String::value_type const a, typename String::value_type const b,
                 typename String::value_type const d)
{
  String s;
  for (int x : v) s.push_back(x == 0 ? a : x == 1 ? b : d);
  return s;
}

template <typename String, typename Ch>
void do_split(char const *sn, ivec const &v, Ch const a, Ch const b, Ch const d)
{
  String const s(mk_string<String>(v, a, b, d));
  std::string const sj = seqj(s);
  {
    Rec r("split_string");
    r.ks("src", sn).k("s", sj).k("d", ej(d)).begin();
    std::vector<String> const res(fcppt::algorithm::split_string(s, d));
    r.k("r", seqseqj(res)).end();
  }
  if constexpr (!std::is_same_v<String, std::vector<int>>)
  {
    Rec r("split_join");
    r.ks("src", sn).k("s", sj).k("d", ej(d)).begin();
    String const res(fcppt::algorithm::join_strings(fcppt::algorithm::split_string(s, d), String(1U, d)));
    r.k("r", seqj(res)).end();
  }
}

template <typename Range, typename String>
void do_join(char const *sn, std::vector<String> const &parts, String const &delim)
{
  Range const rg(parts.begin(), parts.end());
  Rec r("join_strings");
  r.ks("src", sn).k("ss", seqseqj(rg)).k("d", seqj(delim)).begin();
  String const res(fcppt::algorithm::join_strings(rg, delim));
  r.k("r", seqj(res)).end();
}

void string_algos(bool thorough)
{
  unsigned const maxlen = 7;
  each_seq_upto(maxlen, 3, [&](ivec const &v) {
    do_split<std::string, char>("string", v, 'a', 'b', ',');
    if (thorough || v.size() <= 5)
    {
      do_split<std::wstring, wchar_t>("wstring", v, L'a', L'\x20ac', L'|');
      do_split<std::vector<int>, int>("intvector", v, 7, 8, 0);
    }
  });
  // (round 3 audit) strings beyond the exhaustive bound: lengths 8..40 (std::string leaves its
  // small-string buffer at 16 characters), few and many delimiters, delimiter at both ends
  {
    vj::Rng rng(12345U);
    static unsigned const lens[] = {8, 9, 10, 12, 15, 16, 17, 23, 31, 32, 40};
    for (unsigned const len : lens)
      for (unsigned k = 0; k < (thorough ? 12U : 4U); ++k)
      {
        ivec v;
        unsigned const dens = 2U + k % 4U; // one character in `dens` is a delimiter
        for (unsigned i = 0; i < len; ++i) v.push_back(rng.below(dens) == 0 ? 2 : static_cast<int>(rng.below(2)));
        if (k % 4U == 1U) v.front() = v.back() = 2;
        if (k % 4U == 3U) v = ivec(len, 2);
        do_split<std::string, char>("string", v, 'a', 'b', ',');
        do_split<std::wstring, wchar_t>("wstring", v, L'a', L'\x20ac', L'|');
        do_split<std::vector<int>, int>("intvector", v, 7, 8, 0);
      }
    // join_strings: 4..9 elements, elements and delimiters beyond the small-string buffer
    std::vector<std::string> const long_delims{"", ",", ", ", "-----------------+", "ab"};
    for (unsigned n = 4; n <= 9; ++n)
      for (unsigned k = 0; k < (thorough ? 8U : 3U); ++k)
      {
        std::vector<std::string> parts;
        for (unsigned i = 0; i < n; ++i)
        {
          unsigned const len = rng.below(3) == 0 ? 0U : static_cast<unsigned>(rng.below(k == 0 ? 4U : 24U));
          std::string p;
          for (unsigned j = 0; j < len; ++j) p.push_back("ab,"[rng.below(3)]);
          parts.push_back(p);
        }
        if (k == 1) parts.front().clear(), parts.back().clear();
        for (std::string const &d : long_delims)
        {
          do_join<std::vector<std::string>>("vector", parts, d);
          do_join<std::list<std::string>>("list", parts, d);
          do_join<std::deque<std::string>>("deque", parts, d);
        }
        std::vector<std::wstring> wparts;
        for (auto const &p : parts) wparts.emplace_back(p.begin(), p.end());
        do_join<std::vector<std::wstring>>("wvector", wparts, std::wstring(L"||"));
        do_join<std::list<std::wstring>>("wlist", wparts, std::wstring());
      }
  }
  // join_strings on lists of <= 3 strings of length <= 2 over {a,b,','}, delimiters of length 0..2
  std::vector<std::string> pool;
  each_seq_upto(2, 3, [&](ivec const &v) { pool.push_back(mk_string<std::string>(v, 'a', 'b', ',')); });
  std::vector<std::string> const delims{"", ",", "a", ",,", ",b"};
  each_seq_upto(3, static_cast<unsigned>(pool.size()), [&](ivec const &idx) {
    std::vector<std::string> parts;
    for (int i : idx) parts.push_back(pool[static_cast<std::size_t>(i)]);
    for (std::string const &d : delims)
    {
      do_join<std::vector<std::string>>("vector", parts, d);
      if (thorough || idx.size() <= 2)
      {
        do_join<std::list<std::string>>("list", parts, d);
        do_join<std::deque<std::string>>("deque", parts, d);
      }
    }
    if (idx.size() <= 2)
    {
      std::vector<std::wstring> wparts;
      for (auto const &p : parts) wparts.emplace_back(p.begin(), p.end());
      do_join<std::vector<std::wstring>>("wvector", wparts, std::wstring(L"|"));
    }
  });
}

}

}

extern "C" void c16_part_counts(unsigned long long, int) { c16::count_algos(); }

extern "C" void c16_part_strings(unsigned long long, int const thorough) { c16::string_algos(thorough != 0); }
