// C16 conformance harness (part 1: fcppt.algorithm over ranges).
//
//   c16_algo record OUT seed tier(quick|thorough) [part]
//
// Drives every listed fcppt::algorithm function over all sequences over {0,1,2} up to length 6
// (sources: std::vector/list/deque/set/multiset/map, fcppt::array, fcppt::int_range,
// fcppt::enum_::range, fcppt::tuple, fcppt::mpl::list), with user functions given as tables, and
// writes one ndjson record per call: inputs, result, final state of mutated containers, call
// log.  No expected values here: spec/AlgorithmsJudge.tla (TLC) judges every record.
#include "c16_range.hpp"

namespace c16
{
void run_containers(Sel &, bool thorough); // c16_cont.cpp
void run_vector(Sel &, bool thorough);     // c16_src_vector.cpp
void run_list(Sel &, bool thorough);       // c16_src_list.cpp
void run_deque(Sel &, bool thorough);      // c16_src_deque.cpp
void run_assoc(Sel &, bool thorough);      // c16_src_assoc.cpp
void run_static(Sel &, bool thorough);     // c16_src_static.cpp
void run_ranges(Sel &, bool thorough);     // c16_src_ranges.cpp
void run_extension(Sel &, bool thorough);  // c16_ext.cpp (observed-only kinds)
void run_fold_tables(bool thorough);        // c16_ext.cpp

namespace
{
// ---------------------------------------------------------------- repeat / generate_n
struct Gen // stateful generator: the i-th call (0-based) returns t[i % 3]
{
  std::array<int, 3> t;
  mutable unsigned n = 0;
  explicit Gen(int idx) : t{idx % 3, (idx / 3) % 3, (idx / 9) % 3} {}
  int operator()() const
  {
    lg(std::to_string(n));
    return t[n++ % 3];
  }
  std::string json() const { return seqj(t); }
};

template <typename Target>
void do_generate_n(char const *tn, std::size_t n, int idx)
{
  Gen const g(idx);
  Rec r("generate_n");
  r.ks("tgt", tn).ki("n", static_cast<long long>(n)).k("ft", g.json()).begin();
  Target const res(fcppt::algorithm::generate_n<Target>(n, g));
  r.k("r", seqj(res)).end_calls();
}

template <typename Count>
void do_repeat(char const *cn, Count const n)
{
  Rec r("repeat");
  r.ks("count", cn).ki("n", static_cast<long long>(n)).begin();
  fcppt::algorithm::repeat(n, [] { lg("0"); });
  r.end_calls();
}

void count_algos()
{
  for (int n = 0; n <= 7; ++n)
  {
    do_repeat<int>("int", n);
    do_repeat<unsigned>("unsigned", static_cast<unsigned>(n));
    do_repeat<std::size_t>("size_t", static_cast<std::size_t>(n));
    do_repeat<short>("short", static_cast<short>(n));
    do_repeat<unsigned char>("uchar", static_cast<unsigned char>(n));
    for (int idx = 0; idx < 27; ++idx)
    {
      do_generate_n<std::vector<int>>("vector", static_cast<std::size_t>(n), idx);
      do_generate_n<std::list<int>>("list", static_cast<std::size_t>(n), idx);
      do_generate_n<std::set<int>>("set", static_cast<std::size_t>(n), idx);
    }
  }
}

// ---------------------------------------------------------------- split_string / join_strings
template <typename String>
String mk_string(ivec const &v, typename String::value_type const a, typename String::value_type const b,
                 typename String::value_type const d)
{
  String s;
  for (int x : v) s.push_back(x == 0 ? a : x == 1 ? b : d);
  return s;
}

template <typename String, typename Ch>
void do_split(char const *sn, ivec const &v, Ch const a, Ch const b, Ch const d)
{
  String const s(mk_string<String>(v, a, b, d));
  std::string const sj = seqj(s);
  {
    Rec r("split_string");
    r.ks("src", sn).k("s", sj).k("d", ej(d)).begin();
    std::vector<String> const res(fcppt::algorithm::split_string(s, d));
    r.k("r", seqseqj(res)).end();
  }
  if constexpr (!std::is_same_v<String, std::vector<int>>)
  {
    Rec r("split_join");
    r.ks("src", sn).k("s", sj).k("d", ej(d)).begin();
    String const res(fcppt::algorithm::join_strings(fcppt::algorithm::split_string(s, d), String(1U, d)));
    r.k("r", seqj(res)).end();
  }
}

template <typename Range, typename String>
void do_join(char const *sn, std::vector<String> const &parts, String const &delim)
{
  Range const rg(parts.begin(), parts.end());
  Rec r("join_strings");
  r.ks("src", sn).k("ss", seqseqj(rg)).k("d", seqj(delim)).begin();
  String const res(fcppt::algorithm::join_strings(rg, delim));
  r.k("r", seqj(res)).end();
}

void string_algos(bool thorough)
{
  unsigned const maxlen = 7;
  each_seq_upto(maxlen, 3, [&](ivec const &v) {
    do_split<std::string, char>("string", v, 'a', 'b', ',');
    if (thorough || v.size() <= 5)
    {
      do_split<std::wstring, wchar_t>("wstring", v, L'a', L'\x20ac', L'|');
      do_split<std::vector<int>, int>("intvector", v, 7, 8, 0);
    }
  });
  // join_strings on lists of <= 3 strings of length <= 2 over {a,b,','}, delimiters of length 0..2
  std::vector<std::string> pool;
  each_seq_upto(2, 3, [&](ivec const &v) { pool.push_back(mk_string<std::string>(v, 'a', 'b', ',')); });
  std::vector<std::string> const delims{"", ",", "a", ",,", ",b"};
  each_seq_upto(3, static_cast<unsigned>(pool.size()), [&](ivec const &idx) {
    std::vector<std::string> parts;
    for (int i : idx) parts.push_back(pool[static_cast<std::size_t>(i)]);
    for (std::string const &d : delims)
    {
      do_join<std::vector<std::string>>("vector", parts, d);
      if (thorough || idx.size() <= 2)
      {
        do_join<std::list<std::string>>("list", parts, d);
        do_join<std::deque<std::string>>("deque", parts, d);
      }
    }
    if (idx.size() <= 2)
    {
      std::vector<std::wstring> wparts;
      for (auto const &p : parts) wparts.emplace_back(p.begin(), p.end());
      do_join<std::vector<std::wstring>>("wvector", wparts, std::wstring(L"|"));
    }
  });
}

}

}

int main(int argc, char **argv)
{
  if (argc < 5 || std::strcmp(argv[1], "record") != 0)
  {
    std::fprintf(stderr, "usage: c16_algo record OUT seed quick|thorough [part]\n");
    return 3;
  }
  vj::open(argv[2]);
  std::uint64_t const seed = std::strtoull(argv[3], nullptr, 10);
  bool const thorough = std::strcmp(argv[4], "thorough") == 0;
  std::string const part = argc > 5 ? argv[5] : "all";
  auto const on = [&part](char const *p) { return part == "all" || part == p; };
  c16::Sel sel(seed, thorough);
  if (on("vector")) c16::run_vector(sel, thorough);
  if (on("list")) c16::run_list(sel, thorough);
  if (on("deque")) c16::run_deque(sel, thorough);
  if (on("assoc")) c16::run_assoc(sel, thorough);
  if (on("static")) c16::run_static(sel, thorough);
  if (on("ranges"))
  {
    c16::run_ranges(sel, thorough);
    c16::count_algos();
  }
  if (on("strings")) c16::string_algos(thorough);
  if (on("containers")) c16::run_containers(sel, thorough);
  if (on("extension")) c16::run_extension(sel, thorough);
  if (on("foldtables")) c16::run_fold_tables(thorough);
  vj::close();
  std::printf("records %ld\n", c16::NREC());
  return 0;
}
