// C09 secondary harness binary, label type c09::uptr (see c09_tree.cpp / c09_forest.hpp)
#include "c09_run.hpp"

int main(int argc, char **argv) { return c09::main_for<c09::uptr>(argc, argv); }
