// C09 harness, label type c09::uptr (see c09_tree.cpp)
#include "c09_run.hpp"
int c09_run_uptr(std::string const &mode, int argc, char **argv) { return c09::run<c09::uptr>(mode, argc, argv); }
