// C05 harness, part 2: optional / either / variant operations over tracked elements.
// Compiled once per unit (-DC05_UNIT_OPTIONALS, _OPTIONALS_MULTI, _EITHERS, _EITHERS_MULTI, _VARIANTS).
#include "c05_common.hpp"

#include <fcppt/either/apply.hpp>
#include <fcppt/either/bind.hpp>
#include <fcppt/either/error.hpp>
#include <fcppt/either/error_from_optional.hpp>
#include <fcppt/either/failure_opt.hpp>
#include <fcppt/either/first_success.hpp>
#include <fcppt/either/from_optional.hpp>
#include <fcppt/either/join.hpp>
#include <fcppt/either/loop.hpp>
#include <fcppt/either/make_failure.hpp>
#include <fcppt/either/make_success.hpp>
#include <fcppt/either/map.hpp>
#include <fcppt/either/map_failure.hpp>
#include <fcppt/either/match.hpp>
#include <fcppt/either/no_error.hpp>
#include <fcppt/either/sequence.hpp>
#include <fcppt/either/sequence_error.hpp>
#include <fcppt/either/success_opt.hpp>
#include <fcppt/either/to_exception.hpp>
#include <fcppt/function_impl.hpp>
#include <fcppt/optional/alternative.hpp>
#include <fcppt/optional/apply.hpp>
#include <fcppt/optional/assign.hpp>
#include <fcppt/optional/bind.hpp>
#include <fcppt/optional/cat.hpp>
#include <fcppt/optional/combine.hpp>
#include <fcppt/optional/filter.hpp>
#include <fcppt/optional/from.hpp>
#include <fcppt/optional/join.hpp>
#include <fcppt/optional/make.hpp>
#include <fcppt/optional/map.hpp>
#include <fcppt/optional/maybe.hpp>
#include <fcppt/optional/maybe_multi.hpp>
#include <fcppt/optional/maybe_void.hpp>
#include <fcppt/optional/maybe_void_multi.hpp>
#include <fcppt/optional/sequence.hpp>
#include <fcppt/optional/to_container.hpp>
#include <fcppt/optional/to_exception.hpp>
#include <fcppt/algorithm/loop_break_tuple.hpp>
#include <fcppt/algorithm/map_tuple.hpp>
#include <fcppt/tuple/object_impl.hpp>
#include <fcppt/variant/apply.hpp>
#include <fcppt/variant/match.hpp>
#include <fcppt/variant/to_optional.hpp>

#include <stdexcept>
#include <string>
#include <utility>
#include <vector>

namespace
{
using namespace c05;
using F = trk::tracked2; // failure type of eithers / second alternative of variants
using opt = fcppt::optional::object<T>;
using oopt = fcppt::optional::object<opt>;
using eit = fcppt::either::object<F, T>;
using eeit = fcppt::either::object<F, eit>;
using var = fcppt::variant::object<T, F>;
using vec = std::vector<T>;

opt mk_opt(bool some) { return some ? opt{T(next_tok())} : opt{}; }
eit mk_eit(bool succ) { return succ ? eit{T(next_tok())} : eit{F(next_tok())}; }

#ifdef C05_UNIT_OPTIONALS
void optionals()
{
  for (bool some : {false, true})
  {
    std::string const sh = some ? "some" : "none";
    auto const mk = [some] { return mk_opt(some); };
    for_cats<'r', 'l', 'c'>([&](auto c)
    {
      constexpr char C = decltype(c)::value;
      run1<C>("optional::map", true, sh, mk, [](auto &&a) { return fcppt::optional::map(C05_FWD(a), pass); });
      run1<C>("optional::bind", true, sh, mk, [](auto &&a)
      {
        return fcppt::optional::bind(C05_FWD(a), [](auto &&x)
        {
          cb_scope const g{C05_RECV(x)};
          return fcppt::optional::make(T(C05_FWD(x)));
        });
      });
      run1<C>("optional::maybe", true, sh, mk, [](auto &&a)
      {
        return fcppt::optional::maybe(C05_FWD(a), []
        {
          cb_scope const g{""};
          return vec{};
        },
        [](auto &&x)
        {
          cb_scope const g{C05_RECV(x)};
          vec r;
          r.emplace_back(C05_FWD(x));
          return r;
        });
      });
      run1<C>("optional::from", true, sh, mk, [](auto &&a)
      {
        return fcppt::optional::from(C05_FWD(a), []
        {
          cb_scope const g{""};
          return T(1000);
        });
      });
      // continuations taking their parameter BY VALUE (a user lambda [](T x)): an rvalue source's
      // value is consumed by the parameter
      run1<C>("optional::map", true, sh + "/by-value", mk, [](auto &&a) { return fcppt::optional::map(C05_FWD(a), pass_by_value); });
      run1<C>("optional::bind", true, sh + "/by-value", mk, [](auto &&a)
      {
        return fcppt::optional::bind(C05_FWD(a), [](taken<T> x)
        {
          cb_scope const g{""};
          return fcppt::optional::make(T(std::move(x.value)));
        });
      });
      run1<C>("optional::maybe", true, sh + "/by-value", mk, [](auto &&a)
      {
        return fcppt::optional::maybe(C05_FWD(a), []
        {
          cb_scope const g{""};
          return vec{};
        },
        [](taken<T> x)
        {
          cb_scope const g{""};
          vec r;
          r.emplace_back(std::move(x.value));
          return r;
        });
      });
      run1<C>("optional::filter", true, sh + "/accept-by-value", mk, [](auto &&a)
      {
        return fcppt::optional::filter(C05_FWD(a), [](taken<T> x)
        {
          cb_scope const g{""};
          (void)x.value.value();
          return true;
        });
      });
      run1<C>("optional::filter", false, sh + "/reject-by-value", mk, [](auto &&a)
      {
        return fcppt::optional::filter(C05_FWD(a), [](taken<T> x)
        {
          cb_scope const g{""};
          (void)x.value.value();
          return false;
        });
      });
      run1<C>("optional::filter", false, sh + "/reject", mk, [](auto &&a)
      {
        return fcppt::optional::filter(C05_FWD(a), [](T const &x)
        {
          cb_scope const g{C05_RECV(x)};
          (void)x.value();
          return false;
        });
      });
      run1<C>("optional::filter", true, sh + "/accept", mk, [](auto &&a)
      {
        return fcppt::optional::filter(C05_FWD(a), [](T const &x)
        {
          cb_scope const g{C05_RECV(x)};
          (void)x.value();
          return true;
        });
      });
      run1<C>("optional::alternative", true, sh, mk, [](auto &&a)
      {
        return fcppt::optional::alternative(C05_FWD(a), []
        {
          cb_scope const g{""};
          return opt{T(1000)};
        });
      });
      // a const lvalue optional is rejected at compile time (container::make binds a non-const
      // fcppt::reference to the element), so only the other two categories exist
#ifdef C05_TO_CONTAINER_CONST
      constexpr bool to_container_ok = true; // the tree under test copies from lvalue optionals
#else
      constexpr bool to_container_ok = C != 'c';
#endif
      if constexpr (to_container_ok)
        run1<C>("optional::to_container", true, sh, mk,
                [](auto &&a) { return fcppt::optional::to_container<vec>(C05_FWD(a)); });
      if constexpr (C != 'l') // copy/move construction and assignment of the optional itself
      {
        run1<C>("optional::object(optional)", true, sh, mk, [](auto &&a) { return opt(C05_FWD(a)); });
        run1<C>("optional::operator=", true, sh, mk, [](auto &&a)
        {
          opt target{};
          target = C05_FWD(a);
          return target;
        });
      }
      run1<C>("optional::maybe_void", true, sh, mk, [](auto &&a)
      {
        vec r;
        r.reserve(1U);
        fcppt::optional::maybe_void(C05_FWD(a), [&r](auto &&x)
        {
          cb_scope const g{C05_RECV(x)};
          r.emplace_back(C05_FWD(x));
        });
        return r;
      });
      if constexpr (C != 'l') // assignment to an optional that already holds a value
        run1<C>("optional::operator=", true, sh + "->engaged", mk, [](auto &&a)
        {
          opt target{T(1000)};
          target = C05_FWD(a);
          return target;
        });
      if (some)
        run1<C>("optional::to_exception", true, sh, mk, [](auto &&a)
        { return T(fcppt::optional::to_exception(C05_FWD(a), [] { return std::runtime_error{"none"}; })); });
    });
    // construction from an element and optional::assign
    for_cats<'r', 'c'>([&](auto c)
    {
      constexpr char C = decltype(c)::value;
      run1<C>("optional::object(T)", true, "element", [] { return T(next_tok()); }, [](auto &&a) { return opt(C05_FWD(a)); });
      run1<C>("optional::make", true, "element", [] { return T(next_tok()); }, [](auto &&a) { return fcppt::optional::make(C05_FWD(a)); });
    });
    run2<'m', 'r'>("optional::assign", false, sh, mk, [] { return T(next_tok()); }, [](auto &&a, auto &&b)
    {
      T &r = fcppt::optional::assign(a, C05_FWD(b));
      (void)r;
      return fcppt::make_cref(a);
    });
  }
}
#endif

#ifdef C05_UNIT_OPTIONALS_MULTI
void optionals_multi()
{
  for (bool some : {false, true})
  {
    std::string const sh = some ? "some" : "none";
    auto const mk = [some] { return mk_opt(some); };
    // two optionals
    for (bool some2 : {false, true})
    {
      std::string const sh2 = sh + "," + (some2 ? "some" : "none");
      auto const mk2 = [some2] { return mk_opt(some2); };
      for_cats<'r', 'l', 'c'>([&](auto c1)
      {
        for_cats<'r', 'l', 'c'>([&](auto c2)
        {
          constexpr char C1 = decltype(c1)::value;
          constexpr char C2 = decltype(c2)::value;
          run2<C1, C2>("optional::apply", some && some2, sh2, mk, mk2, [](auto &&a, auto &&b)
          {
            return fcppt::optional::apply([](auto &&x, auto &&y)
            {
              cb_scope const g{C05_RECV(x) + "," + C05_RECV(y)};
              vec r;
              r.emplace_back(C05_FWD(x));
              r.emplace_back(C05_FWD(y));
              return r;
            },
            C05_FWD(a), C05_FWD(b));
          });
          // combine: with both present the continuation keeps the first value only
          run2<C1, C2>("optional::combine", !(some && some2), sh2, mk, mk2, [](auto &&a, auto &&b)
          {
            return fcppt::optional::combine(C05_FWD(a), C05_FWD(b), [](auto &&x, auto &&y)
            {
              cb_scope const g{C05_RECV(x) + "," + C05_RECV(y)};
              return T(C05_FWD(x));
            });
          });
        });
      });
    }
    // three optionals, every combination of value categories (shapes: all present / middle absent)
    if (some)
      for (bool mid : {false, true})
      {
        std::string const sh3 = std::string{"some,"} + (mid ? "some" : "none") + ",some";
        auto const mkm = [mid] { return mk_opt(mid); };
        auto const collect3 = [](auto &&x, auto &&y, auto &&z)
        {
          cb_scope const g{C05_RECV(x) + "," + C05_RECV(y) + "," + C05_RECV(z)};
          vec r;
          r.reserve(3U);
          r.emplace_back(C05_FWD(x));
          r.emplace_back(C05_FWD(y));
          r.emplace_back(C05_FWD(z));
          return r;
        };
        for_cats3([&](auto c1, auto c2, auto c3)
        {
          run3<decltype(c1)::value, decltype(c2)::value, decltype(c3)::value>("optional::apply", mid, sh3, mk, mkm, mk,
              [&](auto &&a, auto &&b, auto &&cc) { return fcppt::optional::apply(collect3, C05_FWD(a), C05_FWD(b), C05_FWD(cc)); });
          run3<decltype(c1)::value, decltype(c2)::value, decltype(c3)::value>("optional::maybe_void_multi", mid, sh3, mk, mkm, mk,
              [&](auto &&a, auto &&b, auto &&cc)
              {
                vec r;
                fcppt::optional::maybe_void_multi([&](auto &&x, auto &&y, auto &&z) { r = collect3(C05_FWD(x), C05_FWD(y), C05_FWD(z)); },
                                                  C05_FWD(a), C05_FWD(b), C05_FWD(cc));
                return r;
              });
          run3<decltype(c1)::value, decltype(c2)::value, decltype(c3)::value>("optional::maybe_multi", mid, sh3, mk, mkm, mk,
              [&](auto &&a, auto &&b, auto &&cc)
              {
                return fcppt::optional::maybe_multi([]
                {
                  cb_scope const g{""};
                  return vec{};
                },
                collect3, C05_FWD(a), C05_FWD(b), C05_FWD(cc));
              });
        });
      }
    // nested optional
    for (bool inner : {false, true})
    {
      if (!some && inner) continue;
      for_cats<'r', 'l', 'c'>([&](auto c)
      {
        run1<decltype(c)::value>("optional::join", true, sh + "/" + (inner ? "some" : "none"),
            [some, inner] { return some ? oopt{mk_opt(inner)} : oopt{}; },
            [](auto &&a) { return fcppt::optional::join(C05_FWD(a)); });
      });
    }
  }
  // containers of optionals: all shapes of length <= 3
  for (int len = 0; len <= (thorough() ? 4 : 3); ++len)
    for (int mask = 0; mask < (1 << len); ++mask)
    {
      std::string sh = "[";
      for (int i = 0; i < len; ++i) sh += ((mask >> i) & 1) ? 's' : 'n';
      sh += "]";
      bool const all = mask == (1 << len) - 1;
      auto const mk = [len, mask]
      {
        std::vector<opt> v;
        v.reserve(static_cast<std::size_t>(len));
        for (int i = 0; i < len; ++i) v.push_back(mk_opt(((mask >> i) & 1) != 0));
        return v;
      };
      for_cats<'r', 'l', 'c'>([&](auto c)
      {
        constexpr char C = decltype(c)::value;
        run1<C>("optional::cat", true, sh, mk, [](auto &&a) { return fcppt::optional::cat<vec>(C05_FWD(a)); });
        run1<C>("optional::sequence", all, sh, mk, [](auto &&a) { return fcppt::optional::sequence<vec>(C05_FWD(a)); });
      });
    }
  // optional::sequence over a TUPLE of optionals (check_sequence's tuple form -> algorithm::map over a tuple):
  // every some/none mask of three positions
  for (int mask = 0; mask < 8; ++mask)
  {
    std::string sh = "tuple[";
    for (int i = 0; i < 3; ++i) sh += ((mask >> i) & 1) ? 's' : 'n';
    sh += "]";
    using otup = fcppt::tuple::object<opt, opt, opt>;
    using rtup = fcppt::tuple::object<T, T, T>;
    for_cats<'r', 'l', 'c'>([&](auto c)
    {
      run1<decltype(c)::value>("optional::sequence", mask == 7, sh,
          [mask] { return otup{mk_opt((mask & 1) != 0), mk_opt((mask & 2) != 0), mk_opt((mask & 4) != 0)}; },
          [](auto &&a) C05_CALL(fcppt::optional::sequence<rtup>(C05_FWD(a))));
    });
  }
}
#endif

#ifdef C05_UNIT_EITHERS
void eithers()
{
  for (bool succ : {false, true})
  {
    std::string const sh = succ ? "success" : "failure";
    auto const mk = [succ] { return mk_eit(succ); };
    for_cats<'r', 'l', 'c'>([&](auto c)
    {
      constexpr char C = decltype(c)::value;
      run1<C>("either::map", true, sh, mk, [](auto &&a) { return fcppt::either::map(C05_FWD(a), pass); });
      run1<C>("either::map_failure", true, sh, mk, [](auto &&a) { return fcppt::either::map_failure(C05_FWD(a), pass); });
      run1<C>("either::bind", true, sh, mk, [](auto &&a)
      {
        return fcppt::either::bind(C05_FWD(a), [](auto &&x)
        {
          cb_scope const g{C05_RECV(x)};
          return eit{T(C05_FWD(x))};
        });
      });
      run1<C>("either::match", true, sh, mk, [](auto &&a)
      {
        return fcppt::either::match(C05_FWD(a),
            [](auto &&f)
            {
              cb_scope const g{C05_RECV(f)};
              return var{F(C05_FWD(f))};
            },
            [](auto &&s)
            {
              cb_scope const g{C05_RECV(s)};
              return var{T(C05_FWD(s))};
            });
      });
      run1<C>("either::map", true, sh + "/by-value", mk, [](auto &&a) { return fcppt::either::map(C05_FWD(a), pass_by_value); });
      run1<C>("either::bind", true, sh + "/by-value", mk, [](auto &&a)
      {
        return fcppt::either::bind(C05_FWD(a), [](taken<T> x)
        {
          cb_scope const g{""};
          return eit{T(std::move(x.value))};
        });
      });
      run1<C>("either::match", true, sh + "/by-value", mk, [](auto &&a)
      {
        return fcppt::either::match(C05_FWD(a),
            [](taken<F> f)
            {
              cb_scope const g{""};
              return var{F(std::move(f.value))};
            },
            [](taken<T> x)
            {
              cb_scope const g{""};
              return var{T(std::move(x.value))};
            });
      });
      run1<C>("either::success_opt", succ, sh, mk, [](auto &&a) { return fcppt::either::success_opt(C05_FWD(a)); });
      run1<C>("either::failure_opt", !succ, sh, mk, [](auto &&a) { return fcppt::either::failure_opt(C05_FWD(a)); });
      if (succ)
        run1<C>("either::to_exception", true, sh, mk, [](auto &&a)
        { return T(fcppt::either::to_exception(C05_FWD(a), [](auto &&) { return std::runtime_error{"failure"}; })); });
      if constexpr (C != 'l')
      {
      run1<C>("either::operator=", true, sh + "->success", mk, [](auto &&a)
      {
        eit target{T(1000)};
        if constexpr (C == 'r') target = std::move(a); else target = std::as_const(a);
        return target;
      });
      run1<C>("either::operator=", true, sh + "->failure", mk, [](auto &&a)
      {
        eit target{F(1000)};
        if constexpr (C == 'r') target = std::move(a); else target = std::as_const(a);
        return target;
      });
      }
      if constexpr (C != 'l')
        run1<C>("either::object(either)", true, sh, mk, [](auto &&a) { return eit(C05_FWD(a)); });
    });
    for_cats<'r', 'c'>([&](auto c)
    {
      constexpr char C = decltype(c)::value;
      run1<C>("either::object(S)", true, "element", [] { return T(next_tok()); }, [](auto &&a) { return eit(C05_FWD(a)); });
      run1<C>("either::object(F)", true, "element", [] { return F(next_tok()); }, [](auto &&a) { return eit(C05_FWD(a)); });
    });
    // join: outer failure / inner failure / inner success
    for (bool inner : {false, true})
    {
      if (!succ && inner) continue;
      for_cats<'r', 'l', 'c'>([&](auto c)
      {
        run1<decltype(c)::value>("either::join", true, sh + "/" + (inner ? "success" : "failure"),
            [succ, inner] { return succ ? eeit{mk_eit(inner)} : eeit{F(next_tok())}; },
            [](auto &&a) { return fcppt::either::join(C05_FWD(a)); });
      });
    }
  }
  // make_success / make_failure: the element is forwarded into the either
  for_cats<'r', 'c'>([&](auto c)
  {
    constexpr char C = decltype(c)::value;
    run1<C>("either::make_success", true, "element", [] { return T(next_tok()); }, [](auto &&a) C05_CALL(fcppt::either::make_success<F>(C05_FWD(a))));
    run1<C>("either::make_failure", true, "element", [] { return F(next_tok()); }, [](auto &&a) C05_CALL(fcppt::either::make_failure<T>(C05_FWD(a))));
  });
  // error_from_optional: the value of the optional becomes the failure
  for (bool some : {false, true})
    for_cats<'r', 'l', 'c'>([&](auto c)
    {
      run1<decltype(c)::value>("either::error_from_optional", true, some ? "some" : "none", [some] { return mk_opt(some); },
          [](auto &&a) C05_CALL(fcppt::either::error_from_optional(C05_FWD(a))));
    });
}
#endif

#ifdef C05_UNIT_EITHERS_MULTI
void eithers_multi()
{
  for (bool succ : {false, true})
  {
    std::string const sh = succ ? "success" : "failure";
    auto const mk = [succ] { return mk_eit(succ); };
    for (bool succ2 : {false, true})
    {
      std::string const sh2 = sh + "," + (succ2 ? "success" : "failure");
      auto const mk2 = [succ2] { return mk_eit(succ2); };
      for_cats<'r', 'l', 'c'>([&](auto c1)
      {
        for_cats<'r', 'l', 'c'>([&](auto c2)
        {
          run2<decltype(c1)::value, decltype(c2)::value>("either::apply", succ && succ2, sh2, mk, mk2, [](auto &&a, auto &&b)
          {
            return fcppt::either::apply([](auto &&x, auto &&y)
            {
              cb_scope const g{C05_RECV(x) + "," + C05_RECV(y)};
              vec r;
              r.emplace_back(C05_FWD(x));
              r.emplace_back(C05_FWD(y));
              return r;
            },
            C05_FWD(a), C05_FWD(b));
          });
        });
      });
    }
  }
  // three eithers, every combination of value categories (all success / failure in the middle)
  // shapes: which of the three positions hold a success (bit i = position i): all, each single failure, and two failures
  for (int smask : {7, 5, 6, 3, 4, 1})
  {
    bool const mid = smask == 7;
    auto const sf = [smask](int i) { return ((smask >> i) & 1) != 0; };
    std::string const sh3 = std::string{sf(0) ? "success," : "failure,"} + (sf(1) ? "success," : "failure,") + (sf(2) ? "success" : "failure");
    for_cats3([&](auto c1, auto c2, auto c3)
    {
      run3<decltype(c1)::value, decltype(c2)::value, decltype(c3)::value>("either::apply", mid, sh3, [sf] { return mk_eit(sf(0)); },
          [sf] { return mk_eit(sf(1)); }, [sf] { return mk_eit(sf(2)); }, [](auto &&a, auto &&b, auto &&cc)
      {
        return fcppt::either::apply([](auto &&x, auto &&y, auto &&z)
        {
          cb_scope const g{C05_RECV(x) + "," + C05_RECV(y) + "," + C05_RECV(z)};
          vec r;
          r.reserve(3U);
          r.emplace_back(C05_FWD(x));
          r.emplace_back(C05_FWD(y));
          r.emplace_back(C05_FWD(z));
          return r;
        },
        C05_FWD(a), C05_FWD(b), C05_FWD(cc));
      });
    });
  }
  // from_optional
  for (bool some : {false, true})
    for_cats<'r', 'l', 'c'>([&](auto c)
    {
      run1<decltype(c)::value>("either::from_optional", true, some ? "some" : "none", [some] { return mk_opt(some); }, [](auto &&a)
      {
        return fcppt::either::from_optional(C05_FWD(a), []
        {
          cb_scope const g{""};
          return F(1000);
        });
      });
    });
  // sequence: only rvalue sources can be instantiated (see notes)
  for (int len = 0; len <= (thorough() ? 4 : 3); ++len)
    for (int mask = 0; mask < (1 << len); ++mask)
    {
      std::string sh = "[";
      for (int i = 0; i < len; ++i) sh += ((mask >> i) & 1) ? 's' : 'f';
      sh += "]";
      bool const all = mask == (1 << len) - 1;
      // lvalue sources are rejected by the requires-clause of either::sequence on the unchanged tree
      // (reported as NOT-INSTANTIABLE); they are driven as soon as they compile
      for_cats<'r', 'l', 'c'>([&](auto c)
      {
        run1<decltype(c)::value>("either::sequence", all, sh, [len, mask]
        {
          std::vector<eit> v;
          v.reserve(static_cast<std::size_t>(len));
          for (int i = 0; i < len; ++i) v.push_back(mk_eit(((mask >> i) & 1) != 0));
          return v;
        },
        [](auto &&a) C05_CALL(fcppt::either::sequence<vec>(C05_FWD(a))));
      });
      // first_success: no tracked argument; the functions produce fresh elements
      if (wanted("either::first_success") && reset("either::first_success", sh, ""))
      {
        guarded([&]
        {
          using function_type = fcppt::function<eit()>;
          std::vector<function_type> fns;
          for (int i = 0; i < len; ++i)
          {
            bool const s = ((mask >> i) & 1) != 0;
            fns.push_back(function_type{[s, i]
            {
              cb_scope const g{""};
              return s ? eit{T(100 + i)} : eit{F(100 + i)};
            }});
          }
          begin("either::first_success", false, {});
          auto const r = fcppt::either::first_success(fns);
          end(r, {});
        });
      }
    }
  // sequence_error: the function is called with every element until the first error; the error is the result
  for (int n : {0, 1, 3})
    for (int fail_at : {-1, 1})
      for_cats<'r', 'l', 'c'>([&](auto c)
      {
        run1<decltype(c)::value>("either::sequence_error", false, "vector:" + std::to_string(n) + (fail_at < 0 ? "/ok" : "/error at 1"),
            [n] { return make_seq<vec>(n); }, [fail_at](auto &&a)
        {
          int k = 0;
          return fcppt::either::sequence_error(C05_FWD(a), [&k, fail_at](auto &&x)
          {
            cb_scope const g{C05_RECV(x)};
            using err = fcppt::either::error<T>;
            return k++ == fail_at ? err{T(C05_FWD(x))} : err{fcppt::either::no_error{}};
          });
        });
      });
  // loop: successes are handed to the body until the first failure, which is returned
  if (wanted("either::loop") && reset("either::loop", "2 successes, then failure", ""))
    guarded([]
    {
      begin("either::loop", false, {});
      int k = 0;
      vec seen;
      seen.reserve(4U);
      F r{fcppt::either::loop(
          [&k]
          {
            cb_scope const g{""};
            return k++ < 2 ? eit{T(100 + k)} : eit{F(100 + k)};
          },
          [&seen](auto &&x)
          {
            cb_scope const g{C05_RECV(x)};
            seen.emplace_back(C05_FWD(x));
          })};
      end(std::make_pair(std::move(r), fcppt::make_cref(seen)), {});
    });
}
#endif

#ifdef C05_UNIT_VARIANTS
void variants()
{
  for (bool first : {false, true})
  {
    std::string const sh = first ? "T" : "F";
    auto const mk = [first] { return first ? var{T(next_tok())} : var{F(next_tok())}; };
    for_cats<'r', 'l', 'c'>([&](auto c)
    {
      constexpr char C = decltype(c)::value;
      run1<C>("variant::match", true, sh, mk, [](auto &&a)
      {
        return fcppt::variant::match(C05_FWD(a),
            [](auto &&x)
            {
              cb_scope const g{C05_RECV(x)};
              return var{T(C05_FWD(x))};
            },
            [](auto &&y)
            {
              cb_scope const g{C05_RECV(y)};
              return var{F(C05_FWD(y))};
            });
      });
      run1<C>("variant::apply", true, sh, mk, [](auto &&a)
      {
        return fcppt::variant::apply([](auto &&x)
        {
          cb_scope const g{C05_RECV(x)};
          return var{std::remove_cvref_t<decltype(x)>(C05_FWD(x))};
        },
        C05_FWD(a));
      });
      run1<C>("variant::to_optional", first, sh + "->T", mk, [](auto &&a) { return fcppt::variant::to_optional<T>(C05_FWD(a)); });
      run1<C>("variant::to_optional", !first, sh + "->F", mk, [](auto &&a) { return fcppt::variant::to_optional<F>(C05_FWD(a)); });
      if constexpr (C != 'l')
      {
        run1<C>("variant::object(variant)", true, sh, mk, [](auto &&a) { return var(C05_FWD(a)); });
        run1<C>("variant::operator=", true, sh, mk, [](auto &&a)
        {
          var target{F(1000)};
          target = C05_FWD(a);
          return target;
        });
        run1<C>("variant::operator=", true, sh + "->T", mk, [](auto &&a)
        {
          var target{T(1000)};
          target = C05_FWD(a);
          return target;
        });
      }
    });
  }
  for_cats<'r', 'c'>([&](auto c)
  {
    constexpr char C = decltype(c)::value;
    run1<C>("variant::object(T)", true, "element", [] { return T(next_tok()); }, [](auto &&a) { return var(C05_FWD(a)); });
  });
  for_cats<'r', 'l', 'c'>([&](auto c)
  {
    run1<decltype(c)::value>("variant::match", true, "T/by-value", [] { return var{T(next_tok())}; }, [](auto &&a)
    {
      return fcppt::variant::match(C05_FWD(a),
          [](taken<T> x)
          {
            cb_scope const g{""};
            return var{T(std::move(x.value))};
          },
          [](taken<F> y)
          {
            cb_scope const g{""};
            return var{F(std::move(y.value))};
          });
    });
  });
  // three variants, every combination of value categories
  for_cats3([&](auto c1, auto c2, auto c3)
  {
    run3<decltype(c1)::value, decltype(c2)::value, decltype(c3)::value>("variant::apply", true, "T,F,T", [] { return var{T(next_tok())}; },
        [] { return var{F(next_tok())}; }, [] { return var{T(next_tok())}; }, [](auto &&a, auto &&b, auto &&cc)
    {
      return fcppt::variant::apply([](auto &&x, auto &&y, auto &&z)
      {
        cb_scope const g{C05_RECV(x) + "," + C05_RECV(y) + "," + C05_RECV(z)};
        std::vector<var> r;
        r.reserve(3U);
        r.emplace_back(std::remove_cvref_t<decltype(x)>(C05_FWD(x)));
        r.emplace_back(std::remove_cvref_t<decltype(y)>(C05_FWD(y)));
        r.emplace_back(std::remove_cvref_t<decltype(z)>(C05_FWD(z)));
        return r;
      },
      C05_FWD(a), C05_FWD(b), C05_FWD(cc));
    });
  });
  // binary visitation
  for_cats<'r', 'l', 'c'>([&](auto c1)
  {
    for_cats<'r', 'l', 'c'>([&](auto c2)
    {
      run2<decltype(c1)::value, decltype(c2)::value>("variant::apply", true, "T,F", [] { return var{T(next_tok())}; },
          [] { return var{F(next_tok())}; }, [](auto &&a, auto &&b)
      {
        return fcppt::variant::apply([](auto &&x, auto &&y)
        {
          cb_scope const g{C05_RECV(x) + "," + C05_RECV(y)};
          std::vector<var> r;
          r.reserve(2U);
          r.emplace_back(std::remove_cvref_t<decltype(x)>(C05_FWD(x)));
          r.emplace_back(std::remove_cvref_t<decltype(y)>(C05_FWD(y)));
          return r;
        },
        C05_FWD(a), C05_FWD(b));
      });
    });
  });
}
#endif
}

namespace c05
{
#ifdef C05_UNIT_OPTIONALS
void drive_optionals() { optionals(); }
#endif
#ifdef C05_UNIT_OPTIONALS_MULTI
void drive_optionals_multi() { optionals_multi(); }
#endif
#ifdef C05_UNIT_EITHERS
void drive_eithers() { eithers(); }
#endif
#ifdef C05_UNIT_EITHERS_MULTI
void drive_eithers_multi() { eithers_multi(); }
#endif
#ifdef C05_UNIT_VARIANTS
void drive_variants() { variants(); }
#endif
}
