// Instrumented element types for C05 (value conservation).
//
// trk::tracked     copyable + movable; every special member call and every value() read is
//                  written to the ndjson log with never-reused object ids
// trk::move_only   the same without copy operations: instantiating a generic operation with it
//                  for rvalue arguments is a compile-time probe ("accepts move-only element types")
//
// An object carries a token (`tok`, the value identity given by the harness; copies and moves
// preserve it).  The harness only RECORDS; spec/LinearityTrace.tla (TLC) judges the log.
#ifndef VERIF_COMMON_TRACKED_HPP
#define VERIF_COMMON_TRACKED_HPP

#include <common/vjson.hpp>

#include <cstddef>
#include <functional>
#include <string>
#include <type_traits>

namespace trk
{
inline long &last_id()
{
  static long n = 0;
  return n;
}
inline long fresh_id() { return ++last_id(); }
inline long &event_count()
{
  static long n = 0;
  return n;
}
// events of the current history; a history that produces an absurd number of events (an endless
// loop in the code under test that keeps copying / moving) is stopped like a hang, before the log
// fills the disk
inline long &history_events()
{
  static long n = 0;
  return n;
}
inline long &history_event_cap()
{
  static long n = 0; // 0 = no cap
  return n;
}
inline void emit(std::string const &s)
{
  ++event_count();
  if (history_event_cap() > 0 && ++history_events() > history_event_cap())
  {
    vj::crash_line("hang", 0);
    _exit(68);
  }
  vj::line(s);
}
inline void ev2(char const *e, long src, long dst)
{
  emit(std::string{"{\"e\":\""} + e + "\",\"src\":" + std::to_string(src) + ",\"dst\":" + std::to_string(dst) + "}");
}
inline void ev1(char const *e, long obj)
{
  emit(std::string{"{\"e\":\""} + e + "\",\"obj\":" + std::to_string(obj) + "}");
}


// common state; fields are read raw (without logging) by the harness when it describes
// arguments and results
struct state
{
  int tok;
  long id;
};

// Tag distinguishes otherwise identical element types (either / variant need distinct types)
template <int Tag, bool Copyable>
class basic
{
public:
  explicit basic(int const _tok) : s_{_tok, fresh_id()}
  {
    emit("{\"e\":\"new\",\"obj\":" + std::to_string(s_.id) + ",\"tok\":" + std::to_string(s_.tok) + "}");
  }
  basic(basic const &_o) requires Copyable : s_{_o.s_.tok, fresh_id()} { ev2("copy", _o.s_.id, s_.id); }
  basic(basic &&_o) noexcept : s_{_o.s_.tok, fresh_id()} { ev2("move", _o.s_.id, s_.id); }
  basic &operator=(basic const &_o) requires Copyable
  {
    ev2("copy_assign", _o.s_.id, s_.id);
    s_.tok = _o.s_.tok;
    return *this;
  }
  basic &operator=(basic &&_o) noexcept
  {
    ev2("move_assign", _o.s_.id, s_.id);
    s_.tok = _o.s_.tok;
    return *this;
  }
  ~basic() { ev1("destroy", s_.id); }
  // the observable value: reading it is an event
  [[nodiscard]] int value() const
  {
    ev1("read", s_.id);
    return s_.tok;
  }
  [[nodiscard]] state const &raw() const { return s_; }
  friend bool operator==(basic const &_a, basic const &_b) { return _a.value() == _b.value(); }
  friend bool operator!=(basic const &_a, basic const &_b) { return _a.value() != _b.value(); }
  friend bool operator<(basic const &_a, basic const &_b) { return _a.value() < _b.value(); }

private:
  state s_;
};

using tracked = basic<0, true>;
using tracked2 = basic<1, true>;
using tracked3 = basic<2, true>;
using move_only = basic<0, false>;
using move_only2 = basic<1, false>;

template <typename T>
struct is_tracked : std::false_type
{
};
template <int Tag, bool Copyable>
struct is_tracked<basic<Tag, Copyable>> : std::true_type
{
};
template <typename T>
inline constexpr bool is_tracked_v = is_tracked<std::remove_cvref_t<T>>::value;
}

namespace std
{
template <int Tag, bool Copyable>
struct hash<trk::basic<Tag, Copyable>>
{
  std::size_t operator()(trk::basic<Tag, Copyable> const &_t) const { return static_cast<std::size_t>(_t.value()); }
};
}

#endif
