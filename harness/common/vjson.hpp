// Minimal ndjson writer / JSON reader / crash handling shared by all conformance harnesses.
// Harnesses only DRIVE the real fcppt code and RECORD what it did; they contain no expected
// values.  The judge is TLC (see /verif/spec).
#ifndef VERIF_COMMON_VJSON_HPP
#define VERIF_COMMON_VJSON_HPP

#include <csignal>
#include <cstdint>
#include <cstdio>
#include <cstdlib>
#include <cstring>
#include <exception>
#include <map>
#include <memory>
#include <stdexcept>
#include <string>
#include <typeinfo>
#include <unistd.h>
#include <vector>

namespace vj
{
inline FILE *&out_file()
{
  static FILE *f = nullptr;
  return f;
}
inline int &out_fd()
{
  static int fd = 2;
  return fd;
}

inline void crash_line(char const *what, int code)
{
  char buf[160];
  int n = std::snprintf(buf, sizeof buf, "\n{\"e\":\"crash\",\"what\":\"%s\",\"code\":%d}\n", what, code);
  if (out_file() != nullptr)
  {
    std::fflush(out_file());
  }
  if (n > 0)
  {
    ssize_t r = ::write(out_fd(), buf, static_cast<size_t>(n));
    (void)r;
  }
}

inline void on_signal(int sig)
{
  crash_line(sig == SIGALRM ? "hang" : "signal", sig);
  _exit(sig == SIGALRM ? 68 : 67);
}

inline void on_terminate()
{
  crash_line("terminate", 0);
  _exit(67);
}

inline void open(char const *path)
{
  out_file() = std::fopen(path, "w");
  if (out_file() == nullptr)
  {
    std::perror(path);
    std::exit(3);
  }
  static char big[1 << 20];
  std::setvbuf(out_file(), big, _IOFBF, sizeof big);
  out_fd() = fileno(out_file());
  std::set_terminate(on_terminate);
  std::signal(SIGSEGV, on_signal);
  std::signal(SIGBUS, on_signal);
  std::signal(SIGFPE, on_signal);
  std::signal(SIGILL, on_signal);
  std::signal(SIGABRT, on_signal);
  std::signal(SIGALRM, on_signal);
}

inline void close()
{
  if (out_file() != nullptr)
  {
    std::fclose(out_file());
    out_file() = nullptr;
  }
}

inline std::string esc(std::string const &s)
{
  std::string r;
  for (unsigned char c : s)
  {
    switch (c)
    {
    case '"': r += "\\\""; break;
    case '\\': r += "\\\\"; break;
    case '\n': r += "\\n"; break;
    case '\t': r += "\\t"; break;
    case '\r': r += "\\r"; break;
    default:
      if (c < 0x20)
      {
        char b[8];
        std::snprintf(b, sizeof b, "\\u%04x", c);
        r += b;
      }
      else
      {
        r += static_cast<char>(c);
      }
    }
  }
  return r;
}

// A JSON value under construction (as text).
struct J
{
  std::string s;
  bool first = true;
  char close_ch = '}';
  explicit J(char open = '{') { s += open; close_ch = (open == '{') ? '}' : ']'; }
  void sep()
  {
    if (!first) s += ',';
    first = false;
  }
  void key(char const *k)
  {
    sep();
    s += '"';
    s += k;
    s += "\":";
  }
  J &raw(char const *k, std::string const &v) { key(k); s += v; return *this; }
  J &kv(char const *k, long long v) { key(k); s += std::to_string(v); return *this; }
  J &kv(char const *k, unsigned long long v) { key(k); s += std::to_string(v); return *this; }
  J &kv(char const *k, long v) { return kv(k, static_cast<long long>(v)); }
  J &kv(char const *k, int v) { return kv(k, static_cast<long long>(v)); }
  J &kv(char const *k, unsigned v) { return kv(k, static_cast<long long>(v)); }
  J &kv(char const *k, unsigned long v) { return kv(k, static_cast<unsigned long long>(v)); }
  J &kv(char const *k, bool v) { key(k); s += v ? "true" : "false"; return *this; }
  J &kv(char const *k, char const *v) { key(k); s += '"'; s += esc(v); s += '"'; return *this; }
  J &kv(char const *k, std::string const &v) { key(k); s += '"'; s += esc(v); s += '"'; return *this; }
  template <typename T>
  J &kv(char const *k, std::vector<T> const &v)
  {
    key(k);
    s += '[';
    bool f = true;
    for (auto const &x : v)
    {
      if (!f) s += ',';
      f = false;
      s += std::to_string(static_cast<long long>(x));
    }
    s += ']';
    return *this;
  }
  // array element forms
  J &el(long long v) { sep(); s += std::to_string(v); return *this; }
  J &el_raw(std::string const &v) { sep(); s += v; return *this; }
  J &el_str(std::string const &v) { sep(); s += '"'; s += esc(v); s += '"'; return *this; }
  std::string str() const { return s + close_ch; }
};

template <typename T>
inline std::string arr(std::vector<T> const &v)
{
  std::string s = "[";
  bool f = true;
  for (auto const &x : v)
  {
    if (!f) s += ',';
    f = false;
    s += std::to_string(static_cast<long long>(x));
  }
  return s + "]";
}

inline std::string str_arr(std::vector<std::string> const &v)
{
  std::string s = "[";
  bool f = true;
  for (auto const &x : v)
  {
    if (!f) s += ',';
    f = false;
    s += '"' + esc(x) + '"';
  }
  return s + "]";
}

// code points of a (w)string as a JSON array (TLA+ strings are not indexable)
template <typename S>
inline std::string cps(S const &v)
{
  std::string s = "[";
  bool f = true;
  for (auto c : v)
  {
    if (!f) s += ',';
    f = false;
    s += std::to_string(static_cast<long long>(static_cast<std::make_unsigned_t<decltype(c)>>(c)));
  }
  return s + "]";
}

inline void line(std::string const &s)
{
  std::fputs(s.c_str(), out_file());
  std::fputc('\n', out_file());
}
inline void line(J const &j) { line(j.str()); }

// Write the first part of a record and flush it, so that a sanitizer abort inside the driven
// call leaves a (truncated) line naming the operation.
inline void begin_call(std::string const &prefix_without_close)
{
  std::fputs(prefix_without_close.c_str(), out_file());
  std::fflush(out_file());
}
inline void end_call(std::string const &rest_with_close)
{
  std::fputs(rest_with_close.c_str(), out_file());
  std::fputc('\n', out_file());
}

// ------------------------------------------------------------------ tiny JSON reader (scripts)
struct V;
using VP = std::shared_ptr<V>;
struct V
{
  enum K { Null, Bool, Num, Str, Arr, Obj } k = Null;
  bool b = false;
  long long n = 0;
  std::string s;
  std::vector<VP> a;
  std::map<std::string, VP> o;
  bool has(std::string const &key) const { return o.count(key) != 0; }
  V const &at(std::string const &key) const
  {
    auto it = o.find(key);
    if (it == o.end()) throw std::runtime_error("script: missing key " + key);
    return *it->second;
  }
  long long num(std::string const &key) const { return at(key).n; }
  long long num_or(std::string const &key, long long d) const { return has(key) ? at(key).n : d; }
  std::string const &str(std::string const &key) const { return at(key).s; }
  std::vector<long long> nums(std::string const &key) const
  {
    std::vector<long long> r;
    for (auto const &x : at(key).a) r.push_back(x->n);
    return r;
  }
};

struct Parser
{
  char const *p;
  explicit Parser(char const *s) : p(s) {}
  void ws() { while (*p == ' ' || *p == '\n' || *p == '\t' || *p == '\r') ++p; }
  VP parse()
  {
    ws();
    auto v = std::make_shared<V>();
    if (*p == '{')
    {
      v->k = V::Obj;
      ++p;
      ws();
      if (*p == '}') { ++p; return v; }
      for (;;)
      {
        ws();
        VP k = parse();
        ws();
        if (*p != ':') throw std::runtime_error("json: expected :");
        ++p;
        v->o[k->s] = parse();
        ws();
        if (*p == ',') { ++p; continue; }
        if (*p == '}') { ++p; return v; }
        throw std::runtime_error("json: expected , or }");
      }
    }
    if (*p == '[')
    {
      v->k = V::Arr;
      ++p;
      ws();
      if (*p == ']') { ++p; return v; }
      for (;;)
      {
        v->a.push_back(parse());
        ws();
        if (*p == ',') { ++p; continue; }
        if (*p == ']') { ++p; return v; }
        throw std::runtime_error("json: expected , or ]");
      }
    }
    if (*p == '"')
    {
      v->k = V::Str;
      ++p;
      while (*p != '"')
      {
        if (*p == '\\')
        {
          ++p;
          switch (*p)
          {
          case 'n': v->s += '\n'; break;
          case 't': v->s += '\t'; break;
          case 'r': v->s += '\r'; break;
          default: v->s += *p;
          }
          ++p;
        }
        else
          v->s += *p++;
      }
      ++p;
      return v;
    }
    if (std::strncmp(p, "true", 4) == 0) { v->k = V::Bool; v->b = true; v->n = 1; p += 4; return v; }
    if (std::strncmp(p, "false", 5) == 0) { v->k = V::Bool; v->b = false; p += 5; return v; }
    if (std::strncmp(p, "null", 4) == 0) { p += 4; return v; }
    v->k = V::Num;
    char *e = nullptr;
    v->n = std::strtoll(p, &e, 10);
    if (e == p) throw std::runtime_error(std::string("json: unexpected ") + p);
    p = e;
    return v;
  }
};

inline VP parse(std::string const &s) { return Parser(s.c_str()).parse(); }

// read every line of a file
inline std::vector<std::string> read_lines(char const *path)
{
  std::vector<std::string> r;
  FILE *f = std::fopen(path, "r");
  if (f == nullptr) { std::perror(path); std::exit(3); }
  std::string cur;
  int c;
  while ((c = std::fgetc(f)) != EOF)
  {
    if (c == '\n') { if (!cur.empty()) r.push_back(cur); cur.clear(); }
    else cur += static_cast<char>(c);
  }
  if (!cur.empty()) r.push_back(cur);
  std::fclose(f);
  return r;
}

// deterministic generator for drivers (splitmix64); never used as an oracle
struct Rng
{
  std::uint64_t x;
  explicit Rng(std::uint64_t seed) : x(seed * 0x9E3779B97F4A7C15ULL + 0x1234567ULL) {}
  std::uint64_t next()
  {
    std::uint64_t z = (x += 0x9E3779B97F4A7C15ULL);
    z = (z ^ (z >> 30)) * 0xBF58476D1CE4E5B9ULL;
    z = (z ^ (z >> 27)) * 0x94D049BB133111EBULL;
    return z ^ (z >> 31);
  }
  // uniform in [0, n)
  std::uint64_t below(std::uint64_t n) { return n == 0 ? 0 : next() % n; }
  long long range(long long lo, long long hi) { return lo + static_cast<long long>(below(static_cast<std::uint64_t>(hi - lo + 1))); }
  bool coin() { return (next() & 1U) != 0; }
};

}

#endif
