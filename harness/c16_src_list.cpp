// C16 conformance harness: one group of source ranges (see c16_range.hpp).  Drives and records only.
#include "c16_range.hpp"

namespace c16
{
void run_list(Sel &sel, bool const thorough)
{
  seq_source<std::list<int>>("list", thorough ? 6U : 5U, thorough ? 6U : 3U, true, sel);
}
}
