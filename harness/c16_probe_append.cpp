// Compile-only probe used by checks/c16.py: does fcppt::array::append (and therefore join and
// push_back) accept lvalue arrays?  On the tree this framework was written against it does not:
// array/append.hpp instantiates fcppt::array::size<Array1> with Array1 a reference type.
#include <fcppt/array/append.hpp>
#include <fcppt/array/join.hpp>
#include <fcppt/array/object.hpp>
#include <fcppt/array/push_back.hpp>

int probe()
{
  fcppt::array::object<int, 2> const a{1, 2};
  fcppt::array::object<int, 1> const b{3};
  auto const c(fcppt::array::append(a, b));
  auto const d(fcppt::array::join(a, b, c));
  auto const e(fcppt::array::push_back(a, 4));
  return c.get_unsafe(0) + d.get_unsafe(0) + e.get_unsafe(0);
}
