// C10 conformance harness: drives the real fcppt::container::bitfield::object operators for
// enums with 1, 3, 8, 9 and 17 enumerators stored in 8/16/32/64-bit words and records what it did
// and saw (c10_bitfield.hpp).  It contains no expected values: spec/BitfieldJudge.tla (TLC) is
// the judge.
//
//   c10_bitfield record OUT n w seed pairs_mode ntrees nhist [bits_stride lastword_stride deep]
//        pairs_mode: "all" = every pair of subsets (n <= 9), or a number of random pairs
//        bits_stride k > 0: all single-enumerator operations of every k-th subset
//        lastword_stride k > 0 (multi-word bitfields): all pairs of subsets that differ only in the
//        last storage word, for every k-th choice of the other words
//   c10_bitfield replay SCRIPTS.ndjson OUT n w     (one JSON array of op records per line)
#include "c10_bitfield.hpp"

namespace
{
int dispatch(int const n, int const w, c10_args const &a)
{
  switch (n)
  {
  case 1: return c10_run_n1(w, a);
  case 3: return c10_run_n3(w, a);
  case 8: return c10_run_n8(w, a);
  case 9: return c10_run_n9(w, a);
  case 17: return c10_run_n17(w, a);
  default: std::fprintf(stderr, "no instantiation for n=%d\n", n); return 3;
  }
}
}

int main(int argc, char **argv)
{
  if (argc < 6)
  {
    std::fprintf(stderr, "usage: record OUT n w seed pairs ntrees nhist | replay SCRIPTS OUT n w\n");
    return 3;
  }
  std::string const mode = argv[1];
  try
  {
    c10_args a;
    if (mode == "record" && argc >= 9)
    {
      vj::open(argv[2]);
      a.seed = std::strtoull(argv[5], nullptr, 10);
      a.pairs = argv[6];
      a.ntrees = std::strtol(argv[7], nullptr, 10);
      a.nhist = std::strtol(argv[8], nullptr, 10);
      a.bits_stride = argc > 9 ? std::strtol(argv[9], nullptr, 10) : 0;
      a.lastword_stride = argc > 10 ? std::strtol(argv[10], nullptr, 10) : 0;
      a.deep = argc > 11 && std::strtol(argv[11], nullptr, 10) != 0;
      int const rc = dispatch(std::atoi(argv[3]), std::atoi(argv[4]), a);
      vj::close();
      return rc;
    }
    if (mode == "replay")
    {
      vj::open(argv[3]);
      a.replay = true;
      a.scripts = argv[2];
      int const rc = dispatch(std::atoi(argv[4]), std::atoi(argv[5]), a);
      vj::close();
      return rc;
    }
  }
  catch (std::exception const &e)
  {
    std::fprintf(stderr, "harness error: %s\n", e.what());
    return 3;
  }
  std::fprintf(stderr, "bad arguments\n");
  return 3;
}
