// C09: the record / replay entry of c09_tree for one label type (one translation unit per label
// type, so that the four instantiations of the driver compile in parallel).
#ifndef VERIF_HARNESS_C09_RUN_HPP
#define VERIF_HARNESS_C09_RUN_HPP
#include "c09_forest.hpp"

namespace c09
{
template <typename L>
int run(std::string const &mode, int argc, char **argv)
{
  c09::driver<L> d;
  if (mode == "record")
  {
    vj::open(argv[2]);
    std::uint64_t const seed = std::strtoull(argv[3], nullptr, 10);
    long const hist = std::strtol(argv[4], nullptr, 10);
    long const maxlen = std::strtol(argv[5], nullptr, 10);
    if (argc >= 7) d.drive_assign_from_descendant = std::strtol(argv[6], nullptr, 10) != 0;
    d.record(seed, hist, maxlen);
    vj::close();
    return 0;
  }
  auto lines = vj::read_lines(argv[2]);
  vj::open(argv[3]);
  long const stride = argc >= 6 ? std::strtol(argv[5], nullptr, 10) : 1;
  long const phase = argc >= 7 ? std::strtol(argv[6], nullptr, 10) : 0;
  d.replay(lines, stride < 1 ? 1 : stride, phase);
  vj::close();
  return 0;
}
}



namespace c09
{
// the whole command line of a single-label harness binary (a label-type argument, if given, is ignored)
template <typename L>
int main_for(int argc, char **argv)
{
  if (argc < 4)
  {
    std::fprintf(stderr, "usage: record OUT seed histories maxlen [desc] [lt] | replay SCRIPTS OUT [lt stride phase]\n");
    return 3;
  }
  std::string const mode = argv[1];
  if ((mode == "record" && argc >= 6) || mode == "replay") return run<L>(mode, argc, argv);
  return 3;
}
}
#endif
