// C09: the record / replay entry of c09_tree for one label type (one translation unit per label
// type, so that the four instantiations of the driver compile in parallel).
#ifndef VERIF_HARNESS_C09_RUN_HPP
#define VERIF_HARNESS_C09_RUN_HPP
#include "c09_forest.hpp"

namespace c09
{
template <typename L>
int run(std::string const &mode, int argc, char **argv)
{
  c09::driver<L> d;
  if (mode == "record")
  {
    vj::open(argv[2]);
    std::uint64_t const seed = std::strtoull(argv[3], nullptr, 10);
    long const hist = std::strtol(argv[4], nullptr, 10);
    long const maxlen = std::strtol(argv[5], nullptr, 10);
    if (argc >= 7) d.drive_assign_from_descendant = std::strtol(argv[6], nullptr, 10) != 0;
    d.record(seed, hist, maxlen);
    vj::close();
    return 0;
  }
  auto lines = vj::read_lines(argv[2]);
  vj::open(argv[3]);
  long const stride = argc >= 6 ? std::strtol(argv[5], nullptr, 10) : 1;
  long const phase = argc >= 7 ? std::strtol(argv[6], nullptr, 10) : 0;
  d.replay(lines, stride < 1 ? 1 : stride, phase);
  vj::close();
  return 0;
}
}


#endif
