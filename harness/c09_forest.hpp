// Shared part of the C09 conformance harnesses: a forest of fcppt::container::tree::object<L>
// in named slots, for an arbitrary label type L (int, std::string, move-only unique_ptr<int>,
// a nested tree<int>, the log context's context_tree_node), the DFS dump that is logged after
// every operation, and the operation driver (exec / gen / replay).
// No expected values anywhere: spec/TreeTrace.tla (TLC) is the judge.
#ifndef VERIF_HARNESS_C09_FOREST_HPP
#define VERIF_HARNESS_C09_FOREST_HPP

#include <common/vjson.hpp>

#include <fcppt/reference_impl.hpp>
#include <fcppt/container/tree/child_position.hpp>
#include <fcppt/container/tree/comparison.hpp>
#include <fcppt/container/tree/depth.hpp>
#include <fcppt/container/tree/level.hpp>
#include <fcppt/container/tree/make_pre_order.hpp>
#include <fcppt/container/tree/make_to_root.hpp>
#include <fcppt/container/tree/map.hpp>
#include <fcppt/container/tree/object.hpp>
#include <fcppt/container/tree/output.hpp>
#include <fcppt/container/tree/pre_order.hpp>
#include <fcppt/container/tree/to_root.hpp>
#include <fcppt/optional/object.hpp>
#include <fcppt/optional/reference.hpp>

#include <iterator>
#include <map>
#include <memory>
#include <optional>
#include <sstream>
#include <string>
#include <utility>
#include <vector>

namespace c09
{
constexpr int NS = 4;
constexpr std::size_t max_nodes = 14; // the generator does not grow the forest beyond this

// How a label type is produced from / projected to the integer the specification uses.
//   copyable     the T const & overloads / copy construction / copy assignment are driven
//   has_less     sort() (operator< on T) orders by the projected integer
//   eq_by_value  operator== on T compares the projected integers
//   printable    operator<< on T exists and is deterministic
template <typename L>
struct label_traits;

template <>
struct label_traits<int>
{
  static constexpr char const *name = "int";
  static constexpr bool copyable = true, has_less = true, eq_by_value = true, printable = true;
  static int make(long x) { return static_cast<int>(x); }
  static long get(int const &v) { return v; }
};

template <>
struct label_traits<std::string>
{
  static constexpr char const *name = "str";
  static constexpr bool copyable = true, has_less = true, eq_by_value = true, printable = true;
  static std::string make(long x) { return std::to_string(x); }
  static long get(std::string const &v)
  {
    if (v.empty() || v.size() > 6) return -9; // e.g. a moved-from label
    long r = 0;
    for (char c : v)
    {
      if (c < '0' || c > '9') return -9;
      r = r * 10 + (c - '0');
    }
    return r;
  }
};

using uptr = std::unique_ptr<int>;
template <>
struct label_traits<uptr>
{
  static constexpr char const *name = "uptr";
  static constexpr bool copyable = false, has_less = false, eq_by_value = false, printable = false;
  static uptr make(long x) { return std::make_unique<int>(static_cast<int>(x)); }
  static long get(uptr const &v) { return v ? *v : -9; } // -9: null (a moved-from label)
};

using inner_tree = fcppt::container::tree::object<int>;
template <>
struct label_traits<inner_tree>
{
  static constexpr char const *name = "tree";
  static constexpr bool copyable = true, has_less = false, eq_by_value = true, printable = false;
  // a label that is itself a tree with one child: deep copies / moves of labels are exercised
  static inner_tree make(long x)
  {
    inner_tree t(static_cast<int>(x));
    t.push_back(static_cast<int>(x) + 100);
    return t;
  }
  static long get(inner_tree const &v)
  {
    // the label projects to x only while it is the intact two-node tree make(x) built; a label whose
    // child list was moved out projects to -1000 - x (the projection must stay injective: == on the
    // outer tree compares the labels as they are)
    if (v.size() != 1) return v.empty() ? -1000L - v.value() : -8;
    inner_tree const &c = v.children().front();
    bool const par_ok = c.parent().has_value() && &c.parent().get_unsafe().get() == &v;
    return (c.value() == v.value() + 100 && c.empty() && par_ok) ? v.value() : -8;
  }
};

struct Op
{
  std::string op;
  int as = 0, bs = 0, d = 0;
  std::vector<int> ap, bp, ss;
  long pos = 0, pos2 = 0, x = 0;
  bool rv = false;
};

inline bool is_prefix(std::vector<int> const &p, std::vector<int> const &q)
{
  if (p.size() > q.size()) return false;
  for (std::size_t i = 0; i < p.size(); ++i)
    if (p[i] != q[i]) return false;
  return true;
}

template <typename L>
struct forest
{
  using LT = label_traits<L>;
  using tree = fcppt::container::tree::object<L>;
  using ltree = fcppt::container::tree::object<long>;
  using utree = fcppt::container::tree::object<std::unique_ptr<long>>; // move-only map result

  std::optional<tree> slots[NS + 1];

  struct Entry
  {
    tree *ptr;
    tree *lister; // the node whose children() contains ptr (nullptr for a slot root)
    int slot;
    int idx; // DFS index within the slot
    std::vector<int> path;
  };
  std::vector<Entry> table;
  std::map<tree const *, long> refs; // address -> slot * 1000 + DFS index

  void collect(tree &t, tree *lister, int slot, std::vector<int> &path, int &idx)
  {
    table.push_back(Entry{&t, lister, slot, idx, path});
    refs[&t] = static_cast<long>(slot) * 1000 + idx;
    ++idx;
    int i = 0;
    for (tree &c : t)
    {
      path.push_back(i++);
      collect(c, &t, slot, path, idx);
      path.pop_back();
    }
  }

  void rebuild_table()
  {
    table.clear();
    refs.clear();
    for (int s = 1; s <= NS; ++s)
      if (slots[s].has_value())
      {
        std::vector<int> path;
        int idx = 0;
        collect(*slots[s], nullptr, s, path, idx);
      }
  }

  // -1 = null, -2 = not the address of a live node
  long ref_of(tree const *p) const
  {
    if (p == nullptr) return -1;
    auto it = refs.find(p);
    return it == refs.end() ? -2 : it->second;
  }

  template <typename OptRef>
  long ref_of_opt(OptRef const &r) const
  {
    return r.has_value() ? ref_of(&r.get_unsafe().get()) : -1;
  }

  tree &node_at(int s, std::vector<int> const &p)
  {
    tree *t = &*slots[s];
    for (int i : p)
    {
      typename tree::iterator it = t->begin();
      std::advance(it, i);
      t = &*it;
    }
    return *t;
  }

  // DFS dump [v, nk, par] of a mapped tree (a temporary with its own addresses)
  template <typename MT, typename Get>
  static void dump_mapped(MT const &t, std::map<MT const *, long> &ids, vj::J &out, Get const &get)
  {
    long const my = static_cast<long>(ids.size());
    ids[&t] = my;
    long nk = 0;
    for (auto it = t.children().begin(); it != t.children().end(); ++it) ++nk;
    long par = -1;
    auto p = t.parent();
    if (p.has_value())
    {
      auto f = ids.find(&p.get_unsafe().get());
      par = f == ids.end() ? -2 : f->second;
    }
    out.el_raw(vj::J().kv("v", get(t.value())).kv("nk", nk).kv("par", par).str());
    for (MT const &c : t.children()) dump_mapped(c, ids, out, get);
  }

  // to_root walk from t, const or non-const traversal; never follows a link that is not the
  // address of a live node, stops after 64 steps.  Returns false if the walk was cut.
  template <typename T>
  bool walk_to_root(T &t, std::vector<long> &tr) const
  {
    auto const range = fcppt::container::tree::make_to_root(t);
    auto it = range.begin();
    auto const end = range.end();
    int steps = 0;
    while (it != end)
    {
      T &cur = *it;
      long const r = ref_of(&cur);
      tr.push_back(r);
      if (r == -2 || ++steps > 64) return false;
      ++it;
    }
    return true;
  }

  // observations of an iterator range as a state machine: positions 0..n (n = end)
  template <typename Range>
  std::string iter_obs(Range const &range, std::size_t cap, bool with_matrix) const
  {
    using iterator = typename Range::iterator;
    std::vector<iterator> its;
    iterator it = range.begin();
    iterator const end = range.end();
    std::vector<long> post; // the nodes seen through *it++ (post-increment) and it->
    std::size_t steps = 0;
    bool cut = false;
    for (;;)
    {
      its.push_back(it);
      if (it == end) break;
      if (ref_of(&*it) == -2 || ++steps > cap)
      {
        cut = true;
        break;
      }
      iterator old = it++;
      post.push_back(ref_of(&*old));
    }
    // (a default-constructed iterator is not compared: nothing documents what it equals)
    std::vector<long> eqend, eqbeg, neend;
    iterator const beg = range.begin();
    for (iterator const &i : its)
    {
      eqend.push_back(i == end ? 1 : 0);
      neend.push_back(i != end ? 1 : 0);
      eqbeg.push_back(i == beg ? 1 : 0);
    }
    vj::J mat('[');
    if (with_matrix && its.size() <= 7)
      for (iterator const &i : its)
      {
        std::vector<long> row;
        for (iterator const &j : its) row.push_back(i == j ? 1 : 0);
        mat.el_raw(vj::arr(row));
      }
    vj::J o;
    o.kv("cut", cut).kv("post", post).kv("eqend", eqend).kv("neend", neend).kv("eqbeg", eqbeg);
    o.raw("mat", mat.str());
    return o.str();
  }

  std::string state_json()
  {
    rebuild_table();
    vj::J sl('[');
    for (int s = 1; s <= NS; ++s)
    {
      vj::J o;
      o.kv("live", slots[s].has_value());
      vj::J nodes('[');
      std::vector<long> pre, prec, prev;
      vj::J mapped('['), mappedu('[');
      long cpself = 0;
      std::string out = "[]", wout = "[]", pit = "{}", pitc = "{}", trit = "{}";
      if (slots[s].has_value())
      {
        tree *deepest = nullptr;
        std::size_t deepest_len = 0;
        bool all_safe = true;
        for (Entry const &e : table)
        {
          if (e.slot != s) continue;
          tree &t = *e.ptr;
          tree const &ct = t;
          vj::J n;
          long nk = 0;
          for (auto it = ct.children().begin(); it != ct.children().end(); ++it) ++nk;
          n.kv("v", LT::get(ct.value())).kv("nk", nk).kv("sz", ct.size()).kv("em", ct.empty());
          n.kv("par", ref_of_opt(t.parent())).kv("parc", ref_of_opt(ct.parent()));
          n.kv("fr", ref_of_opt(ct.front())).kv("bk", ref_of_opt(t.back()));
          n.kv("d", fcppt::container::tree::depth(ct));
          std::vector<long> tr, trn;
          bool const safe = walk_to_root(ct, tr);
          bool const safen = walk_to_root(t, trn);
          all_safe = all_safe && safe && safen;
          n.kv("l", safe ? static_cast<long>(fcppt::container::tree::level(ct)) : -3L);
          long cp = -1, cpc = -1;
          if (e.lister != nullptr)
          {
            auto const pos = fcppt::container::tree::child_position(*e.lister, t);
            if (pos.has_value()) cp = static_cast<long>(std::distance(e.lister->begin(), pos.get_unsafe()));
            tree const &cl = *e.lister;
            auto const posc = fcppt::container::tree::child_position(cl, ct);
            if (posc.has_value()) cpc = static_cast<long>(std::distance(cl.begin(), posc.get_unsafe()));
          }
          n.kv("cp", cp).kv("cpc", cpc).kv("tr", tr).kv("trn", trn);
          if constexpr (LT::printable)
          {
            std::ostringstream one;
            one << ct.value();
            n.raw("txt", vj::cps(one.str()));
          }
          nodes.el_raw(n.str());
          if (deepest == nullptr || e.path.size() >= deepest_len)
          {
            deepest = &t;
            deepest_len = e.path.size();
          }
        }
        tree &root = *slots[s];
        tree const &croot = root;
        for (tree &t : fcppt::container::tree::make_pre_order(root)) pre.push_back(ref_of(&t));
        {
          // const variant, explicit iterator protocol with operator->
          auto const range = fcppt::container::tree::make_pre_order(croot);
          for (auto it = range.begin(); it != range.end(); ++it)
          {
            prec.push_back(ref_of(&*it));
            prev.push_back(LT::get(it->value()));
          }
        }
        pit = iter_obs(fcppt::container::tree::make_pre_order(root), 64, true);
        pitc = iter_obs(fcppt::container::tree::make_pre_order(croot), 64, false);
        if (all_safe && deepest != nullptr) trit = iter_obs(fcppt::container::tree::make_to_root(*deepest), 64, false);
        {
          ltree const m = fcppt::container::tree::map<ltree>(croot, [](L const &x) { return 2L * LT::get(x) + 1L; });
          std::map<ltree const *, long> ids;
          dump_mapped(m, ids, mapped, [](long const &v) { return v; });
        }
        {
          // a move-only result type: "Maps a tree to another tree using _function"
          utree const m = fcppt::container::tree::map<utree>(
              croot, [](L const &x) { return std::make_unique<long>(2L * LT::get(x) + 1L); });
          std::map<utree const *, long> ids;
          dump_mapped(m, ids, mappedu, [](std::unique_ptr<long> const &v) { return v ? *v : -9L; });
        }
        cpself = fcppt::container::tree::child_position(root, root).has_value() ? 1 : 0;
        if constexpr (LT::printable)
        {
          std::ostringstream oss;
          oss << croot;
          out = vj::cps(oss.str());
          std::wostringstream woss;
          if constexpr (std::is_same_v<L, int>)
          {
            woss << croot;
            wout = vj::cps(woss.str());
          }
        }
      }
      o.raw("nodes", nodes.str()).kv("pre", pre).kv("prec", prec).kv("prev", prev);
      o.raw("map", mapped.str()).raw("mapu", mappedu.str()).kv("cpself", cpself);
      o.raw("out", out).raw("wout", wout).raw("pit", pit).raw("pitc", pitc).raw("trit", trit);
      sl.el_raw(o.str());
    }
    vj::J eq('['), ne('[');
    for (int s = 1; s <= NS; ++s)
    {
      std::vector<long> e, n;
      for (int u = 1; u <= NS; ++u)
      {
        bool const both = slots[s].has_value() && slots[u].has_value();
        if constexpr (LT::eq_by_value)
        {
          e.push_back(both ? (*slots[s] == *slots[u] ? 1 : 0) : -1);
          n.push_back(both ? (*slots[s] != *slots[u] ? 1 : 0) : -1);
        }
        else
        {
          (void)both;
          e.push_back(-1);
          n.push_back(-1);
        }
      }
      eq.el_raw(vj::arr(e));
      ne.el_raw(vj::arr(n));
    }
    // child_position(P, C) for EVERY ordered pair of live nodes of the forest - children, the node
    // itself, grandchildren, siblings, nodes of other slots: the offset of C in P's child list,
    // -1 if child_position returns nothing ("Returns an iterator pointing to the position in the
    // parent's child container where this object resides")
    std::vector<long> cpn;
    vj::J cpall('[');
    for (Entry const &p : table) cpn.push_back(static_cast<long>(p.slot) * 1000 + p.idx);
    for (Entry const &p : table)
    {
      std::vector<long> row;
      for (Entry const &c : table)
      {
        auto const pos = fcppt::container::tree::child_position(*p.ptr, *c.ptr);
        row.push_back(pos.has_value() ? static_cast<long>(std::distance(p.ptr->begin(), pos.get_unsafe())) : -1L);
      }
      cpall.el_raw(vj::arr(row));
    }
    return "\"slots\":" + sl.str() + ",\"eq\":" + eq.str() + ",\"ne\":" + ne.str() + ",\"cpn\":" + vj::arr(cpn) +
           ",\"cpall\":" + cpall.str();
  }

  void reset_all()
  {
    for (int i = 1; i <= NS; ++i) slots[i].reset();
  }
};

// ---------------------------------------------------------------------------------------
template <typename L>
struct driver : forest<L>
{
  using F = forest<L>;
  using LT = typename F::LT;
  using tree = typename F::tree;
  using F::slots;
  using F::table;
  bool drive_assign_from_descendant = true;

  static bool supports(std::string const &o)
  {
    if (!LT::copyable && (o == "copy_ctor" || o == "copy_assign")) return false;
    if (!LT::eq_by_value && (o == "eq" || o == "ne")) return false;
    return true;
  }

  static std::string op_prefix(Op const &op)
  {
    vj::J pre;
    pre.kv("e", "op").kv("lt", LT::name).kv("op", op.op).kv("as", op.as).kv("ap", op.ap).kv("bs", op.bs).kv("bp", op.bp);
    pre.kv("d", op.d).kv("pos", op.pos).kv("pos2", op.pos2).kv("x", op.x).kv("rv", op.rv).kv("ss", op.ss);
    return pre.s;
  }

  // Executes one operation on the real objects and logs it.
  void exec(Op const &op)
  {
    vj::begin_call(op_prefix(op));
    std::string const &o = op.op;
    bool const rv = op.rv || !LT::copyable;
    tree const *ret = nullptr;
    bool has_ret = false;
    bool some = false;
    bool rb = false;
    auto A = [&]() -> tree & { return this->node_at(op.as, op.ap); };
    auto B = [&]() -> tree & { return this->node_at(op.bs, op.bp); };
    auto at = [](tree &t, long pos) {
      typename tree::iterator it = t.begin();
      std::advance(it, pos);
      return it;
    };
    // calls f with the label as an rvalue (T && overload) or as a const lvalue (T const & overload)
    auto with_label = [&](auto const &f) {
      if constexpr (LT::copyable)
      {
        if (!rv)
        {
          L const lv = LT::make(op.x);
          f(lv);
          return;
        }
      }
      f(LT::make(op.x));
    };
    if (o == "ctor")
      with_label([&](auto &&l) { slots[op.d].emplace(std::forward<decltype(l)>(l)); });
    else if (o == "ctor_list")
    {
      typename tree::child_list l;
      for (int s : op.ss)
      {
        l.push_back(std::move(*slots[s]));
        slots[s].reset();
      }
      slots[op.d].emplace(LT::make(op.x), std::move(l));
    }
    else if (o == "copy_ctor")
    {
      if constexpr (LT::copyable) slots[op.d].emplace(static_cast<tree const &>(A()));
    }
    else if (o == "move_ctor") slots[op.d].emplace(std::move(A()));
    else if (o == "destroy") slots[op.as].reset();
    else if (o == "push_back")
    {
      tree &a = A();
      with_label([&](auto &&l) { ret = &a.push_back(std::forward<decltype(l)>(l)).get(); });
      has_ret = true;
    }
    else if (o == "push_front")
    {
      tree &a = A();
      with_label([&](auto &&l) { ret = &a.push_front(std::forward<decltype(l)>(l)).get(); });
      has_ret = true;
    }
    else if (o == "push_back_tree")
    {
      tree &a = A();
      tree &b = B();
      ret = &a.push_back(std::move(b)).get();
      has_ret = true;
    }
    else if (o == "push_front_tree")
    {
      tree &a = A();
      tree &b = B();
      ret = &a.push_front(std::move(b)).get();
      has_ret = true;
    }
    else if (o == "insert")
    {
      tree &a = A();
      with_label([&](auto &&l) { a.insert(at(a, op.pos), std::forward<decltype(l)>(l)); });
    }
    else if (o == "insert_tree")
    {
      tree &a = A();
      tree &b = B();
      a.insert(at(a, op.pos), std::move(b));
    }
    else if (o == "pop_back" || o == "pop_front")
    {
      tree &a = A();
      typename tree::optional_object r = o == "pop_back" ? a.pop_back() : a.pop_front();
      some = r.has_value();
      if (some && op.d != 0) slots[op.d].emplace(std::move(r.get_unsafe()));
    }
    else if (o == "erase")
    {
      tree &a = A();
      a.erase(at(a, op.pos));
    }
    else if (o == "erase_range")
    {
      tree &a = A();
      a.erase(at(a, op.pos), at(a, op.pos2));
    }
    else if (o == "release")
    {
      tree &a = A();
      tree r = a.release(at(a, op.pos));
      if (op.d != 0) slots[op.d].emplace(std::move(r));
    }
    else if (o == "clear") A().clear();
    else if (o == "sort")
    {
      if (op.x == 1) A().sort([](L const &l, L const &r) { return LT::get(l) > LT::get(r); });
      else
      {
        if constexpr (LT::has_less) A().sort();
        else A().sort([](L const &l, L const &r) { return LT::get(l) < LT::get(r); });
      }
    }
    else if (o == "swap")
    {
      tree &a = A();
      tree &b = B();
      a.swap(b);
    }
    else if (o == "swap_free")
    {
      tree &a = A();
      tree &b = B();
      swap(a, b); // fcppt::container::tree::swap by ADL
    }
    else if (o == "copy_assign")
    {
      if constexpr (LT::copyable)
      {
        tree &a = A();
        tree const &b = B();
        a = b;
      }
    }
    else if (o == "move_assign")
    {
      tree &a = A();
      tree &b = B();
      a = std::move(b);
    }
    else if (o == "set_value")
      with_label([&](auto &&l) { A().value(std::forward<decltype(l)>(l)); });
    else if (o == "eq" || o == "ne")
    {
      if constexpr (LT::eq_by_value)
      {
        tree const &a = A();
        tree const &b = B();
        rb = o == "eq" ? (a == b) : (a != b);
      }
    }
    else
    {
      std::fprintf(stderr, "unknown op %s\n", o.c_str());
      std::exit(3);
    }
    std::string const st = this->state_json(); // rebuilds the address table
    std::string rest = ",\"ret\":" + std::to_string(has_ret ? this->ref_of(ret) : -1L);
    rest += std::string(",\"some\":") + (some ? "true" : "false") + ",\"rb\":" + (rb ? "true" : "false") + "," + st + "}";
    vj::end_call(rest);
  }

  static void begin_history(long h) { vj::line(vj::J().kv("e", "reset").kv("h", h).kv("lt", LT::name)); }

  void end_history()
  {
    vj::begin_call(vj::J().kv("e", "end").s);
    this->reset_all();
    vj::end_call("}");
  }

  static std::size_t subtree_size(tree const &t)
  {
    std::size_t n = 1;
    for (tree const &c : t.children()) n += subtree_size(c);
    return n;
  }

  static std::size_t child_count(tree const &t)
  {
    return static_cast<std::size_t>(std::distance(t.children().begin(), t.children().end()));
  }

  // chooses an operation that is valid in the current state (API preconditions only)
  bool gen(vj::Rng &r, Op &op)
  {
    this->rebuild_table();
    std::vector<int> dead, live;
    for (int s = 1; s <= NS; ++s) (slots[s].has_value() ? live : dead).push_back(s);
    std::size_t const total = table.size();
    auto pick_dead = [&]() { return dead[r.below(dead.size())]; };
    auto pick_dead0 = [&]() { return (dead.empty() || r.below(4) == 0) ? 0 : pick_dead(); };
    for (int tries = 0; tries < 300; ++tries)
    {
      op = Op{};
      op.x = static_cast<long>(r.below(4));
      op.rv = r.coin();
      int const which = static_cast<int>(r.below(48));
      if (table.empty() || which < 3)
      {
        if (dead.empty() || total >= max_nodes) continue;
        if (which == 2 && !live.empty())
        {
          op.op = "ctor_list";
          op.d = pick_dead();
          std::vector<int> cand = live;
          std::size_t const n = r.below(cand.size() < 2 ? cand.size() + 1 : 3);
          for (std::size_t i = 0; i < n; ++i)
          {
            std::size_t const j = r.below(cand.size());
            op.ss.push_back(cand[j]);
            cand.erase(cand.begin() + static_cast<long>(j));
          }
          return true;
        }
        op.op = "ctor";
        op.d = pick_dead();
        return true;
      }
      auto const &a = table[r.below(table.size())];
      auto const &b = table[r.below(table.size())];
      op.as = a.slot;
      op.ap = a.path;
      std::size_t const nk = child_count(*a.ptr);
      bool const same_slot = a.slot == b.slot;
      bool const related = same_slot && (is_prefix(a.path, b.path) || is_prefix(b.path, a.path));
      bool const b_above_a = same_slot && is_prefix(b.path, a.path);
      // the source of an assignment may be a proper descendant of the destination ("replace a node
      // by one of its children"); it may not be the destination itself or one of its ancestors
      bool const assignable = !related || (drive_assign_from_descendant && !b_above_a);
      auto with_b = [&]() { op.bs = b.slot; op.bp = b.path; };
      switch (which)
      {
      case 3: case 4:
        if (!LT::copyable || dead.empty() || total + subtree_size(*a.ptr) > max_nodes) continue;
        op.op = "copy_ctor"; op.d = pick_dead(); return true;
      case 5:
        if (dead.empty() || total >= max_nodes) continue;
        op.op = "move_ctor"; op.d = pick_dead(); return true;
      case 6:
        if (!a.path.empty() || r.below(3) != 0) continue;
        op.op = "destroy"; return true;
      case 7: case 8: case 9: case 10:
        if (total >= max_nodes) continue;
        op.op = r.coin() ? "push_back" : "push_front"; return true;
      case 11: case 12: case 13:
        if (total >= max_nodes || b_above_a) continue;
        op.op = r.coin() ? "push_back_tree" : "push_front_tree"; with_b(); return true;
      case 14: case 15: case 16:
        if (total >= max_nodes) continue;
        op.op = "insert"; op.pos = static_cast<long>(r.below(nk + 1)); return true;
      case 17: case 18:
        if (total >= max_nodes || b_above_a) continue;
        op.op = "insert_tree"; op.pos = static_cast<long>(r.below(nk + 1)); with_b(); return true;
      case 19: case 20:
        op.op = r.coin() ? "pop_back" : "pop_front"; op.d = pick_dead0(); return true;
      case 21: case 22:
        if (nk == 0) continue;
        op.op = "erase"; op.pos = static_cast<long>(r.below(nk)); return true;
      case 23:
        op.op = "erase_range"; op.pos = static_cast<long>(r.below(nk + 1));
        op.pos2 = op.pos + static_cast<long>(r.below(nk - static_cast<std::size_t>(op.pos) + 1)); return true;
      case 24: case 25:
        if (nk == 0) continue;
        op.op = "release"; op.pos = static_cast<long>(r.below(nk)); op.d = pick_dead0(); return true;
      case 26:
        if (r.below(3) != 0) continue;
        op.op = "clear"; return true;
      case 27: case 28:
        op.op = "sort"; op.x = static_cast<long>(r.below(2)); return true;
      case 29: case 30: case 31: case 32:
        if (related) continue;
        op.op = r.coin() ? "swap" : "swap_free"; with_b(); return true;
      case 33: case 34: case 35: case 36:
        if (!LT::copyable || !assignable || total + subtree_size(*b.ptr) > max_nodes + subtree_size(*a.ptr)) continue;
        op.op = "copy_assign"; with_b(); return true;
      case 37: case 38: case 39: case 40:
        if (!assignable) continue;
        op.op = "move_assign"; with_b(); return true;
      case 41: case 42: case 43:
        op.op = "set_value"; return true;
      case 44: case 45:
        if (!LT::eq_by_value) continue;
        op.op = r.coin() ? "eq" : "ne"; with_b(); return true;
      default:
        if (total >= max_nodes) continue;
        op.op = "push_back"; return true;
      }
    }
    return false;
  }

  static Op from_json(vj::V const &v)
  {
    Op op;
    op.op = v.str("op");
    op.as = static_cast<int>(v.num_or("as", 0));
    op.bs = static_cast<int>(v.num_or("bs", 0));
    op.d = static_cast<int>(v.num_or("d", 0));
    if (v.has("ap")) for (long long q : v.nums("ap")) op.ap.push_back(static_cast<int>(q));
    if (v.has("bp")) for (long long q : v.nums("bp")) op.bp.push_back(static_cast<int>(q));
    if (v.has("ss")) for (long long q : v.nums("ss")) op.ss.push_back(static_cast<int>(q));
    op.pos = v.num_or("pos", 0);
    op.pos2 = v.num_or("pos2", 0);
    op.x = v.num_or("x", 0);
    op.rv = v.has("rv") ? v.at("rv").b : false;
    return op;
  }

  // record: seeded random histories
  void record(std::uint64_t seed, long hist, long maxlen)
  {
    for (long h = 0; h < hist; ++h)
    {
      vj::Rng r(seed * 1000003ULL + static_cast<std::uint64_t>(h));
      begin_history(h);
      // lengths 1..maxlen, biased towards the long ones (every fourth history is short)
      long const lo = (h % 4 == 0 || maxlen < 8) ? 1 : maxlen / 2;
      long const len = lo + static_cast<long>(r.below(static_cast<std::uint64_t>(maxlen - lo + 1)));
      for (long i = 0; i < len; ++i)
      {
        Op op;
        if (!gen(r, op)) break;
        exec(op);
      }
      end_history();
    }
  }

  // replay: one JSON array of op records per line; scripts that use an operation the label type
  // does not support (copying a move-only label, == on pointer labels) are skipped.
  // `stride`/`phase` select every stride-th script.
  long replay(std::vector<std::string> const &lines, long stride, long phase)
  {
    long h = 0, done = 0;
    for (auto const &l : lines)
    {
      if ((h++ % stride) != phase) continue;
      vj::VP script = vj::parse(l);
      bool ok = true;
      for (auto const &e : script->a) ok = ok && supports(e->str("op"));
      if (!ok) continue;
      begin_history(h - 1);
      for (auto const &e : script->a) exec(from_json(*e));
      end_history();
      ++done;
    }
    return done;
  }
};
}

#endif
