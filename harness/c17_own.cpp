// C17 conformance harness, part 3 (extension round; everything here is OBSERVED ONLY, it lies outside
// the statement of C17):
//   * histories of fcppt::shared_ptr / weak_ptr / unique_ptr operations over a few slots with an
//     instrumented pointee (constructor / destructor counters), judged against spec/Ownership.tla;
//   * "wrapx" records: reference_to_base / reference_to_const, recursive copy / move,
//     strong_typedef_map / apply / construct_cast / output / input, fcppt::function / make_function,
//     unique_ptr_to_const, unique_ptr_from_std of a null pointer, unique_ptr_dynamic_cast.
// No expected values: spec/OrderJudge.tla (TLC) is the judge.
//
// Compiled once per SECTION (two harness units, see c17_common.hpp / c17_main.cpp):
//   -DC17_SECTION_own    part "own":   the ownership histories
//   -DC17_SECTION_wrapx  part "wrapx": the wrapx records
#include "c17_common.hpp"

#include <fcppt/const_pointer_cast.hpp>
#include <fcppt/dynamic_pointer_cast.hpp>
#include <fcppt/enable_shared_from_this.hpp>
#include <fcppt/make_shared_ptr.hpp>
#include <fcppt/make_unique_ptr.hpp>
#include <fcppt/shared_ptr.hpp>
#include <fcppt/static_pointer_cast.hpp>
#include <fcppt/unique_ptr.hpp>
#include <fcppt/unique_ptr_from_std.hpp>
#include <fcppt/unique_ptr_to_base.hpp>
#include <fcppt/weak_ptr.hpp>
#include <fcppt/optional/object.hpp>

#ifdef C17_SECTION_wrapx
#include <fcppt/function.hpp>
#include <fcppt/make_function.hpp>
#include <fcppt/make_ref.hpp>
#include <fcppt/make_strong_typedef.hpp>
#include <fcppt/recursive.hpp>
#include <fcppt/reference.hpp>
#include <fcppt/reference_to_base.hpp>
#include <fcppt/reference_to_const.hpp>
#include <fcppt/strong_typedef.hpp>
#include <fcppt/strong_typedef_apply.hpp>
#include <fcppt/strong_typedef_construct_cast.hpp>
#include <fcppt/strong_typedef_input.hpp>
#include <fcppt/strong_typedef_map.hpp>
#include <fcppt/strong_typedef_output.hpp>
#include <fcppt/unique_ptr_dynamic_cast.hpp>
#include <fcppt/unique_ptr_to_const.hpp>
#include <fcppt/cast/dynamic_fun.hpp>
#include <fcppt/cast/size_fun.hpp>
#include <fcppt/variant/holds_type.hpp>
#endif

#include <memory>
#include <optional>
#include <sstream>
#include <string>
#include <utility>
#include <vector>

namespace
{
// ---------------------------------------------------------------- instrumented pointee
struct registry
{
  std::vector<int> ctors, dtors;
  void reset() { ctors.assign(1, 0); dtors.assign(1, 0); }
  int next() { ctors.push_back(0); dtors.push_back(0); return static_cast<int>(ctors.size()) - 1; }
};
registry reg;

struct pointee_base
{
  int id;
  explicit pointee_base(int const i) : id(i) { ++reg.ctors[static_cast<std::size_t>(id)]; }
  pointee_base(pointee_base const &) = delete;
  pointee_base &operator=(pointee_base const &) = delete;
  virtual ~pointee_base() { ++reg.dtors[static_cast<std::size_t>(id)]; }
};
struct pointee : pointee_base, fcppt::enable_shared_from_this<pointee>
{
  explicit pointee(int const i) : pointee_base(i) {}
  fcppt::shared_ptr<pointee> self() { return this->fcppt_shared_from_this(); }
};
struct unrelated : pointee_base
{
  explicit unrelated(int const i) : pointee_base(i) {}
};

using sp = fcppt::shared_ptr<pointee_base>;
using wp = fcppt::weak_ptr<pointee_base>;
using up = fcppt::unique_ptr<pointee_base>;

}

#ifdef C17_SECTION_own
namespace
{
constexpr std::size_t max_slots = 3;
struct machine
{
  std::optional<sp> sh[max_slots];
  std::optional<wp> wk[max_slots];
  std::optional<up> un[max_slots];
};

struct op
{
  std::string name;
  std::size_t a = 0, b = 0; // 1-based slots
};

std::string state_json(machine const &m, std::size_t const ns, std::size_t const nw, std::size_t const nu, int const ret)
{
  std::string s = "{\"sh\":[";
  for (std::size_t i = 0; i < ns; ++i)
  {
    if (i) s += ',';
    if (m.sh[i].has_value())
      s += "[" + std::to_string(c17::cl((*m.sh[i])->id)) + "," + std::to_string(c17::cl(m.sh[i]->use_count())) + "," + (m.sh[i]->unique() ? "1" : "0") + "," +
           ((m.sh[i]->get_pointer() == &**m.sh[i]) ? "1" : "0") + "]";
    else
      s += "[0,0,0,1]";
  }
  s += "],\"wk\":[";
  for (std::size_t i = 0; i < nw; ++i)
  {
    if (i) s += ',';
    if (m.wk[i].has_value())
      s += "[1," + std::to_string(c17::cl(m.wk[i]->use_count())) + "," + (m.wk[i]->expired() ? "1" : "0") + "]";
    else
      s += "[0,0,0]";
  }
  s += "],\"un\":[";
  for (std::size_t i = 0; i < nu; ++i)
  {
    if (i) s += ',';
    s += m.un[i].has_value() ? std::to_string(c17::cl((*m.un[i])->id)) : "0";
  }
  s += "],\"obj\":[";
  for (std::size_t o = 1; o < reg.ctors.size(); ++o)
  {
    if (o > 1) s += ',';
    s += "[" + std::to_string(reg.ctors[o]) + "," + std::to_string(reg.dtors[o]) + "]";
  }
  s += "],\"ret\":" + std::to_string(ret) + "}";
  return s;
}

// applies one operation; returns 1 = a pointer was returned, 0 = none, -1 = nothing to return
int apply(machine &m, op const &o)
{
  std::size_t const a = o.a - 1;
  std::size_t const b = o.b - 1;
  std::string const &n = o.name;
  if (n == "make_shared") { m.sh[a].emplace(sp(fcppt::make_shared_ptr<pointee>(reg.next()))); return -1; }
  if (n == "copy_shared") { m.sh[b].emplace(*m.sh[a]); return 1; }
  if (n == "static_cast") { m.sh[b].emplace(sp(fcppt::static_pointer_cast<pointee>(*m.sh[a]))); return 1; }
  if (n == "dynamic_cast")
  {
    auto r = fcppt::dynamic_pointer_cast<pointee>(*m.sh[a]);
    if (r.has_value()) m.sh[b].emplace(sp(r.get_unsafe()));
    return r.has_value() ? 1 : 0;
  }
  if (n == "dynamic_cast_fail") { return fcppt::dynamic_pointer_cast<unrelated>(*m.sh[a]).has_value() ? 1 : 0; }
  if (n == "const_cast")
  {
    fcppt::shared_ptr<pointee_base const> const c(*m.sh[a]);
    m.sh[b].emplace(fcppt::const_pointer_cast<pointee_base>(c));
    return 1;
  }
  if (n == "shared_from_this") { m.sh[b].emplace(sp(static_cast<pointee &>(**m.sh[a]).self())); return 1; }
  if (n == "assign_shared") { *m.sh[b] = *m.sh[a]; return -1; }
  if (n == "swap_shared") { m.sh[a]->swap(*m.sh[b]); return -1; }
  if (n == "move_shared") { m.sh[b].emplace(std::move(*m.sh[a])); m.sh[a].reset(); return -1; }
  if (n == "destroy_shared") { m.sh[a].reset(); return -1; }
  if (n == "weak_default") { m.wk[a].emplace(); return -1; }
  if (n == "weak_from_shared") { m.wk[a].emplace(*m.sh[b]); return -1; }
  if (n == "weak_copy") { m.wk[b].emplace(*m.wk[a]); return -1; }
  if (n == "weak_destroy") { m.wk[a].reset(); return -1; }
  if (n == "lock")
  {
    auto r = m.wk[a]->lock();
    if (r.has_value()) m.sh[b].emplace(r.get_unsafe());
    return r.has_value() ? 1 : 0;
  }
  if (n == "make_unique") { m.un[a].emplace(up(fcppt::unique_ptr_to_base<pointee_base>(fcppt::make_unique_ptr<pointee>(reg.next())))); return -1; }
  if (n == "make_unique_to_base")
  {
    fcppt::unique_ptr<pointee> d(fcppt::make_unique_ptr<pointee>(reg.next()));
    m.un[a].emplace(fcppt::unique_ptr_to_base<pointee_base>(std::move(d)));
    return -1;
  }
  if (n == "unique_from_std")
  {
    auto r = fcppt::unique_ptr_from_std(std::unique_ptr<pointee_base>(std::make_unique<pointee>(reg.next())));
    if (r.has_value()) m.un[a].emplace(std::move(r.get_unsafe()));
    return r.has_value() ? 1 : 0;
  }
  if (n == "move_unique") { m.un[b].emplace(std::move(*m.un[a])); m.un[a].reset(); return -1; }
  if (n == "destroy_unique") { m.un[a].reset(); return -1; }
  if (n == "shared_from_unique") { m.sh[b].emplace(sp(std::move(*m.un[a]))); m.un[a].reset(); return -1; }
  throw std::runtime_error("ownership history: unknown operation " + n);
}

void run_history(char const *src, std::size_t ns, std::size_t nw, std::size_t nu, std::vector<op> const &ops)
{
  reg.reset();
  vj::J pre;
  pre.kv("f", "own").kv("k", static_cast<long long>(c17::K())).kv("src", src).kv("ns", static_cast<long long>(ns)).kv("nw", static_cast<long long>(nw)).kv("nu", static_cast<long long>(nu));
  std::string opsj = "[";
  for (std::size_t k = 0; k < ops.size(); ++k)
  {
    vj::J j;
    j.kv("op", ops[k].name).kv("a", static_cast<long long>(ops[k].a)).kv("b", static_cast<long long>(ops[k].b));
    opsj += (k ? "," : "") + j.str();
  }
  pre.raw("ops", opsj + "]");
  vj::begin_call(pre.s);
  std::string r = ",\"obs\":[";
  {
    machine m;
    for (std::size_t k = 0; k < ops.size(); ++k)
    {
      int const ret = apply(m, ops[k]);
      r += (k ? "," : "") + state_json(m, ns, nw, nu, ret);
    }
  } // every slot is destroyed here
  r += "],\"end\":[";
  for (std::size_t o = 1; o < reg.ctors.size(); ++o)
    r += (o > 1 ? "," : "") + ("[" + std::to_string(reg.ctors[o]) + "," + std::to_string(reg.dtors[o]) + "]");
  r += "]}";
  vj::end_call(r);
}

// The random driver picks operations whose API precondition holds by looking at which of ITS OWN slot
// variables currently hold a pointer object (shape only; it predicts no results).
struct shape
{
  bool sh[max_slots] = {}, wk[max_slots] = {}, un[max_slots] = {};
  int objects = 0;
  bool from_unique = false; // some shared_ptr may own an object that came from a unique_ptr
  void look(machine const &m)
  {
    for (std::size_t i = 0; i < max_slots; ++i)
    {
      sh[i] = m.sh[i].has_value();
      wk[i] = m.wk[i].has_value();
      un[i] = m.un[i].has_value();
    }
  }
};

bool random_op(vj::Rng &g, shape &s, std::size_t ns, std::size_t nw, std::size_t nu, int max_objects, op &o)
{
  static char const *const names[] = {"make_shared", "make_shared", "copy_shared", "copy_shared", "static_cast", "dynamic_cast",
                                      "dynamic_cast_fail", "const_cast", "shared_from_this", "assign_shared", "swap_shared",
                                      "move_shared", "destroy_shared", "destroy_shared", "weak_default", "weak_from_shared",
                                      "weak_from_shared", "weak_copy", "weak_destroy", "lock", "lock", "lock", "make_unique",
                                      "make_unique_to_base", "unique_from_std", "move_unique", "destroy_unique", "shared_from_unique"};
  for (int attempt = 0; attempt < 60; ++attempt)
  {
    o.name = names[g.below(sizeof names / sizeof names[0])];
    std::string const &n = o.name;
    o.a = 1 + g.below(max_slots);
    o.b = 1 + g.below(max_slots);
    std::size_t const a = o.a - 1, b = o.b - 1;
    bool ok = false;
    if (n == "make_shared") { ok = a < ns && !s.sh[a] && s.objects < max_objects; if (ok) ++s.objects; o.b = 0; }
    else if (n == "copy_shared" || n == "static_cast" || n == "dynamic_cast" || n == "const_cast" || n == "shared_from_this")
    {
      // (shared_from_this is only usable on objects created by make_shared_ptr<pointee>)
      ok = a < ns && b < ns && s.sh[a] && !s.sh[b] && !(n == "shared_from_this" && s.from_unique);
    }
    else if (n == "dynamic_cast_fail") { ok = a < ns && s.sh[a]; o.b = 0; }
    else if (n == "assign_shared" || n == "swap_shared") { ok = a < ns && b < ns && s.sh[a] && s.sh[b]; }
    else if (n == "move_shared") { ok = a < ns && b < ns && s.sh[a] && !s.sh[b]; }
    else if (n == "destroy_shared") { ok = a < ns && s.sh[a]; o.b = 0; }
    else if (n == "weak_default") { ok = a < nw && !s.wk[a]; o.b = 0; }
    else if (n == "weak_from_shared") { ok = a < nw && b < ns && !s.wk[a] && s.sh[b]; }
    else if (n == "weak_copy") { ok = a < nw && b < nw && s.wk[a] && !s.wk[b]; }
    else if (n == "weak_destroy") { ok = a < nw && s.wk[a]; o.b = 0; }
    else if (n == "lock") { ok = a < nw && b < ns && s.wk[a] && !s.sh[b]; }
    else if (n == "make_unique" || n == "make_unique_to_base" || n == "unique_from_std")
    { ok = a < nu && !s.un[a] && s.objects < max_objects; if (ok) ++s.objects; o.b = 0; }
    else if (n == "move_unique") { ok = a < nu && b < nu && s.un[a] && !s.un[b]; }
    else if (n == "destroy_unique") { ok = a < nu && s.un[a]; o.b = 0; }
    else if (n == "shared_from_unique") { ok = a < nu && b < ns && s.un[a] && !s.sh[b]; if (ok) s.from_unique = true; }
    if (ok) return true;
  }
  return false;
}

std::string op_json(op const &o)
{
  vj::J j;
  j.kv("op", o.name).kv("a", static_cast<long long>(o.a)).kv("b", static_cast<long long>(o.b));
  return j.str();
}

// a random history: the operations are chosen while it runs, so the record is written at the end
// (the flushed prefix names the seed, which reproduces the history)
void run_random_history(unsigned long long const seed, long const h, std::size_t ns, std::size_t nw, std::size_t nu)
{
  reg.reset();
  vj::J pre;
  pre.kv("f", "own").kv("k", static_cast<long long>(c17::K())).kv("src", "rnd").kv("hseed", static_cast<long long>(seed % 1000000ULL)).kv("h", static_cast<long long>(h))
      .kv("ns", static_cast<long long>(ns)).kv("nw", static_cast<long long>(nw)).kv("nu", static_cast<long long>(nu));
  vj::begin_call(pre.s);
  vj::Rng g(seed * 1000003ULL + static_cast<unsigned long long>(h));
  std::string opsj, obsj;
  {
    machine m;
    shape s;
    unsigned const len = 1 + static_cast<unsigned>(g.below(30));
    for (unsigned i = 0; i < len; ++i)
    {
      op o;
      s.look(m);
      if (!random_op(g, s, ns, nw, nu, 6, o)) break;
      int const ret = apply(m, o);
      opsj += (opsj.empty() ? "" : ",") + op_json(o);
      obsj += (obsj.empty() ? "" : ",") + state_json(m, ns, nw, nu, ret);
    }
  }
  std::string r = ",\"ops\":[" + opsj + "],\"obs\":[" + obsj + "],\"end\":[";
  for (std::size_t o = 1; o < reg.ctors.size(); ++o)
    r += (o > 1 ? "," : "") + ("[" + std::to_string(reg.ctors[o]) + "," + std::to_string(reg.dtors[o]) + "]");
  vj::end_call(r + "]}");
}

}
#endif // C17_SECTION_own

#ifdef C17_SECTION_wrapx
namespace
{
// ---------------------------------------------------------------- wrapx records
void wrapx(char const *kind, std::vector<long long> const &in, std::vector<long long> const &out)
{
  vj::J j;
  std::vector<long long> o;
  for (long long const x : out) o.push_back(c17::clampv(x));
  j.kv("f", "wrapx").kv("k", static_cast<long long>(c17::K())).kv("kind", kind).raw("in", vj::arr(in)).raw("out", vj::arr(o));
  vj::line(j);
}

FCPPT_MAKE_STRONG_TYPEDEF(int, st_int);
FCPPT_MAKE_STRONG_TYPEDEF(long, st_long);

int affine(int const x) { return 3 * x + 1; }
int combine(int const x, int const y) { return x - 2 * y; }

struct shape_base
{
  int tag = 0;
  virtual ~shape_base() = default;
};
struct shape_derived : shape_base
{
  int extra = 0;
};
struct shape_other : shape_base
{
};

std::vector<long long> cps_of(std::string const &s)
{
  std::vector<long long> r;
  for (unsigned char c : s) r.push_back(c);
  return r;
}

void wrapx_records()
{
  for (int v : {0, 1, 2, -7, 40})
  {
    if (!c17::take()) continue;
    int const w = v + 100;
    {
      shape_derived d;
      d.tag = v;
      fcppt::reference<shape_derived> const rd(fcppt::make_ref(d));
      fcppt::reference<shape_base> const rb(fcppt::reference_to_base<shape_base>(rd));
      wrapx("reference_to_base", {v}, {(&rb.get() == static_cast<shape_base *>(&d)) ? 1 : 0, rb.get().tag});
      fcppt::reference<shape_derived const> const rc(fcppt::reference_to_const(rd));
      wrapx("reference_to_const", {v}, {(&rc.get() == &d) ? 1 : 0, rc.get().tag});
    }
    {
      fcppt::recursive<int> r(v);
      fcppt::recursive<int> c(r);
      bool const distinct = &c.get() != &r.get();
      c.get() = w;
      wrapx("recursive_copy", {v, w}, {r.get(), c.get(), distinct ? 1 : 0});
      fcppt::recursive<int> e(0);
      e = r;
      bool const distinct2 = &e.get() != &r.get();
      e.get() = w;
      wrapx("recursive_copy_assign", {v, w}, {r.get(), e.get(), distinct2 ? 1 : 0});
      fcppt::recursive<int> moved(std::move(r));
      r = fcppt::recursive<int>(w); // a moved-from recursive can be assigned to
      wrapx("recursive_move", {v, w}, {moved.get(), r.get()});
    }
    {
      st_int const a(v);
      st_int const b(w);
      auto const neg = fcppt::strong_typedef_map(a, [](int const x) { return -x; });
      wrapx("st_map_neg", {v}, {neg.get()});
      auto const wide = fcppt::strong_typedef_map(a, [](int const x) { return static_cast<long>(x) * 2L; });
      wrapx("st_map_double_long", {v}, {wide.get()});
      auto const sub = fcppt::strong_typedef_apply([](int const x, int const y) { return x - y; }, a, b);
      wrapx("st_apply_sub", {v, w}, {sub.get()});
      auto const three = fcppt::strong_typedef_apply([](int const x, int const y, int const z) { return x * y + z; }, a, b, a);
      wrapx("st_apply_muladd", {v, w, v}, {three.get()});
      st_int const cc(fcppt::strong_typedef_construct_cast<st_int, fcppt::cast::size_fun>(static_cast<short>(v)));
      wrapx("st_construct_cast", {v}, {cc.get()});
      std::ostringstream os;
      os << a;
      wrapx("st_output", {v}, cps_of(os.str()));
      std::istringstream is(os.str());
      st_int back(99);
      is >> back;
      wrapx("st_io_roundtrip", {v}, {back.get(), is.fail() ? 0 : 1});
    }
    {
      fcppt::function<int(int)> const f{[](int const x) { return 3 * x + 1; }};
      wrapx("function_call", {v}, {f(v)});
      fcppt::function<int(int)> const g(f);
      wrapx("function_copy_call", {v}, {g(v)});
      auto const mf(fcppt::make_function(affine));
      wrapx("make_function_call", {v}, {mf(v)});
      auto const mf2(fcppt::make_function(combine));
      wrapx("make_function2_call", {v, w}, {mf2(v, w)});
    }
    {
      reg.reset();
      int const id = reg.next();
      fcppt::unique_ptr<pointee> p(fcppt::make_unique_ptr<pointee>(id));
      pointee const *const raw = p.get_pointer();
      fcppt::unique_ptr<pointee const> c(fcppt::unique_ptr_to_const(std::move(p)));
      wrapx("unique_ptr_to_const", {id}, {(c.get_pointer() == raw) ? 1 : 0, c->id, reg.dtors[static_cast<std::size_t>(id)]});
    }
    {
      reg.reset();
      int const id = reg.next();
      up p(fcppt::unique_ptr_to_base<pointee_base>(fcppt::make_unique_ptr<pointee>(id)));
      pointee_base const *const raw = p.get_pointer();
      auto res = fcppt::unique_ptr_dynamic_cast<fcppt::cast::dynamic_fun, pointee>(std::move(p));
      bool const derived = fcppt::variant::holds_type<fcppt::unique_ptr<pointee>>(res);
      wrapx("unique_ptr_dynamic_cast_ok", {id}, {derived ? 1 : 0, reg.dtors[static_cast<std::size_t>(id)]});
      (void)raw;
      int const id2 = reg.next();
      up q(fcppt::unique_ptr_to_base<pointee_base>(fcppt::make_unique_ptr<pointee>(id2)));
      auto res2 = fcppt::unique_ptr_dynamic_cast<fcppt::cast::dynamic_fun, unrelated>(std::move(q));
      bool const kept = fcppt::variant::holds_type<up>(res2);
      wrapx("unique_ptr_dynamic_cast_fail", {id2}, {kept ? 1 : 0, reg.dtors[static_cast<std::size_t>(id2)]});
    }
  }
  {
    auto const none = fcppt::unique_ptr_from_std(std::unique_ptr<int>());
    wrapx("unique_ptr_from_std_null", {}, {none.has_value() ? 1 : 0});
  }
  // strong_typedef input: texts chosen by the driver
  for (std::string const &text : {std::string("42"), std::string("-7"), std::string("  13"), std::string("5 6"), std::string("x"), std::string("")})
  {
    std::istringstream is(text);
    st_int val(99);
    is >> val;
    wrapx("st_input", cps_of(text), {is.fail() ? 0 : 1, val.get()});
  }
}
}

C17_PART(wrapx)
{
  (void)seed;
  (void)thorough;
  (void)extra;
  wrapx_records();
}
#endif // C17_SECTION_wrapx

#ifdef C17_SECTION_own
C17_PART(own)
{
  // spec -> code: TLC-generated scripts (one JSON array of [op, a, b] records per line)
  if (extra != nullptr)
    for (auto const &line : vj::read_lines(extra))
    {
      if (!c17::take()) continue;
      vj::VP const sc = vj::parse(line);
      std::vector<op> ops;
      for (auto const &e : sc->a)
      {
        op o;
        o.name = e->str("op");
        o.a = static_cast<std::size_t>(e->num("a"));
        o.b = static_cast<std::size_t>(e->num("b"));
        ops.push_back(o);
      }
      run_history("script", 3, 3, 3, ops);
    }
  // code -> spec: random histories
  long const nh = thorough != 0 ? 20000 : 1500;
  for (long h = 0; h < nh; ++h)
    if (c17::take()) run_random_history(seed, h, 3, 2, 2);
}
#endif
