// Core unit of the C11 harness (see the head of c11_intrusive.cpp): only what the statement of C11
// names, compiled separately when the full harness does not compile against the tree under test.
#define C11_CORE_SIG
#include "c11_intrusive.cpp"
