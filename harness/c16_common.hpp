// C16 conformance harness, shared part: record writer, call log, user-function tables.
// The harness only DRIVES the real fcppt functions and RECORDS inputs, results, final states of
// mutated containers and the call log of the user function.  It contains no expected values:
// spec/AlgorithmsJudge.tla (TLC) is the judge.
#ifndef VERIF_C16_COMMON_HPP
#define VERIF_C16_COMMON_HPP

#include <common/vjson.hpp>

#include <fcppt/loop.hpp>
#include <fcppt/tag.hpp>
#include <fcppt/algorithm/update_action.hpp>
#include <fcppt/optional/object.hpp>

#include <array>
#include <cstddef>
#include <string>
#include <sys/time.h>
#include <type_traits>
#include <utility>
#include <vector>

namespace c16
{
enum class E3
{
  e0,
  e1,
  e2,
  fcppt_maximum = e2
};

// ---------------------------------------------------------------- call log
inline std::string &LOG()
{
  static std::string s;
  return s;
}
inline long &CALLS()
{
  static long n = 0;
  return n;
}
// A user function called absurdly often (a loop of the code under test that does not stop, e.g. a
// counter of a narrower type that wraps): stop like the watchdog does - crash record "hang", exit
// code 68 after the flushed record prefix - instead of growing the call log without bound.
constexpr long MAX_CALLS = 3000000;
inline void lg(std::string const &e)
{
  if (CALLS() >= MAX_CALLS)
  {
    vj::crash_line("hang", 68);
    _exit(68);
  }
  if (!LOG().empty()) LOG() += ',';
  LOG() += e;
  ++CALLS();
}
// Watchdog around every driven call: 20 s of CPU time of this process (ITIMER_PROF; immune to the
// box being overloaded) or 600 s of wall-clock time (a call that blocks).  SIGPROF is handled in
// c16_main.cpp, SIGALRM by vj::on_signal: both leave a crash record "hang" and exit with 68.
inline void watchdog_arm()
{
  struct itimerval t{};
  t.it_value.tv_sec = 20;
  ::setitimer(ITIMER_PROF, &t, nullptr);
  ::alarm(600);
}
inline long &NREC()
{
  static long n = 0;
  return n;
}

// ---------------------------------------------------------------- elements as JSON / codes
// TLC integers are 32-bit: every logged integer is clamped to [-2^30, 2^30].  Honest values are tiny
// (elements 0..2, positions and sizes below a few hundred); a garbage size / position / element
// (SIZE_MAX, a wrapped difference) stays different from every predicted value and is rejected by the
// judge as wrong-<field> instead of breaking TLC's JSON reader.
constexpr long long CLAMP = 1LL << 30;
inline long long clamp(long long x) { return x > CLAMP ? CLAMP : x < -CLAMP ? -CLAMP : x; }
inline long long clamp_u(unsigned long long x) { return x > static_cast<unsigned long long>(CLAMP) ? CLAMP : static_cast<long long>(x); }
inline std::string ej(int x) { return std::to_string(clamp(x)); }
inline std::string ej(long x) { return std::to_string(clamp(x)); }
inline std::string ej(unsigned x) { return std::to_string(clamp_u(x)); }
inline std::string ej(unsigned long x) { return std::to_string(clamp_u(x)); }
inline std::string ej(char x) { return std::to_string(static_cast<int>(static_cast<unsigned char>(x))); }
inline std::string ej(wchar_t x) { return std::to_string(clamp(static_cast<long>(x))); }
inline std::string ej(bool x) { return x ? "true" : "false"; }
inline std::string ej(E3 x) { return std::to_string(clamp(static_cast<int>(x))); }
template <typename A, typename B>
inline std::string ej(std::pair<A, B> const &p)
{
  return "[" + ej(p.first) + "," + ej(p.second) + "]";
}
template <int N>
inline std::string ej(fcppt::tag<std::integral_constant<int, N>>)
{
  return std::to_string(N);
}
template <typename T>
inline std::string ej(fcppt::optional::object<T> const &o)
{
  return o.has_value() ? "[" + ej(o.get_unsafe()) + "]" : std::string("[]");
}

inline int code(int x) { return x; }
inline int code(long x) { return static_cast<int>(x); }
inline int code(unsigned x) { return static_cast<int>(x); }
inline int code(unsigned long x) { return static_cast<int>(x); }
inline int code(E3 x) { return static_cast<int>(x); }
template <typename A, typename B>
inline int code(std::pair<A, B> const &p)
{
  return static_cast<int>(p.second);
}
template <int N>
inline int code(fcppt::tag<std::integral_constant<int, N>>)
{
  return N;
}

// any iterable of loggable elements, by plain iteration
template <typename C>
inline std::string seqj(C const &c)
{
  std::string s = "[";
  bool first = true;
  for (auto const &x : c)
  {
    if (!first) s += ',';
    first = false;
    s += ej(x);
  }
  return s + "]";
}
// sequences of sequences (strings as code point arrays, containers of containers)
template <typename C>
inline std::string seqseqj(C const &c)
{
  std::string s = "[";
  bool first = true;
  for (auto const &x : c)
  {
    if (!first) s += ',';
    first = false;
    s += seqj(x);
  }
  return s + "]";
}

// ---------------------------------------------------------------- record writer
struct Rec
{
  std::string s;
  explicit Rec(char const *f)
  {
    s = "{\"f\":\"";
    s += f;
    s += '"';
  }
  Rec &k(char const *key, std::string const &json)
  {
    s += ",\"";
    s += key;
    s += "\":";
    s += json;
    return *this;
  }
  Rec &ks(char const *key, char const *str)
  {
    s += ",\"";
    s += key;
    s += "\":\"";
    s += str;
    s += '"';
    return *this;
  }
  Rec &ki(char const *key, long long v) { return k(key, std::to_string(clamp(v))); }
  Rec &kb(char const *key, bool v) { return k(key, v ? "true" : "false"); }
  // inputs are complete: flush them, then the real call is made
  void begin()
  {
    LOG().clear();
    CALLS() = 0;
    watchdog_arm();
    vj::begin_call(s);
    s.clear();
  }
  void end_log()
  {
    k("log", "[" + LOG() + "]");
    end();
  }
  void end_calls()
  {
    ki("calls", CALLS());
    end();
  }
  void end()
  {
    s += '}';
    vj::end_call(s);
    ++NREC();
  }
};

// ---------------------------------------------------------------- user functions as tables
struct UF // {0,1,2} -> {0,1,2}, 27 tables
{
  std::array<int, 3> t;
  explicit UF(int idx) : t{idx % 3, (idx / 3) % 3, (idx / 9) % 3} {}
  template <typename X>
  int operator()(X const &x) const
  {
    lg(ej(x));
    return t[static_cast<std::size_t>(code(x))];
  }
  std::string json() const { return seqj(t); }
};

struct PF // predicates, 8 tables
{
  std::array<bool, 3> t;
  explicit PF(int idx) : t{(idx & 1) != 0, (idx & 2) != 0, (idx & 4) != 0} {}
  template <typename X>
  bool operator()(X const &x) const
  {
    lg(ej(x));
    return t[static_cast<std::size_t>(code(x))];
  }
  std::string json() const { return seqj(t); }
};

struct BF // loop bodies: break where the table says so
{
  PF p;
  explicit BF(int idx) : p(idx) {}
  template <typename X>
  fcppt::loop operator()(X const &x) const
  {
    return p(x) ? fcppt::loop::break_ : fcppt::loop::continue_;
  }
  std::string json() const { return p.json(); }
};

struct AF // update actions: remove where the table says so
{
  PF p;
  explicit AF(int idx) : p(idx) {}
  template <typename X>
  fcppt::algorithm::update_action operator()(X const &x) const
  {
    return p(x) ? fcppt::algorithm::update_action::remove : fcppt::algorithm::update_action::keep;
  }
  std::string json() const { return p.json(); }
};

struct OF // {0,1,2} -> optional {0,1,2}, 64 tables (digit 3 = nothing)
{
  std::array<int, 3> t;
  explicit OF(int idx) : t{idx % 4, (idx / 4) % 4, (idx / 16) % 4} {}
  template <typename X>
  fcppt::optional::object<int> operator()(X const &x) const
  {
    lg(ej(x));
    int const v = t[static_cast<std::size_t>(code(x))];
    return v == 3 ? fcppt::optional::object<int>{} : fcppt::optional::object<int>{v};
  }
  std::string json() const
  {
    std::string s = "[";
    for (std::size_t i = 0; i < 3; ++i)
    {
      if (i) s += ',';
      s += t[i] == 3 ? std::string("[]") : "[" + std::to_string(t[i]) + "]";
    }
    return s + "]";
  }
};

// {0,1,2} -> sequences, 125 tables over a pool of 5 sequences
inline std::vector<int> const &pool_seq(int i)
{
  static std::vector<std::vector<int>> const pool{{}, {0}, {1, 2}, {2, 2, 1}, {1, 0}};
  return pool[static_cast<std::size_t>(i)];
}
template <typename Target>
struct SF
{
  std::array<int, 3> t;
  explicit SF(int idx) : t{idx % 5, (idx / 5) % 5, (idx / 25) % 5} {}
  template <typename X>
  Target operator()(X const &x) const
  {
    lg(ej(x));
    std::vector<int> const &v = pool_seq(t[static_cast<std::size_t>(code(x))]);
    return Target(v.begin(), v.end());
  }
  std::string json() const
  {
    std::string s = "[";
    for (std::size_t i = 0; i < 3; ++i)
    {
      if (i) s += ',';
      s += seqj(pool_seq(t[i]));
    }
    return s + "]";
  }
};

// fold functions: (element, state) -> state over a 3x3 table of states 0..2
struct FF
{
  std::array<std::array<int, 3>, 3> t;
  explicit FF(vj::Rng &rng)
  {
    for (auto &row : t)
      for (auto &x : row) x = static_cast<int>(rng.below(3));
  }
  template <typename X>
  int operator()(X const &x, int const st) const
  {
    lg("[" + ej(x) + "," + ej(st) + "]");
    return t[static_cast<std::size_t>(code(x))][static_cast<std::size_t>(st)];
  }
  std::string json() const { return seqseqj(t); }
};

// fold_break functions: (element, state) -> (loop, state)
struct FBF
{
  std::array<std::array<std::pair<bool, int>, 3>, 3> t;
  FBF(vj::Rng &rng, unsigned break_one_in)
  {
    for (auto &row : t)
      for (auto &x : row) x = std::make_pair(rng.below(break_one_in) == 0, static_cast<int>(rng.below(3)));
  }
  template <typename X>
  std::pair<fcppt::loop, int> operator()(X const &x, int const st) const
  {
    lg("[" + ej(x) + "," + ej(st) + "]");
    auto const &e = t[static_cast<std::size_t>(code(x))][static_cast<std::size_t>(st)];
    return std::make_pair(e.first ? fcppt::loop::break_ : fcppt::loop::continue_, e.second);
  }
  std::string json() const { return seqseqj(t); }
};

// binary predicates for unique_if: the 5 equivalence relations on {0,1,2}
struct EQF
{
  std::array<int, 3> cls; // class of every element
  explicit EQF(int idx)
  {
    static int const part[5][3] = {{0, 1, 2}, {0, 0, 2}, {0, 1, 0}, {0, 1, 1}, {0, 0, 0}};
    cls = {part[idx][0], part[idx][1], part[idx][2]};
  }
  bool operator()(int const a, int const b) const
  {
    lg("[" + ej(a) + "," + ej(b) + "]");
    return cls[static_cast<std::size_t>(a)] == cls[static_cast<std::size_t>(b)];
  }
  std::string json() const
  {
    std::string s = "[";
    for (std::size_t a = 0; a < 3; ++a)
    {
      if (a) s += ',';
      s += '[';
      for (std::size_t b = 0; b < 3; ++b)
      {
        if (b) s += ',';
        s += cls[a] == cls[b] ? "true" : "false";
      }
      s += ']';
    }
    return s + "]";
  }
};

// ---------------------------------------------------------------- enumeration helpers
// all sequences over {0..base-1} of length len, in lexicographic order
template <typename F>
inline void each_seq(unsigned len, unsigned base, F const &f)
{
  std::vector<int> v(len, 0);
  for (;;)
  {
    f(v);
    std::size_t i = len;
    while (i > 0)
    {
      --i;
      if (v[i] + 1 < static_cast<int>(base))
      {
        ++v[i];
        break;
      }
      v[i] = 0;
      if (i == 0) return;
    }
    if (len == 0) return;
  }
}
template <typename F>
inline void each_seq_upto(unsigned maxlen, unsigned base, F const &f)
{
  for (unsigned l = 0; l <= maxlen; ++l) each_seq(l, base, f);
}
inline bool sorted(std::vector<int> const &v)
{
  for (std::size_t i = 1; i < v.size(); ++i)
    if (v[i - 1] > v[i]) return false;
  return true;
}

// table selection: every table index for "full" inputs, otherwise `few` seeded picks
struct Sel
{
  vj::Rng rng;
  bool thorough;
  unsigned few;
  bool sample_only = false; // inputs beyond the exhaustive bound: seeded picks in the thorough tier as well
  Sel(std::uint64_t seed, bool th) : rng(seed), thorough(th), few(2) {}
  template <typename F>
  void tables(int n, bool full, F const &f)
  {
    if ((thorough && !sample_only) || full)
    {
      for (int i = 0; i < n; ++i) f(i);
    }
    else
    {
      for (unsigned k = 0; k < (thorough ? 4U * few : few); ++k) f(static_cast<int>(rng.below(static_cast<std::uint64_t>(n))));
    }
  }
};

// scope guard: table families are sampled (also in the thorough tier) while it lives
struct SampleOnly
{
  Sel &sel;
  bool old;
  explicit SampleOnly(Sel &s) : sel(s), old(s.sample_only) { sel.sample_only = true; }
  ~SampleOnly() { sel.sample_only = old; }
  SampleOnly(SampleOnly const &) = delete;
  SampleOnly &operator=(SampleOnly const &) = delete;
};
}

#endif
