// C10 harness: the executable for the enum with 3 enumerators, stored in 8/16/32/64-bit
// words (driver and main: c10_bitfield.hpp; compiled a second time, with C10_OBSERVED, by
// c10_bitfield_x3.cpp for the record kinds outside the statement)
#include "c10_bitfield.hpp"

namespace
{
enum class e3
{
  v0, v1, v2,
  fcppt_maximum = v2
};
}

C10_MAIN(e3)
