// C05 harness, part 4: fcppt::container::grid and fcppt::container::tree operations.
// Compiled once per unit (-DC05_UNIT_GRIDS, -DC05_UNIT_TREES).
#include "c05_common.hpp"

#include <fcppt/container/grid/apply.hpp>
#include <fcppt/container/grid/map.hpp>
#include <fcppt/container/grid/object.hpp>
#include <fcppt/container/grid/resize.hpp>
#include <fcppt/container/grid/static_row.hpp>
#include <fcppt/container/grid/static_row_type.hpp>
#include <fcppt/container/tree/map.hpp>
#include <fcppt/container/tree/object_impl.hpp>
#include <fcppt/math/dim/comparison.hpp>

#include <string>
#include <utility>
#include <vector>

namespace
{
using namespace c05;
using vec = std::vector<T>;
using grid = fcppt::container::grid::object<T, 2>;
using tree = fcppt::container::tree::object<T>;

grid mk_grid(unsigned w, unsigned h)
{
  return grid{grid::dim{w, h}, [](grid::pos const &) { return T(next_tok()); }};
}
// a tree with `kids` children, the first of which has one child of its own
tree mk_tree(int kids)
{
  tree t{T(next_tok())};
  for (int i = 0; i < kids; ++i)
  {
    tree::reference const child{t.push_back(T(next_tok()))};
    if (i == 0) child.get().push_back(T(next_tok()));
  }
  return t;
}
// the same with elements that count as made by a continuation (tokens 1000..): a target to assign to
[[maybe_unused]] tree mk_tree_cb(int kids)
{
  cb_scope const g{""};
  tree t{T(1000)};
  for (int i = 0; i < kids; ++i) t.push_back(T(1001 + i));
  return t;
}

#ifdef C05_UNIT_GRIDS
void grids()
{
  // grid(row, row): "constructs a grid from rows"; every combination of value categories of the two rows
  for_cats<'r', 'l', 'c'>([&](auto c1)
  {
    for_cats<'r', 'l', 'c'>([&](auto c2)
    {
      using row = fcppt::container::grid::static_row_type<T, 2U>;
      auto const mk_row = [] { return row{T(next_tok()), T(next_tok())}; };
      run2<decltype(c1)::value, decltype(c2)::value>("grid::object(rows)", true, "2x2", mk_row, mk_row,
          [](auto &&a, auto &&b) C05_CALL(grid(C05_FWD(a), C05_FWD(b))));
    });
  });

  {
    // three rows (only rvalue rows are accepted: is_static_row is asked about the unstripped type)
    using row = fcppt::container::grid::static_row_type<T, 2U>;
    auto const mk_row = [] { return row{T(next_tok()), T(next_tok())}; };
    run3<'r', 'r', 'r'>("grid::object(rows)", true, "2x3", mk_row, mk_row, mk_row,
        [](auto &&a, auto &&b, auto &&cc) C05_CALL(grid(C05_FWD(a), C05_FWD(b), C05_FWD(cc))));
  }

  std::vector<std::pair<unsigned, unsigned>> shapes{{0U, 0U}, {1U, 1U}, {2U, 2U}, {3U, 1U}};
  if (thorough())
  {
    shapes.emplace_back(1U, 3U);
    shapes.emplace_back(3U, 2U);
    shapes.emplace_back(2U, 0U);
  }
  for (auto const &wh : shapes)
  {
    unsigned const w = wh.first, h = wh.second;
    std::string const sh = std::to_string(w) + "x" + std::to_string(h);
    auto const mk = [w, h] { return mk_grid(w, h); };
    for_cats<'r', 'l', 'c'>([&](auto c)
    {
      constexpr char C = decltype(c)::value;
      run1<C>("grid::map", true, sh, mk, [](auto &&a) { return fcppt::container::grid::map(C05_FWD(a), pass); });
      run1<C>("grid::resize", true, sh + "->grow", mk, [w, h](auto &&a)
      {
        return fcppt::container::grid::resize(C05_FWD(a), grid::dim{w + 1U, h + 1U}, [](grid::pos const &)
        {
          cb_scope const g{""};
          return T(1000);
        });
      });
      if (w > 0U)
        run1<C>("grid::resize", false, sh + "->shrink", mk, [w, h](auto &&a)
        {
          return fcppt::container::grid::resize(C05_FWD(a), grid::dim{w - 1U, h}, [](grid::pos const &)
          {
            cb_scope const g{""};
            return T(1000);
          });
        });
      if constexpr (C != 'l')
      {
        run1<C>("grid::object(grid)", true, sh, mk, [](auto &&a) { return grid(C05_FWD(a)); });
        run1<C>("grid::operator=", true, sh, mk, [](auto &&a)
        {
          grid target{};
          target = C05_FWD(a);
          return target;
        });
      }
    });
    for_cats<'r', 'l', 'c'>([&](auto c1)
    {
      for_cats<'r', 'l', 'c'>([&](auto c2)
      {
        run2<decltype(c1)::value, decltype(c2)::value>("grid::apply", true, sh + "," + sh, mk, mk, [](auto &&a, auto &&b)
        {
          return fcppt::container::grid::apply([](auto &&x, auto &&y)
          {
            cb_scope const g{C05_RECV(x) + "," + C05_RECV(y)};
            vec r;
            r.reserve(2U);
            r.emplace_back(C05_FWD(x));
            r.emplace_back(C05_FWD(y));
            return r;
          },
          C05_FWD(a), C05_FWD(b));
        });
      });
    });
    // three grids, every combination of value categories
    if (w == 2U || w == 1U)
      for_cats3([&](auto c1, auto c2, auto c3)
      {
        run3<decltype(c1)::value, decltype(c2)::value, decltype(c3)::value>("grid::apply", true, sh + "," + sh + "," + sh, mk, mk, mk,
            [](auto &&a, auto &&b, auto &&cc)
        {
          return fcppt::container::grid::apply([](auto &&x, auto &&y, auto &&z)
          {
            cb_scope const g{C05_RECV(x) + "," + C05_RECV(y) + "," + C05_RECV(z)};
            vec r;
            r.reserve(3U);
            r.emplace_back(C05_FWD(x));
            r.emplace_back(C05_FWD(y));
            r.emplace_back(C05_FWD(z));
            return r;
          },
          C05_FWD(a), C05_FWD(b), C05_FWD(cc));
        });
      });
    // grids of different sizes: the result is empty, nothing may be touched
    if (w == 2U)
      for_cats<'r', 'l'>([&](auto c1)
      {
        run2<decltype(c1)::value, 'r'>("grid::apply", false, sh + ",1x1", mk, [] { return mk_grid(1U, 1U); }, [](auto &&a, auto &&b)
        {
          return fcppt::container::grid::apply([](auto &&x, auto &&y)
          {
            cb_scope const g{C05_RECV(x) + "," + C05_RECV(y)};
            vec r;
            r.emplace_back(C05_FWD(x));
            r.emplace_back(C05_FWD(y));
            return r;
          },
          C05_FWD(a), C05_FWD(b));
        });
      });
    // grid(dim, value): the prototype is copied into every cell
    run1<'c'>("grid::object(dim,value)", false, sh, [] { return T(next_tok()); }, [w, h](auto &&a) { return grid(grid::dim{w, h}, a); });
  }
}
#endif

#ifdef C05_UNIT_TREES
void trees()
{
  for (int kids : thorough() ? std::vector<int>{0, 1, 2, 3} : std::vector<int>{0, 1, 2})
  {
    std::string const sh = "kids:" + std::to_string(kids);
    auto const mk = [kids] { return mk_tree(kids); };
    // tree::map takes the tree by const reference only
    run1<'c'>("tree::map", true, sh, mk, [](auto &&a) { return fcppt::container::tree::map<tree>(a, pass); });
    for_cats<'r', 'c'>([&](auto c)
    {
      constexpr char C = decltype(c)::value;
      run1<C>("tree::object(tree)", true, sh, mk, [](auto &&a) { return tree(C05_FWD(a)); });
      run1<C>("tree::operator=", true, sh, mk, [](auto &&a)
      {
        tree target{T(1000)};
        target = C05_FWD(a);
        return target;
      });
      run1<C>("tree::operator=", true, sh + "->tree with children", mk, [](auto &&a)
      {
        tree target{mk_tree_cb(2)};
        target = C05_FWD(a);
        return target;
      });
    });
    // modifiers of the tree (inout) taking an element / a subtree
    for_cats<'r', 'c'>([&](auto c2)
    {
      constexpr char C2 = decltype(c2)::value;
      run2<'m', C2>("tree::push_back(T)", true, sh, mk, [] { return T(next_tok()); }, [](auto &&a, auto &&b)
      {
        a.push_back(C05_FWD(b));
        return fcppt::make_cref(a);
      });
      run2<'m', C2>("tree::push_front(T)", true, sh, mk, [] { return T(next_tok()); }, [](auto &&a, auto &&b)
      {
        a.push_front(C05_FWD(b));
        return fcppt::make_cref(a);
      });
      run2<'m', C2>("tree::insert(T)", true, sh, mk, [] { return T(next_tok()); }, [](auto &&a, auto &&b)
      {
        a.insert(a.begin(), C05_FWD(b));
        return fcppt::make_cref(a);
      });
      run2<'m', C2>("tree::value(T)", false, sh, mk, [] { return T(next_tok()); }, [](auto &&a, auto &&b)
      {
        a.value(C05_FWD(b));
        return fcppt::make_cref(a);
      });
    });
    run2<'m', 'r'>("tree::push_back(tree)", true, sh, mk, [] { return mk_tree(1); }, [](auto &&a, auto &&b)
    {
      a.push_back(C05_FWD(b));
      return fcppt::make_cref(a);
    });
    run2<'m', 'r'>("tree::push_front(tree)", true, sh, mk, [] { return mk_tree(1); }, [](auto &&a, auto &&b)
    {
      a.push_front(C05_FWD(b));
      return fcppt::make_cref(a);
    });
    run2<'m', 'r'>("tree::insert(tree)", true, sh, mk, [] { return mk_tree(1); }, [](auto &&a, auto &&b)
    {
      a.insert(a.end(), C05_FWD(b));
      return fcppt::make_cref(a);
    });
    run2<'r', 'r'>("tree::object(T,children)", true, sh, [] { return T(next_tok()); }, [kids]
    {
      tree::child_list l;
      for (int i = 0; i < kids; ++i) l.emplace_back(T(next_tok()));
      return l;
    },
    [](auto &&a, auto &&b) { return tree(C05_FWD(a), C05_FWD(b)); });
    run1<'m'>("tree::pop_back", true, sh, mk, [](auto &&a)
    {
      auto r = a.pop_back();
      return std::make_pair(std::move(r), fcppt::make_cref(a));
    });
    run1<'m'>("tree::pop_front", true, sh, mk, [](auto &&a)
    {
      auto r = a.pop_front();
      return std::make_pair(std::move(r), fcppt::make_cref(a));
    });
    if (kids > 0)
      run1<'m'>("tree::release", true, sh, mk, [](auto &&a)
      {
        auto r = a.release(a.begin());
        return std::make_pair(std::move(r), fcppt::make_cref(a));
      });
  }
  for_cats<'r', 'c'>([&](auto c)
  {
    run1<decltype(c)::value>("tree::object(T)", true, "element", [] { return T(next_tok()); }, [](auto &&a) { return tree(C05_FWD(a)); });
  });
}
#endif
}

namespace c05
{
#ifdef C05_UNIT_GRIDS
void drive_grids() { grids(); }
#endif
#ifdef C05_UNIT_TREES
void drive_trees() { trees(); }
#endif
}
