// C06 conformance harness: drives fcppt's checked conversions and integer helpers and records
// every result (see c06_drive.hpp).  No expected values: spec/IntMathJudge.tla (TLC) is the judge.
//
//   c06_intmath sections                      list the section names
//   c06_intmath record OUT tier seed SECTION  tier: quick | thorough
// One section per process, so that an abort (sanitizer report, trap, watchdog) inside one function
// leaves the records of the others intact; the abort itself is reported as a final {"e":"abort"}
// line naming the call.
#include "c06_drive.hpp"

#include <cstdio>
#include <cstring>
#include <string>

int main(int argc, char **argv)
{
  if (argc >= 2 && std::strcmp(argv[1], "sections") == 0)
  {
    for (auto const &s : c06::sections()) std::printf("%s\n", s.c_str());
    return 0;
  }
  if (argc < 6 || std::strcmp(argv[1], "record") != 0)
  {
    std::fprintf(stderr, "usage: c06_intmath record OUT quick|thorough seed SECTION | sections\n");
    return 3;
  }
  c06::config cfg;
  cfg.tier = std::strcmp(argv[3], "thorough") == 0 ? 1 : 0;
  cfg.seed = std::strtoull(argv[4], nullptr, 10);
  vj::open(argv[2]);
  c06::install();
  if (!c06::run_section(argv[5], cfg))
  {
    std::fprintf(stderr, "unknown section %s\n", argv[5]);
    return 3;
  }
  vj::close();
  return 0;
}
