// C10 conformance harness, shared part: the driver template over (enum, storage word type), the
// record writers and main().  It contains no expected values: spec/BitfieldJudge.tla (TLC) is the
// judge.
//
// One executable per enum (c10_bitfield_n<N>.cpp: 1, 3, 8, 9, 17, 33, 64, 65 enumerators; every
// executable instantiates the four storage word types) so that a change of fcppt after which one
// instantiation no longer compiles does not take the others with it.  The record kinds that lie
// OUTSIDE the statement of C10 (operator<<, underlying_value, details of the proxy type, the array
// constructor, fcppt::enum_::array) live in separate executables (c10_bitfield_x<N>.cpp, which
// compile the same sources with C10_OBSERVED): neither a compile error nor a crash in those parts
// can touch the records that are judged in scope.
//
//   c10_bitfield_nN record OUT N w seed pairs_mode ntrees nhist [bits_stride lastword_stride deep]
//        pairs_mode: "all" = every pair of subsets (N <= 9), or a number of random pairs
//        bits_stride k > 0: all single-enumerator operations of every k-th subset (N <= 17) resp.
//        of 16 structured subsets (N > 17)
//        lastword_stride k > 0 (multi-word bitfields): pairs of subsets that differ only in the
//        last storage word, for every k-th choice of the other words (N > 17: eight choices)
//   c10_bitfield_nN replay SCRIPTS.ndjson OUT N w     (one JSON array of op records per line)
//
// Values are logged observationally: a bitfield is written as the list of enumerators for which
// get() returned true.  Subsets chosen by the generator are written as element lists as well (TLC
// integers are 32-bit: no masks in the log).  Every produced value v is additionally compared (==,
// !=, both hash function objects, is_subset_eq in both directions) with a twin c built by init()
// from v's own get() results - the judge decides from the two logged sets what those comparisons
// had to yield.
//
// Failures caused by the code under test: every record is started with alarm(20) (a hang ends in
// exit 68), the name of the operation being driven is kept in g_op and written into the crash line
// (signals, std::terminate, sanitizer reports), an exception that escapes from the code under test
// ends the record (the partial line stays) with an {"e":"exc"} line and the run carries on.
#ifndef VERIF_C10_BITFIELD_HPP
#define VERIF_C10_BITFIELD_HPP
#include <common/vjson.hpp>

#include <fcppt/container/bitfield/comparison.hpp>
#include <fcppt/container/bitfield/hash.hpp>
#include <fcppt/container/bitfield/init.hpp>
#include <fcppt/container/bitfield/is_subset_eq.hpp>
#include <fcppt/container/bitfield/object.hpp>
#include <fcppt/container/bitfield/operators.hpp>
#include <fcppt/container/bitfield/std_hash.hpp>
#include <fcppt/enum/size.hpp>
#ifdef C10_OBSERVED
#include <fcppt/container/bitfield/output.hpp>
#include <fcppt/container/bitfield/underlying_value.hpp>
#include <fcppt/enum/array.hpp>
#include <fcppt/enum/array_init.hpp>
#include <fcppt/enum/to_string_impl_fwd.hpp>
#include <sstream>
#include <string_view>
#endif

#include <algorithm>
#include <cstdint>
#include <functional>
#include <limits>
#include <memory>
#include <stdexcept>
#include <string>
#include <fcntl.h>
#include <sys/mman.h>
#include <unistd.h>
#include <utility>
#include <vector>

#if defined(__SANITIZE_ADDRESS__)
extern "C" void __sanitizer_set_death_callback(void (*)(void));
#endif

namespace c10
{
// ---- which operation of the code under test is running (for crash lines) ----
inline char const *volatile g_op = "startup";
inline char const *volatile g_kind = "none";
inline int g_exceptions = 0;
// The same two names are mirrored into a small memory-mapped side file (OUT.op: 64 bytes operation,
// 64 bytes record kind): it survives every kind of death of the process - also those that run no
// handler of ours (a UBSan report with halt_on_error, SIGKILL after a timeout).
inline char *g_side = nullptr;
inline void side_copy(char *const dst, char const *const src)
{
  std::size_t k = 0;
  for (; k < 63U && src[k] != '\0'; ++k) dst[k] = src[k];
  dst[k] = '\0';
}
inline void set_op(char const *const name)
{
  g_op = name;
  if (g_side != nullptr) side_copy(g_side, name);
}
inline void set_kind(char const *const name)
{
  g_kind = name;
  if (g_side != nullptr) side_copy(g_side + 64, name);
}
#define OP(name) (::c10::set_op(name))

// a bug of the harness itself (exit 3); anything else that is thrown comes from the code under test
struct harness_error : std::runtime_error
{
  using std::runtime_error::runtime_error;
};

inline void die_line(char const *const what, int const code)
{
  char buf[320];
  int const n = std::snprintf(
      buf, sizeof buf, "\n{\"e\":\"crash\",\"what\":\"%s\",\"code\":%d,\"op\":\"%s\",\"f\":\"%s\"}\n", what, code, g_op, g_kind);
  if (vj::out_file() != nullptr) std::fflush(vj::out_file());
  if (n > 0)
  {
    ssize_t const r = ::write(vj::out_fd(), buf, static_cast<std::size_t>(n));
    (void)r;
  }
}
inline void on_signal(int const sig)
{
  die_line(sig == SIGALRM ? "hang" : "signal", sig);
  _exit(sig == SIGALRM ? 68 : 67);
}
inline void on_terminate()
{
  die_line("terminate", 0);
  _exit(67);
}
inline void on_sanitizer_death() { die_line("sanitizer", 66); }

inline void install_handlers(char const *const out_path)
{
  std::string const side = std::string(out_path) + ".op";
  int const fd = ::open(side.c_str(), O_RDWR | O_CREAT | O_TRUNC, 0644);
  if (fd >= 0 && ::ftruncate(fd, 128) == 0)
  {
    void *const m = ::mmap(nullptr, 128, PROT_READ | PROT_WRITE, MAP_SHARED, fd, 0);
    if (m != MAP_FAILED) g_side = static_cast<char *>(m);
  }
  if (fd >= 0) ::close(fd);
  std::set_terminate(on_terminate);
  for (int const s : {SIGSEGV, SIGBUS, SIGFPE, SIGILL, SIGABRT, SIGALRM}) std::signal(s, on_signal);
#if defined(__SANITIZE_ADDRESS__)
  __sanitizer_set_death_callback(on_sanitizer_death);
#endif
}

inline void note_exception(char const *const what)
{
  vj::J j;
  j.kv("e", "exc").kv("op", static_cast<char const *>(g_op)).kv("f", static_cast<char const *>(g_kind)).kv("what", what);
  std::fputc('\n', vj::out_file());
  vj::line(j);
  std::fflush(vj::out_file());
  if (++g_exceptions >= 25)
  {
    ::alarm(0);
    vj::close();
    std::exit(65);
  }
}

// runs the body of one record; an exception thrown by the code under test ends that record only
template <typename F>
void guarded(F const &f)
{
  try
  {
    f();
  }
  catch (harness_error const &)
  {
    throw;
  }
  catch (std::exception const &e)
  {
    note_exception(e.what());
  }
  catch (...)
  {
    note_exception("not a std::exception");
  }
}

inline void begin(char const *const kind, std::string const &prefix)
{
  set_kind(kind);
  OP("harness");
  ::alarm(20);
  vj::begin_call(prefix);
}

// ---- the generator's description of a subset: up to 128 enumerators; never logged as a number ----
using mask_t = unsigned __int128;

inline mask_t bit(unsigned const i) { return mask_t{1} << i; }
inline mask_t full_mask(unsigned const n) { return n >= 128U ? ~mask_t{0} : (mask_t{1} << n) - 1U; }
inline mask_t range_mask(unsigned const lo, unsigned const hi) // enumerators lo .. hi-1
{
  return full_mask(hi) & ~full_mask(lo);
}
inline mask_t rnd_mask(vj::Rng &g) { return (static_cast<mask_t>(g.next()) << 64U) | g.next(); }
inline mask_t mix_mask(mask_t const m, unsigned const a, unsigned const b)
{
  vj::Rng g(static_cast<std::uint64_t>(m) * 2654435761ULL + static_cast<std::uint64_t>(m >> 64U) * 40503ULL + a * 131ULL + b);
  return rnd_mask(g);
}

inline std::vector<unsigned> members(mask_t const m, unsigned const n)
{
  std::vector<unsigned> r;
  for (unsigned i = 0; i < n; ++i)
    if ((m >> i) & 1U) r.push_back(i);
  return r;
}

// ---- expression trees over the operators (generator side: shape only) ----
struct tree
{
  std::string o;
  std::vector<unsigned> s;
  unsigned e = 0;
  bool b = false;
  std::shared_ptr<tree> l, r, x;
};
using tp = std::shared_ptr<tree>;

inline std::string tree_json(tree const &t)
{
  vj::J j;
  j.kv("o", t.o);
  if (t.o == "set" || t.o == "init" || t.o == "ilist") j.raw("s", vj::arr(t.s));
  if (t.x) j.raw("x", tree_json(*t.x));
  if (t.l) j.raw("l", tree_json(*t.l));
  if (t.r) j.raw("r", tree_json(*t.r));
  if (t.o == "sete" || t.o == "idx" || t.o == "ore" || t.o == "orae") j.kv("e", t.e);
  if (t.o == "sete" || t.o == "idx") j.kv("b", t.b);
  return j.str();
}

inline tp leaf(std::string const &o, std::vector<unsigned> s = {})
{
  auto t = std::make_shared<tree>();
  t->o = o;
  t->s = std::move(s);
  return t;
}
inline tp un(std::string const &o, tp x)
{
  auto t = std::make_shared<tree>();
  t->o = o;
  t->x = std::move(x);
  return t;
}
inline tp bin(std::string const &o, tp l, tp r)
{
  auto t = std::make_shared<tree>();
  t->o = o;
  t->l = std::move(l);
  t->r = std::move(r);
  return t;
}
inline tp elem(std::string const &o, tp x, unsigned const e, bool const b)
{
  auto t = std::make_shared<tree>();
  t->o = o;
  t->x = std::move(x);
  t->e = e;
  t->b = b;
  return t;
}

constexpr unsigned num_prov = 6;
inline char const *const prov_name[num_prov] = {"set", "init", "not", "notnot", "xorfull", "ornotall"};

// the six ways in which a subset m is produced
inline tp prov_tree(unsigned const p, mask_t const m, unsigned const n)
{
  mask_t const full = full_mask(n);
  mask_t const comp = ~m & full;
  switch (p)
  {
  case 0: return leaf("set", members(m, n));
  case 1: return leaf("init", members(m, n));
  case 2: return un("not", leaf("set", members(comp, n)));
  case 3: return un("not", un("not", leaf("set", members(m, n))));
  case 4: return bin("xor", leaf("set", members(comp, n)), un("not", leaf("null")));
  default: return bin("or", leaf("set", members(m, n)), un("not", leaf("set", members(full, n))));
  }
}

struct args
{
  bool replay = false;
  std::string scripts;
  std::uint64_t seed = 1;
  std::string pairs = "0";
  long ntrees = 0;
  long nhist = 0;
  long bits_stride = 0;
  long lastword_stride = 0;
  bool deep = false; // thorough: four partner enumerators per proxy record instead of two
};

template <typename E, typename Wd>
struct driver
{
  using bf = fcppt::container::bitfield::object<E, Wd>;
  static constexpr unsigned N = static_cast<unsigned>(fcppt::enum_::size<E>::value);
  static constexpr int W = std::numeric_limits<Wd>::digits;
  static constexpr bool big = N > 17U; // sampled with structured subsets around the word boundaries
  static_assert(N <= 100U, "enumerator names and mask_t are made for at most 100 enumerators");

  static E en(unsigned const i) { return static_cast<E>(i); }

  // ---- observation ----
  static std::string elems(bf const &v)
  {
    OP("get");
    std::string s = "[";
    bool f = true;
    for (unsigned i = 0; i < N; ++i)
      if (v.get(en(i)))
      {
        if (!f) s += ',';
        f = false;
        s += std::to_string(i);
      }
    return s + "]";
  }
  static std::string elems_index(bf const &v) // const operator[]
  {
    OP("index");
    std::string s = "[";
    bool f = true;
    for (unsigned i = 0; i < N; ++i)
      if (v[en(i)])
      {
        if (!f) s += ',';
        f = false;
        s += std::to_string(i);
      }
    return s + "]";
  }
  static std::string elems_and(bf const &v) // operator&(field, enumerator)
  {
    OP("and_elem");
    std::string s = "[";
    bool f = true;
    for (unsigned i = 0; i < N; ++i)
      if (v & en(i))
      {
        if (!f) s += ',';
        f = false;
        s += std::to_string(i);
      }
    return s + "]";
  }
  static std::string rel(bf const &l, bf const &r)
  {
    fcppt::container::bitfield::hash<bf> const h{};
    std::hash<bf> const sh{};
    std::string s = "[";
    OP("operator==");
    s += (l == r) ? "1," : "0,";
    OP("operator!=");
    s += (l != r) ? "1," : "0,";
    OP("hash");
    s += (h(l) == h(r)) ? "1," : "0,";
    OP("std_hash");
    s += (sh(l) == sh(r)) ? "1," : "0,";
    OP("is_subset_eq");
    s += fcppt::container::bitfield::is_subset_eq(l, r) ? "1," : "0,";
    s += fcppt::container::bitfield::is_subset_eq(r, l) ? "1]" : "0]";
    return s;
  }
  // V = [v, c, K(v, c)] with c the twin built by init from v's own get() results
  static std::string obs(bf const &v)
  {
    OP("init");
    bf const c(fcppt::container::bitfield::init<bf>([&v](E const e) { return v.get(e); }));
    return "[" + elems(v) + "," + elems(c) + "," + rel(v, c) + "]";
  }

  // ---- an initializer list with run-time contents (at most six elements) ----
  template <std::size_t... Is>
  static bf ilist_of(std::vector<unsigned> const &s, std::index_sequence<Is...>)
  {
    return bf{en(s[Is])...};
  }
  static constexpr unsigned max_ilist = 6;
  static bf from_ilist(std::vector<unsigned> const &s)
  {
    OP("ilist");
    switch (s.size())
    {
    case 0: return bf(typename bf::initializer_list_type{});
    case 1: return ilist_of(s, std::make_index_sequence<1>{});
    case 2: return ilist_of(s, std::make_index_sequence<2>{});
    case 3: return ilist_of(s, std::make_index_sequence<3>{});
    case 4: return ilist_of(s, std::make_index_sequence<4>{});
    case 5: return ilist_of(s, std::make_index_sequence<5>{});
    case 6: return ilist_of(s, std::make_index_sequence<6>{});
    default: throw harness_error("initializer list with more than six elements");
    }
  }

  // ---- evaluation of a tree with the real operators ----
  static bf eval(tree const &t)
  {
    if (t.o == "set")
    {
      OP("set");
      bf r(bf::null());
      for (unsigned i : t.s) r.set(en(i), true);
      return r;
    }
    if (t.o == "init")
    {
      OP("init");
      return fcppt::container::bitfield::init<bf>([&t](E const e) {
        for (unsigned i : t.s)
          if (en(i) == e) return true;
        return false;
      });
    }
    if (t.o == "ilist") return from_ilist(t.s);
    if (t.o == "null") { OP("null"); return bf::null(); }
    if (t.o == "not") { bf a(eval(*t.x)); OP("not"); return ~a; }
    if (t.o == "or") { bf a(eval(*t.l)); bf b(eval(*t.r)); OP("or"); return std::move(a) | b; }
    if (t.o == "and") { bf a(eval(*t.l)); bf b(eval(*t.r)); OP("and"); return std::move(a) & b; }
    if (t.o == "xor") { bf a(eval(*t.l)); bf b(eval(*t.r)); OP("xor"); return std::move(a) ^ b; }
    if (t.o == "ora") { bf a(eval(*t.l)); bf b(eval(*t.r)); OP("ora"); bf &ref = (a |= b); return ref; }
    if (t.o == "anda") { bf a(eval(*t.l)); bf b(eval(*t.r)); OP("anda"); bf &ref = (a &= b); return ref; }
    if (t.o == "xora") { bf a(eval(*t.l)); bf b(eval(*t.r)); OP("xora"); bf &ref = (a ^= b); return ref; }
    if (t.o == "sete") { bf a(eval(*t.x)); OP("set"); a.set(en(t.e), t.b); return a; }
    if (t.o == "idx") { bf a(eval(*t.x)); OP("idx"); a[en(t.e)] = t.b; return a; }
    if (t.o == "ore") { bf a(eval(*t.x)); OP("ore"); return std::move(a) | en(t.e); }
    if (t.o == "orae") { bf a(eval(*t.x)); OP("orae"); bf &ref = (a |= en(t.e)); return ref; }
    throw harness_error("tree: unknown operator " + t.o);
  }

  static bf make(unsigned const p, mask_t const m) { return eval(*prov_tree(p, m, N)); }

  static std::string head(char const *const f)
  {
    vj::J j;
    j.kv("f", f).kv("n", N).kv("w", W);
    return j.s;
  }

  static std::vector<unsigned> observed(bf const &v)
  {
    OP("get");
    std::vector<unsigned> r;
    for (unsigned i = 0; i < N; ++i)
      if (v.get(en(i))) r.push_back(i);
    return r;
  }

  template <unsigned... Is>
  static bf all_of(std::integer_sequence<unsigned, Is...>, bool const reversed)
  {
    return reversed ? bf{en(N - 1 - Is)...} : bf{en(Is)...};
  }

  // ---- the enumerators next to a storage word boundary of some word type (big enums) ----
  static std::vector<unsigned> hot()
  {
    std::vector<unsigned> r;
    for (unsigned const e : {0U, 7U, 8U, 15U, 16U, 31U, 32U, 33U, 47U, 48U, 62U, 63U, 64U, N - 2U, N - 1U})
      if (e < N && std::find(r.begin(), r.end(), e) == r.end()) r.push_back(e);
    return r;
  }
  static std::vector<unsigned> very_hot()
  {
    std::vector<unsigned> r;
    for (unsigned const e : {0U, 31U, 32U, 33U, 63U, 64U, N - 1U})
      if (e < N && std::find(r.begin(), r.end(), e) == r.end()) r.push_back(e);
    return r;
  }

  // the subsets driven one by one: all of them up to 9 enumerators, a sample beyond
  static std::vector<mask_t> subset_sample(vj::Rng &g)
  {
    mask_t const full = full_mask(N);
    std::vector<mask_t> masks;
    if (N <= 9)
    {
      for (mask_t m = 0; m <= full; ++m) masks.push_back(m);
    }
    else if (!big)
    {
      masks = {0U, full, 1U, bit(N - 1), full >> 1U, full & ~mask_t{1}, 0xFFU, 0x100U, 0xFF00U, 0x10000U, 0xFFFFU};
      for (unsigned i = 0; i < N; ++i) masks.push_back(bit(i));
      for (int i = 0; i < 200; ++i) masks.push_back(static_cast<mask_t>(g.next()) & full);
    }
    else
    {
      auto const add = [&masks, full](mask_t const m) {
        mask_t const v = m & full;
        if (std::find(masks.begin(), masks.end(), v) == masks.end()) masks.push_back(v);
      };
      add(0U);
      add(full);
      for (unsigned const e : hot()) add(bit(e));
      for (unsigned const e : very_hot()) add(full ^ bit(e));
      add(range_mask(0, 32));  // everything a 32-bit intermediate can hold
      add(range_mask(32, N));  // everything it cannot
      add(range_mask(0, 33));
      add(range_mask(0, 63));
      add(range_mask(0, 64));
      add(range_mask(64, N));
      add(range_mask(31, 34));
      add(bit(31) | bit(32));
      add(bit(63) | bit(64));
      add(bit(0) | bit(N - 1));
      // alternating storage words of every word type, alternating bits
      for (unsigned const w : {8U, 16U, 32U, 64U})
      {
        mask_t even = 0;
        for (unsigned lo = 0; lo < N; lo += 2U * w) even |= range_mask(lo, lo + w);
        add(even);
        add(~even);
      }
      mask_t alt = 0;
      for (unsigned i = 0; i < N; i += 2U) alt |= bit(i);
      add(alt);
      add(~alt);
      for (int i = 0; i < 6; ++i) add(rnd_mask(g));
      for (int i = 0; i < 6; ++i) add(rnd_mask(g) & rnd_mask(g) & rnd_mask(g)); // sparse
      for (int i = 0; i < 4; ++i) add(rnd_mask(g) | rnd_mask(g) | rnd_mask(g)); // dense
    }
    return masks;
  }

#ifndef C10_OBSERVED
  // =====================================================================================
  // record kinds inside the statement of C10
  // =====================================================================================
  static void build_records()
  {
    auto emit = [](char const *how, std::vector<unsigned> const &s, auto const &make_it) {
      guarded([&] {
        begin("build", head("build") + ",\"how\":\"" + how + "\",\"s\":" + vj::arr(s));
        OP(how);
        bf const v(make_it());
        vj::end_call(",\"r\":" + obs(v) + "}");
      });
    };
    unsigned const last = N - 1;
    emit("null", {}, [] { return bf::null(); });
    emit("ilist", {}, [] { return bf(typename bf::initializer_list_type{}); });
    emit("ilist", {0}, [] { return bf{en(0)}; });
    emit("ilist", {last}, [last] { return bf{en(last)}; });
    emit("ilist", {0, last}, [last] { return bf{en(0), en(last)}; });
    emit("ilist", {last, 0, last}, [last] { return bf{en(last), en(0), en(last)}; });
    emit("ilist", {last / 2, last / 2}, [last] { return bf{en(last / 2), en(last / 2)}; });
    {
      std::vector<unsigned> all;
      for (unsigned i = 0; i < N; ++i) all.push_back(i);
      emit("ilist", all, [] { return all_of(std::make_integer_sequence<unsigned, N>{}, false); });
      std::vector<unsigned> rev(all.rbegin(), all.rend());
      emit("ilist", rev, [] { return all_of(std::make_integer_sequence<unsigned, N>{}, true); });
    }
    // copy construction and copy assignment of values that were themselves produced in the six ways
    mask_t const full = full_mask(N);
    std::vector<mask_t> picks = {0U, full, 1U, bit(N - 1), full & 0x15555U, full & 0x0AAAAU};
    if (big)
    {
      picks.push_back(range_mask(32, N));
      picks.push_back(bit(31) | bit(32) | bit(N - 1));
    }
    // (s = what get() reports for the source: the copies only have to carry the value)
    for (mask_t m : picks)
      for (unsigned p = 0; p < num_prov; ++p)
        guarded([&] {
          set_kind("build");
          ::alarm(20);
          bf const src(make(p, m));
          std::vector<unsigned> const s = observed(src);
          emit("copy", s, [&src] { return bf(src); });
          emit("assign", s, [&src] { bf d(bf::null()); d = src; return d; });
          // over a non-empty target, followed by a self-assignment
          emit("assign", s, [&src] { bf d(~bf::null()); d = src; bf const *const self = &d; d = *self; return d; });
        });
  }

  // initializer lists with contents chosen at run time (order, repetitions)
  static void ilist_records(vj::Rng &g, std::vector<unsigned> const &hot_e)
  {
    for (unsigned k = 0; k < 40U; ++k)
    {
      std::vector<unsigned> s;
      unsigned const len = static_cast<unsigned>(g.below(max_ilist + 1U));
      for (unsigned i = 0; i < len; ++i)
      {
        if (!s.empty() && g.below(4) == 0)
          s.push_back(s[g.below(s.size())]); // a repetition
        else if (big && g.coin())
          s.push_back(hot_e[g.below(hot_e.size())]);
        else
          s.push_back(static_cast<unsigned>(g.below(N)));
      }
      guarded([&] {
        begin("build", head("build") + ",\"how\":\"ilist\",\"s\":" + vj::arr(s));
        bf const v(from_ilist(s));
        vj::end_call(",\"r\":" + obs(v) + "}");
      });
    }
  }

  static void single_record(unsigned const p, mask_t const m)
  {
    guarded([&] {
      tp const t = prov_tree(p, m, N);
      begin("single", head("single") + ",\"p\":\"" + prov_name[p] + "\",\"t\":" + tree_json(*t));
      bf const a(eval(*t));
      std::string r;
      r += ",\"a\":" + elems(a) + ",\"ai\":" + elems_index(a) + ",\"ae\":" + elems_and(a);
      r += ",\"can\":" + obs(a);
      OP("not");
      r += ",\"not\":" + obs(~a);
      OP("not");
      r += ",\"notnot\":" + obs(~~a);
      { bf c(a); OP("ora"); bf &ref = (c |= c); r += ",\"sora\":" + obs(ref); }
      { bf c(a); OP("anda"); bf &ref = (c &= c); r += ",\"sanda\":" + obs(ref); }
      { bf c(a); OP("xora"); bf &ref = (c ^= c); r += ",\"sxora\":" + obs(ref); }
      r += ",\"rel\":" + rel(a, a);
      r += ",\"aa\":" + elems(a) + "}";
      vj::end_call(r);
    });
  }

  static void elem_record(unsigned const p, mask_t const m, unsigned const e)
  {
    guarded([&] {
      vj::J pre;
      pre.kv("f", "elem").kv("n", N).kv("w", W).kv("p", prov_name[p]).raw("ms", vj::arr(members(m, N))).kv("e", e);
      begin("elem", pre.s);
      bf const a(make(p, m));
      std::string r = ",\"a\":" + elems(a);
      { bf c(a); OP("set"); c.set(en(e), true); r += ",\"set1\":" + obs(c); }
      { bf c(a); OP("set"); c.set(en(e), false); r += ",\"set0\":" + obs(c); }
      { bf c(a); OP("idx"); c[en(e)] = true; r += ",\"idx1\":" + obs(c); }
      { bf c(a); OP("idx"); c[en(e)] = false; r += ",\"idx0\":" + obs(c); }
      OP("ore");
      r += ",\"ore\":" + obs(a | en(e));
      { bf c(a); OP("orae"); bf &ref = (c |= en(e)); r += ",\"orae\":" + obs(ref); }
      OP("get");
      r += ",\"g\":" + std::string(a.get(en(e)) ? "1" : "0");
      OP("index");
      r += ",\"ix\":" + std::string(a[en(e)] ? "1" : "0");
      { bf c(a); r += ",\"ixm\":" + std::string(c[en(e)] ? "1" : "0"); }
      OP("and_elem");
      r += ",\"an\":" + std::string((a & en(e)) ? "1" : "0");
      r += ",\"aa\":" + elems(a) + "}";
      vj::end_call(r);
    });
  }

  static void rel_record(unsigned const pa, bf const &a, unsigned const pb, bf const &b)
  {
    guarded([&] {
      begin("rel", head("rel") + ",\"pa\":\"" + prov_name[pa] + "\",\"pb\":\"" + prov_name[pb] + "\"");
      vj::end_call(",\"a\":" + elems(a) + ",\"b\":" + elems(b) + ",\"rel\":" + rel(a, b) + "}");
    });
  }
  static void rel_record(unsigned const pa, mask_t const ma, unsigned const pb, mask_t const mb)
  {
    guarded([&] {
      begin("rel", head("rel") + ",\"pa\":\"" + prov_name[pa] + "\",\"pb\":\"" + prov_name[pb] + "\"");
      bf const a(make(pa, ma));
      bf const b(make(pb, mb));
      vj::end_call(",\"a\":" + elems(a) + ",\"b\":" + elems(b) + ",\"rel\":" + rel(a, b) + "}");
    });
  }

  static void pair_body(bf const &a, bf const &b)
  {
    std::string r = ",\"a\":" + elems(a) + ",\"b\":" + elems(b);
    OP("or");
    r += ",\"or\":" + obs(a | b);
    OP("and");
    r += ",\"and\":" + obs(a & b);
    OP("xor");
    r += ",\"xor\":" + obs(a ^ b);
    { bf c(a); OP("ora"); bf &ref = (c |= b); r += ",\"ora\":" + obs(ref); }
    { bf c(a); OP("anda"); bf &ref = (c &= b); r += ",\"anda\":" + obs(ref); }
    { bf c(a); OP("xora"); bf &ref = (c ^= b); r += ",\"xora\":" + obs(ref); }
    r += ",\"rel\":" + rel(a, b);
    r += ",\"aa\":" + elems(a) + ",\"ba\":" + elems(b) + "}";
    vj::end_call(r);
  }
  static void pair_record(unsigned const pa, bf const &a, unsigned const pb, bf const &b)
  {
    guarded([&] {
      begin("pair", head("pair") + ",\"pa\":\"" + prov_name[pa] + "\",\"pb\":\"" + prov_name[pb] + "\"");
      pair_body(a, b);
    });
  }
  static void pair_record(unsigned const pa, mask_t const ma, unsigned const pb, mask_t const mb)
  {
    guarded([&] {
      begin("pair", head("pair") + ",\"pa\":\"" + prov_name[pa] + "\",\"pb\":\"" + prov_name[pb] + "\"");
      bf const a(make(pa, ma));
      bf const b(make(pb, mb));
      pair_body(a, b);
    });
  }

  // ---- operator[] proxies: assignment through operator[] from another proxy, chains ----
  static void proxy_record(unsigned const p, mask_t const ma, mask_t const mb, unsigned const i, unsigned const j)
  {
    guarded([&] {
      vj::J pre;
      pre.kv("f", "proxy").kv("n", N).kv("w", W).kv("p", prov_name[p]).kv("i", i).kv("j", j);
      begin("proxy", pre.s);
      bf const a(make(p, ma));
      bf const b(make((p + 1) % num_prov, mb));
      std::string r = ",\"a\":" + elems(a) + ",\"b\":" + elems(b);
      { bf c(a); OP("proxy_copy_assign"); c[en(i)] = c[en(j)]; r += ",\"cp\":" + obs(c); }
      { bf c(a); OP("proxy_chain"); c[en(i)] = c[en(j)] = true; r += ",\"ch1\":" + obs(c); }
      { bf c(a); OP("proxy_chain"); c[en(i)] = c[en(j)] = false; r += ",\"ch0\":" + obs(c); }
      {
        // named proxies: p = q assigns q's bit to p's bit; p keeps referring to enumerator i
        bf c(a);
        OP("proxy_copy_assign");
        typename bf::reference pr(c[en(i)]);
        typename bf::reference qr(c[en(j)]);
        pr = qr;
        pr = false;
        r += ",\"named\":" + obs(c);
      }
      {
        bf c(a);
        OP("proxy_move_assign");
        typename bf::reference pr(c[en(i)]);
        typename bf::reference qr(c[en(j)]);
        pr = std::move(qr);
        r += ",\"mv\":" + obs(c);
      }
      {
        bf c(a);
        bf d(b);
        OP("proxy_copy_assign");
        c[en(i)] = d[en(j)];
        r += ",\"cross\":" + obs(c) + ",\"crossb\":" + elems(d);
      }
      {
        // the same between NAMED proxies of two objects: copy assignment (temporaries take the move assignment)
        bf c(a);
        bf d(b);
        OP("proxy_copy_assign");
        typename bf::reference pr(c[en(i)]);
        typename bf::reference qr(d[en(j)]);
        pr = qr;
        r += ",\"crossn\":" + obs(c) + ",\"crossnb\":" + elems(d);
      }
      {
        // from a proxy of a const bitfield: const proxy -> bool -> operator=(bool)
        bf c(a);
        bf const &k = b;
        OP("idx");
        c[en(i)] = k[en(j)];
        r += ",\"crossk\":" + obs(c);
      }
      r += ",\"aa\":" + elems(a) + "}";
      vj::end_call(r);
    });
  }

  // ---- all single-enumerator operations of one subset ----
  static void bits_record(mask_t const m)
  {
    guarded([&] {
      vj::J pre;
      pre.kv("f", "bits").kv("n", N).kv("w", W).raw("ms", vj::arr(members(m, N)));
      begin("bits", pre.s);
      bf a(bf::null());
      OP("idx");
      for (unsigned i = 0; i < N; ++i)
        if ((m >> i) & 1U) a[en(i)] = true;
      std::string r = ",\"a\":" + elems(a) + ",\"ai\":" + elems_index(a) + ",\"s1\":[";
      for (unsigned e = 0; e < N; ++e) { bf c(a); OP("set"); c.set(en(e), true); r += (e ? "," : "") + elems(c); }
      r += "],\"s0\":[";
      for (unsigned e = 0; e < N; ++e) { bf c(a); OP("idx"); c[en(e)] = false; r += (e ? "," : "") + elems(c); }
      r += "],\"or1\":[";
      for (unsigned e = 0; e < N; ++e) { OP("ore"); bf const c(a | en(e)); r += (e ? "," : "") + elems(c); }
      OP("not");
      r += "],\"nt\":" + obs(~a) + "}";
      vj::end_call(r);
    });
  }

  // ---- random expression trees ----
  static std::vector<unsigned> random_members(vj::Rng &g)
  {
    mask_t const full = full_mask(N);
    if (!big) return members(static_cast<mask_t>(g.next()) & full, N);
    switch (g.below(3))
    {
    case 0: return members(rnd_mask(g) & full, N);
    case 1: return members(rnd_mask(g) & rnd_mask(g) & rnd_mask(g) & full, N);
    default: return members((rnd_mask(g) | rnd_mask(g)) & full, N);
    }
  }
  static unsigned random_enumerator(vj::Rng &g)
  {
    if (big && g.coin())
    {
      std::vector<unsigned> const h = very_hot();
      return h[g.below(h.size())];
    }
    return static_cast<unsigned>(g.below(N));
  }
  static tp random_tree(vj::Rng &g, int const depth)
  {
    if (depth <= 0 || g.below(10) < 2)
    {
      switch (g.below(5))
      {
      case 0: return leaf("null");
      case 1: return leaf("init", random_members(g));
      case 2:
      {
        std::vector<unsigned> s;
        unsigned const k = static_cast<unsigned>(g.below(max_ilist + 1U));
        for (unsigned i = 0; i < k; ++i) s.push_back(random_enumerator(g));
        return leaf("ilist", s);
      }
      default:
      {
        // set() calls in arbitrary order, possibly repeated
        std::vector<unsigned> s;
        unsigned const k = static_cast<unsigned>(g.below((big ? 12U : N) + 2U));
        for (unsigned i = 0; i < k; ++i) s.push_back(random_enumerator(g));
        return leaf("set", s);
      }
      }
    }
    switch (g.below(14))
    {
    case 0: case 1: case 2: return un("not", random_tree(g, depth - 1));
    case 3: return bin("or", random_tree(g, depth - 1), random_tree(g, depth - 1));
    case 4: return bin("and", random_tree(g, depth - 1), random_tree(g, depth - 1));
    case 5: return bin("xor", random_tree(g, depth - 1), random_tree(g, depth - 1));
    case 6: return bin("ora", random_tree(g, depth - 1), random_tree(g, depth - 1));
    case 7: return bin("anda", random_tree(g, depth - 1), random_tree(g, depth - 1));
    case 8: return bin("xora", random_tree(g, depth - 1), random_tree(g, depth - 1));
    case 9: return elem("sete", random_tree(g, depth - 1), random_enumerator(g), g.coin());
    case 10: return elem("idx", random_tree(g, depth - 1), random_enumerator(g), g.coin());
    case 11: return elem("ore", random_tree(g, depth - 1), random_enumerator(g), false);
    case 12: return elem("orae", random_tree(g, depth - 1), random_enumerator(g), false);
    default: return un("not", un("not", random_tree(g, depth - 1)));
    }
  }

  static void tree_record(vj::Rng &g)
  {
    tp const t = random_tree(g, 6);
    // the second tree: an independent one, or a differently shaped expression over the first
    tp u;
    switch (g.below(6))
    {
    case 0: u = un("not", un("not", t)); break;
    case 1: u = bin("xor", t, leaf("null")); break;
    case 2: u = bin("and", t, un("not", leaf("null"))); break;
    case 3: u = bin("or", t, un("not", un("not", leaf("null")))); break;
    default: u = random_tree(g, 6);
    }
    guarded([&] {
      begin("tree", head("tree") + ",\"t\":" + tree_json(*t) + ",\"u\":" + tree_json(*u));
      bf const r(eval(*t));
      bf const q(eval(*u));
      vj::end_call(",\"r\":" + obs(r) + ",\"q\":" + obs(q) + ",\"rel\":" + rel(r, q) + "}");
    });
  }

  // ---- histories of the register machine (x, y) ----
  struct op
  {
    std::string name;
    unsigned i = 0;
    unsigned j = 0;
    bool b = false;
    std::vector<unsigned> s;
  };
  static std::string op_json(op const &o)
  {
    vj::J j;
    j.kv("op", o.name).kv("i", o.i).kv("j", o.j).kv("b", o.b).raw("s", vj::arr(o.s));
    return j.str();
  }
  static std::string state_json(bf const &x, bf const &y, bf const &rv)
  {
    return "{\"x\":" + elems(x) + ",\"xi\":" + elems_index(x) + ",\"y\":" + elems(y) + ",\"rv\":" + elems(rv) +
           ",\"k\":" + rel(x, y) + "}";
  }
  // applies o to (x, y); returns the value the operation returned (x itself where it returns nothing)
  static bf apply(op const &o, bf &x, bf &y)
  {
    std::string const &n = o.name;
    set_op(n.c_str()); // (the operation outlives the record)
    if (n == "set") { x.set(en(o.i), o.b); return x; }
    if (n == "idx") { x[en(o.i)] = o.b; return x; }
    if (n == "ore") { bf r(x | en(o.i)); x = r; return r; }
    if (n == "orae") { bf &r = (x |= en(o.i)); return r; }
    if (n == "or") { bf r(x | y); x = r; return r; }
    if (n == "and") { bf r(x & y); x = r; return r; }
    if (n == "xor") { bf r(x ^ y); x = r; return r; }
    if (n == "ora") { bf &r = (x |= y); return r; }
    if (n == "anda") { bf &r = (x &= y); return r; }
    if (n == "xora") { bf &r = (x ^= y); return r; }
    if (n == "selfora") { bf &r = (x |= x); return r; }
    if (n == "selfanda") { bf &r = (x &= x); return r; }
    if (n == "selfxora") { bf &r = (x ^= x); return r; }
    if (n == "not") { bf r(~x); x = r; return r; }
    if (n == "swap") { std::swap(x, y); return x; }
    if (n == "copy") { y = x; return x; }
    if (n == "null") { x = bf::null(); return x; }
    if (n == "idxcopy") { x[en(o.i)] = x[en(o.j)]; return x; }
    if (n == "idxcopy_y") { x[en(o.i)] = y[en(o.j)]; return x; }
    if (n == "chain") { x[en(o.i)] = x[en(o.j)] = o.b; return x; }
    if (n == "ilist") { x = from_ilist(o.s); return x; }
    if (n == "init")
    {
      x = fcppt::container::bitfield::init<bf>([&o](E const e) {
        for (unsigned i : o.s)
          if (en(i) == e) return true;
        return false;
      });
      return x;
    }
    throw harness_error("history: unknown operation " + n);
  }
  static void run_history(char const *const src, std::vector<op> const &ops)
  {
    // histories that assign one operator[] proxy to another are a record kind of their own
    bool proxy_ops = false;
    for (op const &o : ops) proxy_ops = proxy_ops || o.name == "idxcopy" || o.name == "idxcopy_y" || o.name == "chain";
    char const *const kind = proxy_ops ? "histp" : "hist";
    std::string pre = head(kind) + ",\"src\":\"" + src + "\",\"ops\":[";
    for (std::size_t k = 0; k < ops.size(); ++k) pre += (k ? "," : "") + op_json(ops[k]);
    pre += "]";
    guarded([&] {
      begin(kind, pre);
      OP("null");
      bf x(bf::null());
      bf y(bf::null());
      std::string r = ",\"o0\":" + state_json(x, y, x) + ",\"obs\":[";
      for (std::size_t k = 0; k < ops.size(); ++k)
      {
        bf const rv(apply(ops[k], x, y));
        r += (k ? "," : "") + state_json(x, y, rv);
      }
      vj::end_call(r + "]}");
    });
    OP("harness");
  }
  static op random_op(vj::Rng &g)
  {
    static char const *const names[] = {"set", "idx", "ore", "orae", "or", "and", "xor", "ora", "anda", "xora",
                                        "selfora", "selfanda", "selfxora", "not", "not", "not", "swap", "swap",
                                        "copy", "null", "init", "set", "set", "idxcopy", "idxcopy_y", "chain", "ilist"};
    op o;
    o.name = names[g.below(sizeof names / sizeof names[0])];
    o.i = random_enumerator(g);
    o.j = random_enumerator(g);
    o.b = g.coin();
    if (o.name == "init") o.s = random_members(g);
    if (o.name == "ilist")
    {
      unsigned const k = static_cast<unsigned>(g.below(max_ilist + 1U));
      for (unsigned i = 0; i < k; ++i) o.s.push_back(random_enumerator(g));
    }
    return o;
  }

  // ---- modes ----
  static int record(args const &a)
  {
    std::uint64_t const seed = a.seed;
    vj::Rng g(seed * 7919ULL + N * 131ULL + static_cast<unsigned>(W));
    mask_t const full = full_mask(N);
    std::vector<mask_t> const masks = subset_sample(g);
    std::vector<unsigned> const hot_e = hot();
    std::vector<unsigned> const vhot = very_hot();
    build_records();
    ilist_records(g, hot_e);
    for (std::size_t k = 0; k < masks.size(); ++k)
      for (unsigned p = 0; p < num_prov; ++p) single_record(p, masks[k]);
    // single-enumerator operations
    for (std::size_t k = 0; k < masks.size(); ++k)
    {
      mask_t const m = masks[k];
      if (!big)
      {
        for (unsigned e = 0; e < N; ++e)
          for (unsigned p = 0; p < num_prov; ++p)
            if (N <= 8 || (m + e + p) % 3 == 0) elem_record(p, m, e);
      }
      else
      {
        // the enumerators next to the 32- and 64-bit boundaries and two others, productions rotating
        std::vector<unsigned> es = vhot;
        es.push_back(hot_e[(k * 2U) % hot_e.size()]);
        es.push_back(static_cast<unsigned>(g.below(N)));
        for (std::size_t q = 0; q < es.size(); ++q) elem_record(static_cast<unsigned>((k + q) % num_prov), m, es[q]);
      }
    }
    // operator[] proxies
    for (std::size_t k = 0; k < masks.size(); ++k)
    {
      mask_t const m = masks[k];
      if (big)
      {
        unsigned const cand[][2] = {{31U, 32U}, {32U, 31U}, {32U, 32U}, {33U, 0U}, {63U, 64U}, {64U, 63U}, {N - 1U, 31U}, {0U, N - 1U}};
        unsigned c = 0;
        for (auto const &ij : cand)
        {
          if (ij[0] >= N || ij[1] >= N) continue;
          proxy_record(static_cast<unsigned>((k + c++) % num_prov), m, mix_mask(m, ij[0], ij[1]) & full, ij[0], ij[1]);
        }
        continue;
      }
      for (unsigned i = 0; i < N; ++i)
      {
        std::vector<unsigned> js;
        if (N <= 3)
          for (unsigned j = 0; j < N; ++j) js.push_back(j);
        else if (a.deep)
          js = {i, (i + 1U) % N, N - 1U, static_cast<unsigned>((m + i) % N)};
        else
          js = {(m % 2U == 0U) ? i : (i + 1U) % N, static_cast<unsigned>((m + i) % N)};
        for (std::size_t q = 0; q < js.size(); ++q)
        {
          if (std::find(js.begin(), js.begin() + static_cast<std::ptrdiff_t>(q), js[q]) != js.begin() + static_cast<std::ptrdiff_t>(q)) continue;
          mask_t const mb = mix_mask(m, i, js[q]) & full;
          if (N <= 3)
            for (unsigned p = 0; p < num_prov; ++p) proxy_record(p, m, mb, i, js[q]);
          else
            proxy_record(static_cast<unsigned>((m + i + js[q]) % num_prov), m, mb, i, js[q]);
        }
      }
    }
    // every single-enumerator operation of every bits_stride-th subset (big enums: of 16 subsets)
    if (a.bits_stride > 0)
    {
      if (big)
      {
        for (std::size_t k = 0; k < masks.size(); k += (k < 8U ? 1U : masks.size() / 8U)) bits_record(masks[k]);
      }
      else
        for (mask_t m = 0; m <= full; m += static_cast<mask_t>(a.bits_stride))
        {
          bits_record(m);
          if (m == full) break;
        }
    }
    // multi-word bitfields: pairs of subsets that differ only in the last storage word
    if (a.lastword_stride > 0 && bf::array_size::value > 1U)
    {
      unsigned const low = static_cast<unsigned>((bf::array_size::value - 1U) * static_cast<unsigned>(W)); // enumerators below the last word
      unsigned const used = N - low;
      unsigned long c = static_cast<unsigned long>(seed);
      auto const one = [&c, low](mask_t const common, mask_t const l1, mask_t const l2) {
        unsigned const pa = static_cast<unsigned>(c % num_prov);
        unsigned const pb = static_cast<unsigned>((c / num_prov) % num_prov);
        ++c;
        pair_record(pa, common | (l1 << low), pb, common | (l2 << low));
      };
      if (!big)
      {
        for (mask_t common = 0; common < bit(low); common += static_cast<mask_t>(a.lastword_stride))
          for (mask_t l1 = 0; l1 < bit(used); ++l1)
            for (mask_t l2 = 0; l2 < bit(used); ++l2) one(common, l1, l2);
      }
      else
      {
        for (std::size_t k = 0; k < masks.size(); k += masks.size() / 8U)
        {
          mask_t const common = masks[k] & full_mask(low);
          if (used <= 2U)
          {
            for (mask_t l1 = 0; l1 < bit(used); ++l1)
              for (mask_t l2 = 0; l2 < bit(used); ++l2) one(common, l1, l2);
          }
          else
            for (int q = 0; q < 6; ++q)
            {
              mask_t const l1 = rnd_mask(g) & full_mask(used);
              one(common, l1, q % 2 == 0 ? (l1 ^ bit(static_cast<unsigned>(g.below(used)))) : (rnd_mask(g) & full_mask(used)));
            }
        }
      }
    }
    // the same subset produced in two ways: all 36 combinations (big enums: 36 for the first twelve
    // subsets, 12 for the others)
    for (std::size_t k = 0; k < masks.size(); ++k)
    {
      mask_t const m = masks[k];
      std::vector<bf> v;
      bool ok = true;
      guarded([&] {
        ok = false;
        set_kind("rel");
        ::alarm(20);
        for (unsigned p = 0; p < num_prov; ++p) v.push_back(make(p, m));
        ok = true;
      });
      if (!ok) continue;
      for (unsigned pa = 0; pa < num_prov; ++pa)
        for (unsigned pb = 0; pb < num_prov; ++pb)
          if (!big || k < 12U || pb == pa || pb == (pa + 1U + k % 5U) % num_prov) rel_record(pa, v[pa], pb, v[pb]);
    }
    // beyond 9 enumerators: every sampled subset against its one-enumerator neighbours
    if (N > 9)
    {
      unsigned long c = 0;
      for (mask_t const m : masks)
        for (unsigned const e : (big ? hot_e : members(full, N)))
        {
          unsigned const pa = static_cast<unsigned>(c % num_prov);
          unsigned const pb = static_cast<unsigned>((c / num_prov) % num_prov);
          ++c;
          rel_record(pa, m, pb, m ^ bit(e));
        }
    }
    // pairs of subsets
    if (a.pairs == "all")
    {
      if (N > 9) throw harness_error("all pairs only up to 9 enumerators");
      std::vector<std::vector<bf>> v(num_prov);
      bool ok = false;
      guarded([&] {
        set_kind("pair");
        ::alarm(20);
        for (unsigned p = 0; p < num_prov; ++p)
          for (mask_t m = 0; m <= full; ++m) v[p].push_back(make(p, m));
        ok = true;
      });
      unsigned long c = static_cast<unsigned long>(seed);
      if (ok)
        for (mask_t ma = 0; ma <= full; ++ma)
          for (mask_t mb = 0; mb <= full; ++mb, ++c)
          {
            unsigned const pa = static_cast<unsigned>(c % num_prov);
            unsigned const pb = static_cast<unsigned>((c / num_prov) % num_prov);
            pair_record(pa, v[pa][static_cast<std::size_t>(ma)], pb, v[pb][static_cast<std::size_t>(mb)]);
          }
    }
    else
    {
      // corner pairs: empty, full and the one-enumerator subsets next to the word boundaries, each with each
      {
        std::vector<mask_t> corner = {0U, full};
        for (unsigned const e : (big ? vhot : hot_e)) corner.push_back(bit(e));
        unsigned long c = static_cast<unsigned long>(seed);
        for (mask_t const ma : corner)
          for (mask_t const mb : corner)
          {
            unsigned const pa = static_cast<unsigned>(c % num_prov);
            unsigned const pb = static_cast<unsigned>((c / num_prov) % num_prov);
            ++c;
            pair_record(pa, ma, pb, mb);
          }
      }
      long const np = std::strtol(a.pairs.c_str(), nullptr, 10);
      for (long k = 0; k < np; ++k)
      {
        unsigned const pa = static_cast<unsigned>(g.below(num_prov));
        unsigned const pb = static_cast<unsigned>(g.below(num_prov));
        mask_t ma, mb;
        if (!big)
        {
          ma = static_cast<mask_t>(g.next()) & full;
          mb = static_cast<mask_t>(g.next()) & full;
        }
        else
        {
          // operands: sampled subsets (structured ones among them), uniformly random, sparse or dense
          auto const pick = [&]() -> mask_t {
            switch (g.below(4))
            {
            case 0: return masks[g.below(masks.size())];
            case 1: return rnd_mask(g) & rnd_mask(g) & rnd_mask(g) & full;
            case 2: return (rnd_mask(g) | rnd_mask(g)) & full;
            default: return rnd_mask(g) & full;
            }
          };
          ma = pick();
          mb = pick();
        }
        switch (g.below(big ? 12 : 10))
        {
        case 0: mb = ma; break;
        case 1: mb = ma & mb; break; // a subset
        case 2: mb = ma | mb; break; // a superset
        case 3: mb = ~ma & full; break;
        case 4: mb = ma ^ bit(static_cast<unsigned>(g.below(N))); break; // differs in one enumerator
        case 5: mb = ma ^ bit(N - 1); break;                              // differs in the last enumerator
        case 10: mb = ma ^ bit(vhot[g.below(vhot.size())]); break;        // differs next to a 32/64-bit boundary
        case 11: mb = (ma & full_mask(32)) | (mb & ~full_mask(32)); break; // equal in the low 32 enumerators
        default: break;
        }
        pair_record(pa, ma, pb, mb);
      }
    }
    for (long k = 0; k < a.ntrees; ++k) tree_record(g);
    for (long h = 0; h < a.nhist; ++h)
    {
      std::vector<op> ops;
      unsigned const len = 1 + static_cast<unsigned>(g.below(40));
      for (unsigned i = 0; i < len; ++i)
      {
        op o(random_op(g));
        // three of four histories stay within set/get/operators; the fourth may use proxy assignments
        while (h % 4 != 3 && (o.name == "idxcopy" || o.name == "idxcopy_y" || o.name == "chain")) o = random_op(g);
        ops.push_back(o);
      }
      run_history("rnd", ops);
    }
    return 0;
  }

  static int replay(char const *const scripts)
  {
    for (auto const &line : vj::read_lines(scripts))
    {
      vj::VP const sc = vj::parse(line);
      std::vector<op> ops;
      for (auto const &e : sc->a)
      {
        op o;
        o.name = e->str("op");
        o.i = static_cast<unsigned>(e->num_or("i", 0));
        o.j = static_cast<unsigned>(e->num_or("j", 0));
        o.b = e->has("b") && e->at("b").b;
        if (e->has("s"))
          for (long long v : e->nums("s")) o.s.push_back(static_cast<unsigned>(v));
        if (o.i >= N || o.j >= N) throw harness_error("script names an enumerator outside the enum");
        ops.push_back(o);
      }
      run_history("script", ops);
    }
    return 0;
  }
#else
  // =====================================================================================
  // record kinds OUTSIDE the statement of C10 (observed only)
  // =====================================================================================
  // ---- details of the proxy type and of returned references ----
  static void proxyx_record(unsigned const p, mask_t const ma, mask_t const mb, unsigned const i, unsigned const j)
  {
    guarded([&] {
      vj::J pre;
      pre.kv("f", "proxyx").kv("n", N).kv("w", W).kv("p", prov_name[p]).kv("i", i).kv("j", j);
      begin("proxyx", pre.s);
      bf const a(make(p, ma));
      bf const b(make((p + 1) % num_prov, mb));
      std::string r = ",\"a\":" + elems(a) + ",\"b\":" + elems(b);
      {
        // a copy of a proxy refers to the same bit
        bf c(a);
        OP("proxy_copy");
        typename bf::reference pr(c[en(i)]);
        typename bf::reference pc(pr);
        pc = true;
        r += ",\"cpy\":" + obs(c);
        OP("proxy_copy");
        r += std::string(",\"cpyr\":") + (static_cast<bool>(pr) ? "1" : "0");
      }
      {
        // const proxy -> bool, reference returned by operator=(bool)
        bf c(a);
        bf const &k = c;
        OP("index");
        typename bf::const_reference const kr(k[en(j)]);
        r += std::string(",\"cc\":") + (static_cast<bool>(kr) ? "1" : "0");
        OP("idx");
        typename bf::reference pr(c[en(i)]);
        typename bf::reference &ret = (pr = true);
        r += std::string(",\"rs\":") + ((&ret == &pr) ? "1" : "0");
        typename bf::reference &ret2 = (ret = false);
        r += std::string(",\"rs2\":") + ((&ret2 == &pr) ? "1" : "0");
        r += ",\"rsv\":" + obs(c);
      }
      {
        // rid: do the assigning operators return a reference to their left operand?
        std::string rid = "[";
        { bf c(a); OP("ora"); bf &ref = (c |= b); rid += (&ref == &c) ? "1," : "0,"; }
        { bf c(a); OP("anda"); bf &ref = (c &= b); rid += (&ref == &c) ? "1," : "0,"; }
        { bf c(a); OP("xora"); bf &ref = (c ^= b); rid += (&ref == &c) ? "1," : "0,"; }
        { bf c(a); OP("orae"); bf &ref = (c |= en(i)); rid += (&ref == &c) ? "1]" : "0]"; }
        r += ",\"rid\":" + rid;
      }
      r += ",\"aa\":" + elems(a) + "}";
      vj::end_call(r);
    });
  }

  // ---- operator<< (char and wchar_t), underlying_value / construction from the word ----
  static std::string word_limbs(unsigned long long const v)
  {
    return "[" + std::to_string(v & 0xFFFFU) + "," + std::to_string((v >> 16U) & 0xFFFFU) + "," +
           std::to_string((v >> 32U) & 0xFFFFU) + "," + std::to_string((v >> 48U) & 0xFFFFU) + "]";
  }
  static void out_record(unsigned const p, mask_t const m)
  {
    guarded([&] {
      vj::J pre;
      pre.kv("f", "out").kv("n", N).kv("w", W).kv("p", prov_name[p]);
      begin("out", pre.s);
      bf const a(make(p, m));
      OP("output");
      std::ostringstream os;
      os << a;
      std::wostringstream ws;
      ws << a;
      std::string r = ",\"a\":" + elems(a) + ",\"s\":" + vj::cps(os.str()) + ",\"ws\":" + vj::cps(ws.str());
      r += std::string(",\"good\":") + ((os.good() && ws.good()) ? "1" : "0");
      if constexpr (bf::array_size::value == 1U)
      {
        OP("underlying_value");
        Wd const u = fcppt::container::bitfield::underlying_value(a);
        r += ",\"uv\":" + word_limbs(static_cast<unsigned long long>(u));
        // a bitfield constructed from that word, and one constructed from the word the generator
        // describes (bit e of the word = enumerator e), which has no bit outside the enum
        OP("array");
        bf const back(typename bf::array_type{u});
        r += ",\"uvb\":" + obs(back);
        Wd const arg = static_cast<Wd>(m);
        OP("array");
        bf const from(typename bf::array_type{arg});
        r += ",\"arg\":" + word_limbs(static_cast<unsigned long long>(arg)) + ",\"from\":" + obs(from);
      }
      else
      {
        r += ",\"uv\":[],\"uvb\":[],\"arg\":[],\"from\":[]";
      }
      r += "}";
      vj::end_call(r);
    });
  }

  // ---- construction from the word array and from an fcppt::enum_::array<E, bool> ----
  static void buildx_records()
  {
    auto emit = [](char const *how, std::vector<unsigned> const &s, auto const &make_it) {
      guarded([&] {
        begin("buildx", head("buildx") + ",\"how\":\"" + how + "\",\"s\":" + vj::arr(s));
        OP(how);
        bf const v(make_it());
        vj::end_call(",\"r\":" + obs(v) + "}");
      });
    };
    // a bitfield is "like a std::map<Enum,bool>": initialise it from an enum_::array<E,bool>
    guarded([&] {
      set_kind("buildx");
      OP("enum_array");
      ::alarm(20);
      fcppt::enum_::array<E, bool> flags(
          fcppt::enum_::array_init<fcppt::enum_::array<E, bool>>([](E const e) { return static_cast<unsigned>(e) % 2U == 0U; }));
      std::vector<unsigned> s;
      for (unsigned i = 0; i < N; ++i)
        if (flags[en(i)]) s.push_back(i);
      emit("enum_array", s, [&flags] { return fcppt::container::bitfield::init<bf>([&flags](E const e) { return flags[e]; }); });
    });
    mask_t const full = full_mask(N);
    mask_t const picks[] = {0U, full, 1U, bit(N - 1), full & 0x15555U, full & 0x0AAAAU, range_mask(32U < N ? 32U : 0U, N)};
    for (mask_t m : picks)
      for (unsigned p = 0; p < num_prov; ++p)
        emit("array", members(m, N), [p, m] { bf const src(make(p, m)); OP("array"); return bf(src.array()); });
  }

  static int record(args const &a)
  {
    vj::Rng g(a.seed * 7919ULL + N * 131ULL + static_cast<unsigned>(W));
    mask_t const full = full_mask(N);
    std::vector<mask_t> const masks = subset_sample(g);
    buildx_records();
    for (std::size_t k = 0; k < masks.size(); ++k)
    {
      mask_t const m = masks[k];
      if (big)
      {
        unsigned const cand[][2] = {{31U, 32U}, {32U, 0U}, {63U, 64U}, {N - 1U, 32U}};
        for (auto const &ij : cand)
          if (ij[0] < N && ij[1] < N)
            proxyx_record(static_cast<unsigned>((k + ij[0]) % num_prov), m, mix_mask(m, ij[0], ij[1]) & full, ij[0], ij[1]);
        continue;
      }
      for (unsigned i = 0; i < N; ++i)
      {
        std::vector<unsigned> js;
        if (N <= 3)
          for (unsigned j = 0; j < N; ++j) js.push_back(j);
        else
          js = {(m % 2U == 0U) ? i : (i + 1U) % N};
        for (unsigned const j : js) proxyx_record(static_cast<unsigned>((m + i) % num_prov), m, mix_mask(m, i, j) & full, i, j);
      }
    }
    for (std::size_t k = 0; k < masks.size(); ++k)
    {
      out_record(static_cast<unsigned>(masks[k] % num_prov), masks[k]);
      out_record(2U, masks[k]);
    }
    return 0;
  }

  static int replay(char const *) { throw harness_error("the observed-only executable has no replay mode"); }
#endif
};

template <typename E>
int run_enum(int const w, args const &a)
{
  auto const go = [&a](auto d) {
    using D = decltype(d);
    return a.replay ? D::replay(a.scripts.c_str()) : D::record(a);
  };
  switch (w)
  {
  case 8: return go(driver<E, std::uint8_t>{});
  case 16: return go(driver<E, std::uint16_t>{});
  case 32: return go(driver<E, std::uint32_t>{});
  case 64: return go(driver<E, std::uint64_t>{});
  default: std::fprintf(stderr, "no instantiation for w=%d\n", w); return 3;
  }
}

template <typename E>
int main_for(int const argc, char **const argv)
{
  constexpr int n_here = static_cast<int>(fcppt::enum_::size<E>::value);
  if (argc < 6)
  {
    std::fprintf(stderr, "usage: record OUT n w seed pairs ntrees nhist [bits lastword deep] | replay SCRIPTS OUT n w\n");
    return 3;
  }
  std::string const mode = argv[1];
  try
  {
    args a;
    int n = 0;
    int w = 0;
    if (mode == "record" && argc >= 9)
    {
      vj::open(argv[2]);
      n = std::atoi(argv[3]);
      w = std::atoi(argv[4]);
      a.seed = std::strtoull(argv[5], nullptr, 10);
      a.pairs = argv[6];
      a.ntrees = std::strtol(argv[7], nullptr, 10);
      a.nhist = std::strtol(argv[8], nullptr, 10);
      a.bits_stride = argc > 9 ? std::strtol(argv[9], nullptr, 10) : 0;
      a.lastword_stride = argc > 10 ? std::strtol(argv[10], nullptr, 10) : 0;
      a.deep = argc > 11 && std::strtol(argv[11], nullptr, 10) != 0;
    }
    else if (mode == "replay")
    {
      vj::open(argv[3]);
      a.replay = true;
      a.scripts = argv[2];
      n = std::atoi(argv[4]);
      w = std::atoi(argv[5]);
    }
    else
    {
      std::fprintf(stderr, "bad arguments\n");
      return 3;
    }
    if (n != n_here)
    {
      std::fprintf(stderr, "this executable drives the enum with %d enumerators, not %d\n", n_here, n);
      return 3;
    }
    install_handlers(mode == "record" ? argv[2] : argv[3]);
    int const rc = run_enum<E>(w, a);
    ::alarm(0);
    vj::close();
    return rc != 0 ? rc : (g_exceptions > 0 ? 65 : 0);
  }
  catch (harness_error const &e)
  {
    std::fprintf(stderr, "harness error: %s\n", e.what());
    return 3;
  }
}
}

#ifdef C10_OBSERVED
namespace c10
{
// the enumerator names printed by operator<< : "v0", "v1", ...
inline std::string_view enum_name(unsigned const i)
{
  static std::vector<std::string> const names = [] {
    std::vector<std::string> r;
    for (unsigned k = 0; k < 100U; ++k) r.push_back("v" + std::to_string(k));
    return r;
  }();
  return names.at(i);
}
}
#define C10_NAMES(E)                                                                            \
  namespace fcppt::enum_                                                                        \
  {                                                                                             \
  template <>                                                                                   \
  struct to_string_impl<E>                                                                      \
  {                                                                                             \
    static std::string_view get(E const e) { return ::c10::enum_name(static_cast<unsigned>(e)); } \
  };                                                                                            \
  }
#else
#define C10_NAMES(E)
#endif

// the enum is defined by the translation unit (in an unnamed namespace), then: C10_MAIN(e17)
#define C10_MAIN(E)                                                                             \
  C10_NAMES(E)                                                                                  \
  int main(int argc, char **argv) { return ::c10::main_for<E>(argc, argv); }

#endif
