// C10 conformance harness, shared part (command line: see c10_bitfield.cpp): enums, the driver
// template over (enum, storage word type) and the record writers.  It contains no expected
// values: spec/BitfieldJudge.tla (TLC) is the judge.
//
// Values are logged observationally: a bitfield is written as the list of enumerators for which
// get() returned true.  Every produced value v is additionally compared (==, !=, both hash function
// objects, is_subset_eq in both directions) with a twin c built by init() from v's own get()
// results - the judge decides from the two logged sets what those comparisons had to yield.
#ifndef VERIF_C10_BITFIELD_HPP
#define VERIF_C10_BITFIELD_HPP
#include <common/vjson.hpp>

#include <fcppt/container/bitfield/comparison.hpp>
#include <fcppt/container/bitfield/hash.hpp>
#include <fcppt/container/bitfield/init.hpp>
#include <fcppt/container/bitfield/is_subset_eq.hpp>
#include <fcppt/container/bitfield/object.hpp>
#include <fcppt/container/bitfield/operators.hpp>
#include <fcppt/container/bitfield/output.hpp>
#include <fcppt/container/bitfield/underlying_value.hpp>
#include <fcppt/enum/array.hpp>
#include <fcppt/enum/array_init.hpp>
#include <fcppt/enum/to_string_impl_fwd.hpp>
#include <fcppt/container/bitfield/std_hash.hpp>
#include <fcppt/enum/size.hpp>

#include <cstdint>
#include <functional>
#include <limits>
#include <memory>
#include <sstream>
#include <string>
#include <string_view>
#include <utility>
#include <vector>

namespace
{
enum class e1 { v0, fcppt_maximum = v0 };
enum class e3 { v0, v1, v2, fcppt_maximum = v2 };
enum class e8 { v0, v1, v2, v3, v4, v5, v6, v7, fcppt_maximum = v7 };
enum class e9 { v0, v1, v2, v3, v4, v5, v6, v7, v8, fcppt_maximum = v8 };
enum class e17
{
  v0, v1, v2, v3, v4, v5, v6, v7, v8, v9, v10, v11, v12, v13, v14, v15, v16,
  fcppt_maximum = v16
};

// the enumerator names printed by operator<< : "v0", "v1", ...
inline std::string_view enum_name(unsigned const i)
{
  static char const *const names[] = {"v0", "v1", "v2", "v3", "v4", "v5", "v6", "v7", "v8",
                                      "v9", "v10", "v11", "v12", "v13", "v14", "v15", "v16"};
  return names[i];
}
}

namespace fcppt::enum_
{
#define VERIF_NAMES(E)                                                                         \
  template <>                                                                                  \
  struct to_string_impl<E>                                                                     \
  {                                                                                            \
    static std::string_view get(E const e) { return enum_name(static_cast<unsigned>(e)); }      \
  };
VERIF_NAMES(e1)
VERIF_NAMES(e3)
VERIF_NAMES(e8)
VERIF_NAMES(e9)
VERIF_NAMES(e17)
#undef VERIF_NAMES
}

namespace
{
using mask_t = std::uint32_t; // the generator's description of a subset (n <= 17)

// ---- expression trees over the operators (generator side: shape only) ----
struct tree
{
  std::string o;
  std::vector<unsigned> s;
  unsigned e = 0;
  bool b = false;
  std::shared_ptr<tree> l, r, x;
};
using tp = std::shared_ptr<tree>;

std::string tree_json(tree const &t)
{
  vj::J j;
  j.kv("o", t.o);
  if (t.o == "set" || t.o == "init") j.raw("s", vj::arr(t.s));
  if (t.x) j.raw("x", tree_json(*t.x));
  if (t.l) j.raw("l", tree_json(*t.l));
  if (t.r) j.raw("r", tree_json(*t.r));
  if (t.o == "sete" || t.o == "idx" || t.o == "ore" || t.o == "orae") j.kv("e", t.e);
  if (t.o == "sete" || t.o == "idx") j.kv("b", t.b);
  return j.str();
}

tp leaf(std::string const &o, std::vector<unsigned> s = {})
{
  auto t = std::make_shared<tree>();
  t->o = o;
  t->s = std::move(s);
  return t;
}
tp un(std::string const &o, tp x)
{
  auto t = std::make_shared<tree>();
  t->o = o;
  t->x = std::move(x);
  return t;
}
tp bin(std::string const &o, tp l, tp r)
{
  auto t = std::make_shared<tree>();
  t->o = o;
  t->l = std::move(l);
  t->r = std::move(r);
  return t;
}
tp elem(std::string const &o, tp x, unsigned e, bool b)
{
  auto t = std::make_shared<tree>();
  t->o = o;
  t->x = std::move(x);
  t->e = e;
  t->b = b;
  return t;
}

std::vector<unsigned> members(mask_t m, unsigned n)
{
  std::vector<unsigned> r;
  for (unsigned i = 0; i < n; ++i)
    if ((m >> i) & 1U) r.push_back(i);
  return r;
}

constexpr unsigned num_prov = 6;
char const *const prov_name[num_prov] = {"set", "init", "not", "notnot", "xorfull", "ornotall"};

// the six ways in which a subset m is produced
tp prov_tree(unsigned p, mask_t m, unsigned n)
{
  mask_t const full = (n >= 32 ? ~mask_t{0} : ((mask_t{1} << n) - 1U));
  mask_t const comp = ~m & full;
  switch (p)
  {
  case 0: return leaf("set", members(m, n));
  case 1: return leaf("init", members(m, n));
  case 2: return un("not", leaf("set", members(comp, n)));
  case 3: return un("not", un("not", leaf("set", members(m, n))));
  case 4: return bin("xor", leaf("set", members(comp, n)), un("not", leaf("null")));
  default: return bin("or", leaf("set", members(m, n)), un("not", leaf("set", members(full, n))));
  }
}

template <typename E, typename Wd>
struct driver
{
  using bf = fcppt::container::bitfield::object<E, Wd>;
  static constexpr unsigned N = static_cast<unsigned>(fcppt::enum_::size<E>::value);
  static constexpr int W = std::numeric_limits<Wd>::digits;

  static E en(unsigned i) { return static_cast<E>(i); }

  // ---- observation ----
  static std::string elems(bf const &v)
  {
    std::string s = "[";
    bool f = true;
    for (unsigned i = 0; i < N; ++i)
      if (v.get(en(i)))
      {
        if (!f) s += ',';
        f = false;
        s += std::to_string(i);
      }
    return s + "]";
  }
  static std::string elems_index(bf const &v) // const operator[]
  {
    std::string s = "[";
    bool f = true;
    for (unsigned i = 0; i < N; ++i)
      if (v[en(i)])
      {
        if (!f) s += ',';
        f = false;
        s += std::to_string(i);
      }
    return s + "]";
  }
  static std::string elems_and(bf const &v) // operator&(field, enumerator)
  {
    std::string s = "[";
    bool f = true;
    for (unsigned i = 0; i < N; ++i)
      if (v & en(i))
      {
        if (!f) s += ',';
        f = false;
        s += std::to_string(i);
      }
    return s + "]";
  }
  static std::string rel(bf const &l, bf const &r)
  {
    fcppt::container::bitfield::hash<bf> const h{};
    std::hash<bf> const sh{};
    std::string s = "[";
    s += (l == r) ? "1," : "0,";
    s += (l != r) ? "1," : "0,";
    s += (h(l) == h(r)) ? "1," : "0,";
    s += (sh(l) == sh(r)) ? "1," : "0,";
    s += fcppt::container::bitfield::is_subset_eq(l, r) ? "1," : "0,";
    s += fcppt::container::bitfield::is_subset_eq(r, l) ? "1]" : "0]";
    return s;
  }
  // V = [v, c, K(v, c)] with c the twin built by init from v's own get() results
  static std::string obs(bf const &v)
  {
    bf const c(fcppt::container::bitfield::init<bf>([&v](E const e) { return v.get(e); }));
    return "[" + elems(v) + "," + elems(c) + "," + rel(v, c) + "]";
  }

  // ---- evaluation of a tree with the real operators ----
  static bf eval(tree const &t)
  {
    if (t.o == "set")
    {
      bf r(bf::null());
      for (unsigned i : t.s) r.set(en(i), true);
      return r;
    }
    if (t.o == "init")
    {
      return fcppt::container::bitfield::init<bf>([&t](E const e) {
        for (unsigned i : t.s)
          if (en(i) == e) return true;
        return false;
      });
    }
    if (t.o == "null") return bf::null();
    if (t.o == "not") return ~eval(*t.x);
    if (t.o == "or") return eval(*t.l) | eval(*t.r);
    if (t.o == "and") return eval(*t.l) & eval(*t.r);
    if (t.o == "xor") return eval(*t.l) ^ eval(*t.r);
    if (t.o == "ora") { bf a(eval(*t.l)); bf &ref = (a |= eval(*t.r)); return ref; }
    if (t.o == "anda") { bf a(eval(*t.l)); bf &ref = (a &= eval(*t.r)); return ref; }
    if (t.o == "xora") { bf a(eval(*t.l)); bf &ref = (a ^= eval(*t.r)); return ref; }
    if (t.o == "sete") { bf a(eval(*t.x)); a.set(en(t.e), t.b); return a; }
    if (t.o == "idx") { bf a(eval(*t.x)); a[en(t.e)] = t.b; return a; }
    if (t.o == "ore") return eval(*t.x) | en(t.e);
    if (t.o == "orae") { bf a(eval(*t.x)); bf &ref = (a |= en(t.e)); return ref; }
    throw std::runtime_error("tree: unknown operator " + t.o);
  }

  static bf make(unsigned p, mask_t m) { return eval(*prov_tree(p, m, N)); }

  static std::string head(char const *f)
  {
    vj::J j;
    j.kv("f", f).kv("n", N).kv("w", W);
    return j.s;
  }

  // ---- record kinds ----
  static void build_records()
  {
    auto emit = [](char const *how, std::vector<unsigned> const &s, auto const &make_it) {
      vj::begin_call(head("build") + ",\"how\":\"" + how + "\",\"s\":" + vj::arr(s));
      bf const v(make_it());
      vj::end_call(",\"r\":" + obs(v) + "}");
    };
    unsigned const last = N - 1;
    emit("null", {}, [] { return bf::null(); });
    emit("ilist", {}, [] { return bf(typename bf::initializer_list_type{}); });
    emit("ilist", {0}, [] { return bf{en(0)}; });
    emit("ilist", {last}, [last] { return bf{en(last)}; });
    emit("ilist", {0, last}, [last] { return bf{en(0), en(last)}; });
    emit("ilist", {last, 0, last}, [last] { return bf{en(last), en(0), en(last)}; });
    emit("ilist", {last / 2, last / 2}, [last] { return bf{en(last / 2), en(last / 2)}; });
    {
      std::vector<unsigned> all;
      for (unsigned i = 0; i < N; ++i) all.push_back(i);
      emit("ilist", all, [] { return all_of(std::make_integer_sequence<unsigned, N>{}, false); });
      std::vector<unsigned> rev(all.rbegin(), all.rend());
      emit("ilist", rev, [] { return all_of(std::make_integer_sequence<unsigned, N>{}, true); });
    }
    // a bitfield is "like a std::map<Enum,bool>": initialise it from an enum_::array<E,bool>
    {
      fcppt::enum_::array<E, bool> flags(
          fcppt::enum_::array_init<fcppt::enum_::array<E, bool>>([](E const e) { return static_cast<unsigned>(e) % 2U == 0U; }));
      std::vector<unsigned> s;
      for (unsigned i = 0; i < N; ++i)
        if (flags[en(i)]) s.push_back(i);
      emit("enum_array", s, [&flags] { return fcppt::container::bitfield::init<bf>([&flags](E const e) { return flags[e]; }); });
    }
    // copy construction, copy assignment, construction from the internal array - of values that
    // were themselves produced in the six ways
    mask_t const full = (mask_t{1} << N) - 1U;
    mask_t const picks[] = {0U, full, 1U, mask_t{1} << (N - 1), full & 0x15555U, full & 0x0AAAAU};
    for (mask_t m : picks)
      for (unsigned p = 0; p < num_prov; ++p)
      {
        bf const src(make(p, m));
        std::vector<unsigned> const s = observed(src);
        emit("copy", s, [&src] { return bf(src); });
        emit("assign", s, [&src] { bf d(bf::null()); d = src; return d; });
        emit("array", s, [&src] { return bf(src.array()); });
      }
  }
  template <unsigned... Is>
  static bf all_of(std::integer_sequence<unsigned, Is...>, bool reversed)
  {
    return reversed ? bf{en(N - 1 - Is)...} : bf{en(Is)...};
  }
  static std::vector<unsigned> observed(bf const &v)
  {
    std::vector<unsigned> r;
    for (unsigned i = 0; i < N; ++i)
      if (v.get(en(i))) r.push_back(i);
    return r;
  }

  static void single_record(unsigned p, mask_t m)
  {
    tp const t = prov_tree(p, m, N);
    vj::begin_call(head("single") + ",\"p\":\"" + prov_name[p] + "\",\"t\":" + tree_json(*t));
    bf const a(eval(*t));
    std::string r;
    r += ",\"a\":" + elems(a) + ",\"ai\":" + elems_index(a) + ",\"ae\":" + elems_and(a);
    r += ",\"can\":" + obs(a);
    r += ",\"not\":" + obs(~a);
    r += ",\"notnot\":" + obs(~~a);
    { bf c(a); bf &ref = (c |= c); r += ",\"sora\":" + obs(ref); }
    { bf c(a); bf &ref = (c &= c); r += ",\"sanda\":" + obs(ref); }
    { bf c(a); bf &ref = (c ^= c); r += ",\"sxora\":" + obs(ref); }
    r += ",\"rel\":" + rel(a, a);
    r += ",\"aa\":" + elems(a) + "}";
    vj::end_call(r);
  }

  static void elem_record(unsigned p, mask_t m, unsigned e)
  {
    vj::J pre;
    pre.kv("f", "elem").kv("n", N).kv("w", W).kv("p", prov_name[p]).kv("m", static_cast<long long>(m)).kv("e", e);
    vj::begin_call(pre.s);
    bf const a(make(p, m));
    std::string r = ",\"a\":" + elems(a);
    { bf c(a); c.set(en(e), true); r += ",\"set1\":" + obs(c); }
    { bf c(a); c.set(en(e), false); r += ",\"set0\":" + obs(c); }
    { bf c(a); c[en(e)] = true; r += ",\"idx1\":" + obs(c); }
    { bf c(a); c[en(e)] = false; r += ",\"idx0\":" + obs(c); }
    r += ",\"ore\":" + obs(a | en(e));
    { bf c(a); bf &ref = (c |= en(e)); r += ",\"orae\":" + obs(ref); }
    r += ",\"g\":" + std::string(a.get(en(e)) ? "1" : "0");
    r += ",\"ix\":" + std::string(a[en(e)] ? "1" : "0");
    { bf c(a); r += ",\"ixm\":" + std::string(c[en(e)] ? "1" : "0"); }
    r += ",\"an\":" + std::string((a & en(e)) ? "1" : "0");
    r += ",\"aa\":" + elems(a) + "}";
    vj::end_call(r);
  }

  static void rel_record(unsigned pa, bf const &a, unsigned pb, bf const &b)
  {
    vj::begin_call(head("rel") + ",\"pa\":\"" + prov_name[pa] + "\",\"pb\":\"" + prov_name[pb] + "\"");
    vj::end_call(",\"a\":" + elems(a) + ",\"b\":" + elems(b) + ",\"rel\":" + rel(a, b) + "}");
  }

  static void pair_record(unsigned pa, bf const &a, unsigned pb, bf const &b)
  {
    vj::begin_call(head("pair") + ",\"pa\":\"" + prov_name[pa] + "\",\"pb\":\"" + prov_name[pb] + "\"");
    std::string r = ",\"a\":" + elems(a) + ",\"b\":" + elems(b);
    r += ",\"or\":" + obs(a | b);
    r += ",\"and\":" + obs(a & b);
    r += ",\"xor\":" + obs(a ^ b);
    { bf c(a); bf &ref = (c |= b); r += ",\"ora\":" + obs(ref); }
    { bf c(a); bf &ref = (c &= b); r += ",\"anda\":" + obs(ref); }
    { bf c(a); bf &ref = (c ^= b); r += ",\"xora\":" + obs(ref); }
    r += ",\"rel\":" + rel(a, b);
    r += ",\"aa\":" + elems(a) + ",\"ba\":" + elems(b) + "}";
    vj::end_call(r);
  }

  // ---- operator[] proxies: assignment through operator[] from another proxy, chains ----
  static void proxy_record(unsigned p, mask_t ma, mask_t mb, unsigned i, unsigned j)
  {
    vj::J pre;
    pre.kv("f", "proxy").kv("n", N).kv("w", W).kv("p", prov_name[p]).kv("i", i).kv("j", j);
    vj::begin_call(pre.s);
    bf const a(make(p, ma));
    bf const b(make((p + 1) % num_prov, mb));
    std::string r = ",\"a\":" + elems(a) + ",\"b\":" + elems(b);
    { bf c(a); c[en(i)] = c[en(j)]; r += ",\"cp\":" + obs(c); }
    { bf c(a); c[en(i)] = c[en(j)] = true; r += ",\"ch1\":" + obs(c); }
    { bf c(a); c[en(i)] = c[en(j)] = false; r += ",\"ch0\":" + obs(c); }
    {
      // named proxies: p = q assigns q's bit to p's bit; p keeps referring to enumerator i
      bf c(a);
      typename bf::reference pr(c[en(i)]);
      typename bf::reference qr(c[en(j)]);
      pr = qr;
      pr = false;
      r += ",\"named\":" + obs(c);
    }
    {
      bf c(a);
      typename bf::reference pr(c[en(i)]);
      typename bf::reference qr(c[en(j)]);
      pr = std::move(qr);
      r += ",\"mv\":" + obs(c);
    }
    {
      bf c(a);
      bf d(b);
      c[en(i)] = d[en(j)];
      r += ",\"cross\":" + obs(c) + ",\"crossb\":" + elems(d);
    }
    r += ",\"aa\":" + elems(a) + "}";
    vj::end_call(r);
  }

  // ---- details of the proxy type and of returned references (observed only) ----
  static void proxyx_record(unsigned p, mask_t ma, mask_t mb, unsigned i, unsigned j)
  {
    vj::J pre;
    pre.kv("f", "proxyx").kv("n", N).kv("w", W).kv("p", prov_name[p]).kv("i", i).kv("j", j);
    vj::begin_call(pre.s);
    bf const a(make(p, ma));
    bf const b(make((p + 1) % num_prov, mb));
    std::string r = ",\"a\":" + elems(a) + ",\"b\":" + elems(b);
    {
      // a copy of a proxy refers to the same bit
      bf c(a);
      typename bf::reference pr(c[en(i)]);
      typename bf::reference pc(pr);
      pc = true;
      r += ",\"cpy\":" + obs(c);
      r += std::string(",\"cpyr\":") + (static_cast<bool>(pr) ? "1" : "0");
    }
    {
      // const proxy -> bool, reference returned by operator=(bool)
      bf c(a);
      bf const &k = c;
      typename bf::const_reference const kr(k[en(j)]);
      r += std::string(",\"cc\":") + (static_cast<bool>(kr) ? "1" : "0");
      typename bf::reference pr(c[en(i)]);
      typename bf::reference &ret = (pr = true);
      r += std::string(",\"rs\":") + ((&ret == &pr) ? "1" : "0");
      typename bf::reference &ret2 = (ret = false);
      r += std::string(",\"rs2\":") + ((&ret2 == &pr) ? "1" : "0");
      r += ",\"rsv\":" + obs(c);
    }
    {
      // rid: do the assigning operators return a reference to their left operand?
      std::string rid = "[";
      { bf c(a); bf &ref = (c |= b); rid += (&ref == &c) ? "1," : "0,"; }
      { bf c(a); bf &ref = (c &= b); rid += (&ref == &c) ? "1," : "0,"; }
      { bf c(a); bf &ref = (c ^= b); rid += (&ref == &c) ? "1," : "0,"; }
      { bf c(a); bf &ref = (c |= en(i)); rid += (&ref == &c) ? "1]" : "0]"; }
      r += ",\"rid\":" + rid;
    }
    r += ",\"aa\":" + elems(a) + "}";
    vj::end_call(r);
  }

  // ---- operator<< (char and wchar_t), underlying_value / construction from the word ----
  static std::string word_limbs(unsigned long long v)
  {
    return "[" + std::to_string(v & 0xFFFFU) + "," + std::to_string((v >> 16U) & 0xFFFFU) + "," +
           std::to_string((v >> 32U) & 0xFFFFU) + "," + std::to_string((v >> 48U) & 0xFFFFU) + "]";
  }
  static void out_record(unsigned p, mask_t m)
  {
    vj::J pre;
    pre.kv("f", "out").kv("n", N).kv("w", W).kv("p", prov_name[p]);
    vj::begin_call(pre.s);
    bf const a(make(p, m));
    std::ostringstream os;
    os << a;
    std::wostringstream ws;
    ws << a;
    std::string r = ",\"a\":" + elems(a) + ",\"s\":" + vj::cps(os.str()) + ",\"ws\":" + vj::cps(ws.str());
    r += std::string(",\"good\":") + ((os.good() && ws.good()) ? "1" : "0");
    if constexpr (bf::array_size::value == 1U)
    {
      Wd const u = fcppt::container::bitfield::underlying_value(a);
      r += ",\"uv\":" + word_limbs(static_cast<unsigned long long>(u));
      // a bitfield constructed from that word, and one constructed from the word the generator
      // describes (bit e of the word = enumerator e), which has no bit outside the enum
      bf const back(typename bf::array_type{u});
      r += ",\"uvb\":" + obs(back);
      Wd const arg = static_cast<Wd>(m);
      bf const from(typename bf::array_type{arg});
      r += ",\"arg\":" + word_limbs(static_cast<unsigned long long>(arg)) + ",\"from\":" + obs(from);
    }
    else
    {
      r += ",\"uv\":[],\"uvb\":[],\"arg\":[],\"from\":[]";
    }
    r += "}";
    vj::end_call(r);
  }

  // ---- all single-enumerator operations of one subset (17 enumerators, thorough: every subset) ----
  static void bits_record(mask_t m)
  {
    vj::J pre;
    pre.kv("f", "bits").kv("n", N).kv("w", W).kv("m", static_cast<long long>(m));
    vj::begin_call(pre.s);
    bf a(bf::null());
    for (unsigned i = 0; i < N; ++i)
      if ((m >> i) & 1U) a[en(i)] = true;
    std::string r = ",\"a\":" + elems(a) + ",\"ai\":" + elems_index(a) + ",\"s1\":[";
    for (unsigned e = 0; e < N; ++e) { bf c(a); c.set(en(e), true); r += (e ? "," : "") + elems(c); }
    r += "],\"s0\":[";
    for (unsigned e = 0; e < N; ++e) { bf c(a); c[en(e)] = false; r += (e ? "," : "") + elems(c); }
    r += "],\"or1\":[";
    for (unsigned e = 0; e < N; ++e) r += (e ? "," : "") + elems(a | en(e));
    r += "],\"nt\":" + obs(~a) + "}";
    vj::end_call(r);
  }

  // ---- random expression trees ----
  static tp random_tree(vj::Rng &g, int depth)
  {
    mask_t const full = (mask_t{1} << N) - 1U;
    if (depth <= 0 || g.below(10) < 2)
    {
      switch (g.below(4))
      {
      case 0: return leaf("null");
      case 1: return leaf("init", members(static_cast<mask_t>(g.next()) & full, N));
      default:
      {
        // set() calls in arbitrary order, possibly repeated
        std::vector<unsigned> s;
        unsigned const k = static_cast<unsigned>(g.below(N + 2));
        for (unsigned i = 0; i < k; ++i) s.push_back(static_cast<unsigned>(g.below(N)));
        return leaf("set", s);
      }
      }
    }
    switch (g.below(14))
    {
    case 0: case 1: case 2: return un("not", random_tree(g, depth - 1));
    case 3: return bin("or", random_tree(g, depth - 1), random_tree(g, depth - 1));
    case 4: return bin("and", random_tree(g, depth - 1), random_tree(g, depth - 1));
    case 5: return bin("xor", random_tree(g, depth - 1), random_tree(g, depth - 1));
    case 6: return bin("ora", random_tree(g, depth - 1), random_tree(g, depth - 1));
    case 7: return bin("anda", random_tree(g, depth - 1), random_tree(g, depth - 1));
    case 8: return bin("xora", random_tree(g, depth - 1), random_tree(g, depth - 1));
    case 9: return elem("sete", random_tree(g, depth - 1), static_cast<unsigned>(g.below(N)), g.coin());
    case 10: return elem("idx", random_tree(g, depth - 1), static_cast<unsigned>(g.below(N)), g.coin());
    case 11: return elem("ore", random_tree(g, depth - 1), static_cast<unsigned>(g.below(N)), false);
    case 12: return elem("orae", random_tree(g, depth - 1), static_cast<unsigned>(g.below(N)), false);
    default: return un("not", un("not", random_tree(g, depth - 1)));
    }
  }

  static void tree_record(vj::Rng &g)
  {
    tp const t = random_tree(g, 6);
    // the second tree: an independent one, or a differently shaped expression over the first
    tp u;
    switch (g.below(6))
    {
    case 0: u = un("not", un("not", t)); break;
    case 1: u = bin("xor", t, leaf("null")); break;
    case 2: u = bin("and", t, un("not", leaf("null"))); break;
    case 3: u = bin("or", t, un("not", un("not", leaf("null")))); break;
    default: u = random_tree(g, 6);
    }
    vj::begin_call(head("tree") + ",\"t\":" + tree_json(*t) + ",\"u\":" + tree_json(*u));
    bf const r(eval(*t));
    bf const q(eval(*u));
    vj::end_call(",\"r\":" + obs(r) + ",\"q\":" + obs(q) + ",\"rel\":" + rel(r, q) + "}");
  }

  // ---- histories of the register machine (x, y) ----
  struct op
  {
    std::string name;
    unsigned i = 0;
    unsigned j = 0;
    bool b = false;
    std::vector<unsigned> s;
  };
  static std::string op_json(op const &o)
  {
    vj::J j;
    j.kv("op", o.name).kv("i", o.i).kv("j", o.j).kv("b", o.b).raw("s", vj::arr(o.s));
    return j.str();
  }
  static std::string state_json(bf const &x, bf const &y, bf const &rv)
  {
    return "{\"x\":" + elems(x) + ",\"xi\":" + elems_index(x) + ",\"y\":" + elems(y) + ",\"rv\":" + elems(rv) +
           ",\"k\":" + rel(x, y) + "}";
  }
  // applies o to (x, y); returns the value the operation returned (x itself where it returns nothing)
  static bf apply(op const &o, bf &x, bf &y)
  {
    std::string const &n = o.name;
    if (n == "set") { x.set(en(o.i), o.b); return x; }
    if (n == "idx") { x[en(o.i)] = o.b; return x; }
    if (n == "ore") { bf r(x | en(o.i)); x = r; return r; }
    if (n == "orae") { bf &r = (x |= en(o.i)); return r; }
    if (n == "or") { bf r(x | y); x = r; return r; }
    if (n == "and") { bf r(x & y); x = r; return r; }
    if (n == "xor") { bf r(x ^ y); x = r; return r; }
    if (n == "ora") { bf &r = (x |= y); return r; }
    if (n == "anda") { bf &r = (x &= y); return r; }
    if (n == "xora") { bf &r = (x ^= y); return r; }
    if (n == "selfora") { bf &r = (x |= x); return r; }
    if (n == "selfanda") { bf &r = (x &= x); return r; }
    if (n == "selfxora") { bf &r = (x ^= x); return r; }
    if (n == "not") { bf r(~x); x = r; return r; }
    if (n == "swap") { std::swap(x, y); return x; }
    if (n == "copy") { y = x; return x; }
    if (n == "null") { x = bf::null(); return x; }
    if (n == "idxcopy") { x[en(o.i)] = x[en(o.j)]; return x; }
    if (n == "idxcopy_y") { x[en(o.i)] = y[en(o.j)]; return x; }
    if (n == "chain") { x[en(o.i)] = x[en(o.j)] = o.b; return x; }
    if (n == "init")
    {
      x = fcppt::container::bitfield::init<bf>([&o](E const e) {
        for (unsigned i : o.s)
          if (en(i) == e) return true;
        return false;
      });
      return x;
    }
    throw std::runtime_error("history: unknown operation " + n);
  }
  static void run_history(char const *src, std::vector<op> const &ops)
  {
    // histories that assign one operator[] proxy to another are a record kind of their own
    bool proxy_ops = false;
    for (op const &o : ops) proxy_ops = proxy_ops || o.name == "idxcopy" || o.name == "idxcopy_y" || o.name == "chain";
    std::string pre = head(proxy_ops ? "histp" : "hist") + ",\"src\":\"" + src + "\",\"ops\":[";
    for (std::size_t k = 0; k < ops.size(); ++k) pre += (k ? "," : "") + op_json(ops[k]);
    pre += "]";
    vj::begin_call(pre);
    bf x(bf::null());
    bf y(bf::null());
    std::string r = ",\"o0\":" + state_json(x, y, x) + ",\"obs\":[";
    for (std::size_t k = 0; k < ops.size(); ++k)
    {
      bf const rv(apply(ops[k], x, y));
      r += (k ? "," : "") + state_json(x, y, rv);
    }
    vj::end_call(r + "]}");
  }
  static op random_op(vj::Rng &g)
  {
    static char const *const names[] = {"set", "idx", "ore", "orae", "or", "and", "xor", "ora", "anda", "xora",
                                        "selfora", "selfanda", "selfxora", "not", "not", "not", "swap", "swap",
                                        "copy", "null", "init", "set", "set", "idxcopy", "idxcopy_y", "chain"};
    op o;
    o.name = names[g.below(sizeof names / sizeof names[0])];
    o.i = static_cast<unsigned>(g.below(N));
    o.j = static_cast<unsigned>(g.below(N));
    o.b = g.coin();
    if (o.name == "init") o.s = members(static_cast<mask_t>(g.next()) & ((mask_t{1} << N) - 1U), N);
    return o;
  }

  // ---- modes ----
  static int record(
      std::uint64_t seed, std::string const &pairs_mode, long ntrees, long nhist, long bits_stride, long lastword_stride,
      bool deep)
  {
    vj::Rng g(seed * 7919ULL + N * 131ULL + static_cast<unsigned>(W));
    mask_t const full = (mask_t{1} << N) - 1U;
    build_records();
    // the subsets driven one by one: all of them up to 9 enumerators, a sample beyond
    std::vector<mask_t> masks;
    if (N <= 9)
      for (mask_t m = 0; m <= full; ++m) masks.push_back(m);
    else
    {
      masks = {0U, full, 1U, mask_t{1} << (N - 1), full >> 1U, full & ~mask_t{1}, 0xFFU, 0x100U, 0xFF00U, 0x10000U, 0xFFFFU};
      for (unsigned i = 0; i < N; ++i) masks.push_back(mask_t{1} << i);
      for (int i = 0; i < 200; ++i) masks.push_back(static_cast<mask_t>(g.next()) & full);
    }
    for (mask_t m : masks)
      for (unsigned p = 0; p < num_prov; ++p) single_record(p, m);
    for (mask_t m : masks)
      for (unsigned e = 0; e < N; ++e)
        for (unsigned p = 0; p < num_prov; ++p)
          if (N <= 8 || (m + e + p) % 3 == 0) elem_record(p, m, e);
    // operator[] proxies
    for (mask_t m : masks)
      for (unsigned i = 0; i < N; ++i)
      {
        std::vector<unsigned> js;
        if (N <= 3)
          for (unsigned j = 0; j < N; ++j) js.push_back(j);
        else if (deep)
          js = {i, (i + 1U) % N, N - 1U, static_cast<unsigned>((m + i) % N)};
        else
          js = {(m % 2U == 0U) ? i : (i + 1U) % N, static_cast<unsigned>((m + i) % N)};
        for (std::size_t k = 0; k < js.size(); ++k)
        {
          bool dup = false;
          for (std::size_t q = 0; q < k; ++q) dup = dup || js[q] == js[k];
          if (dup) continue;
          mask_t const mb = static_cast<mask_t>((static_cast<std::uint64_t>(m) * 2654435761ULL + i * 40503ULL + js[k]) >> 5U) & full;
          if (N <= 3)
            for (unsigned p = 0; p < num_prov; ++p) proxy_record(p, m, mb, i, js[k]);
          else
            proxy_record(static_cast<unsigned>((m + i + js[k]) % num_prov), m, mb, i, js[k]);
          if (k == 0 || N <= 3) proxyx_record(static_cast<unsigned>((m + i) % num_prov), m, mb, i, js[k]);
        }
      }
    // operator<<, underlying_value, construction from the storage word
    for (mask_t m : masks)
    {
      out_record(static_cast<unsigned>(m % num_prov), m);
      out_record(2U, m);
    }
    // every single-enumerator operation of every bits_stride-th subset
    if (bits_stride > 0)
      for (mask_t m = 0; m <= full; m += static_cast<mask_t>(bits_stride))
      {
        bits_record(m);
        if (m == full) break;
      }
    // multi-word bitfields: pairs of subsets that differ only in the last storage word
    if (lastword_stride > 0 && bf::array_size::value > 1U)
    {
      unsigned const low = static_cast<unsigned>((bf::array_size::value - 1U) * static_cast<unsigned>(W)); // enumerators below the last word
      unsigned const used = N - low;
      unsigned long c = static_cast<unsigned long>(seed);
      for (mask_t common = 0; common < (mask_t{1} << low); common += static_cast<mask_t>(lastword_stride))
        for (mask_t l1 = 0; l1 < (mask_t{1} << used); ++l1)
          for (mask_t l2 = 0; l2 < (mask_t{1} << used); ++l2, ++c)
          {
            unsigned const pa = static_cast<unsigned>(c % num_prov);
            unsigned const pb = static_cast<unsigned>((c / num_prov) % num_prov);
            pair_record(pa, make(pa, common | (l1 << low)), pb, make(pb, common | (l2 << low)));
          }
    }
    // the same subset produced in two ways: all 36 combinations
    for (mask_t m : masks)
    {
      std::vector<bf> v;
      for (unsigned p = 0; p < num_prov; ++p) v.push_back(make(p, m));
      for (unsigned pa = 0; pa < num_prov; ++pa)
        for (unsigned pb = 0; pb < num_prov; ++pb) rel_record(pa, v[pa], pb, v[pb]);
    }
    // beyond 9 enumerators: every sampled subset against each of its one-enumerator neighbours
    if (N > 9)
    {
      unsigned long c = 0;
      for (mask_t m : masks)
        for (unsigned k = 0; k < N; ++k, ++c)
        {
          unsigned const pa = static_cast<unsigned>(c % num_prov);
          unsigned const pb = static_cast<unsigned>((c / num_prov) % num_prov);
          rel_record(pa, make(pa, m), pb, make(pb, m ^ (mask_t{1} << k)));
        }
    }
    // pairs of subsets
    if (pairs_mode == "all")
    {
      if (N > 9) { std::fprintf(stderr, "all pairs only up to 9 enumerators\n"); return 3; }
      std::vector<std::vector<bf>> v(num_prov);
      for (unsigned p = 0; p < num_prov; ++p)
        for (mask_t m = 0; m <= full; ++m) v[p].push_back(make(p, m));
      unsigned long c = static_cast<unsigned long>(seed);
      for (mask_t ma = 0; ma <= full; ++ma)
        for (mask_t mb = 0; mb <= full; ++mb, ++c)
        {
          unsigned const pa = static_cast<unsigned>(c % num_prov);
          unsigned const pb = static_cast<unsigned>((c / num_prov) % num_prov);
          pair_record(pa, v[pa][ma], pb, v[pb][mb]);
        }
    }
    else
    {
      long const np = std::strtol(pairs_mode.c_str(), nullptr, 10);
      for (long k = 0; k < np; ++k)
      {
        unsigned const pa = static_cast<unsigned>(g.below(num_prov));
        unsigned const pb = static_cast<unsigned>(g.below(num_prov));
        mask_t ma = static_cast<mask_t>(g.next()) & full;
        mask_t mb = static_cast<mask_t>(g.next()) & full;
        switch (g.below(10))
        {
        case 0: mb = ma; break;
        case 1: mb = ma & mb; break; // a subset
        case 2: mb = ma | mb; break; // a superset
        case 3: mb = ~ma & full; break;
        case 4: mb = ma ^ (mask_t{1} << g.below(N)); break; // differs in one enumerator
        case 5: mb = ma ^ (mask_t{1} << (N - 1)); break;      // differs in the last enumerator
        default: break;
        }
        pair_record(pa, make(pa, ma), pb, make(pb, mb));
      }
    }
    for (long k = 0; k < ntrees; ++k) tree_record(g);
    for (long h = 0; h < nhist; ++h)
    {
      std::vector<op> ops;
      unsigned const len = 1 + static_cast<unsigned>(g.below(40));
      for (unsigned i = 0; i < len; ++i)
      {
        op o(random_op(g));
        // three of four histories stay within set/get/operators; the fourth may use proxy assignments
        while (h % 4 != 3 && (o.name == "idxcopy" || o.name == "idxcopy_y" || o.name == "chain")) o = random_op(g);
        ops.push_back(o);
      }
      run_history("rnd", ops);
    }
    return 0;
  }

  static int replay(char const *scripts)
  {
    for (auto const &line : vj::read_lines(scripts))
    {
      vj::VP const sc = vj::parse(line);
      std::vector<op> ops;
      for (auto const &e : sc->a)
      {
        op o;
        o.name = e->str("op");
        o.i = static_cast<unsigned>(e->num_or("i", 0));
        o.j = static_cast<unsigned>(e->num_or("j", 0));
        o.b = e->has("b") && e->at("b").b;
        if (e->has("s"))
          for (long long v : e->nums("s")) o.s.push_back(static_cast<unsigned>(v));
        if (o.i >= N || o.j >= N)
        {
          std::fprintf(stderr, "script names enumerator %u of an enum with %u\n", o.i, N);
          return 3;
        }
        ops.push_back(o);
      }
      run_history("script", ops);
    }
    return 0;
  }
};

}

struct c10_args
{
  bool replay = false;
  std::string scripts;
  std::uint64_t seed = 1;
  std::string pairs = "0";
  long ntrees = 0;
  long nhist = 0;
  long bits_stride = 0;
  long lastword_stride = 0;
  bool deep = false; // thorough: four partner enumerators per proxy record instead of two
};

namespace
{
template <typename E>
int run_enum(int const w, c10_args const &a)
{
  auto const go = [&a](auto d) {
    using D = decltype(d);
    return a.replay ? D::replay(a.scripts.c_str()) : D::record(a.seed, a.pairs, a.ntrees, a.nhist, a.bits_stride, a.lastword_stride, a.deep);
  };
  switch (w)
  {
  case 8: return go(driver<E, std::uint8_t>{});
  case 16: return go(driver<E, std::uint16_t>{});
  case 32: return go(driver<E, std::uint32_t>{});
  case 64: return go(driver<E, std::uint64_t>{});
  default: std::fprintf(stderr, "no instantiation for w=%d\n", w); return 3;
  }
}
}

// one translation unit per enum (c10_bitfield_n*.cpp), so that the instantiations compile in parallel
int c10_run_n1(int, c10_args const &);
int c10_run_n3(int, c10_args const &);
int c10_run_n8(int, c10_args const &);
int c10_run_n9(int, c10_args const &);
int c10_run_n17(int, c10_args const &);

#endif
