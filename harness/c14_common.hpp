// C14 conformance harness, shared part: record writer, operand builders, result readers and the
// view storage type.  The harness units (c14_pairs / c14_matrices / c14_vectors / c14_storage_vec /
// c14_storage_mat / c14_order_mixed / c14_extension) drive fcppt::math vector / dim / matrix
// operations over integer scalars and record operands and results as nested arrays (ndjson, one
// record per call).  They contain no expected values: spec/LinAlgJudge.tla (TLC) is the judge.
//
//   c14_<unit> record OUT seed tier(quick|thorough)
//
// Every unit is a separate translation unit and a separate binary, so that a unit that no longer
// compiles against the tree under test does not take the others with it (checks/c14.py).
#ifndef VERIF_C14_COMMON_HPP
#define VERIF_C14_COMMON_HPP

#include <common/vjson.hpp>

#include <fcppt/math/size_type.hpp>
#include <fcppt/math/static_size.hpp>
#include <fcppt/math/dim/object_impl.hpp>
#include <fcppt/math/dim/static.hpp>
#include <fcppt/math/matrix/object_impl.hpp>
#include <fcppt/math/matrix/static.hpp>
#include <fcppt/math/vector/object_impl.hpp>
#include <fcppt/math/vector/static.hpp>

#include <array>
#include <cstring>
#include <string>
#include <type_traits>
#include <unistd.h>
#include <utility>
#include <vector>

namespace c14
{
namespace fm = fcppt::math;
using sz = fm::size_type;
using ivec = std::vector<int>;

inline long &nrec()
{
  static long n = 0;
  return n;
}

// Values are logged clamped to [-2^30, 2^30] (TLC integers are 32 bit; the operands generated here
// are tiny, so a clamped garbage result still differs from every value the specification allows).
inline long long clamp_ll(long long const v)
{
  constexpr long long B = 1LL << 30;
  return v > B ? B : (v < -B ? -B : v);
}
template <typename T>
long long to_ll(T const &v)
{
  if constexpr (std::is_unsigned_v<T>)
  {
    return v > static_cast<T>(1LL << 30) ? (1LL << 30) : static_cast<long long>(v);
  }
  else
  {
    return clamp_ll(static_cast<long long>(v));
  }
}
// an intermediate result of the code under test is only used as an operand of a further recorded
// call when it is small enough for the 32-bit arithmetic of the judge (it has been recorded and is
// judged as a result in any case)
constexpr long long SANE = 4096;

// seconds one driven call may take before the process is stopped (SIGALRM -> crash record, exit 68)
constexpr unsigned WATCHDOG_S = 60;

// ---------------------------------------------------------------- record writer
struct Rec
{
  std::string s;
  explicit Rec(char const *f)
  {
    s = "{\"f\":\"";
    s += f;
    s += '"';
  }
  Rec &k(char const *key, std::string const &json)
  {
    s += ",\"";
    s += key;
    s += "\":";
    s += json;
    return *this;
  }
  Rec &ks(char const *key, char const *str) { return k(key, std::string("\"") + str + "\""); }
  Rec &ks(char const *key, std::string const &str) { return k(key, "\"" + str + "\""); }
  Rec &ki(char const *key, long long v) { return k(key, std::to_string(clamp_ll(v))); }
  Rec &kb(char const *key, bool v) { return k(key, v ? "true" : "false"); }
  void begin()
  {
    ::alarm(WATCHDOG_S);
    vj::begin_call(s);
    s.clear();
  }
  void end()
  {
    s += '}';
    vj::end_call(s);
    ++nrec();
  }
};

// ---------------------------------------------------------------- view storage
// A storage type that does not own its cells (the shape of test/math/vector/view_storage.cpp of
// fcppt): N cells starting at a pointer.  vector / dim objects with this storage are views of an
// array, matrix objects with this storage are views of a row-major array of R * C cells.
template <typename T, sz N>
class pview
{
public:
  using value_type = T;
  using size_type = sz;
  using storage_size = fm::static_size<N>;
  using pointer = T *;
  using reference = T &;
  using const_reference = T const &;
  explicit pview(pointer const _data) : data_(_data) {}
  reference operator[](size_type const _index) { return data_[_index]; }
  const_reference operator[](size_type const _index) const { return data_[_index]; }

private:
  pointer data_;
};
template <sz N>
using pvec = fm::vector::object<int, N, pview<int, N>>;
template <sz N>
using pdim = fm::dim::object<int, N, pview<int, N>>;
template <sz R, sz C>
using pmat = fm::matrix::object<int, R, C, pview<int, R * C>>;

// the cells of a view object and the object; the cells are initialised from the harness' values
template <sz N>
struct cells
{
  std::array<int, N> a;
  cells(ivec const &v, std::size_t const off)
  {
    for (std::size_t i = 0; i < N; ++i) a[i] = v[off + i];
  }
  pvec<N> vec() { return pvec<N>(pview<int, N>(a.data())); }
  pdim<N> dim() { return pdim<N>(pview<int, N>(a.data())); }
  std::string json() const
  {
    std::string s = "[";
    for (std::size_t i = 0; i < N; ++i)
    {
      if (i) s += ',';
      s += std::to_string(clamp_ll(a[i]));
    }
    return s + "]";
  }
  std::string json_rows(std::size_t const c) const
  {
    std::string s = "[";
    for (std::size_t i = 0; i < N; ++i)
    {
      if (i % c == 0) s += i ? "],[" : "[";
      else s += ',';
      s += std::to_string(clamp_ll(a[i]));
    }
    return s + "]]";
  }
};
template <sz R, sz C>
pmat<R, C> as_pmat(cells<R * C> &c)
{
  return pmat<R, C>(pview<int, R * C>(c.a.data()));
}

// ---------------------------------------------------------------- building operands, reading results
template <sz N, std::size_t... Is>
fm::vector::static_<int, N> mk_vec(ivec const &v, std::size_t off, std::index_sequence<Is...>)
{
  return fm::vector::static_<int, N>{v[off + Is]...};
}
template <sz N>
fm::vector::static_<int, N> mk_vec(ivec const &v, std::size_t off = 0)
{
  return mk_vec<N>(v, off, std::make_index_sequence<N>{});
}
template <sz N, std::size_t... Is>
fm::dim::static_<int, N> mk_dim(ivec const &v, std::size_t off, std::index_sequence<Is...>)
{
  return fm::dim::static_<int, N>{v[off + Is]...};
}
template <sz N>
fm::dim::static_<int, N> mk_dim(ivec const &v, std::size_t off = 0)
{
  return mk_dim<N>(v, off, std::make_index_sequence<N>{});
}
// a matrix from row-major values, through the documented rows constructor
template <sz R, sz C, std::size_t... Rs>
fm::matrix::static_<int, R, C> mk_mat(ivec const &v, std::size_t off, std::index_sequence<Rs...>)
{
  return fm::matrix::static_<int, R, C>{mk_vec<C>(v, off + Rs * C)...};
}
template <sz R, sz C>
fm::matrix::static_<int, R, C> mk_mat(ivec const &v, std::size_t off = 0)
{
  return mk_mat<R, C>(v, off, std::make_index_sequence<R>{});
}

// components by run-time index (get_unsafe), as JSON
template <typename V>
std::string vj_(V const &v)
{
  std::string s = "[";
  for (sz i = 0; i < V::static_size::value; ++i)
  {
    if (i) s += ',';
    s += std::to_string(to_ll(v.get_unsafe(i)));
  }
  return s + "]";
}
template <typename M>
std::string mj_(M const &m)
{
  std::string s = "[";
  for (sz i = 0; i < M::static_rows::value; ++i)
  {
    if (i) s += ',';
    s += vj_(m.get_unsafe(i));
  }
  return s + "]";
}
template <typename V>
bool sane_vec(V const &v, long long const bound = SANE)
{
  for (sz i = 0; i < V::static_size::value; ++i)
  {
    long long const x = to_ll(v.get_unsafe(i));
    if (x > bound || x < -bound) return false;
  }
  return true;
}
template <typename M>
bool sane_mat(M const &m, long long const bound = SANE)
{
  for (sz i = 0; i < M::static_rows::value; ++i)
    if (!sane_vec(m.get_unsafe(i), bound)) return false;
  return true;
}
inline std::string vals_vec(ivec const &v, std::size_t off, std::size_t n)
{
  std::string s = "[";
  for (std::size_t i = 0; i < n; ++i)
  {
    if (i) s += ',';
    s += std::to_string(v[off + i]);
  }
  return s + "]";
}
inline std::string vals_mat(ivec const &v, std::size_t off, std::size_t r, std::size_t c)
{
  std::string s = "[";
  for (std::size_t i = 0; i < r; ++i)
  {
    if (i) s += ',';
    s += vals_vec(v, off + i * c, c);
  }
  return s + "]";
}

template <sz N, typename F>
void static_for(F const &f)
{
  [&f]<sz... Is>(std::integer_sequence<sz, Is...>) { (f(std::integral_constant<sz, Is>{}), ...); }
  (std::make_integer_sequence<sz, N>{});
}

inline ivec random_vals(vj::Rng &rng, std::size_t n, int lo, int hi)
{
  ivec v(n);
  for (auto &x : v) x = static_cast<int>(rng.range(lo, hi));
  return v;
}

// all 2x2 matrices over {-1,0,1,2}
inline ivec mat2_of(unsigned code)
{
  ivec v(4);
  for (auto &x : v)
  {
    x = static_cast<int>(code % 4U) - 1;
    code /= 4U;
  }
  return v;
}

// make equal / nearly equal second operands frequent enough for the comparisons:
// v = a (n values) ++ b (n values)
inline void tweak(vj::Rng &rng, ivec &v, std::size_t const n_)
{
  switch (rng.below(4))
  {
  case 0:
    for (std::size_t j = 0; j < n_; ++j) v[n_ + j] = v[j];
    break;
  case 1:
    for (std::size_t j = 0; j < n_; ++j) v[n_ + j] = v[j];
    v[n_ + rng.below(n_)] += static_cast<int>(rng.range(-1, 1));
    break;
  default:
    break;
  }
}

// main of a unit: fn(rng, thorough)
template <typename F>
int unit_main(int argc, char **argv, char const *unit, unsigned const salt, F const &fn)
{
  if (argc < 5 || std::strcmp(argv[1], "record") != 0)
  {
    std::fprintf(stderr, "usage: c14_%s record OUT seed quick|thorough\n", unit);
    return 3;
  }
  vj::open(argv[2]);
  std::uint64_t const seed = std::strtoull(argv[3], nullptr, 10);
  bool const thorough = std::strcmp(argv[4], "thorough") == 0;
  vj::Rng rng(seed * 1000003ULL + salt);
  ::alarm(WATCHDOG_S);
  fn(rng, thorough);
  ::alarm(0);
  vj::close();
  std::printf("records %ld\n", nrec());
  return 0;
}
}

#endif
