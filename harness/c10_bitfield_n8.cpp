// C10 harness: the executable for the enum with 8 enumerators, stored in 8/16/32/64-bit
// words (driver and main: c10_bitfield.hpp; compiled a second time, with C10_OBSERVED, by
// c10_bitfield_x8.cpp for the record kinds outside the statement)
#include "c10_bitfield.hpp"

namespace
{
enum class e8
{
  v0, v1, v2, v3, v4, v5, v6, v7,
  fcppt_maximum = v7
};
}

C10_MAIN(e8)
