// C05 compile-time probe: every registered operation that takes its argument(s) as rvalues is
// instantiated with the MOVE-ONLY sibling of the instrumented element type.  A copy of an element
// of an rvalue argument anywhere in the instantiated code is a compile error ("use of deleted
// function").  The translation unit is compiled once per PROBE_GROUP (never linked, never run);
// checks/c05.py turns a failing group into the rejection C05:move-only-probe:<group>.
#include "c05_common.hpp"

#ifndef PROBE_GROUP
#error "PROBE_GROUP must be defined"
#endif

#include <fcppt/move_clear.hpp>
#include <fcppt/algorithm/fold.hpp>
#include <fcppt/algorithm/fold_break.hpp>
#include <fcppt/algorithm/loop_break.hpp>
#include <fcppt/algorithm/map_concat.hpp>
#include <fcppt/algorithm/map_optional.hpp>
#include <fcppt/loop.hpp>
#include <fcppt/function_impl.hpp>
#include <fcppt/algorithm/map.hpp>
#include <fcppt/algorithm/map_array.hpp>
#include <fcppt/algorithm/map_tuple.hpp>
#include <fcppt/algorithm/loop_break_tuple.hpp>
#include <fcppt/tuple/invoke.hpp>
#include <fcppt/algorithm/reverse.hpp>
#include <fcppt/array/append.hpp>
#include <fcppt/array/apply.hpp>
#include <fcppt/array/from_range.hpp>
#include <fcppt/array/join.hpp>
#include <fcppt/array/make.hpp>
#include <fcppt/array/map.hpp>
#include <fcppt/array/object_impl.hpp>
#include <fcppt/array/push_back.hpp>
#include <fcppt/container/join.hpp>
#include <fcppt/container/make.hpp>
#include <fcppt/container/make_move_range.hpp>
#include <fcppt/container/move_range_impl.hpp>
#include <fcppt/container/pop_back.hpp>
#include <fcppt/container/pop_front.hpp>
#include <fcppt/container/grid/apply.hpp>
#include <fcppt/container/grid/map.hpp>
#include <fcppt/container/grid/object.hpp>
#include <fcppt/container/grid/resize.hpp>
#include <fcppt/container/grid/static_row_type.hpp>
#include <fcppt/container/tree/object_impl.hpp>
#include <fcppt/either/apply.hpp>
#include <fcppt/either/bind.hpp>
#include <fcppt/either/construct.hpp>
#include <fcppt/either/to_exception.hpp>
#include <fcppt/either/error.hpp>
#include <fcppt/either/error_from_optional.hpp>
#include <fcppt/either/failure_opt.hpp>
#include <fcppt/either/first_success.hpp>
#include <fcppt/either/loop.hpp>
#include <fcppt/either/make_failure.hpp>
#include <fcppt/either/make_success.hpp>
#include <fcppt/either/sequence_error.hpp>
#include <fcppt/either/from_optional.hpp>
#include <fcppt/either/join.hpp>
#include <fcppt/either/map.hpp>
#include <fcppt/either/map_failure.hpp>
#include <fcppt/either/match.hpp>
#include <fcppt/either/sequence.hpp>
#include <fcppt/either/success_opt.hpp>
#include <fcppt/optional/alternative.hpp>
#include <fcppt/optional/apply.hpp>
#include <fcppt/optional/bind.hpp>
#include <fcppt/optional/cat.hpp>
#include <fcppt/optional/combine.hpp>
#include <fcppt/optional/filter.hpp>
#include <fcppt/optional/from.hpp>
#include <fcppt/optional/join.hpp>
#include <fcppt/optional/make.hpp>
#include <fcppt/optional/map.hpp>
#include <fcppt/optional/maybe.hpp>
#include <fcppt/optional/maybe_multi.hpp>
#include <fcppt/optional/maybe_void.hpp>
#include <fcppt/optional/maybe_void_multi.hpp>
#include <fcppt/optional/sequence.hpp>
#include <fcppt/optional/to_container.hpp>
#include <fcppt/optional/to_exception.hpp>
#include <fcppt/record/element.hpp>
#include <fcppt/record/make_label.hpp>
#include <fcppt/record/map.hpp>
#include <fcppt/record/multiply_disjoint.hpp>
#include <fcppt/record/object_impl.hpp>
#include <fcppt/record/permute.hpp>
#include <fcppt/tuple/apply.hpp>
#include <fcppt/tuple/concat.hpp>
#include <fcppt/tuple/from_array.hpp>
#include <fcppt/tuple/map.hpp>
#include <fcppt/tuple/push_back.hpp>
#include <fcppt/variant/apply.hpp>
#include <fcppt/variant/match.hpp>
#include <fcppt/variant/to_optional.hpp>

#include <deque>
#include <list>
#include <map>
#include <stdexcept>
#include <utility>
#include <vector>

namespace
{
using namespace c05;
using M2 = trk::move_only2;
using vec = std::vector<M>;
using opt = fcppt::optional::object<M>;
using eit = fcppt::either::object<M2, M>;
using var = fcppt::variant::object<M, M2>;

// builds its result from the element with the category it received: for a move-only type this
// compiles only if the element of the rvalue argument arrives as an rvalue (a copy is a deleted function)
auto const fwd = [](auto &&x) { return std::remove_cvref_t<decltype(x)>(std::forward<decltype(x)>(x)); };

template <typename X>
void sink(X &&) {}

#if PROBE_GROUP == 1 // algorithm + container
void probe()
{
  sink(fcppt::algorithm::map<vec>(vec{}, fwd));
  sink(fcppt::algorithm::map<std::deque<M>>(std::list<M>{}, fwd));
  sink(fcppt::algorithm::map<vec>(fcppt::container::make_move_range(vec{}), fwd));
  sink(fcppt::algorithm::fold(fcppt::container::make_move_range(vec{}), vec{}, [](M &&x, vec &&s)
  {
    s.push_back(std::move(x));
    return std::move(s);
  }));
  sink(fcppt::algorithm::reverse(vec{}));
  sink(fcppt::container::join(vec{}, vec{}, vec{}));
  vec v;
  std::deque<M> d;
  sink(fcppt::container::pop_back(v));
  sink(fcppt::container::pop_front(d));
  sink(fcppt::move_clear(v));
  sink(fcppt::container::make<vec>(M(1), M(2)));
}
#elif PROBE_GROUP == 2 // optional
void probe()
{
  sink(fcppt::optional::map(opt{}, fwd));
  sink(fcppt::optional::bind(opt{}, [](M &&x) { return fcppt::optional::make(std::move(x)); }));
  sink(fcppt::optional::join(fcppt::optional::object<opt>{}));
  sink(fcppt::optional::apply([](M &&x, M &&y) { return std::make_pair(std::move(x), std::move(y)); }, opt{}, opt{}));
  sink(fcppt::optional::combine(opt{}, opt{}, [](M &&x, M &&) { return std::move(x); }));
  sink(fcppt::optional::alternative(opt{}, [] { return opt{}; }));
  sink(fcppt::optional::filter(opt{}, [](M const &) { return true; }));
  sink(fcppt::optional::cat<vec>(std::vector<opt>{}));
  sink(fcppt::optional::sequence<vec>(std::vector<opt>{}));
  sink(fcppt::optional::from(opt{}, [] { return M(1); }));
  sink(fcppt::optional::maybe(opt{}, [] { return M(1); }, fwd));
  sink(fcppt::optional::to_container<vec>(opt{}));
}
#elif PROBE_GROUP == 3 // either (without bind / join)
void probe()
{
  sink(fcppt::either::map(eit{M(1)}, fwd));
  sink(fcppt::either::map_failure(eit{M(1)}, fwd));
  sink(fcppt::either::apply([](M &&x, M &&y) { return std::make_pair(std::move(x), std::move(y)); }, eit{M(1)}, eit{M(2)}));
  sink(fcppt::either::sequence<vec>(std::vector<eit>{}));
  sink(fcppt::either::from_optional(opt{}, [] { return M2(1); }));
  sink(fcppt::either::success_opt(eit{M(1)}));
  sink(fcppt::either::failure_opt(eit{M(1)}));
  sink(fcppt::either::match(eit{M(1)}, [](M2 &&x) { return var{std::move(x)}; }, [](M &&x) { return var{std::move(x)}; }));
}
#elif PROBE_GROUP == 4 // either::bind and either::join (built on bind)
void probe()
{
  sink(fcppt::either::bind(eit{M(1)}, [](M &&x) { return eit{std::move(x)}; }));
  sink(fcppt::either::join(fcppt::either::object<M2, eit>{M2(1)}));
}
#elif PROBE_GROUP == 5 // variant, array, tuple, record
FCPPT_RECORD_MAKE_LABEL(label_a);
FCPPT_RECORD_MAKE_LABEL(label_b);
FCPPT_RECORD_MAKE_LABEL(label_c);
using rec_ab = fcppt::record::object<fcppt::record::element<label_a, M>, fcppt::record::element<label_b, M2>>;
using rec_ba = fcppt::record::object<fcppt::record::element<label_b, M2>, fcppt::record::element<label_a, M>>;
using rec_c = fcppt::record::object<fcppt::record::element<label_c, M>>;
void probe()
{
  sink(fcppt::variant::match(var{M(1)}, [](M &&x) { return var{std::move(x)}; }, [](M2 &&x) { return var{std::move(x)}; }));
  sink(fcppt::variant::apply([](auto &&x) { return var{std::move(x)}; }, var{M(1)}));
  sink(fcppt::variant::to_optional<M>(var{M(1)}));
  using arr2 = fcppt::array::object<M, 2>;
  sink(fcppt::array::map(arr2{M(1), M(2)}, fwd));
  sink(fcppt::array::append(arr2{M(1), M(2)}, arr2{M(3), M(4)}));
  sink(fcppt::array::join(arr2{M(1), M(2)}, arr2{M(3), M(4)}, arr2{M(5), M(6)}));
  sink(fcppt::array::push_back(arr2{M(1), M(2)}, M(3)));
  sink(fcppt::array::from_range<2>(vec{}));
  sink(fcppt::array::make(M(1), M(2)));
  sink(fcppt::tuple::from_array(arr2{M(1), M(2)}));
  using tup = fcppt::tuple::object<M, M2>;
  sink(fcppt::tuple::map(tup{M(1), M2(2)}, fwd));
  sink(fcppt::tuple::push_back(tup{M(1), M2(2)}, M(3)));
  // extension round: algorithm::map over tuple / array sources, tuple::invoke
  using tup_mm = fcppt::tuple::object<M, M>;
  sink(fcppt::algorithm::map<tup_mm>(tup_mm{M(1), M(2)}, fwd));
  sink(fcppt::algorithm::map<vec>(tup_mm{M(1), M(2)}, fwd));
  sink(fcppt::algorithm::map<arr2>(arr2{M(1), M(2)}, fwd));
  sink(fcppt::algorithm::map<vec>(arr2{M(1), M(2)}, fwd));
  sink(fcppt::tuple::invoke([](M &&x, M &&y) { return std::make_pair(std::move(x), std::move(y)); }, tup_mm{M(1), M(2)}));
  sink(fcppt::record::permute<rec_ba>(rec_ab{label_a{} = M(1), label_b{} = M2(2)}));
  sink(fcppt::record::map(rec_ab{label_a{} = M(1), label_b{} = M2(2)}, fwd));
  sink(fcppt::record::multiply_disjoint(rec_ab{label_a{} = M(1), label_b{} = M2(2)}, rec_c{label_c{} = M(3)}));
}
#elif PROBE_GROUP == 6 // grid, tree
void probe()
{
  using grid = fcppt::container::grid::object<M, 2>;
  using tree = fcppt::container::tree::object<M>;
  auto const mk = [] { return grid{grid::dim{1U, 1U}, [](grid::pos const &) { return M(1); }}; };
  sink(fcppt::container::grid::map(mk(), fwd));
  sink(fcppt::container::grid::apply([](M &&x, M &&y) { return std::make_pair(std::move(x), std::move(y)); }, mk(), mk()));
  sink(fcppt::container::grid::resize(mk(), grid::dim{2U, 2U}, [](grid::pos const &) { return M(2); }));
  tree t{M(1)};
  t.push_back(M(2));
  t.push_front(tree{M(3)});
  t.insert(t.begin(), M(4));
  sink(t.pop_back());
  sink(t.pop_front());
  sink(t.release(t.begin()));
  sink(tree{std::move(t)});
}
#elif PROBE_GROUP == 7 // round 3: second argument positions, void / n-ary forms, error combinators, further containers
void probe()
{
  // fold / fold_break: range elements (through a move range) and the state reach the function as rvalues
  sink(fcppt::algorithm::fold(fcppt::container::make_move_range(vec{}), vec{}, [](M &&x, vec &&s)
  {
    s.push_back(std::move(x));
    return std::move(s);
  }));
  // (fold_break hands the element over as an lvalue even for a move range - unlike fold; observation in the notes)
  sink(fcppt::algorithm::fold_break(fcppt::container::make_move_range(vec{}), vec{}, [](M &x, vec &&s)
  {
    s.push_back(std::move(x));
    return std::make_pair(fcppt::loop::continue_, std::move(s));
  }));
  fcppt::algorithm::loop_break(fcppt::container::make_move_range(std::list<M>{}), [](M &&x)
  {
    sink(std::move(x));
    return fcppt::loop::continue_;
  });
  sink(fcppt::algorithm::map_concat<vec>(vec{}, [](M const &) { return vec{}; }));
  sink(fcppt::algorithm::map_optional<vec>(vec{}, [](M const &) { return opt{}; }));
  fcppt::optional::maybe_void(opt{}, [](M &&x) { sink(std::move(x)); });
  fcppt::optional::maybe_void_multi([](M &&x, M &&y) { sink(std::move(x)); sink(std::move(y)); }, opt{}, opt{});
  sink(fcppt::optional::maybe_multi([] { return M(1); }, [](M &&x, M &&) { return std::move(x); }, opt{}, opt{}));
  sink(fcppt::optional::sequence<fcppt::tuple::object<M, M>>(fcppt::tuple::object<opt, opt>{opt{}, opt{}}));
  sink(fcppt::either::sequence_error(vec{}, [](M &&x) { return fcppt::either::error<M>{std::move(x)}; }));
  sink(fcppt::either::error_from_optional(opt{}));
  sink(fcppt::either::make_success<M2>(M(1)));
  sink(fcppt::either::make_failure<M>(M2(1)));
  sink(fcppt::either::loop([] { return eit{M2(1)}; }, [](M &&x) { sink(std::move(x)); }));
  sink(fcppt::either::first_success(std::vector<fcppt::function<eit()>>{}));
  sink(fcppt::container::join(std::map<int, M>{}, std::map<int, M>{}));
  sink(fcppt::container::join(std::vector<vec>{}, std::vector<vec>{}));
  sink(fcppt::container::join(std::list<M>{}, std::list<M>{}));
  using grid = fcppt::container::grid::object<M, 2>;
  using row = fcppt::container::grid::static_row_type<M, 2U>;
  sink(grid(row{M(1), M(2)}, row{M(3), M(4)}, row{M(5), M(6)}));
  using tree = fcppt::container::tree::object<M>;
  tree t{M(1)};
  t.push_back(M(2));
  tree u{M(3)};
  u.push_back(M(4));
  u = std::move(t);
  sink(tree{M(5), tree::child_list{}});
  // n-ary forms whose continuation must receive every element of an rvalue argument as an rvalue
  using arr2 = fcppt::array::object<M, 2>;
  sink(fcppt::array::apply([](M &&x, M &&y, M &&z) { sink(std::move(y)); sink(std::move(z)); return std::move(x); },
                           arr2{M(1), M(2)}, arr2{M(3), M(4)}, arr2{M(5), M(6)}));
  using tup_mm = fcppt::tuple::object<M, M>;
  // (tuple::apply is not probed: tuple::get of an rvalue tuple yields a const lvalue, the function never receives an
  // rvalue there - the library itself does not copy; observation in the notes)
  sink(fcppt::tuple::concat(tup_mm{M(1), M(2)}, tup_mm{M(3), M(4)}, tup_mm{M(5), M(6)}));
  sink(fcppt::variant::apply([](auto &&x, auto &&y) { sink(std::move(y)); return var{std::move(x)}; }, var{M(1)}, var{M2(2)}));
  sink(fcppt::optional::apply([](M &&x, M &&y, M &&z) { sink(std::move(y)); sink(std::move(z)); return std::move(x); }, opt{}, opt{}, opt{}));
  sink(fcppt::either::apply([](M &&x, M &&y, M &&z) { sink(std::move(y)); sink(std::move(z)); return std::move(x); }, eit{M(1)}, eit{M(2)}, eit{M(3)}));
  sink(fcppt::optional::to_exception(opt{M(1)}, [] { return std::runtime_error{"none"}; }));
  sink(fcppt::either::to_exception(eit{M(1)}, [](M2 &&) { return std::runtime_error{"failure"}; }));
  sink(fcppt::either::construct(true, [] { return M(1); }, [] { return M2(2); }));
  opt o{M(1)};
  o = opt{M(2)};
  var v{M(1)};
  v = var{M2(2)};
  eit e{M(1)};
  e = eit{M2(2)};
}
#else
#error "unknown PROBE_GROUP"
#endif
}

void c05_probe_entry() { probe(); }
