// C05 harness, part 1: fcppt::algorithm and fcppt::container operations over tracked elements.
// Compiled once per unit (-DC05_UNIT_ALGORITHM, -DC05_UNIT_CONTAINER): a unit that no longer compiles against
// the tree under test is replaced by a stub and reported, the others are still built and judged.
#include "c05_common.hpp"

#include <fcppt/loop.hpp>
#include <fcppt/move_clear.hpp>
#include <fcppt/move_if_rvalue.hpp>
#include <fcppt/algorithm/fold.hpp>
#include <fcppt/algorithm/fold_break.hpp>
#include <fcppt/algorithm/loop_break.hpp>
#include <fcppt/algorithm/loop.hpp>
#include <fcppt/algorithm/map.hpp>
#include <fcppt/algorithm/map_concat.hpp>
#include <fcppt/algorithm/map_optional.hpp>
#include <fcppt/algorithm/remove_if.hpp>
#include <fcppt/algorithm/reverse.hpp>
#include <fcppt/algorithm/unique_if.hpp>
#include <fcppt/container/get_or_insert.hpp>
#include <fcppt/container/join.hpp>
#include <fcppt/container/make.hpp>
#include <fcppt/container/make_move_range.hpp>
#include <fcppt/container/move_range_impl.hpp>
#include <fcppt/container/pop_back.hpp>
#include <fcppt/container/pop_front.hpp>
#include <fcppt/container/set_difference.hpp>
#include <fcppt/container/set_intersection.hpp>
#include <fcppt/container/set_union.hpp>
#include <fcppt/optional/make.hpp>
#include <fcppt/optional/maybe_void.hpp>
#include <fcppt/optional/object_impl.hpp>

#include <deque>
#include <list>
#include <map>
#include <set>
#include <string>
#include <utility>
#include <vector>

namespace
{
using namespace c05;
using vec = std::vector<T>;
using lst = std::list<T>;
using deq = std::deque<T>;

std::string shp(char const *kind, int n) { return std::string{kind} + std::to_string(n); }


#ifdef C05_UNIT_ALGORITHM
void algorithm_unit(bool thorough)
{
  std::vector<int> const sizes = thorough ? std::vector<int>{0, 1, 2, 3, 5} : std::vector<int>{0, 1, 3};
  for (int n : sizes)
  {
    auto const mk_vec = [n] { return make_seq<vec>(n); };
    auto const mk_lst = [n] { return make_seq<lst>(n); };
    auto const mk_deq = [n] { return make_seq<deq>(n); };
    for_cats<'r', 'l', 'c'>([&](auto c)
    {
      constexpr char C = decltype(c)::value;
      // algorithm::map keeps all elements (with the pass-through continuation)
      run1<C>("algorithm::map", true, shp("vector->vector:", n), mk_vec,
              [](auto &&a) { return fcppt::algorithm::map<vec>(C05_FWD(a), pass); });
      run1<C>("algorithm::map", true, shp("vector->vector/by-value:", n), mk_vec,
              [](auto &&a) { return fcppt::algorithm::map<vec>(C05_FWD(a), pass_by_value); });
      run1<C>("algorithm::map", true, shp("list->deque:", n), mk_lst,
              [](auto &&a) { return fcppt::algorithm::map<deq>(C05_FWD(a), pass); });
      run1<C>("algorithm::map", true, shp("deque->list:", n), mk_deq,
              [](auto &&a) { return fcppt::algorithm::map<lst>(C05_FWD(a), pass_read); });
      // map_optional: every second element is dropped by the continuation
      run1<C>("algorithm::map_optional", false, shp("vector:", n), mk_vec, [](auto &&a)
      {
        int k = 0;
        return fcppt::algorithm::map_optional<vec>(C05_FWD(a), [&k](auto &&x)
        {
          cb_scope const g{C05_RECV(x)};
          using opt = fcppt::optional::object<T>;
          return (k++ % 2 == 0) ? opt{T(C05_FWD(x))} : opt{};
        });
      });
      run1<C>("algorithm::map_optional", true, shp("vector-keep-all:", n), mk_vec, [](auto &&a)
      {
        return fcppt::algorithm::map_optional<vec>(C05_FWD(a), [](auto &&x)
        {
          cb_scope const g{C05_RECV(x)};
          return fcppt::optional::make(T(C05_FWD(x)));
        });
      });
      // map_concat: the continuation returns a one-element container
      run1<C>("algorithm::map_concat", true, shp("vector:", n), mk_vec, [](auto &&a)
      {
        return fcppt::algorithm::map_concat<vec>(C05_FWD(a), [](auto &&x)
        {
          cb_scope const g{C05_RECV(x)};
          vec r;
          r.emplace_back(C05_FWD(x));
          return r;
        });
      });
      // ... and a two-element container (the inner join appends more than one element per step)
      run1<C>("algorithm::map_concat", true, shp("vector/two-per-element:", n), mk_vec, [](auto &&a)
      {
        return fcppt::algorithm::map_concat<vec>(C05_FWD(a), [](auto &&x)
        {
          cb_scope const g{C05_RECV(x)};
          vec r;
          r.reserve(2U);
          r.emplace_back(1000);
          r.emplace_back(C05_FWD(x));
          return r;
        });
      });
      // fold: the state is a vector collecting the elements; the continuation takes the state BY VALUE
      // (a copy made by the library to initialise that parameter is the library's)
      run1<C>("algorithm::fold", true, shp("vector:", n), mk_vec, [](auto &&a)
      {
        return fcppt::algorithm::fold(C05_FWD(a), vec{}, [](auto &&x, vec state)
        {
          cb_scope const g{C05_RECV(x)};
          state.emplace_back(C05_FWD(x));
          return state;
        });
      });
      // fold_break: stops after two elements
      run1<C>("algorithm::fold_break", false, shp("vector:", n), mk_vec, [](auto &&a)
      {
        return fcppt::algorithm::fold_break(C05_FWD(a), vec{}, [](auto &&x, vec state)
        {
          cb_scope const g{C05_RECV(x)};
          state.emplace_back(C05_FWD(x));
          bool const stop = state.size() >= 2U;
          return std::make_pair(stop ? fcppt::loop::break_ : fcppt::loop::continue_, std::move(state));
        });
      });
      // ... never stops: every element is kept
      run1<C>("algorithm::fold_break", true, shp("vector/no-break:", n), mk_vec, [](auto &&a)
      {
        return fcppt::algorithm::fold_break(C05_FWD(a), vec{}, [](auto &&x, vec state)
        {
          cb_scope const g{C05_RECV(x)};
          state.emplace_back(C05_FWD(x));
          return std::make_pair(fcppt::loop::continue_, std::move(state));
        });
      });
      // loop: the body only reads
      run1<C>("algorithm::loop", false, shp("vector:", n), mk_vec, [](auto &&a)
      {
        fcppt::algorithm::loop(C05_FWD(a), [](auto &&x)
        {
          cb_scope const g{C05_RECV(x)};
          (void)x.value();
        });
        return nothing{};
      });
      // loop_break: collects the elements it is handed (as handed), stops after two
      run1<C>("algorithm::loop_break", false, shp("vector:", n), mk_vec, [](auto &&a)
      {
        vec r;
        r.reserve(4U);
        fcppt::algorithm::loop_break(C05_FWD(a), [&r](auto &&x)
        {
          cb_scope const g{C05_RECV(x)};
          r.emplace_back(C05_FWD(x));
          return r.size() >= 2U ? fcppt::loop::break_ : fcppt::loop::continue_;
        });
        return r;
      });
      run1<C>("algorithm::reverse", true, shp("vector:", n), mk_vec,
              [](auto &&a) { return fcppt::algorithm::reverse(C05_FWD(a)); });
      run1<C>("algorithm::reverse", true, shp("list:", n), mk_lst,
              [](auto &&a) { return fcppt::algorithm::reverse(C05_FWD(a)); });
    });
    // The INITIAL STATE of fold / fold_break is an argument as well (second position, taken by value):
    // passed as an rvalue its elements must reach the result without a copy, whatever the range's category.
    // Range and state have two elements each unless n = 0.
    for (int m : {0, 2})
    {
      auto const mk_state = [m] { return make_seq<vec>(m); };
      std::string const sh = "vector:" + std::to_string(n) + ",state:" + std::to_string(m);
      for_cats<'r', 'l', 'c'>([&](auto c1)
      {
        for_cats<'r', 'l', 'c'>([&](auto c2)
        {
          constexpr char C1 = decltype(c1)::value;
          constexpr char C2 = decltype(c2)::value;
          run2<C1, C2>("algorithm::fold", true, sh, mk_vec, mk_state, [](auto &&a, auto &&st)
          {
            return fcppt::algorithm::fold(C05_FWD(a), C05_FWD(st), [](auto &&x, vec state)
            {
              cb_scope const g{C05_RECV(x)};
              state.emplace_back(C05_FWD(x));
              return state;
            });
          });
          run2<C1, C2>("algorithm::fold_break", false, sh, mk_vec, mk_state, [](auto &&a, auto &&st)
          {
            return fcppt::algorithm::fold_break(C05_FWD(a), C05_FWD(st), [](auto &&x, vec state)
            {
              cb_scope const g{C05_RECV(x)};
              state.emplace_back(C05_FWD(x));
              bool const stop = state.size() >= 4U;
              return std::make_pair(stop ? fcppt::loop::break_ : fcppt::loop::continue_, std::move(state));
            });
          });
        });
      });
    }
    // make_move_range: an rvalue container whose elements are then handed out as rvalues
    run1<'r'>("container::make_move_range+map", true, shp("vector:", n), mk_vec, [](auto &&a)
    { return fcppt::algorithm::map<vec>(fcppt::container::make_move_range(C05_FWD(a)), pass); });
    run1<'r'>("container::make_move_range+fold", true, shp("vector:", n), mk_vec, [](auto &&a)
    {
      return fcppt::algorithm::fold(fcppt::container::make_move_range(C05_FWD(a)), vec{}, [](auto &&x, vec state)
      {
        cb_scope const g{C05_RECV(x)};
        state.emplace_back(C05_FWD(x));
        return state;
      });
    });
    run1<'r'>("container::make_move_range+loop_break", false, shp("list:", n), mk_lst, [](auto &&a)
    {
      vec r;
      r.reserve(4U);
      fcppt::algorithm::loop_break(fcppt::container::make_move_range(C05_FWD(a)), [&r](auto &&x)
      {
        cb_scope const g{C05_RECV(x)};
        r.emplace_back(C05_FWD(x));
        return r.size() >= 2U ? fcppt::loop::break_ : fcppt::loop::continue_;
      });
      return r;
    });
    // operations documented to modify their (lvalue) argument: category "inout"
    run1<'m'>("algorithm::remove_if", false, shp("vector:", n), mk_vec, [](auto &&a)
    {
      int k = 0;
      fcppt::algorithm::remove_if(a, [&k](T const &x)
      {
        cb_scope const g{C05_RECV(x)};
        (void)x.value();
        return k++ % 2 == 0;
      });
      return fcppt::make_cref(a);
    });
    run1<'m'>("algorithm::unique_if", false, shp("vector:", n), mk_vec, [](auto &&a)
    {
      fcppt::algorithm::unique_if(a, [](T const &x, T const &y)
      {
        cb_scope const g{C05_RECV(x) + "," + C05_RECV(y)};
        return (x.value() / 2) == (y.value() / 2);
      });
      return fcppt::make_cref(a);
    });
  }
}
#endif

#ifdef C05_UNIT_CONTAINER
using vvec = std::vector<vec>;
vvec mk_vvec(int outer, int inner)
{
  vvec r;
  r.reserve(static_cast<std::size_t>(outer));
  for (int i = 0; i < outer; ++i) r.push_back(make_seq<vec>(inner));
  return r;
}
std::map<int, T> mk_map(int first_key, int n)
{
  std::map<int, T> m;
  for (int i = 0; i < n; ++i) m.emplace(first_key + i, next_tok());
  return m;
}

void container_unit(bool thorough)
{
  std::vector<int> const sizes = thorough ? std::vector<int>{0, 1, 2, 3, 5} : std::vector<int>{0, 1, 3};
  for (int n : sizes)
  {
    auto const mk_vec = [n] { return make_seq<vec>(n); };
    auto const mk_lst = [n] { return make_seq<lst>(n); };
    auto const mk_deq = [n] { return make_seq<deq>(n); };
    for_cats<'r', 'l', 'c'>([&](auto c)
    {
      constexpr char C = decltype(c)::value;
      run1<C>("container::join", true, shp("vector:", n), mk_vec,
              [](auto &&a) { return fcppt::container::join(C05_FWD(a)); });
    });
    run1<'m'>("container::pop_back", true, shp("vector:", n), mk_vec, [](auto &&a)
    {
      auto r = fcppt::container::pop_back(a);
      return std::make_pair(std::move(r), fcppt::make_cref(a));
    });
    run1<'m'>("container::pop_back", true, shp("deque:", n), mk_deq, [](auto &&a)
    {
      auto r = fcppt::container::pop_back(a);
      return std::make_pair(std::move(r), fcppt::make_cref(a));
    });
    run1<'m'>("container::pop_front", true, shp("deque:", n), mk_deq, [](auto &&a)
    {
      auto r = fcppt::container::pop_front(a);
      return std::make_pair(std::move(r), fcppt::make_cref(a));
    });
    run1<'m'>("container::pop_front", true, shp("list:", n), mk_lst, [](auto &&a)
    {
      auto r = fcppt::container::pop_front(a);
      return std::make_pair(std::move(r), fcppt::make_cref(a));
    });
    run1<'m'>("move_clear", true, shp("vector:", n), mk_vec, [](auto &&a) { return fcppt::move_clear(a); });
    // two-container join, every pair of categories
    for (int m : sizes)
    {
      if (!thorough && m == 1) continue;
      auto const mk2 = [m] { return make_seq<vec>(m); };
      std::string const s2 = "vector:" + std::to_string(n) + "+" + std::to_string(m);
      for_cats<'r', 'l', 'c'>([&](auto c1)
      {
        for_cats<'r', 'l', 'c'>([&](auto c2)
        {
          run2<decltype(c1)::value, decltype(c2)::value>("container::join", true, s2, mk_vec, mk2,
              [](auto &&a, auto &&b) { return fcppt::container::join(C05_FWD(a), C05_FWD(b)); });
        });
      });
      // three and four containers: EVERY combination of value categories of every position
      if (m == n || thorough)
      {
        for_cats3([&](auto c1, auto c2, auto c3)
        {
          run3<decltype(c1)::value, decltype(c2)::value, decltype(c3)::value>("container::join", true, s2 + "+2", mk_vec, mk2,
              [] { return make_seq<vec>(2); },
              [](auto &&a, auto &&b, auto &&cc) { return fcppt::container::join(C05_FWD(a), C05_FWD(b), C05_FWD(cc)); });
        });
      }
      if (m == n && (n == 3 || (thorough && n >= 1)))
      {
        for_cats4([&](auto c1, auto c2, auto c3, auto c4)
        {
          run4<decltype(c1)::value, decltype(c2)::value, decltype(c3)::value, decltype(c4)::value>("container::join", true,
              s2 + "+2+1", mk_vec, mk2, [] { return make_seq<vec>(2); }, [] { return make_seq<vec>(1); },
              [](auto &&a, auto &&b, auto &&cc, auto &&d) { return fcppt::container::join(C05_FWD(a), C05_FWD(b), C05_FWD(cc), C05_FWD(d)); });
        });
      }
    }
    // other container kinds: list / deque (insert at end), map (range insert; disjoint keys, so nothing is dropped),
    // and a NESTED container (the elements of the inner vectors are the tracked objects)
    if (n != 1 || thorough)
      for_cats<'r', 'l', 'c'>([&](auto c1)
      {
        for_cats<'r', 'l', 'c'>([&](auto c2)
        {
          constexpr char C1 = decltype(c1)::value;
          constexpr char C2 = decltype(c2)::value;
          run2<C1, C2>("container::join", true, "list:" + std::to_string(n) + "+2", mk_lst, [] { return make_seq<lst>(2); },
              [](auto &&a, auto &&b) { return fcppt::container::join(C05_FWD(a), C05_FWD(b)); });
          run2<C1, C2>("container::join", true, "deque:2+" + std::to_string(n), [] { return make_seq<deq>(2); }, mk_deq,
              [](auto &&a, auto &&b) { return fcppt::container::join(C05_FWD(a), C05_FWD(b)); });
          run2<C1, C2>("container::join", true, "map:" + std::to_string(n) + "+2", [n] { return mk_map(1, n); }, [] { return mk_map(100, 2); },
              [](auto &&a, auto &&b) { return fcppt::container::join(C05_FWD(a), C05_FWD(b)); });
          run2<C1, C2>("container::join", true, "vector<vector>:" + std::to_string(n) + "x2+2x" + std::to_string(n), [n] { return mk_vvec(n, 2); },
              [n] { return mk_vvec(2, n); }, [](auto &&a, auto &&b) { return fcppt::container::join(C05_FWD(a), C05_FWD(b)); });
        });
      });
#ifdef C05_JOIN_SET_MERGE
    // std::set: elements can only be taken out of an rvalue set by splicing nodes; join(set &&, set &&) COPIES them on
    // trees without fixes/C05_join_rvalue_set_copies.diff (see docs/notes_C05.md), so this is driven only with it
    for_cats<'r', 'l', 'c'>([&](auto c1)
    {
      for_cats<'r', 'l', 'c'>([&](auto c2)
      {
        auto const mk_set = [](int k)
        {
          std::set<T> r;
          for (int i = 0; i < k; ++i) r.emplace(next_tok());
          return r;
        };
        run2<decltype(c1)::value, decltype(c2)::value>("container::join", true, "set:" + std::to_string(n) + "+2", [n, &mk_set] { return mk_set(n); },
            [&mk_set] { return mk_set(2); }, [](auto &&a, auto &&b) { return fcppt::container::join(C05_FWD(a), C05_FWD(b)); });
      });
    });
#endif
    // get_or_insert: map<int, T> (inout), the created element comes from the continuation
    for (int key : {1, 7})
      run1<'m'>("container::get_or_insert", true, shp(key == 1 ? "map-hit:" : "map-miss:", n), [n] { return mk_map(1, n); },
      [key](auto &&a)
      {
        T &r = fcppt::container::get_or_insert(a, key, [](int)
        {
          cb_scope const g{""};
          return T(1000);
        });
        (void)r;
        return fcppt::make_cref(a);
      });
    // container::make: "creates a container from variadic arguments by moving"
    if (n == 3)
    {
      run3<'r', 'r', 'r'>("container::make", true, "3 elements", [] { return T(next_tok()); }, [] { return T(next_tok()); },
          [] { return T(next_tok()); },
          [](auto &&a, auto &&b, auto &&cc) { return fcppt::container::make<vec>(C05_FWD(a), C05_FWD(b), C05_FWD(cc)); });
      run3<'r', 'r', 'r'>("container::make", true, "3 elements->list", [] { return T(next_tok()); }, [] { return T(next_tok()); },
          [] { return T(next_tok()); },
          [](auto &&a, auto &&b, auto &&cc) { return fcppt::container::make<lst>(C05_FWD(a), C05_FWD(b), C05_FWD(cc)); });
    }
    // set operations take both sets by const reference
    {
      auto const mk_set = [n]
      {
        std::set<T> s;
        for (int i = 0; i < n; ++i) s.emplace(next_tok());
        return s;
      };
      run2<'c', 'c'>("container::set_union", true, shp("set:", n), mk_set, mk_set,
          [](auto &&a, auto &&b) { return fcppt::container::set_union(a, b); });
      run2<'c', 'c'>("container::set_difference", false, shp("set:", n), mk_set, mk_set,
          [](auto &&a, auto &&b) { return fcppt::container::set_difference(a, b); });
      run2<'c', 'c'>("container::set_intersection", false, shp("set:", n), mk_set, mk_set,
          [](auto &&a, auto &&b) { return fcppt::container::set_intersection(a, b); });
    }
  }
  // move_if_rvalue itself
  run1<'r'>("move_if_rvalue", true, "element", [] { return T(next_tok()); },
            [](auto &&a) { return T(fcppt::move_if_rvalue<decltype(a)>(a)); });
  run1<'l'>("move_if_rvalue", true, "element", [] { return T(next_tok()); },
            [](auto &&a) { return T(fcppt::move_if_rvalue<decltype(a)>(a)); });
  run1<'c'>("move_if_rvalue", true, "element", [] { return T(next_tok()); },
            [](auto &&a) { return T(fcppt::move_if_rvalue<decltype(a)>(a)); });
  // ... with a Type different from the argument's own category (the two-type form the library relies on:
  // "move a member if the surrounding object is an rvalue")
  run1<'l'>("move_if_rvalue", true, "member of rvalue", [] { return T(next_tok()); },
            [](auto &&a) { return T(fcppt::move_if_rvalue<vec &&>(a)); }, 'r');
  run1<'l'>("move_if_rvalue", true, "member of lvalue", [] { return T(next_tok()); },
            [](auto &&a) { return T(fcppt::move_if_rvalue<vec &>(a)); });
  run1<'l'>("move_if_rvalue", true, "member of const lvalue", [] { return T(next_tok()); },
            [](auto &&a) { return T(fcppt::move_if_rvalue<vec const &>(a)); });
}
#endif
}

namespace c05
{
#ifdef C05_UNIT_ALGORITHM
void drive_algorithm() { algorithm_unit(thorough()); }
#endif
#ifdef C05_UNIT_CONTAINER
void drive_container() { container_unit(thorough()); }
#endif
}
