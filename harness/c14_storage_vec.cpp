// C14 harness unit "storage_vec": vectors and dims whose operands have DIFFERENT storage types.
// Storage kinds of a vector of dimension N:
//   static     fm::vector::static_<int, N>
//   pview      a view of an array of N cells (c14::pview, the shape of fcppt's test view_storage)
//   view       row of a non-const 2xN static matrix (matrix::detail::row_view)
//   constview  row of a const 2xN static matrix
//   pmatrow    row of a 2xN matrix that is itself a view of an array (a view of a view)
// dims: static and pview.  Every (kind, kind) combination is driven for binary arithmetic, == / !=,
// dot, cross, compound assignment and assignment (template operator=, math/detail/assign.hpp);
// construction of a static object from every view kind (math/detail/copy.hpp); conversions
// (structure_cast, narrow_cast, push_back), unary operators, access and writes for the kinds the
// unit c14_vectors does not drive; the ordering operators for every kind (same type on both sides).
// See c14_common.hpp.
#include <c14_vec.hpp>

namespace
{
using namespace c14;

// the two operands a = v[0..N), b = v[N..2N) in every storage kind (not copyable: the views point
// into the members)
template <sz N>
struct operands
{
  using smat = fm::matrix::static_<int, 2, N>;
  fm::vector::static_<int, N> as, bs;
  cells<N> ca, cb;
  pvec<N> ap, bp;
  smat m;
  typename smat::reference ar, br;
  typename smat::const_reference ak, bk;
  cells<2 * N> cq;
  pmat<2, N> pm;
  typename pmat<2, N>::reference aq, bq;
  fm::dim::static_<int, N> das, dbs;
  cells<N> cda, cdb;
  pdim<N> dap, dbp;
  std::string aj, bj;
  explicit operands(ivec const &v)
      : as(mk_vec<N>(v, 0)), bs(mk_vec<N>(v, N)), ca(v, 0), cb(v, N), ap(ca.vec()), bp(cb.vec()), m(mk_mat<2, N>(v, 0)),
        ar(m.get_unsafe(0)), br(m.get_unsafe(1)), ak(static_cast<smat const &>(m).get_unsafe(0)),
        bk(static_cast<smat const &>(m).get_unsafe(1)), cq(v, 0), pm(as_pmat<2, N>(cq)), aq(pm.get_unsafe(0)),
        bq(pm.get_unsafe(1)), das(mk_dim<N>(v, 0)), dbs(mk_dim<N>(v, N)), cda(v, 0), cdb(v, N), dap(cda.dim()),
        dbp(cdb.dim()), aj(vals_vec(v, 0, N)), bj(vals_vec(v, N, N))
  {
  }
  operands(operands const &) = delete;
  operands &operator=(operands const &) = delete;
  // f(label, object) for operand a / b in every kind
  template <typename F>
  void each_a(F const &f) const
  {
    f("static", as);
    f("pview", ap);
    f("view", ar);
    f("constview", ak);
  }
  template <typename F>
  void each_b(F const &f) const
  {
    f("static", bs);
    f("pview", bp);
    f("view", br);
    f("constview", bk);
  }
  template <typename F>
  void each_da(F const &f) const
  {
    f("static", das);
    f("pview", dap);
  }
  template <typename F>
  void each_db(F const &f) const
  {
    f("static", dbs);
    f("pview", dbp);
  }
};

// the I-th writable kind of operand a of a fresh set of operands: g(label, lhs, operands)
template <sz N, typename G>
void with_fresh_lhs(ivec const &v, G const &g)
{
  static_for<3>([&](auto idx) {
    constexpr sz K = decltype(idx)::value;
    operands<N> o(v);
    if constexpr (K == 0) g("static", o.as, o);
    else if constexpr (K == 1) g("pview", o.ap, o);
    else g("view", o.ar, o);
  });
}
template <sz N, typename G>
void with_fresh_dim_lhs(ivec const &v, G const &g)
{
  static_for<2>([&](auto idx) {
    constexpr sz K = decltype(idx)::value;
    operands<N> o(v);
    if constexpr (K == 0) g("static", o.das, o);
    else g("pview", o.dap, o);
  });
}

template <sz N>
void mixed_cases(ivec const &v, int const k)
{
  {
    operands<N> const o(v);
    // binary arithmetic, equality, dot, cross: every (kind, kind) of static / pview / view / constview,
    // rows of a view matrix with themselves, static, pview and constview operands
    auto const both = [&](char const *la, char const *lb, auto const &a, auto const &b) {
      std::string const st = st2(la, lb);
      vec_binary("vector", st, o.aj, o.bj, a, b);
      vec_equal("vector", st, o.aj, o.bj, a, b);
      vec_only_binary(st, o.aj, o.bj, a, b);
      // ordering: same type on both sides
      if constexpr (std::is_same_v<std::remove_cvref_t<decltype(a)>, std::remove_cvref_t<decltype(b)>>)
        vec_order("vector", st, o.aj, o.bj, a, b);
    };
    o.each_a([&](char const *la, auto const &a) {
      o.each_b([&](char const *lb, auto const &b) { both(la, lb, a, b); });
      // vector (op) dim
      o.each_db([&](char const *lb, auto const &db) { vec_binary("vector,dim", st2(la, lb), o.aj, o.bj, a, db); });
    });
    both("pmatrow", "pmatrow", o.aq, o.bq);
    both("pmatrow", "static", o.aq, o.bs);
    both("static", "pmatrow", o.as, o.bq);
    both("pmatrow", "constview", o.aq, o.bk);
    both("pview", "pmatrow", o.ap, o.bq);
    vec_binary("vector,dim", "pmatrow,pview", o.aj, o.bj, o.aq, o.dbp);
    o.each_da([&](char const *la, auto const &da) {
      o.each_db([&](char const *lb, auto const &db) {
        std::string const st = st2(la, lb);
        vec_binary("dim", st, o.aj, o.bj, da, db);
        vec_equal("dim", st, o.aj, o.bj, da, db);
        if constexpr (std::is_same_v<std::remove_cvref_t<decltype(da)>, std::remove_cvref_t<decltype(db)>>)
          vec_order("dim", st, o.aj, o.bj, da, db);
      });
    });
    // the kinds that c14_vectors does not drive: unary, access, conversions, construction
    vec_unary("vector", "pview", o.aj, o.ap, k);
    vec_unary("vector", "pmatrow", o.aj, o.aq, k);
    vec_unary("dim", "pview", o.aj, o.dap, k);
    vec_length_square("pview", o.aj, o.ap);
    vec_length_square("pmatrow", o.bj, o.bq);
    vec_conversions("vector", "pview", o.aj, o.ap, k);
    vec_conversions("vector", "pmatrow", o.bj, o.bq, k);
    vec_conversions("dim", "pview", o.aj, o.dap, k);
    vec_construct("vector", "pview->static", o.aj, o.ap);
    vec_construct("vector", "pmatrow->static", o.bj, o.bq);
    vec_construct("dim", "pview->static", o.bj, o.dbp);
  }
  // compound assignment and assignment: static / pview / view on the left, static / pview / view /
  // constview on the right; rows of a view matrix with static, constview and themselves
  for (char const op : {'+', '-', '*'})
  {
    static_for<4>([&](auto ridx) {
      constexpr sz RK = decltype(ridx)::value;
      with_fresh_lhs<N>(v, [&](char const *la, auto &lhs, operands<N> &o) {
        if constexpr (RK == 0) vec_compound("vector", st2(la, "static"), op, o.aj, o.bj, lhs, o.bs);
        else if constexpr (RK == 1) vec_compound("vector", st2(la, "pview"), op, o.aj, o.bj, lhs, o.bp);
        else if constexpr (RK == 2) vec_compound("vector", st2(la, "view"), op, o.aj, o.bj, lhs, o.br);
        else vec_compound("vector", st2(la, "constview"), op, o.aj, o.bj, lhs, o.bk);
      });
    });
    {
      operands<N> o(v);
      vec_compound("vector", "pmatrow,static", op, o.aj, o.bj, o.aq, o.bs);
    }
    {
      operands<N> o(v);
      vec_compound("vector", "static,pmatrow", op, o.aj, o.bj, o.as, o.bq);
    }
    {
      operands<N> o(v);
      vec_compound("vector", "pmatrow,pmatrow", op, o.aj, o.bj, o.aq, o.bq);
    }
    {
      operands<N> o(v);
      vec_compound("vector", "pmatrow,constview", op, o.aj, o.bj, o.aq, o.bk);
    }
    static_for<2>([&](auto ridx) {
      constexpr sz RK = decltype(ridx)::value;
      with_fresh_dim_lhs<N>(v, [&](char const *la, auto &lhs, operands<N> &o) {
        if constexpr (RK == 0) vec_compound("dim", st2(la, "static"), op, o.aj, o.bj, lhs, o.dbs);
        else vec_compound("dim", st2(la, "pview"), op, o.aj, o.bj, lhs, o.dbp);
      });
    });
  }
  static_for<4>([&](auto ridx) {
    constexpr sz RK = decltype(ridx)::value;
    with_fresh_lhs<N>(v, [&](char const *la, auto &lhs, operands<N> &o) {
      auto const go = [&](char const *lb, auto const &rhs) {
        if constexpr (!std::is_same_v<std::remove_cvref_t<decltype(lhs)>, std::remove_cvref_t<decltype(rhs)>>)
          vec_assign("vector", st2(la, lb), o.aj, o.bj, lhs, rhs);
      };
      if constexpr (RK == 0) go("static", o.bs);
      else if constexpr (RK == 1) go("pview", o.bp);
      else if constexpr (RK == 2) go("view", o.br);
      else go("constview", o.bk);
    });
  });
  {
    operands<N> o(v);
    vec_assign("vector", "pmatrow,static", o.aj, o.bj, o.aq, o.bs);
  }
  {
    operands<N> o(v);
    vec_assign("vector", "static,pmatrow", o.aj, o.bj, o.as, o.bq);
  }
  {
    operands<N> o(v);
    vec_assign("vector", "pmatrow,constview", o.aj, o.bj, o.aq, o.bk);
  }
  {
    operands<N> o(v);
    vec_assign("vector", "view,pmatrow", o.aj, o.bj, o.ar, o.bq);
  }
  {
    operands<N> o(v);
    vec_assign("dim", "static,pview", o.aj, o.bj, o.das, o.dbp);
  }
  {
    operands<N> o(v);
    vec_assign("dim", "pview,static", o.aj, o.bj, o.dap, o.dbs);
    // the cells behind the view hold the result
    Rec r("copy");
    r.ks("k", "dim").ks("st", "cells behind the pview after =").k("a", o.bj).begin();
    r.k("r", o.cda.json()).end();
  }
  // writes through views, scalar compound operator
  with_fresh_lhs<N>(v, [&](char const *la, auto &lhs, operands<N> &o) {
    if (la[0] == 'p') vec_write("vector", la, o.aj, lhs, k + 2);
    vec_scale_assign("vector", la, o.aj, lhs, k);
  });
  {
    operands<N> o(v);
    vec_write("vector", "pmatrow", o.aj, o.aq, k + 2);
    vec_scale_assign("vector", "pmatrow", o.aj, o.aq, k);
  }
  with_fresh_dim_lhs<N>(v, [&](char const *la, auto &lhs, operands<N> &o) {
    if (la[0] == 'p') vec_write("dim", la, o.aj, lhs, k + 2);
    vec_scale_assign("dim", la, o.aj, lhs, k);
  });
  // the right operand is a view of the LEFT operand's own cells (different storage types, same memory)
  {
    for (char const op : {'=', '+', '-', '*'})
    {
      auto x(mk_vec<N>(v, 0));
      pvec<N> const alias(pview<int, N>(x.storage().data()));
      std::string const aj = vals_vec(v, 0, N);
      if (op == '=') vec_assign("vector", "static,pview(alias of the left operand)", aj, aj, x, alias);
      else vec_compound("vector", "static,pview(alias of the left operand)", op, aj, aj, x, alias);
    }
    for (char const op : {'=', '+', '-', '*'})
    {
      auto m2(mk_mat<2, N>(v, 0));
      auto const &cm2(m2);
      auto row1(m2.get_unsafe(1));
      std::string const bj = vals_vec(v, N, N);
      if (op == '=') vec_assign("vector", "view,constview(same row)", bj, bj, row1, cm2.get_unsafe(1));
      else vec_compound("vector", "view,constview(same row)", op, bj, bj, row1, cm2.get_unsafe(1));
    }
  }
  // rows of a matrix that is a view: the whole matrix after row_i (op)= row_j / a static vector
  for (char const op : {'+', '-', '*'})
    for (unsigned i = 0; i < 2; ++i)
      for (unsigned j = 0; j < 3; ++j)
      {
        operands<N> o(v);
        auto lhs(o.pm.get_unsafe(i));
        Rec r("row_op");
        r.ks("st", j == 2 ? "pmatrow,static" : (i == j ? "pmatrow,pmatrow(same row)" : "pmatrow,pmatrow(same matrix)"))
            .k("a", vals_mat(v, 0, 2, N)).ki("i", i).k("b", j == 0 ? o.aj : o.bj).ks("op", std::string(1, op) + "=").begin();
        if (j == 2)
        {
          if (op == '+') lhs += o.bs;
          else if (op == '-') lhs -= o.bs;
          else lhs *= o.bs;
        }
        else
        {
          auto const rhs(o.pm.get_unsafe(j));
          if (op == '+') lhs += rhs;
          else if (op == '-') lhs -= rhs;
          else lhs *= rhs;
        }
        r.k("r", o.cq.json_rows(N)).end();
      }
}

// every ordering operator on equal, prefix-equal and differing operands for the view kinds
template <sz N>
void order_cases(ivec const &u)
{
  order_pairs<N>(u, [](ivec const &v) {
    operands<N> const o(v);
    vec_order("vector", "pview,pview", o.aj, o.bj, o.ap, o.bp);
    vec_order("vector", "pmatrow,pmatrow", o.aj, o.bj, o.aq, o.bq);
    vec_order("dim", "pview,pview", o.aj, o.bj, o.dap, o.dbp);
    vec_equal("vector", "pview,static", o.aj, o.bj, o.ap, o.bs);
    vec_equal("vector", "constview,pmatrow", o.aj, o.bj, o.ak, o.bq);
    vec_equal("dim", "static,pview", o.aj, o.bj, o.das, o.dbp);
  });
}

// C14_HALF: 0 = dimensions 1 and 4, 1 = dimensions 2 and 3 (two translation units, built in parallel),
// anything else = all
#ifndef C14_HALF
#define C14_HALF 2
#endif

void part_storage_vec(vj::Rng &rng, bool const thorough)
{
#if C14_HALF != 1
  for (int a = -1; a <= 2; ++a)
    for (int b = -1; b <= 2; ++b) mixed_cases<1>(ivec{a, b}, a - b);
  order_cases<1>(ivec{0});
  order_cases<4>(ivec{0, 0, 0, 0});
  order_cases<1>(ivec{-3});
  order_cases<4>(ivec{5, -5, 0, 7});
#endif
#if C14_HALF != 0
  for (unsigned c = 0; c < 256; c += (thorough ? 1U : 11U))
  {
    ivec const v(mat2_of(c));
    mixed_cases<2>(v, static_cast<int>(c % 7U) - 3);
  }
  order_cases<2>(ivec{0, 0});
  order_cases<3>(ivec{0, 0, 0});
  order_cases<2>(ivec{2, -2});
  order_cases<3>(ivec{-1, 4, -4});
#endif
  unsigned const n = thorough ? 300U : 24U;
  for (unsigned i = 0; i < n; ++i)
  {
    int const k = static_cast<int>(rng.range(-9, 9));
#if C14_HALF != 1
    if (i % 8U == 0U) order_cases<4>(random_vals(rng, 4, -9, 9));
    {
      ivec v(random_vals(rng, 8, -9, 9));
      tweak(rng, v, 4);
      mixed_cases<4>(v, k);
    }
#endif
#if C14_HALF != 0
    if (i % 8U == 0U)
    {
      order_cases<2>(random_vals(rng, 2, -9, 9));
      order_cases<3>(random_vals(rng, 3, -9, 9));
    }
    {
      ivec v(random_vals(rng, 4, -9, 9));
      tweak(rng, v, 2);
      mixed_cases<2>(v, k);
    }
    {
      ivec v(random_vals(rng, 6, -9, 9));
      tweak(rng, v, 3);
      mixed_cases<3>(v, k);
    }
#endif
  }
}
}

int main(int argc, char **argv) { return c14::unit_main(argc, argv, "storage_vec", 23U + C14_HALF, part_storage_vec); }
