// C14 harness unit "matrices": seeded random 3x3 / 4x4 / rectangular int matrices in [-9,9]
// (sums, products, scalars, matrix * vector, access, transpose, determinant, adjugate, builders)
// and products of real results.  See c14_common.hpp.
#include <c14_matrix.hpp>

namespace
{
using namespace c14;

// C14_HALF: 0 = identity, 3x3 and the rectangular shapes; 1 = 4x4, the 4x4 builders and the products
// of real results (two translation units, built in parallel); anything else = all
#ifndef C14_HALF
#define C14_HALF 2
#endif

void part_matrices(vj::Rng &rng, bool const thorough)
{
#if C14_HALF != 1
  identity_case<fm::matrix::static_<int, 1, 1>>("static");
  identity_case<fm::matrix::static_<int, 2, 2>>("static");
  identity_case<fm::matrix::static_<int, 3, 3>>("static");
  identity_case<fm::matrix::static_<int, 4, 4>>("static");
  for (int c0 = -1; c0 <= 1; ++c0)
    for (int c1 = -2; c1 <= 3; ++c1)
      for (int c2 = -3; c2 <= 2; ++c2)
      {
        matrix_init_case<1, 1>(c0, c1, c2);
        matrix_init_case<2, 2>(c0, c1, c2);
        matrix_init_case<3, 3>(c0, c1, c2);
        matrix_init_case<4, 4>(c0, c1, c2);
        matrix_init_case<2, 3>(c0, c1, c2);
        matrix_init_case<3, 2>(c0, c1, c2);
        matrix_init_case<1, 4>(c0, c1, c2);
        matrix_init_case<4, 1>(c0, c1, c2);
        matrix_init_case<3, 4>(c0, c1, c2);
      }
  for (unsigned i = 0; i < (thorough ? 200U : 20U); ++i)
  {
    ivec const v(random_vals(rng, 40, -16000, 16000));
    matrix_wide<3, 3>("3x3 wide", v, static_cast<int>(i % 19U) - 9);
    matrix_wide<2, 3>("2x3 wide", v, static_cast<int>(i % 7U) - 3);
  }
#else
  for (unsigned i = 0; i < (thorough ? 200U : 20U); ++i)
  {
    ivec const v(random_vals(rng, 40, -16000, 16000));
    matrix_wide<4, 4>("4x4 wide", v, static_cast<int>(i % 19U) - 9);
  }
#endif
  unsigned const n = thorough ? 6000U : 600U;
  for (unsigned i = 0; i < n; ++i)
  {
    int const k = static_cast<int>(rng.range(-9, 9));
    bool const writes = i % 4U == 0U;
    // |entries| <= 9: sums, products, determinants and adjugates stay far below 2^31
#if C14_HALF != 1
    {
      ivec const v(random_vals(rng, 18 + 3, -9, 9));
      matrix_same_shape<3, 3>("3x3", v);
      matrix_product<3, 3, 3>("3x3", v);
      matrix_unary<3, 3>("3x3", v, k);
      matrix_access<3, 3>("3x3", v, writes);
      matrix_square<3>("3x3", v);
      if (i % 8U == 0U) matrix_same_shape_more<3, 3>("3x3", v);
      if (i % 4U == 1U) matrix_assign<3, 3>("3x3", v);
    }
#endif
#if C14_HALF != 0
    {
      ivec const v(random_vals(rng, 32 + 4, -9, 9));
      matrix_same_shape<4, 4>("4x4", v);
      matrix_product<4, 4, 4>("4x4", v);
      matrix_unary<4, 4>("4x4", v, k);
      matrix_access<4, 4>("4x4", v, writes);
      matrix_square<4>("4x4", v);
      if (i % 8U == 0U) matrix_same_shape_more<4, 4>("4x4", v);
      if (i % 4U == 1U) matrix_assign<4, 4>("4x4", v);
    }
    {
      ivec const v(random_vals(rng, 3, -9, 9));
      builders_4x4(v);
    }
#endif
#if C14_HALF != 1
    if (i % 4U == 0U)
    {
      // rectangular shapes
      ivec const v(random_vals(rng, 40, -9, 9));
      matrix_product<2, 3, 4>("2x3*3x4", v);
      matrix_product<3, 1, 2>("3x1*1x2", v);
      matrix_product<1, 4, 1>("1x4*4x1", v);
      matrix_product<4, 2, 3>("4x2*2x3", v);
      matrix_unary<2, 3>("2x3", v, k);
      matrix_access<2, 3>("2x3", v);
      matrix_unary<3, 2>("3x2", v, k);
      matrix_access<3, 2>("3x2", v);
      matrix_unary<1, 4>("1x4", v, k);
      matrix_access<1, 4>("1x4", v);
      matrix_unary<4, 1>("4x1", v, k);
      matrix_access<4, 1>("4x1", v);
      matrix_unary<1, 1>("1x1", v, k);
      matrix_access<1, 1>("1x1", v);
      matrix_same_shape<2, 3>("2x3", v);
      matrix_same_shape<4, 1>("4x1", v);
      matrix_square<1>("1x1", v);
      matrix_assign<2, 3>("2x3", v);
      matrix_assign<3, 2>("3x2", v);
      matrix_assign<1, 4>("1x4", v);
      matrix_assign<4, 1>("4x1", v);
      matrix_assign<1, 1>("1x1", v);
      if (i % 16U == 0U)
      {
        matrix_same_shape_more<2, 3>("2x3", v);
        matrix_same_shape_more<4, 1>("4x1", v);
        matrix_same_shape_more<1, 1>("1x1", v);
      }
    }
#endif
#if C14_HALF != 0
    if (i % 2U == 0U)
    {
      // products of products (the laws the judge cannot see from one call are checked on the model;
      // here the operands are real results): entries <= 3 keep det(A*B) of a 4x4 below 2^31.
      // A result is used as an operand only when it is small enough for the judge's arithmetic;
      // it is recorded (and judged) as a result in any case.
      ivec const v(random_vals(rng, 32, -3, 3));
      auto const a(mk_mat<4, 4>(v, 0));
      auto const b(mk_mat<4, 4>(v, 16));
      Rec r0("mmul");
      r0.ks("g", "4x4 small").k("a", vals_mat(v, 0, 4, 4)).k("b", vals_mat(v, 16, 4, 4)).begin();
      auto const ab(a * b);
      r0.k("r", mj_(ab)).end();
      if (sane_mat(ab, 64))   // |entries| <= 36 on a correct tree; det of a 4x4 with entries <= 64 is < 2^31
      {
        Rec r("determinant");
        r.ks("g", "4x4 product").k("a", mj_(ab)).begin();
        int const res = fm::matrix::determinant(ab);
        r.ki("r", res).end();
      }
      Rec r1("adjugate");
      r1.ks("g", "4x4 small").k("a", vals_mat(v, 0, 4, 4)).begin();
      auto const adj(fm::matrix::adjugate(a));
      r1.k("r", mj_(adj)).end();
      if (sane_mat(adj))
      {
        Rec r2("mmul");
        r2.ks("g", "4x4 A*adj(A)").k("a", vals_mat(v, 0, 4, 4)).k("b", mj_(adj)).begin();
        auto const res2(a * adj);
        r2.k("r", mj_(res2)).end();
      }
    }
#endif
    (void)k;
    (void)writes;
  }
}
}

int main(int argc, char **argv) { return c14::unit_main(argc, argv, "matrices", 5U + C14_HALF, part_matrices); }
