// C17 conformance harness, shared by every unit (c17_order.cpp sections, c17_strong.cpp, c17_own.cpp).
//
// The harness only DRIVES the real fcppt code and RECORDS; it contains no expected values.
//
// Units and parts: every unit is one translation unit compiled separately by checks/c17.py and exports
// one entry point `c17_part_<name>`; c17_main.cpp (no fcppt header) refers to them through weak symbols,
// so a unit that no longer compiles against a changed tree is left out of the link and the other
// parts are still driven and judged.
//
// Records: every record carries "k", the index of the *take* (one type / one operand pair / one
// history) that produced it.  `c17_wrappers record OUT part tier seed skip [scripts]` skips the first
// `skip` takes: after a crash / hang / exception inside take k, checks/c17.py reads k from the
// truncated line and resumes the part at k + 1 (so one bad input costs one record, not the part).
//
// Watchdog: armed before every take: CPU time of this process (ITIMER_PROF -> SIGPROF, immune to an
// overloaded box) and a wall-clock alarm (a call that blocks); both leave a crash record "hang"
// after the flushed record prefix that names the type and the relation, and exit with 68.
//
// Integers: TLC integers are 32-bit; every logged integer that comes out of the code under test is
// clamped to [-2^30, 2^30] (honest values are tiny), so a garbage result is rejected by the judge
// instead of breaking it.
#ifndef VERIF_C17_COMMON_HPP
#define VERIF_C17_COMMON_HPP

#include <common/vjson.hpp>

#include <concepts>
#include <cstddef>
#include <cstdio>
#include <exception>
#include <string>
#include <sys/time.h>
#include <type_traits>
#include <unistd.h>
#include <utility>
#include <variant>
#include <vector>

#define C17_PART(name) extern "C" void c17_part_##name(unsigned long long seed, int thorough, char const *extra)

namespace c17
{
using comp_t = std::vector<long long>;

inline long long clampv(long long const v)
{
  long long const lim = 1LL << 30;
  return v > lim ? lim : (v < -lim ? -lim : v);
}
template <typename I>
inline long long cl(I const v)
{
  if constexpr (std::is_signed_v<I>)
    return clampv(static_cast<long long>(v));
  else
    return static_cast<unsigned long long>(v) > (1ULL << 30) ? (1LL << 30) : static_cast<long long>(v);
}

inline long &K()
{
  static long k = 0;
  return k;
}
inline long &SKIP()
{
  static long s = 0;
  return s;
}

inline void watchdog_arm()
{
  struct itimerval t{};
  t.it_value.tv_sec = 10;
  ::setitimer(ITIMER_PROF, &t, nullptr);
  ::alarm(240);
}
inline void watchdog_disarm()
{
  struct itimerval t{};
  ::setitimer(ITIMER_PROF, &t, nullptr);
  ::alarm(0);
}

// the next take: returns false if it is to be skipped (resume after a crash)
inline bool take()
{
  ++K();
  if (K() <= SKIP()) return false;
  watchdog_arm();
  return true;
}

inline void flush() { std::fflush(vj::out_file()); }
inline void put(std::string const &s) { std::fputs(s.c_str(), vj::out_file()); }

inline std::string comp_json(comp_t const &c)
{
  std::string s = "[";
  for (std::size_t i = 0; i < c.size(); ++i) s += (i ? "," : "") + std::to_string(clampv(c[i]));
  return s + "]";
}

struct no_hash
{
};

template <typename M>
std::string matrix_json(std::size_t const n, M const &cell)
{
  std::string s = "[";
  for (std::size_t a = 0; a < n; ++a)
  {
    s += a ? ",[" : "[";
    for (std::size_t b = 0; b < n; ++b)
    {
      if (b) s += ',';
      s += cell(a, b) ? '1' : '0';
    }
    s += ']';
  }
  return s + "]";
}

// One "order" record: a set of values of ONE C++ type (how each was produced, the value), their
// observable components and the complete n x n matrices of every relation the type offers (detected
// with requires-expressions) and of its hash function object.  The record is written progressively
// and flushed before every step, so that a crash leaves a truncated line that names the type and
// the relation being evaluated:
//   {"f":"order","k":..,"family":..,"type":..   <- constructor (before the values are built)
//   ,"n":..,"how":[..]  ,"comp":  [..]  ,"EQ":  [[..]..]  ...  ,"has":[..]}
template <typename T>
struct order
{
  std::vector<std::pair<std::string, T>> vals;
  std::string family, type, kind;

  // kind: "order" (inside the statement of C17) or "orderx" (the same record, judged the same way, but
  // OBSERVED ONLY - see InScope in spec/OrderJudge.tla)
  order(std::string fam, std::string ty, std::string kd = "order") : family(std::move(fam)), type(std::move(ty)), kind(std::move(kd))
  {
    begin();
  }
  void begin()
  {
    vj::J pre;
    pre.kv("f", kind).kv("k", static_cast<long long>(K())).kv("family", family).kv("type", type);
    vj::begin_call(pre.s);
  }
  template <typename U>
  void add(char const *how, U &&v)
  {
    vals.emplace_back(how, std::forward<U>(v));
  }

  template <typename Comp, typename Hash>
  void emit(Comp const &comp, Hash const &hash)
  {
    std::size_t const n = vals.size();
    std::vector<std::string> hows;
    for (auto const &v : vals) hows.push_back(v.first);
    put(",\"n\":" + std::to_string(n) + ",\"how\":" + vj::str_arr(hows) + ",\"comp\":");
    flush();
    {
      std::string r = "[";
      for (std::size_t i = 0; i < n; ++i) r += (i ? "," : "") + comp_json(comp(vals[i].second));
      put(r + "]");
    }
    std::vector<std::string> has;
    auto const val = [this](std::size_t i) -> T const & { return vals[i].second; };
    auto const rel = [&](char const *name, bool offered, auto const &cell) {
      put(std::string(",\"") + name + "\":");
      flush();
      if (offered)
      {
        has.emplace_back(name);
        put(matrix_json(n, cell));
      }
      else
        put("[]");
    };
    // (the lambdas of relations that are not offered are never instantiated: if constexpr)
#define C17_REL(NAME, OP)                                                                                          \
  if constexpr (requires(T const &a) { { a OP a } -> std::convertible_to<bool>; })                                  \
    rel(NAME, true, [&](std::size_t a, std::size_t b) { return static_cast<bool>(val(a) OP val(b)); });             \
  else                                                                                                             \
    rel(NAME, false, [](std::size_t, std::size_t) { return false; });
    C17_REL("EQ", ==)
    C17_REL("NE", !=)
    C17_REL("LT", <)
    C17_REL("LE", <=)
    C17_REL("GT", >)
    C17_REL("GE", >=)
#undef C17_REL
    if constexpr (!std::is_same_v<Hash, no_hash>)
    {
      put(",\"HEQ\":");
      flush();
      has.emplace_back("HEQ");
      std::vector<std::size_t> h;
      for (std::size_t i = 0; i < n; ++i) h.push_back(hash(val(i)));
      put(matrix_json(n, [&](std::size_t a, std::size_t b) { return h[a] == h[b]; }));
    }
    else
      put(",\"HEQ\":[]");
    vj::end_call(",\"has\":" + vj::str_arr(has) + "}");
  }
};

// A value that is either an A or a B: the relations between two such values are the (possibly
// heterogeneous) relations the library offers between A and A, A and B, B and A, B and B - offered
// only if all four combinations compile.  Used for the operators that are templates over two
// different operand types (record::object with permuted labels, shared_ptr<T1> / shared_ptr<T2>,
// math vectors with different storage).
template <typename A, typename B, bool Ordered = true>
struct het
{
  std::variant<A, B> v;
  // (no default constructor: A may not have one)
  het(A a) : v(std::move(a)) {} // NOLINT(google-explicit-constructor)
  het(B b) : v(std::move(b)) {} // NOLINT(google-explicit-constructor)
};
#define C17_HET(OP, ORDERING)                                                                                      \
  template <typename A, typename B, bool Ordered>                                                                  \
    requires(Ordered || !ORDERING) && requires(A const &a, B const &b) {                                           \
      { a OP a } -> std::convertible_to<bool>;                                                                     \
      { a OP b } -> std::convertible_to<bool>;                                                                     \
      { b OP a } -> std::convertible_to<bool>;                                                                     \
      { b OP b } -> std::convertible_to<bool>;                                                                     \
    }                                                                                                              \
  bool operator OP(het<A, B, Ordered> const &x, het<A, B, Ordered> const &y)                                       \
  {                                                                                                                \
    return std::visit([](auto const &p, auto const &q) -> bool { return static_cast<bool>(p OP q); }, x.v, y.v);  \
  }
C17_HET(==, false)
C17_HET(!=, false)
C17_HET(<, true)
C17_HET(<=, true)
C17_HET(>, true)
C17_HET(>=, true)
#undef C17_HET

int const dom[] = {0, 1, 2};
int const dom2[] = {0, 1};
}

#endif
