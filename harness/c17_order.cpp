// C17 conformance harness, part 1: ==, !=, <, <=, >, >= and hash of the fcppt value types.
// (command line: see c17_main.cpp)
//
// For every listed type it enumerates values with components in {0,1,2} (several of them equal
// but produced in different ways: after reset / assignment from another alternative / through
// operators), and logs for each value its observable components (what the type's own accessors
// return) and the complete n x n result matrices of every comparison operator the type offers
// (detected with requires-expressions) and of its hash function object.  It contains no expected
// values: spec/OrderJudge.tla (TLC) evaluates the axioms of spec/Order.tla on the matrices.
#include <common/vjson.hpp>

#include <fcppt/make_recursive.hpp>
#include <fcppt/make_ref.hpp>
#include <fcppt/make_shared_ptr.hpp>
#include <fcppt/make_strong_typedef.hpp>
#include <fcppt/recursive.hpp>
#include <fcppt/recursive_comparison.hpp>
#include <fcppt/reference.hpp>
#include <fcppt/reference_comparison.hpp>
#include <fcppt/reference_hash.hpp>
#include <fcppt/reference_std_hash.hpp>
#include <fcppt/shared_ptr.hpp>
#include <fcppt/shared_ptr_hash_decl.hpp>
#include <fcppt/shared_ptr_hash_impl.hpp>
#include <fcppt/shared_ptr_std_hash.hpp>
#include <fcppt/strong_typedef.hpp>
#include <fcppt/strong_typedef_arithmetic.hpp>
#include <fcppt/strong_typedef_comparison.hpp>
#include <fcppt/strong_typedef_hash.hpp>
#include <fcppt/strong_typedef_std_hash.hpp>
#include <fcppt/array/comparison.hpp>
#include <fcppt/array/get.hpp>
#include <fcppt/array/object.hpp>
#include <fcppt/container/bitfield/comparison.hpp>
#include <fcppt/container/bitfield/hash.hpp>
#include <fcppt/container/bitfield/init.hpp>
#include <fcppt/container/bitfield/object.hpp>
#include <fcppt/container/bitfield/operators.hpp>
#include <fcppt/container/bitfield/std_hash.hpp>
#include <fcppt/container/grid/comparison.hpp>
#include <fcppt/container/grid/object.hpp>
#include <fcppt/container/raw_vector/comparison.hpp>
#include <fcppt/container/raw_vector/object.hpp>
#include <fcppt/container/tree/comparison.hpp>
#include <fcppt/container/tree/object.hpp>
#include <fcppt/either/comparison.hpp>
#include <fcppt/either/object.hpp>
#include <fcppt/enum/array.hpp>
#include <fcppt/enum/array_comparison.hpp>
#include <fcppt/math/box/comparison.hpp>
#include <fcppt/math/box/object.hpp>
#include <fcppt/math/dim/comparison.hpp>
#include <fcppt/math/dim/static.hpp>
#include <fcppt/math/dim/std_hash.hpp>
#include <fcppt/math/matrix/at_r_c.hpp>
#include <fcppt/math/matrix/comparison.hpp>
#include <fcppt/math/matrix/row.hpp>
#include <fcppt/math/matrix/static.hpp>
#include <fcppt/math/matrix/std_hash.hpp>
#include <fcppt/math/sphere/comparison.hpp>
#include <fcppt/math/sphere/object.hpp>
#include <fcppt/math/vector/comparison.hpp>
#include <fcppt/math/vector/static.hpp>
#include <fcppt/math/vector/std_hash.hpp>
#include <fcppt/optional/comparison.hpp>
#include <fcppt/optional/object.hpp>
#include <fcppt/range/hash.hpp>
#include <fcppt/record/comparison.hpp>
#include <fcppt/record/element.hpp>
#include <fcppt/record/get.hpp>
#include <fcppt/record/make_label.hpp>
#include <fcppt/record/object.hpp>
#include <fcppt/record/set.hpp>
#include <fcppt/tuple/comparison.hpp>
#include <fcppt/tuple/get.hpp>
#include <fcppt/tuple/object.hpp>
#include <fcppt/variant/comparison.hpp>
#include <fcppt/variant/get_unsafe.hpp>
#include <fcppt/variant/holds_type.hpp>
#include <fcppt/variant/object.hpp>

#include <concepts>
#include <cstddef>
#include <functional>
#include <string>
#include <utility>
#include <vector>

namespace
{
using comp_t = std::vector<long long>;

struct no_hash
{
};

template <typename M>
std::string matrix_json(std::size_t const n, M const &cell)
{
  std::string s = "[";
  for (std::size_t a = 0; a < n; ++a)
  {
    s += a ? ",[" : "[";
    for (std::size_t b = 0; b < n; ++b)
    {
      if (b) s += ',';
      s += cell(a, b) ? '1' : '0';
    }
    s += ']';
  }
  return s + "]";
}

// values: (how it was produced, the value)
template <typename T>
using values = std::vector<std::pair<std::string, T>>;

template <typename T, typename Comp, typename Hash>
void emit_order(std::string const &type, values<T> const &vals, Comp const &comp, Hash const &hash)
{
  std::size_t const n = vals.size();
  std::vector<std::string> hows;
  for (auto const &v : vals) hows.push_back(v.first);
  vj::J pre;
  pre.kv("f", "order").kv("type", type).kv("n", static_cast<long long>(n)).raw("how", vj::str_arr(hows));
  vj::begin_call(pre.s);
  std::string r = ",\"comp\":[";
  for (std::size_t i = 0; i < n; ++i) r += (i ? "," : "") + vj::arr(comp(vals[i].second));
  r += "]";
  std::vector<std::string> has;
  auto const val = [&vals](std::size_t i) -> T const & { return vals[i].second; };
  std::string const empty = "[]";
  if constexpr (requires(T const &a) { { a == a } -> std::convertible_to<bool>; })
  {
    has.push_back("EQ");
    r += ",\"EQ\":" + matrix_json(n, [&](std::size_t a, std::size_t b) { return static_cast<bool>(val(a) == val(b)); });
  }
  else r += ",\"EQ\":" + empty;
  if constexpr (requires(T const &a) { { a != a } -> std::convertible_to<bool>; })
  {
    has.push_back("NE");
    r += ",\"NE\":" + matrix_json(n, [&](std::size_t a, std::size_t b) { return static_cast<bool>(val(a) != val(b)); });
  }
  else r += ",\"NE\":" + empty;
  if constexpr (requires(T const &a) { { a < a } -> std::convertible_to<bool>; })
  {
    has.push_back("LT");
    r += ",\"LT\":" + matrix_json(n, [&](std::size_t a, std::size_t b) { return static_cast<bool>(val(a) < val(b)); });
  }
  else r += ",\"LT\":" + empty;
  if constexpr (requires(T const &a) { { a <= a } -> std::convertible_to<bool>; })
  {
    has.push_back("LE");
    r += ",\"LE\":" + matrix_json(n, [&](std::size_t a, std::size_t b) { return static_cast<bool>(val(a) <= val(b)); });
  }
  else r += ",\"LE\":" + empty;
  if constexpr (requires(T const &a) { { a > a } -> std::convertible_to<bool>; })
  {
    has.push_back("GT");
    r += ",\"GT\":" + matrix_json(n, [&](std::size_t a, std::size_t b) { return static_cast<bool>(val(a) > val(b)); });
  }
  else r += ",\"GT\":" + empty;
  if constexpr (requires(T const &a) { { a >= a } -> std::convertible_to<bool>; })
  {
    has.push_back("GE");
    r += ",\"GE\":" + matrix_json(n, [&](std::size_t a, std::size_t b) { return static_cast<bool>(val(a) >= val(b)); });
  }
  else r += ",\"GE\":" + empty;
  if constexpr (!std::is_same_v<Hash, no_hash>)
  {
    has.push_back("HEQ");
    std::vector<std::size_t> h;
    for (std::size_t i = 0; i < n; ++i) h.push_back(hash(val(i)));
    r += ",\"HEQ\":" + matrix_json(n, [&](std::size_t a, std::size_t b) { return h[a] == h[b]; });
  }
  else r += ",\"HEQ\":" + empty;
  r += ",\"has\":" + vj::str_arr(has) + "}";
  vj::end_call(r);
}

int const dom[] = {0, 1, 2};

// ---------------------------------------------------------------- the types
void optional_int()
{
  using T = fcppt::optional::object<int>;
  values<T> v;
  v.emplace_back("default", T());
  for (int x : dom) v.emplace_back("ctor", T(x));
  {
    T o(1);
    o = T();
    v.emplace_back("reset", o);
  }
  {
    T o;
    o = T(2);
    v.emplace_back("assigned", o);
  }
  {
    T o(0);
    o = T(1);
    v.emplace_back("reassigned", o);
  }
  {
    T a(2);
    T b(std::move(a));
    T c;
    c = std::move(b);
    v.emplace_back("moved_into", c);
  }
  emit_order("optional<int>", v,
             [](T const &o) { return o.has_value() ? comp_t{1, o.get_unsafe()} : comp_t{0}; }, no_hash{});
}

void optional_optional()
{
  using I = fcppt::optional::object<int>;
  using T = fcppt::optional::object<I>;
  values<T> v;
  v.emplace_back("default", T());
  v.emplace_back("ctor", T(I()));
  for (int x : dom) v.emplace_back("ctor", T(I(x)));
  {
    T o(I(1));
    o = T(I());
    v.emplace_back("inner_reset", o);
  }
  {
    T o(I(1));
    o = T();
    v.emplace_back("reset", o);
  }
  emit_order("optional<optional<int>>", v,
             [](T const &o) {
               if (!o.has_value()) return comp_t{0};
               I const &i = o.get_unsafe();
               return i.has_value() ? comp_t{1, 1, i.get_unsafe()} : comp_t{1, 0};
             },
             no_hash{});
}

void either_int_long()
{
  using T = fcppt::either::object<int, long>;
  values<T> v;
  for (int x : dom) v.emplace_back("failure", T(x));
  for (int x : dom) v.emplace_back("success", T(static_cast<long>(x)));
  {
    T e(1);
    e = T(1L);
    v.emplace_back("failure_then_success", e);
  }
  {
    T e(2L);
    e = T(2);
    v.emplace_back("success_then_failure", e);
  }
  emit_order("either<int,long>", v,
             [](T const &e) {
               return e.has_success() ? comp_t{1, e.get_success_unsafe()} : comp_t{0, e.get_failure_unsafe()};
             },
             no_hash{});
}

void variant_int_long()
{
  using T = fcppt::variant::object<int, long>;
  values<T> v;
  for (int x : dom) v.emplace_back("int", T(x));
  for (int x : dom) v.emplace_back("long", T(static_cast<long>(x)));
  {
    T a(1);
    a = T(1L);
    v.emplace_back("int_then_long", a);
  }
  {
    T a(0L);
    a = T(0);
    v.emplace_back("long_then_int", a);
  }
  {
    T a(2L);
    T b(2);
    b = a;
    v.emplace_back("copy_assigned", b);
  }
  emit_order("variant<int,long>", v,
             [](T const &a) {
               return fcppt::variant::holds_type<int>(a)
                          ? comp_t{static_cast<long long>(a.type_index()), fcppt::variant::get_unsafe<int>(a)}
                          : comp_t{static_cast<long long>(a.type_index()), fcppt::variant::get_unsafe<long>(a)};
             },
             no_hash{});
}

void tuple_int_int()
{
  using T = fcppt::tuple::object<int, int>;
  values<T> v;
  for (int x : dom)
    for (int y : dom) v.emplace_back("ctor", T(x, y));
  {
    T t(0, 0);
    fcppt::tuple::get<0>(t) = 2;
    fcppt::tuple::get<1>(t) = 1;
    v.emplace_back("mutated", t);
  }
  emit_order("tuple<int,int>", v,
             [](T const &t) { return comp_t{fcppt::tuple::get<0>(t), fcppt::tuple::get<1>(t)}; }, no_hash{});
}

void array_int_2()
{
  using T = fcppt::array::object<int, 2>;
  values<T> v;
  for (int x : dom)
    for (int y : dom) v.emplace_back("ctor", T{x, y});
  {
    T t{0, 0};
    fcppt::array::get<0>(t) = 1;
    fcppt::array::get<1>(t) = 2;
    v.emplace_back("mutated", t);
  }
  emit_order("array<int,2>", v,
             [](T const &t) { return comp_t{fcppt::array::get<0>(t), fcppt::array::get<1>(t)}; },
             [](T const &t) { return fcppt::range::hash<T>{}(t); });
}

FCPPT_RECORD_MAKE_LABEL(label_a);
FCPPT_RECORD_MAKE_LABEL(label_b);

void record_int_int()
{
  using T = fcppt::record::object<fcppt::record::element<label_a, int>, fcppt::record::element<label_b, int>>;
  values<T> v;
  for (int x : dom)
    for (int y : dom) v.emplace_back("ctor", T(label_a{} = x, label_b{} = y));
  {
    T t(label_a{} = 0, label_b{} = 0);
    fcppt::record::set<label_a>(t, 2);
    fcppt::record::set<label_b>(t, 2);
    v.emplace_back("set", t);
  }
  {
    // the same labels given in the other order
    v.emplace_back("ctor_permuted", T(label_b{} = 1, label_a{} = 0));
  }
  emit_order("record<a:int,b:int>", v,
             [](T const &t) { return comp_t{fcppt::record::get<label_a>(t), fcppt::record::get<label_b>(t)}; },
             no_hash{});
}

FCPPT_MAKE_STRONG_TYPEDEF(int, st_int);
FCPPT_MAKE_STRONG_TYPEDEF(unsigned, st_uint);

void strong_typedef_int()
{
  using T = st_int;
  values<T> v;
  for (int x : {-1, 0, 1, 2}) v.emplace_back("ctor", T(x));
  v.emplace_back("sum", T(1) + T(1));
  v.emplace_back("difference", T(1) - T(2));
  v.emplace_back("negated", -T(-1));
  {
    T t(0);
    ++t;
    v.emplace_back("incremented", t);
  }
  emit_order("strong_typedef<int>", v, [](T const &t) { return comp_t{t.get()}; },
             [](T const &t) { return fcppt::strong_typedef_hash<T>{}(t); });
  emit_order("strong_typedef<int>/std::hash", v, [](T const &t) { return comp_t{t.get()}; },
             [](T const &t) { return std::hash<T>{}(t); });
  using U = st_uint;
  values<U> u;
  for (unsigned x : {0U, 1U, 2U, 4294967295U}) u.emplace_back("ctor", U(x));
  u.emplace_back("wrapped_sum", U(4294967295U) + U(1U));
  u.emplace_back("wrapped_difference", U(0U) - U(1U));
  emit_order("strong_typedef<unsigned>", u,
             [](U const &t) { return comp_t{static_cast<long long>(t.get() >> 16U), static_cast<long long>(t.get() & 0xFFFFU)}; },
             [](U const &t) { return fcppt::strong_typedef_hash<U>{}(t); });
}

void math_types()
{
  {
    using T = fcppt::math::vector::static_<int, 2>;
    values<T> v;
    for (int x : dom)
      for (int y : dom) v.emplace_back("ctor", T(x, y));
    {
      T t(0, 0);
      t.x() = 1;
      t.y() = 1;
      v.emplace_back("mutated", t);
    }
    emit_order("vector<int,2>", v, [](T const &t) { return comp_t{t.x(), t.y()}; },
               [](T const &t) { return std::hash<T>{}(t); });
  }
  {
    using T = fcppt::math::vector::static_<int, 3>;
    values<T> v;
    for (int x : dom)
      for (int y : dom)
        for (int z : dom) v.emplace_back("ctor", T(x, y, z));
    emit_order("vector<int,3>", v, [](T const &t) { return comp_t{t.x(), t.y(), t.z()}; },
               [](T const &t) { return std::hash<T>{}(t); });
  }
  {
    using T = fcppt::math::dim::static_<int, 2>;
    values<T> v;
    for (int x : dom)
      for (int y : dom) v.emplace_back("ctor", T(x, y));
    emit_order("dim<int,2>", v, [](T const &t) { return comp_t{t.w(), t.h()}; },
               [](T const &t) { return std::hash<T>{}(t); });
  }
  {
    using T = fcppt::math::matrix::static_<int, 2, 2>;
    values<T> v;
    for (int a : dom)
      for (int b : dom)
        for (int c : dom)
          for (int d : dom) v.emplace_back("ctor", T(fcppt::math::matrix::row(a, b), fcppt::math::matrix::row(c, d)));
    emit_order("matrix<int,2,2>", v,
               [](T const &t) {
                 using fcppt::math::matrix::at_r_c;
                 return comp_t{at_r_c<0, 0>(t), at_r_c<0, 1>(t), at_r_c<1, 0>(t), at_r_c<1, 1>(t)};
               },
               [](T const &t) { return std::hash<T>{}(t); });
  }
  {
    using T = fcppt::math::box::object<int, 2>;
    values<T> v;
    for (int a : dom)
      for (int b : dom)
        for (int c : dom)
          for (int d : dom) v.emplace_back("ctor", T(typename T::vector(a, b), typename T::dim(c, d)));
    emit_order("box<int,2>", v,
               [](T const &t) { return comp_t{t.pos().x(), t.pos().y(), t.size().w(), t.size().h()}; }, no_hash{});
  }
  {
    using T = fcppt::math::box::object<int, 1>;
    values<T> v;
    for (int a : dom)
      for (int c : dom) v.emplace_back("ctor", T(typename T::vector(a), typename T::dim(c)));
    emit_order("box<int,1>", v, [](T const &t) { return comp_t{t.pos().x(), t.size().w()}; }, no_hash{});
  }
  {
    using T = fcppt::math::sphere::object<int, 2>;
    values<T> v;
    for (int a : dom)
      for (int b : dom)
        for (int c : dom) v.emplace_back("ctor", T(typename T::point_type(a, b), c));
    emit_order("sphere<int,2>", v,
               [](T const &t) { return comp_t{t.origin().x(), t.origin().y(), t.radius()}; }, no_hash{});
  }
}

enum class e3 { v0, v1, v2, fcppt_maximum = v2 };

void bitfield_e3()
{
  using T = fcppt::container::bitfield::object<e3, std::uint8_t>;
  values<T> v;
  auto const build = [](unsigned m) {
    T r(T::null());
    for (unsigned i = 0; i < 3; ++i)
      if ((m >> i) & 1U) r.set(static_cast<e3>(i), true);
    return r;
  };
  for (unsigned m = 0; m < 8; ++m) v.emplace_back("set", build(m));
  for (unsigned m = 0; m < 8; ++m) v.emplace_back("complement_of_complement_set", ~build(~m & 7U));
  for (unsigned m = 0; m < 8; ++m)
    v.emplace_back("init", fcppt::container::bitfield::init<T>([m](e3 e) { return ((m >> static_cast<unsigned>(e)) & 1U) != 0U; }));
  for (unsigned m : {0U, 5U, 7U}) v.emplace_back("xor_with_all", build(~m & 7U) ^ ~T::null());
  auto const comp = [](T const &t) { return comp_t{t.get(e3::v0), t.get(e3::v1), t.get(e3::v2)}; };
  emit_order("bitfield<e3,u8>", v, comp, [](T const &t) { return fcppt::container::bitfield::hash<T>{}(t); });
  emit_order("bitfield<e3,u8>/std::hash", v, comp, [](T const &t) { return std::hash<T>{}(t); });
}

void enum_array_e3()
{
  using T = fcppt::enum_::array<e3, int>;
  values<T> v;
  for (int a : dom)
    for (int b : dom)
      for (int c : dom) v.emplace_back("ctor", T{a, b, c});
  {
    T t{0, 0, 0};
    t[e3::v2] = 2;
    v.emplace_back("mutated", t);
  }
  emit_order("enum_array<e3,int>", v, [](T const &t) { return comp_t{t[e3::v0], t[e3::v1], t[e3::v2]}; }, no_hash{});
}

void grid_int_2()
{
  using T = fcppt::container::grid::object<int, 2>;
  values<T> v;
  using dim = typename T::dim;
  v.emplace_back("default", T());
  v.emplace_back("ctor", T(dim(0U, 0U), 0));
  v.emplace_back("ctor", T(dim(1U, 0U), 0));
  v.emplace_back("ctor", T(dim(0U, 1U), 0));
  for (int a : dom) v.emplace_back("fill", T(dim(1U, 1U), a));
  for (int a : dom)
    for (int b : dom)
    {
      T g(dim(2U, 1U), a);
      *(g.begin() + 1) = b;
      v.emplace_back("fill_then_write", g);
      T h(dim(1U, 2U), a);
      *(h.begin() + 1) = b;
      v.emplace_back("fill_then_write", h);
    }
  {
    T g(dim(2U, 1U), 1);
    T h(dim(1U, 1U), 0);
    h = g;
    v.emplace_back("copy_assigned", h);
  }
  emit_order("grid<int,2>", v,
             [](T const &g) {
               comp_t c{static_cast<long long>(g.size().w()), static_cast<long long>(g.size().h())};
               for (int x : g) c.push_back(x);
               return c;
             },
             no_hash{});
}

void tree_int()
{
  using T = fcppt::container::tree::object<int>;
  values<T> v;
  for (int a : dom) v.emplace_back("leaf", T(a));
  for (int a : dom)
    for (int b : dom)
    {
      T t(a);
      t.push_back(b);
      v.emplace_back("one_child", std::move(t));
    }
  for (int a : {0, 1})
    for (int b : {0, 1})
      for (int c : {0, 1})
      {
        T t(a);
        t.push_back(b);
        t.push_back(c);
        v.emplace_back("two_children", std::move(t));
        T u(a);
        T inner(b);
        inner.push_back(c);
        u.push_back(std::move(inner));
        v.emplace_back("chain", std::move(u));
      }
  {
    T t(1);
    t.push_back(2);
    auto dropped = t.pop_back();
    (void)dropped;
    v.emplace_back("child_removed", std::move(t));
  }
  {
    T t(0);
    t.push_front(1);
    t.push_front(0);
    v.emplace_back("pushed_front", std::move(t));
  }
  struct enc
  {
    static void go(T const &t, comp_t &c)
    {
      c.push_back(t.value());
      c.push_back(static_cast<long long>(t.children().size()));
      for (T const &k : t.children()) go(k, c);
    }
  };
  emit_order("tree<int>", v,
             [](T const &t) {
               comp_t c;
               enc::go(t, c);
               return c;
             },
             no_hash{});
}

void raw_vector_int()
{
  using T = fcppt::container::raw_vector::object<int>;
  values<T> v;
  v.emplace_back("default", T());
  for (int a : dom) v.emplace_back("ilist", T{a});
  for (int a : dom)
    for (int b : dom) v.emplace_back("ilist", T{a, b});
  for (int a : dom)
    for (int b : dom)
      for (int c : dom) v.emplace_back("ilist", T{a, b, c});
  {
    T t{1, 2};
    t.reserve(16);
    v.emplace_back("reserved", std::move(t));
  }
  {
    T t{1, 2, 0};
    t.pop_back();
    v.emplace_back("popped", std::move(t));
  }
  {
    T t;
    t.push_back(1);
    t.push_back(2);
    v.emplace_back("pushed", std::move(t));
  }
  {
    T t{0, 1, 2};
    t.clear();
    v.emplace_back("cleared", std::move(t));
  }
  {
    T t{2, 2};
    t.erase(t.begin());
    v.emplace_back("erased", std::move(t));
  }
  {
    T t(2U, 1);
    v.emplace_back("filled", std::move(t));
  }
  emit_order("raw_vector<int>", v, [](T const &t) { return comp_t(t.begin(), t.end()); },
             [](T const &t) { return fcppt::range::hash<T>{}(t); });
}

void references()
{
  // three objects, two of them holding the same value: the observable component of a reference is
  // WHICH object it refers to (reference_comparison.hpp: "equal if they refer to the same object")
  static int pool[3] = {0, 0, 1};
  auto const which = [](int const *p) { return static_cast<long long>(p - pool); };
  {
    using T = fcppt::reference<int>;
    values<T> v;
    for (int &o : pool) v.emplace_back("make_ref", fcppt::make_ref(o));
    v.emplace_back("second_ref_to_first", T(pool[0]));
    {
      T r(pool[2]);
      r = T(pool[1]);
      v.emplace_back("reseated", r);
    }
    emit_order("reference<int>", v, [&](T const &r) { return comp_t{which(&r.get())}; },
               [](T const &r) { return fcppt::reference_hash<T>{}(r); });
    emit_order("reference<int>/std::hash", v, [&](T const &r) { return comp_t{which(&r.get())}; },
               [](T const &r) { return std::hash<T>{}(r); });
  }
  {
    using T = fcppt::shared_ptr<int>;
    values<T> v;
    std::vector<int const *> seen;
    T const p0(fcppt::make_shared_ptr<int>(0));
    T const p1(fcppt::make_shared_ptr<int>(0));
    T const p2(fcppt::make_shared_ptr<int>(1));
    v.emplace_back("make_shared_ptr", p0);
    v.emplace_back("make_shared_ptr", p1);
    v.emplace_back("make_shared_ptr", p2);
    v.emplace_back("copy_of_first", T(p0));
    {
      T q(p2);
      q = p1;
      v.emplace_back("assigned_second", q);
    }
    auto const idx = [&](T const &p) {
      int const *const a = p.get_pointer();
      if (a == p0.get_pointer()) return comp_t{0};
      if (a == p1.get_pointer()) return comp_t{1};
      if (a == p2.get_pointer()) return comp_t{2};
      return comp_t{-1};
    };
    emit_order("shared_ptr<int>", v, idx, [](T const &p) { return fcppt::shared_ptr_hash<T>{}(p); });
    emit_order("shared_ptr<int>/std::hash", v, idx, [](T const &p) { return std::hash<T>{}(p); });
  }
  {
    using T = fcppt::recursive<int>;
    values<T> v;
    for (int a : dom) v.emplace_back("ctor", T(a));
    v.emplace_back("make_recursive", fcppt::make_recursive(1));
    {
      T r(0);
      r = fcppt::make_recursive(2);
      v.emplace_back("assigned", r);
    }
    {
      T r(0);
      r.get() = 1;
      v.emplace_back("written_through_get", r);
    }
    emit_order("recursive<int>", v, [](T const &r) { return comp_t{r.get()}; }, no_hash{});
  }
}
}

void c17_order_records()
{
  optional_int();
  optional_optional();
  either_int_long();
  variant_int_long();
  tuple_int_int();
  array_int_2();
  record_int_int();
  strong_typedef_int();
  math_types();
  bitfield_e3();
  enum_array_e3();
  grid_int_2();
  tree_int();
  raw_vector_int();
  references();
}
