// C17 conformance harness: ==, !=, <, <=, >, >= and hash of the fcppt value types.
//
// This file is compiled once per SECTION (-DC17_SECTION_<family>), every section being one harness
// unit with its own includes (see c17_common.hpp / c17_main.cpp): a family whose headers no longer
// compile against a changed tree does not take the others down.
//
// For every listed type a section enumerates values with components in {0,1,2} - several of them
// EQUAL BUT BUILT DIFFERENTLY (after reset / assignment from another alternative / through operators
// / with another capacity / through another owner) and several DIFFERENT BUT SHARING COMPONENTS (same
// cells in another shape, same payload in another alternative, same owner with another stored
// pointer, distinct objects holding equal values) - and logs for each value its observable components
// (what the type's own accessors return) and the complete n x n result matrices of every comparison
// operator the type offers (detected with requires-expressions) and of its hash function objects.
// It contains no expected values: spec/OrderJudge.tla (TLC) evaluates the axioms of spec/Order.tla
// on the matrices.
#include "c17_common.hpp"

using c17::comp_t;
using c17::dom;
using c17::dom2;
using c17::no_hash;

// ================================================================ optional
#ifdef C17_SECTION_optional
#include <fcppt/optional/comparison.hpp>
#include <fcppt/optional/object.hpp>
namespace
{
void optional_int()
{
  using T = fcppt::optional::object<int>;
  c17::order<T> v("optional", "optional<int>");
  v.add("default", T());
  for (int x : dom) v.add("ctor", T(x));
  {
    T o(1);
    o = T();
    v.add("reset", o);
  }
  {
    T o;
    o = T(2);
    v.add("assigned", o);
  }
  {
    T o(0);
    o = T(1);
    v.add("reassigned", o);
  }
  {
    T a(2);
    T b(std::move(a));
    T c;
    c = std::move(b);
    v.add("moved_into", c);
  }
  {
    T a(0);
    T const b(a);
    a = T();
    v.add("copied_before_reset", b);
    v.add("reset_after_copy", a);
  }
  v.emit([](T const &o) { return o.has_value() ? comp_t{1, o.get_unsafe()} : comp_t{0}; }, no_hash{});
}

void optional_optional()
{
  using I = fcppt::optional::object<int>;
  using T = fcppt::optional::object<I>;
  c17::order<T> v("optional", "optional<optional<int>>");
  v.add("default", T());
  v.add("ctor", T(I()));
  for (int x : dom) v.add("ctor", T(I(x)));
  {
    T o(I(1));
    o = T(I());
    v.add("inner_reset", o);
  }
  {
    T o(I(1));
    o = T();
    v.add("reset", o);
  }
  {
    T o(I(2));
    o.get_unsafe() = I(0);
    v.add("inner_assigned_through_get", o);
  }
  v.emit(
      [](T const &o) {
        if (!o.has_value()) return comp_t{0};
        I const &i = o.get_unsafe();
        return i.has_value() ? comp_t{1, 1, i.get_unsafe()} : comp_t{1, 0};
      },
      no_hash{});
}
}
C17_PART(optional)
{
  if (c17::take()) optional_int();
  if (c17::take()) optional_optional();
}
#endif

// ================================================================ either
#ifdef C17_SECTION_either
#include <fcppt/either/comparison.hpp>
#include <fcppt/either/object.hpp>
namespace
{
void either_int_long()
{
  using T = fcppt::either::object<int, long>;
  c17::order<T> v("either", "either<int,long>");
  // (failure x and success x carry an equal payload in different alternatives)
  for (int x : dom) v.add("failure", T(x));
  for (int x : dom) v.add("success", T(static_cast<long>(x)));
  {
    T e(1);
    e = T(1L);
    v.add("failure_then_success", e);
  }
  {
    T e(2L);
    e = T(2);
    v.add("success_then_failure", e);
  }
  {
    T a(0L);
    T b(std::move(a));
    v.add("moved_into", b);
  }
  {
    T a(0);
    T b(1L);
    b = a;
    v.add("copy_assigned_failure", b);
  }
  v.emit(
      [](T const &e) { return e.has_success() ? comp_t{1, e.get_success_unsafe()} : comp_t{0, e.get_failure_unsafe()}; },
      no_hash{});
}
}
C17_PART(either)
{
  if (c17::take()) either_int_long();
}
#endif

// ================================================================ variant
#ifdef C17_SECTION_variant
#include <fcppt/variant/comparison.hpp>
#include <fcppt/variant/get_unsafe.hpp>
#include <fcppt/variant/holds_type.hpp>
#include <fcppt/variant/object.hpp>
namespace
{
void variant_int_long()
{
  using T = fcppt::variant::object<int, long>;
  c17::order<T> v("variant", "variant<int,long>");
  for (int x : dom) v.add("int", T(x));
  for (int x : dom) v.add("long", T(static_cast<long>(x)));
  {
    T a(1);
    a = T(1L);
    v.add("int_then_long", a);
  }
  {
    T a(0L);
    a = T(0);
    v.add("long_then_int", a);
  }
  {
    T a(2L);
    T b(2);
    b = a;
    v.add("copy_assigned", b);
  }
  v.emit(
      [](T const &a) {
        return fcppt::variant::holds_type<int>(a)
                   ? comp_t{c17::cl(a.type_index()), fcppt::variant::get_unsafe<int>(a)}
                   : comp_t{c17::cl(a.type_index()), fcppt::variant::get_unsafe<long>(a)};
      },
      no_hash{});
}

void variant_three()
{
  // three alternatives: equal payloads in every alternative, the last index included
  using T = fcppt::variant::object<int, long, unsigned>;
  c17::order<T> v("variant", "variant<int,long,unsigned>");
  for (int x : dom) v.add("int", T(x));
  for (int x : dom) v.add("long", T(static_cast<long>(x)));
  for (int x : dom) v.add("unsigned", T(static_cast<unsigned>(x)));
  {
    T a(2);
    a = T(1U);
    v.add("int_then_unsigned", a);
  }
  {
    T a(0U);
    a = T(0L);
    v.add("unsigned_then_long", a);
  }
  {
    T a(2U);
    T b(std::move(a));
    v.add("moved_into", b);
  }
  v.emit(
      [](T const &a) {
        long long const i = c17::cl(a.type_index());
        if (fcppt::variant::holds_type<int>(a)) return comp_t{i, fcppt::variant::get_unsafe<int>(a)};
        if (fcppt::variant::holds_type<long>(a)) return comp_t{i, fcppt::variant::get_unsafe<long>(a)};
        return comp_t{i, c17::cl(fcppt::variant::get_unsafe<unsigned>(a))};
      },
      no_hash{});
}
}
C17_PART(variant)
{
  if (c17::take()) variant_int_long();
  if (c17::take()) variant_three();
}
#endif

// ================================================================ tuple
#ifdef C17_SECTION_tuple
#include <fcppt/tuple/comparison.hpp>
#include <fcppt/tuple/get.hpp>
#include <fcppt/tuple/object.hpp>
namespace
{
void tuple_int_int()
{
  using T = fcppt::tuple::object<int, int>;
  c17::order<T> v("tuple", "tuple<int,int>");
  for (int x : dom)
    for (int y : dom) v.add("ctor", T(x, y));
  {
    T t(0, 0);
    fcppt::tuple::get<0>(t) = 2;
    fcppt::tuple::get<1>(t) = 1;
    v.add("mutated", t);
  }
  v.emit([](T const &t) { return comp_t{fcppt::tuple::get<0>(t), fcppt::tuple::get<1>(t)}; }, no_hash{});
}
void tuple_three()
{
  using T = fcppt::tuple::object<int, long, int>;
  c17::order<T> v("tuple", "tuple<int,long,int>");
  for (int x : dom)
    for (int y : dom)
      for (int z : dom) v.add("ctor", T(x, static_cast<long>(y), z));
  {
    T t(0, 0L, 0);
    fcppt::tuple::get<2>(t) = 2;
    v.add("last_mutated", t);
  }
  {
    T t(1, 1L, 1);
    T u(0, 0L, 0);
    u = t;
    v.add("copy_assigned", u);
  }
  v.emit([](T const &t) { return comp_t{fcppt::tuple::get<0>(t), fcppt::tuple::get<1>(t), fcppt::tuple::get<2>(t)}; }, no_hash{});
}
void tuple_one()
{
  using T = fcppt::tuple::object<int>;
  c17::order<T> v("tuple", "tuple<int>");
  for (int x : dom) v.add("ctor", T(x));
  {
    T t(0);
    fcppt::tuple::get<0>(t) = 1;
    v.add("mutated", t);
  }
  v.emit([](T const &t) { return comp_t{fcppt::tuple::get<0>(t)}; }, no_hash{});
}
}
C17_PART(tuple)
{
  if (c17::take()) tuple_int_int();
  if (c17::take()) tuple_three();
  if (c17::take()) tuple_one();
}
#endif

// ================================================================ array
#ifdef C17_SECTION_array
#include <fcppt/array/comparison.hpp>
#include <fcppt/array/get.hpp>
#include <fcppt/array/object.hpp>
#include <fcppt/range/hash.hpp>
namespace
{
void array_int_2()
{
  using T = fcppt::array::object<int, 2>;
  c17::order<T> v("array", "array<int,2>");
  for (int x : dom)
    for (int y : dom) v.add("ctor", T{x, y});
  {
    T t{0, 0};
    fcppt::array::get<0>(t) = 1;
    fcppt::array::get<1>(t) = 2;
    v.add("mutated", t);
  }
  v.emit([](T const &t) { return comp_t{fcppt::array::get<0>(t), fcppt::array::get<1>(t)}; },
         [](T const &t) { return fcppt::range::hash<T>{}(t); });
}
void array_int_3()
{
  using T = fcppt::array::object<int, 3>;
  c17::order<T> v("array", "array<int,3>");
  for (int x : dom)
    for (int y : dom)
      for (int z : dom) v.add("ctor", T{x, y, z});
  {
    T t{0, 0, 0};
    fcppt::array::get<2>(t) = 2;
    v.add("last_mutated", t);
  }
  {
    T t{2, 1, 0};
    T u{0, 0, 0};
    u = t;
    v.add("copy_assigned", u);
  }
  v.emit([](T const &t) { return comp_t{fcppt::array::get<0>(t), fcppt::array::get<1>(t), fcppt::array::get<2>(t)}; },
         [](T const &t) { return fcppt::range::hash<T>{}(t); });
}
void array_int_1()
{
  using T = fcppt::array::object<int, 1>;
  c17::order<T> v("array", "array<int,1>");
  for (int x : dom) v.add("ctor", T{x});
  {
    T t{0};
    fcppt::array::get<0>(t) = 2;
    v.add("mutated", t);
  }
  v.emit([](T const &t) { return comp_t{fcppt::array::get<0>(t)}; }, [](T const &t) { return fcppt::range::hash<T>{}(t); });
}
}
C17_PART(array)
{
  if (c17::take()) array_int_2();
  if (c17::take()) array_int_3();
  if (c17::take()) array_int_1();
}
#endif

// ================================================================ record
#ifdef C17_SECTION_record
#include <fcppt/record/comparison.hpp>
#include <fcppt/record/element.hpp>
#include <fcppt/record/get.hpp>
#include <fcppt/record/make_label.hpp>
#include <fcppt/record/object.hpp>
#include <fcppt/record/set.hpp>
namespace
{
FCPPT_RECORD_MAKE_LABEL(label_a);
FCPPT_RECORD_MAKE_LABEL(label_b);
FCPPT_RECORD_MAKE_LABEL(label_c);

void record_int_int()
{
  using T = fcppt::record::object<fcppt::record::element<label_a, int>, fcppt::record::element<label_b, int>>;
  c17::order<T> v("record", "record<a:int,b:int>");
  for (int x : dom)
    for (int y : dom) v.add("ctor", T(label_a{} = x, label_b{} = y));
  {
    T t(label_a{} = 0, label_b{} = 0);
    fcppt::record::set<label_a>(t, 2);
    fcppt::record::set<label_b>(t, 2);
    v.add("set", t);
  }
  {
    // the same labels given in the other order
    v.add("ctor_permuted", T(label_b{} = 1, label_a{} = 0));
  }
  v.emit([](T const &t) { return comp_t{fcppt::record::get<label_a>(t), fcppt::record::get<label_b>(t)}; }, no_hash{});
}

// record/comparison.hpp compares any two EQUIVALENT record types ("Both records must be equivalent"):
// the same labels listed in another order.  Values of both types in one value set.
void record_permuted()
{
  using A = fcppt::record::object<fcppt::record::element<label_a, int>, fcppt::record::element<label_b, int>>;
  using B = fcppt::record::object<fcppt::record::element<label_b, int>, fcppt::record::element<label_a, int>>;
  using T = c17::het<A, B>;
  c17::order<T> v("record", "record<a:int,b:int>|record<b:int,a:int>");
  for (int x : dom)
    for (int y : dom)
    {
      v.add("a_b", T{A(label_a{} = x, label_b{} = y)});
      v.add("b_a", T{B(label_b{} = y, label_a{} = x)});
    }
  {
    B t(label_a{} = 0, label_b{} = 0);
    fcppt::record::set<label_b>(t, 1);
    v.add("b_a_set", T{t});
  }
  v.emit(
      [](T const &t) {
        return std::visit([](auto const &r) { return comp_t{fcppt::record::get<label_a>(r), fcppt::record::get<label_b>(r)}; }, t.v);
      },
      no_hash{});
}

void record_three()
{
  using A = fcppt::record::object<fcppt::record::element<label_a, int>, fcppt::record::element<label_b, long>,
                                  fcppt::record::element<label_c, int>>;
  using B = fcppt::record::object<fcppt::record::element<label_c, int>, fcppt::record::element<label_a, int>,
                                  fcppt::record::element<label_b, long>>;
  using T = c17::het<A, B>;
  c17::order<T> v("record", "record<a:int,b:long,c:int>|record<c,a,b>");
  for (int x : dom2)
    for (int y : dom2)
      for (int z : dom2)
      {
        v.add("a_b_c", T{A(label_a{} = x, label_b{} = static_cast<long>(y), label_c{} = z)});
        v.add("c_a_b", T{B(label_c{} = z, label_a{} = x, label_b{} = static_cast<long>(y))});
      }
  v.emit(
      [](T const &t) {
        return std::visit(
            [](auto const &r) {
              return comp_t{fcppt::record::get<label_a>(r), fcppt::record::get<label_b>(r), fcppt::record::get<label_c>(r)};
            },
            t.v);
      },
      no_hash{});
}
}
C17_PART(record)
{
  if (c17::take()) record_int_int();
  if (c17::take()) record_permuted();
  if (c17::take()) record_three();
}
#endif

// ================================================================ strong_typedef (as a value type)
#ifdef C17_SECTION_strong
#include <fcppt/make_strong_typedef.hpp>
#include <fcppt/strong_typedef.hpp>
#include <fcppt/strong_typedef_arithmetic.hpp>
#include <fcppt/strong_typedef_comparison.hpp>
#include <fcppt/strong_typedef_hash.hpp>
#include <fcppt/strong_typedef_std_hash.hpp>
#include <functional>
namespace
{
FCPPT_MAKE_STRONG_TYPEDEF(int, st_int);
FCPPT_MAKE_STRONG_TYPEDEF(unsigned, st_uint);

void fill_int(c17::order<st_int> &v)
{
  using T = st_int;
  for (int x : {-1, 0, 1, 2}) v.add("ctor", T(x));
  v.add("sum", T(1) + T(1));
  v.add("difference", T(1) - T(2));
  v.add("negated", -T(-1));
  {
    T t(0);
    ++t;
    v.add("incremented", t);
  }
  {
    T t(5);
    t = T(0);
    v.add("assigned", t);
  }
}
void strong_typedef_int()
{
  using T = st_int;
  c17::order<T> v("strong_typedef", "strong_typedef<int>");
  fill_int(v);
  v.emit([](T const &t) { return comp_t{t.get()}; }, [](T const &t) { return fcppt::strong_typedef_hash<T>{}(t); });
}
void strong_typedef_int_std()
{
  using T = st_int;
  c17::order<T> v("strong_typedef", "strong_typedef<int>/std::hash");
  fill_int(v);
  v.emit([](T const &t) { return comp_t{t.get()}; }, [](T const &t) { return std::hash<T>{}(t); });
}
void strong_typedef_unsigned()
{
  using U = st_uint;
  c17::order<U> u("strong_typedef", "strong_typedef<unsigned>");
  for (unsigned x : {0U, 1U, 2U, 4294967295U, 2147483648U, 2147483647U}) u.add("ctor", U(x));
  u.add("wrapped_sum", U(4294967295U) + U(1U));
  u.add("wrapped_difference", U(0U) - U(1U));
  u.add("wrapped_product", U(65536U) * U(32768U));
  u.emit([](U const &t) { return comp_t{static_cast<long long>(t.get() >> 16U), static_cast<long long>(t.get() & 0xFFFFU)}; },
         [](U const &t) { return fcppt::strong_typedef_hash<U>{}(t); });
}
}
C17_PART(strong)
{
  if (c17::take()) strong_typedef_int();
  if (c17::take()) strong_typedef_int_std();
  if (c17::take()) strong_typedef_unsigned();
}
#endif

// ================================================================ math vector / dim
#ifdef C17_SECTION_vector
#include <fcppt/math/dim/comparison.hpp>
#include <fcppt/math/dim/static.hpp>
#include <fcppt/math/dim/std_hash.hpp>
#include <fcppt/math/matrix/row.hpp>
#include <fcppt/math/matrix/static.hpp>
#include <fcppt/math/vector/comparison.hpp>
#include <fcppt/math/vector/static.hpp>
#include <fcppt/math/vector/std_hash.hpp>
#include <functional>
#include <memory>
namespace
{
template <typename T, std::size_t N>
comp_t coords(T const &t)
{
  comp_t c;
  for (std::size_t i = 0; i < N; ++i) c.push_back(t.get_unsafe(i));
  return c;
}
void vector_2()
{
  using T = fcppt::math::vector::static_<int, 2>;
  c17::order<T> v("vector", "vector<int,2>");
  for (int x : dom)
    for (int y : dom) v.add("ctor", T(x, y));
  {
    T t(0, 0);
    t.x() = 1;
    t.y() = 1;
    v.add("mutated", t);
  }
  v.emit([](T const &t) { return comp_t{t.x(), t.y()}; }, [](T const &t) { return std::hash<T>{}(t); });
}
void vector_3()
{
  using T = fcppt::math::vector::static_<int, 3>;
  c17::order<T> v("vector", "vector<int,3>");
  for (int x : dom)
    for (int y : dom)
      for (int z : dom) v.add("ctor", T(x, y, z));
  v.emit([](T const &t) { return comp_t{t.x(), t.y(), t.z()}; }, [](T const &t) { return std::hash<T>{}(t); });
}
void vector_4()
{
  using T = fcppt::math::vector::static_<int, 4>;
  c17::order<T> v("vector", "vector<int,4>");
  for (int x : dom2)
    for (int y : dom2)
      for (int z : dom2)
        for (int w : dom2) v.add("ctor", T(x, y, z, w));
  for (int w : dom) v.add("ctor", T(2, 0, 1, w));
  {
    T t(0, 0, 0, 0);
    t.w() = 2;
    v.add("last_mutated", t);
  }
  {
    T t(1, 1, 1, 0);
    T u(0, 0, 0, 0);
    u = t;
    v.add("copy_assigned", u);
  }
  v.emit([](T const &t) { return coords<T, 4>(t); }, [](T const &t) { return std::hash<T>{}(t); });
}
void vector_1()
{
  using T = fcppt::math::vector::static_<int, 1>;
  c17::order<T> v("vector", "vector<int,1>");
  for (int x : dom) v.add("ctor", T(x));
  {
    T t(0);
    t.x() = 2;
    v.add("mutated", t);
  }
  v.emit([](T const &t) { return coords<T, 1>(t); }, [](T const &t) { return std::hash<T>{}(t); });
}
void dim_2()
{
  using T = fcppt::math::dim::static_<int, 2>;
  c17::order<T> v("dim", "dim<int,2>");
  for (int x : dom)
    for (int y : dom) v.add("ctor", T(x, y));
  v.emit([](T const &t) { return comp_t{t.w(), t.h()}; }, [](T const &t) { return std::hash<T>{}(t); });
}
void dim_3()
{
  using T = fcppt::math::dim::static_<int, 3>;
  c17::order<T> v("dim", "dim<int,3>");
  for (int x : dom)
    for (int y : dom)
      for (int z : dom) v.add("ctor", T(x, y, z));
  {
    T t(1, 1, 1);
    t.d() = 0;
    v.add("last_mutated", t);
  }
  v.emit([](T const &t) { return comp_t{t.w(), t.h(), t.d()}; }, [](T const &t) { return std::hash<T>{}(t); });
}
// vector/comparison.hpp: "template <typename T, size_type N, typename S1, typename S2>": vectors with
// different storage are compared as well - a static vector and a row of a matrix (row_view storage)
void vector_storage()
{
  using M = fcppt::math::matrix::static_<int, 2, 2>;
  using A = fcppt::math::vector::static_<int, 2>;
  using B = typename M::const_reference;
  using T = c17::het<A, B, false>; // (operator< between different storages does not instantiate: not offered)
  c17::order<T> v("vector-storages", "vector<int,2>|matrix-row");
  static std::vector<std::unique_ptr<M const>> keep; // the rows refer into these matrices
  for (int x : dom)
    for (int y : dom)
    {
      v.add("static", T{A(x, y)});
      keep.push_back(std::make_unique<M const>(fcppt::math::matrix::row(x, y), fcppt::math::matrix::row(y, x)));
      v.add("first_row", T{keep.back()->get_unsafe(0)});
    }
  for (int x : dom) v.add("second_row", T{keep[static_cast<std::size_t>(x)]->get_unsafe(1)}); // rows (x,0) of the matrices [(0,x),(x,0)]
  v.emit([](T const &t) { return std::visit([](auto const &r) { return comp_t{r.get_unsafe(0), r.get_unsafe(1)}; }, t.v); },
         [](T const &t) { return std::visit([](auto const &r) { return std::hash<std::remove_cvref_t<decltype(r)>>{}(r); }, t.v); });
}
}
C17_PART(vector)
{
  if (c17::take()) vector_2();
  if (c17::take()) vector_3();
  if (c17::take()) vector_4();
  if (c17::take()) vector_1();
  if (c17::take()) dim_2();
  if (c17::take()) dim_3();
  if (c17::take()) vector_storage();
}
#endif

// ================================================================ math matrix
#ifdef C17_SECTION_matrix
#include <fcppt/math/matrix/at_r_c.hpp>
#include <fcppt/math/matrix/comparison.hpp>
#include <fcppt/math/matrix/row.hpp>
#include <fcppt/math/matrix/static.hpp>
#include <fcppt/math/matrix/std_hash.hpp>
#include <functional>
namespace
{
void matrix_2_2()
{
  using T = fcppt::math::matrix::static_<int, 2, 2>;
  c17::order<T> v("matrix", "matrix<int,2,2>");
  for (int a : dom)
    for (int b : dom)
      for (int c : dom)
        for (int d : dom) v.add("ctor", T(fcppt::math::matrix::row(a, b), fcppt::math::matrix::row(c, d)));
  v.emit(
      [](T const &t) {
        using fcppt::math::matrix::at_r_c;
        return comp_t{at_r_c<0, 0>(t), at_r_c<0, 1>(t), at_r_c<1, 0>(t), at_r_c<1, 1>(t)};
      },
      [](T const &t) { return std::hash<T>{}(t); });
}
void matrix_3_2()
{
  using T = fcppt::math::matrix::static_<int, 3, 2>;
  c17::order<T> v("matrix", "matrix<int,3,2>");
  for (int a : dom2)
    for (int b : dom2)
      for (int c : dom2)
        for (int d : dom2)
          for (int e : dom2)
            for (int f : dom2)
              v.add("ctor", T(fcppt::math::matrix::row(a, b), fcppt::math::matrix::row(c, d), fcppt::math::matrix::row(e, f)));
  {
    T t(fcppt::math::matrix::row(0, 0), fcppt::math::matrix::row(0, 0), fcppt::math::matrix::row(0, 0));
    fcppt::math::matrix::at_r_c<2, 1>(t) = 1;
    v.add("last_mutated", t);
  }
  v.emit(
      [](T const &t) {
        using fcppt::math::matrix::at_r_c;
        return comp_t{at_r_c<0, 0>(t), at_r_c<0, 1>(t), at_r_c<1, 0>(t), at_r_c<1, 1>(t), at_r_c<2, 0>(t), at_r_c<2, 1>(t)};
      },
      [](T const &t) { return std::hash<T>{}(t); });
}
}
C17_PART(matrix)
{
  if (c17::take()) matrix_2_2();
  if (c17::take()) matrix_3_2();
}
#endif

// ================================================================ math box
#ifdef C17_SECTION_box
#include <fcppt/math/box/comparison.hpp>
#include <fcppt/math/box/object.hpp>
namespace
{
void box_2()
{
  using T = fcppt::math::box::object<int, 2>;
  c17::order<T> v("box", "box<int,2>");
  for (int a : dom)
    for (int b : dom)
      for (int c : dom)
        for (int d : dom) v.add("ctor", T(typename T::vector(a, b), typename T::dim(c, d)));
  {
    T t(typename T::vector(0, 0), typename T::dim(0, 0));
    t.pos() = typename T::vector(2, 1);
    t.max() = typename T::vector(3, 3);
    v.add("pos_max_written", t);
  }
  v.emit([](T const &t) { return comp_t{t.pos().x(), t.pos().y(), t.size().w(), t.size().h()}; }, no_hash{});
}
void box_1()
{
  using T = fcppt::math::box::object<int, 1>;
  c17::order<T> v("box", "box<int,1>");
  for (int a : dom)
    for (int c : dom) v.add("ctor", T(typename T::vector(a), typename T::dim(c)));
  v.emit([](T const &t) { return comp_t{t.pos().x(), t.size().w()}; }, no_hash{});
}
void box_3()
{
  using T = fcppt::math::box::object<int, 3>;
  c17::order<T> v("box", "box<int,3>");
  for (int a : dom2)
    for (int b : dom2)
      for (int c : dom2)
        for (int d : dom2)
          for (int e : dom2)
            for (int f : dom2) v.add("ctor", T(typename T::vector(a, b, c), typename T::dim(d, e, f)));
  v.emit(
      [](T const &t) { return comp_t{t.pos().x(), t.pos().y(), t.pos().z(), t.size().w(), t.size().h(), t.size().d()}; },
      no_hash{});
}
}
C17_PART(box)
{
  if (c17::take()) box_2();
  if (c17::take()) box_1();
  if (c17::take()) box_3();
}
#endif

// ================================================================ math sphere
#ifdef C17_SECTION_sphere
#include <fcppt/math/sphere/comparison.hpp>
#include <fcppt/math/sphere/object.hpp>
namespace
{
void sphere_2()
{
  using T = fcppt::math::sphere::object<int, 2>;
  c17::order<T> v("sphere", "sphere<int,2>");
  for (int a : dom)
    for (int b : dom)
      for (int c : dom) v.add("ctor", T(typename T::point_type(a, b), c));
  {
    T t(typename T::point_type(0, 0), 0);
    t.radius() = 2;
    t.origin() = typename T::point_type(1, 1);
    v.add("mutated", t);
  }
  v.emit([](T const &t) { return comp_t{t.origin().x(), t.origin().y(), t.radius()}; }, no_hash{});
}
void sphere_3()
{
  using T = fcppt::math::sphere::object<int, 3>;
  c17::order<T> v("sphere", "sphere<int,3>");
  for (int a : dom2)
    for (int b : dom2)
      for (int c : dom2)
        for (int r : dom2) v.add("ctor", T(typename T::point_type(a, b, c), r));
  v.emit([](T const &t) { return comp_t{t.origin().x(), t.origin().y(), t.origin().z(), t.radius()}; }, no_hash{});
}
}
C17_PART(sphere)
{
  if (c17::take()) sphere_2();
  if (c17::take()) sphere_3();
}
#endif

// ================================================================ bitfield
#ifdef C17_SECTION_bitfield
#include <fcppt/container/bitfield/comparison.hpp>
#include <fcppt/container/bitfield/hash.hpp>
#include <fcppt/container/bitfield/init.hpp>
#include <fcppt/container/bitfield/object.hpp>
#include <fcppt/container/bitfield/operators.hpp>
#include <fcppt/container/bitfield/std_hash.hpp>
#include <cstdint>
#include <functional>
namespace
{
enum class e3 { v0, v1, v2, fcppt_maximum = v2 };
// enumerations whose bitfield has a PARTIALLY USED SECOND WORD: 9 and 11 enumerators in uint8_t
// words, 17 in uint16_t words (and 17 in uint8_t words: three words; 9 with the default internal type: one
// partially used word)
enum class e9 { v0, v1, v2, v3, v4, v5, v6, v7, v8, fcppt_maximum = v8 };
enum class e11 { v0, v1, v2, v3, v4, v5, v6, v7, v8, v9, v10, fcppt_maximum = v10 };
enum class e17 { v0, v1, v2, v3, v4, v5, v6, v7, v8, v9, v10, v11, v12, v13, v14, v15, v16, fcppt_maximum = v16 };

// the same sets produced by set(), by init, by ~ of the complement, by ~~, by ^ with ~null and by | of
// two halves followed by & with ~null; the sets include every word boundary and the last enumerator
template <typename T, typename E, unsigned N, typename Hash>
void bitfield_values(char const *const type, Hash const &hash)
{
  c17::order<T> v("bitfield", type);
  unsigned long const all = (1UL << N) - 1UL;
  auto const build = [](unsigned long const m) {
    T r(T::null());
    for (unsigned i = 0; i < N; ++i)
      if ((m >> i) & 1UL) r.set(static_cast<E>(i), true);
    return r;
  };
  std::vector<unsigned long> masks;
  if (N <= 3)
    for (unsigned long m = 0; m <= all; ++m) masks.push_back(m);
  else
    masks = {0UL, all, 1UL, 1UL << (N - 1U), all & 0xFFUL, all & ~0xFFUL, all & 0x15555UL, all & ~(1UL << 8U)};
  for (unsigned long const m : masks)
  {
    v.add("set", build(m));
    v.add("init", fcppt::container::bitfield::init<T>([m](E const e) { return ((m >> static_cast<unsigned>(e)) & 1UL) != 0UL; }));
    v.add("complement_of_complement_set", ~build(~m & all));
    v.add("double_complement", ~~build(m));
    v.add("xor_with_all", build(~m & all) ^ ~T::null());
    {
      T t(build(m & 0xFFUL));
      t |= build(m & ~0xFFUL);
      t &= ~T::null();
      v.add("or_of_halves_and_all", t);
    }
  }
  v.emit(
      [](T const &t) {
        comp_t c;
        for (unsigned i = 0; i < N; ++i) c.push_back(t.get(static_cast<E>(i)) ? 1 : 0);
        return c;
      },
      hash);
}
template <typename E, typename I, unsigned N>
void bitfield_both(char const *const type, char const *const type_std)
{
  using T = fcppt::container::bitfield::object<E, I>;
  if (c17::take()) bitfield_values<T, E, N>(type, [](T const &t) { return fcppt::container::bitfield::hash<T>{}(t); });
  if (c17::take()) bitfield_values<T, E, N>(type_std, [](T const &t) { return std::hash<T>{}(t); });
}
}
C17_PART(bitfield)
{
  bitfield_both<e3, std::uint8_t, 3>("bitfield<e3,u8>", "bitfield<e3,u8>/std::hash");
  bitfield_both<e9, std::uint8_t, 9>("bitfield<e9,u8>", "bitfield<e9,u8>/std::hash");
  bitfield_both<e11, std::uint8_t, 11>("bitfield<e11,u8>", "bitfield<e11,u8>/std::hash");
  bitfield_both<e17, std::uint16_t, 17>("bitfield<e17,u16>", "bitfield<e17,u16>/std::hash");
  {
    // three words, the last one with a single used bit
    using T = fcppt::container::bitfield::object<e17, std::uint8_t>;
    if (c17::take()) bitfield_values<T, e17, 17>("bitfield<e17,u8>", [](T const &t) { return fcppt::container::bitfield::hash<T>{}(t); });
  }
  {
    using T = fcppt::container::bitfield::object<e9>;
    if (c17::take()) bitfield_values<T, e9, 9>("bitfield<e9,default>", [](T const &t) { return fcppt::container::bitfield::hash<T>{}(t); });
  }
}
#endif

// ================================================================ enum array
#ifdef C17_SECTION_enum_array
#include <fcppt/enum/array.hpp>
#include <fcppt/enum/array_comparison.hpp>
namespace
{
enum class e3 { v0, v1, v2, fcppt_maximum = v2 };
enum class e1 { v0, fcppt_maximum = v0 };
void enum_array_e3()
{
  using T = fcppt::enum_::array<e3, int>;
  c17::order<T> v("enum_array", "enum_array<e3,int>");
  for (int a : dom)
    for (int b : dom)
      for (int c : dom) v.add("ctor", T{a, b, c});
  {
    T t{0, 0, 0};
    t[e3::v2] = 2;
    v.add("mutated", t);
  }
  {
    T t{1, 1, 1};
    T u{0, 0, 0};
    u = t;
    v.add("copy_assigned", u);
  }
  v.emit([](T const &t) { return comp_t{t[e3::v0], t[e3::v1], t[e3::v2]}; }, no_hash{});
}
void enum_array_e1()
{
  using T = fcppt::enum_::array<e1, int>;
  c17::order<T> v("enum_array", "enum_array<e1,int>");
  for (int a : dom) v.add("ctor", T{a});
  {
    T t{0};
    t[e1::v0] = 1;
    v.add("mutated", t);
  }
  v.emit([](T const &t) { return comp_t{t[e1::v0]}; }, no_hash{});
}
}
C17_PART(enum_array)
{
  if (c17::take()) enum_array_e3();
  if (c17::take()) enum_array_e1();
}
#endif

// ================================================================ grid
#ifdef C17_SECTION_grid
#include <fcppt/container/grid/comparison.hpp>
#include <fcppt/container/grid/object.hpp>
namespace
{
template <std::size_t N, typename T>
comp_t grid_comp(T const &g)
{
  comp_t c;
  for (std::size_t i = 0; i < N; ++i) c.push_back(c17::cl(g.size().get_unsafe(i)));
  for (int x : g) c.push_back(x);
  return c;
}
void grid_int_2()
{
  using T = fcppt::container::grid::object<int, 2>;
  c17::order<T> v("grid", "grid<int,2>");
  using dim = typename T::dim;
  v.add("default", T());
  v.add("ctor", T(dim(0U, 0U), 0));
  v.add("ctor", T(dim(1U, 0U), 0));
  v.add("ctor", T(dim(0U, 1U), 0));
  for (int a : dom) v.add("fill", T(dim(1U, 1U), a));
  // grids of different shape with equal cells
  for (int a : dom)
    for (int b : dom)
    {
      T g(dim(2U, 1U), a);
      *(g.begin() + 1) = b;
      v.add("fill_then_write", g);
      T h(dim(1U, 2U), a);
      *(h.begin() + 1) = b;
      v.add("fill_then_write", h);
    }
  for (int a : dom2)
  {
    // four cells as 2x2, 4x1, 1x4; the last cell differs or not
    for (int last : dom2)
    {
      T g(dim(2U, 2U), a);
      *(g.begin() + 3) = last;
      v.add("2x2", g);
      T h(dim(4U, 1U), a);
      *(h.begin() + 3) = last;
      v.add("4x1", h);
      T k(dim(1U, 4U), a);
      *(k.begin() + 3) = last;
      v.add("1x4", k);
    }
  }
  {
    T g(dim(2U, 1U), 1);
    T h(dim(1U, 1U), 0);
    h = g;
    v.add("copy_assigned", h);
  }
  {
    T g(dim(1U, 2U), 2);
    T h(std::move(g));
    v.add("moved_into", h);
  }
  {
    T g(dim(2U, 2U), [](typename T::pos const &p) { return static_cast<int>(p.x() == 1U && p.y() == 1U); });
    v.add("from_function", g);
  }
  v.emit([](T const &g) { return grid_comp<2>(g); }, no_hash{});
}
void grid_int_1()
{
  using T = fcppt::container::grid::object<int, 1>;
  c17::order<T> v("grid", "grid<int,1>");
  using dim = typename T::dim;
  v.add("default", T());
  v.add("ctor", T(dim(0U), 1));
  for (int a : dom) v.add("fill", T(dim(1U), a));
  for (int a : dom)
    for (int b : dom)
    {
      T g(dim(2U), a);
      *(g.begin() + 1) = b;
      v.add("fill_then_write", g);
    }
  {
    T g(dim(3U), 0);
    v.add("fill", g);
    *(g.begin() + 2) = 1;
    v.add("last_written", g);
  }
  v.emit([](T const &g) { return grid_comp<1>(g); }, no_hash{});
}
void grid_int_3()
{
  using T = fcppt::container::grid::object<int, 3>;
  c17::order<T> v("grid", "grid<int,3>");
  using dim = typename T::dim;
  v.add("default", T());
  for (int a : dom2) v.add("1x1x1", T(dim(1U, 1U, 1U), a));
  for (int a : dom2)
    for (int b : dom2)
    {
      T g(dim(2U, 1U, 1U), a);
      *(g.begin() + 1) = b;
      v.add("2x1x1", g);
      T h(dim(1U, 2U, 1U), a);
      *(h.begin() + 1) = b;
      v.add("1x2x1", h);
      T k(dim(1U, 1U, 2U), a);
      *(k.begin() + 1) = b;
      v.add("1x1x2", k);
    }
  {
    T g(dim(1U, 1U, 2U), 1);
    T h(dim(2U, 1U, 1U), 0);
    h = g;
    v.add("copy_assigned", h);
  }
  v.emit([](T const &g) { return grid_comp<3>(g); }, no_hash{});
}
}
C17_PART(grid)
{
  if (c17::take()) grid_int_2();
  if (c17::take()) grid_int_1();
  if (c17::take()) grid_int_3();
}
#endif

// ================================================================ tree
#ifdef C17_SECTION_tree
#include <fcppt/container/tree/comparison.hpp>
#include <fcppt/container/tree/object.hpp>
namespace
{
void tree_int()
{
  using T = fcppt::container::tree::object<int>;
  c17::order<T> v("tree", "tree<int>");
  for (int a : dom) v.add("leaf", T(a));
  for (int a : dom)
    for (int b : dom)
    {
      T t(a);
      t.push_back(b);
      v.add("one_child", std::move(t));
    }
  // trees of different shape with the same pre-order sequence of values
  for (int a : {0, 1})
    for (int b : {0, 1})
      for (int c : {0, 1})
      {
        T t(a);
        t.push_back(b);
        t.push_back(c);
        v.add("two_children", std::move(t));
        T u(a);
        T inner(b);
        inner.push_back(c);
        u.push_back(std::move(inner));
        v.add("chain", std::move(u));
      }
  {
    T t(1);
    t.push_back(2);
    auto dropped = t.pop_back();
    (void)dropped;
    v.add("child_removed", std::move(t));
  }
  {
    T t(0);
    t.push_front(1);
    t.push_front(0);
    v.add("pushed_front", std::move(t));
  }
  // four values in pre-order 0 1 0 d as: three children / child with two children / chain of three /
  // two children the first of which has a child / the second of which has a child; d differs at depth 3
  for (int d : {0, 1})
  {
    {
      T t(0);
      t.push_back(1);
      t.push_back(0);
      t.push_back(d);
      v.add("three_children", std::move(t));
    }
    {
      T t(0);
      T k(1);
      k.push_back(0);
      k.push_back(d);
      t.push_back(std::move(k));
      v.add("child_with_two", std::move(t));
    }
    {
      T t(0);
      T k(1);
      T l(0);
      l.push_back(d);
      k.push_back(std::move(l));
      t.push_back(std::move(k));
      v.add("chain_of_three", std::move(t));
    }
    {
      T t(0);
      T k(1);
      k.push_back(0);
      t.push_back(std::move(k));
      t.push_back(d);
      v.add("first_child_has_child", std::move(t));
    }
    {
      T t(0);
      t.push_back(1);
      T k(0);
      k.push_back(d);
      t.push_back(std::move(k));
      v.add("second_child_has_child", std::move(t));
    }
  }
  {
    T t(0);
    T k(1);
    T l(0);
    l.push_back(1);
    k.push_back(std::move(l));
    t.push_back(std::move(k));
    T const copy(t);
    v.add("copy_of_chain_of_three", copy);
    T assigned(2);
    assigned = t;
    v.add("copy_assigned_chain_of_three", std::move(assigned));
    t.front().get_unsafe().get().front().get_unsafe().get().front().get_unsafe().get().value(0);
    v.add("deep_value_rewritten", std::move(t));
  }
  struct enc
  {
    static void go(T const &t, comp_t &c)
    {
      c.push_back(t.value());
      c.push_back(c17::cl(t.children().size()));
      for (T const &k : t.children()) go(k, c);
    }
  };
  v.emit(
      [](T const &t) {
        comp_t c;
        enc::go(t, c);
        return c;
      },
      no_hash{});
}
}
C17_PART(tree)
{
  if (c17::take()) tree_int();
}
#endif

// ================================================================ raw_vector
#ifdef C17_SECTION_raw_vector
#include <fcppt/container/raw_vector/comparison.hpp>
#include <fcppt/container/raw_vector/object.hpp>
#include <fcppt/range/hash.hpp>
namespace
{
void raw_vector_int()
{
  using T = fcppt::container::raw_vector::object<int>;
  c17::order<T> v("raw_vector", "raw_vector<int>");
  v.add("default", T());
  for (int a : dom) v.add("ilist", T{a});
  for (int a : dom)
    for (int b : dom) v.add("ilist", T{a, b});
  for (int a : dom)
    for (int b : dom)
      for (int c : dom) v.add("ilist", T{a, b, c});
  // equal contents, different capacity / history
  {
    T t{1, 2};
    t.reserve(16);
    v.add("reserved", std::move(t));
  }
  {
    T t{1, 2, 0};
    t.pop_back();
    v.add("popped", std::move(t));
  }
  {
    T t;
    t.push_back(1);
    t.push_back(2);
    v.add("pushed", std::move(t));
  }
  {
    T t{0, 1, 2};
    t.clear();
    v.add("cleared", std::move(t));
  }
  {
    T t{2, 2};
    t.erase(t.begin());
    v.add("erased", std::move(t));
  }
  {
    T t(2U, 1);
    v.add("filled", std::move(t));
  }
  {
    T t{1, 2};
    t.reserve(64);
    t.shrink_to_fit();
    v.add("shrunk", std::move(t));
  }
  {
    T t{1};
    t.resize(3U, 2);
    v.add("resized_up", std::move(t));
  }
  {
    T t{1, 2, 2, 0, 1};
    t.resize(3U, 0);
    v.add("resized_down", std::move(t));
  }
  {
    T t{1, 2};
    t.insert(t.begin() + 1, 1U, 2);
    v.add("inserted", std::move(t));
  }
  {
    T a{0, 1, 2};
    T b{2};
    b = std::move(a);
    v.add("move_assigned", std::move(b));
  }
  {
    T t;
    t.reserve(8);
    v.add("empty_with_capacity", std::move(t));
  }
  v.emit([](T const &t) { return comp_t(t.begin(), t.end()); }, [](T const &t) { return fcppt::range::hash<T>{}(t); });
}
}
C17_PART(raw_vector)
{
  if (c17::take()) raw_vector_int();
}
#endif

// ================================================================ reference
#ifdef C17_SECTION_reference
#include <fcppt/make_cref.hpp>
#include <fcppt/make_ref.hpp>
#include <fcppt/reference.hpp>
#include <fcppt/reference_comparison.hpp>
#include <fcppt/reference_hash.hpp>
#include <fcppt/reference_std_hash.hpp>
#include <fcppt/optional/comparison.hpp>
#include <fcppt/optional/object.hpp>
#include <fcppt/optional/reference.hpp>
#include <functional>
namespace
{
// four objects, three of them holding the same value: the observable component of a reference is
// WHICH object it refers to (reference_comparison.hpp: "equal if they refer to the same object");
// the objects are elements of one array, so their order is that of the indices
int pool[4] = {0, 0, 1, 0};
long long which(int const *const p) { return c17::cl(p - pool); }

template <typename T>
void fill_refs(c17::order<T> &v)
{
  for (int &o : pool) v.add("make_ref", T(o));
  v.add("second_ref_to_first", T(pool[0]));
  {
    T r(pool[2]);
    r = T(pool[1]);
    v.add("reseated", r);
  }
  {
    T r(pool[3]);
    T const c(r);
    v.add("copy_of_ref_to_last", c);
  }
}
void reference_int()
{
  using T = fcppt::reference<int>;
  c17::order<T> v("reference", "reference<int>");
  fill_refs(v);
  v.add("make_ref_fn", fcppt::make_ref(pool[2]));
  v.emit([](T const &r) { return comp_t{which(&r.get())}; }, [](T const &r) { return fcppt::reference_hash<T>{}(r); });
}
void reference_int_std()
{
  using T = fcppt::reference<int>;
  c17::order<T> v("reference", "reference<int>/std::hash");
  fill_refs(v);
  v.emit([](T const &r) { return comp_t{which(&r.get())}; }, [](T const &r) { return std::hash<T>{}(r); });
}
void reference_const_int()
{
  using T = fcppt::reference<int const>;
  c17::order<T> v("reference", "reference<int const>");
  fill_refs(v);
  v.add("make_cref_fn", fcppt::make_cref(pool[1]));
  v.emit([](T const &r) { return comp_t{which(&r.get())}; }, [](T const &r) { return fcppt::reference_hash<T>{}(r); });
}
// optionals of references: equal exactly if both are empty or both refer to the same object
void optional_reference()
{
  using T = fcppt::optional::reference<int>;
  c17::order<T> v("optional", "optional<reference<int>>");
  v.add("default", T());
  for (int &o : pool) v.add("ref", T(fcppt::make_ref(o)));
  v.add("second_ref_to_first", T(fcppt::make_ref(pool[0])));
  {
    T r(fcppt::make_ref(pool[2]));
    r = T();
    v.add("reset", r);
  }
  {
    T r;
    r = T(fcppt::make_ref(pool[3]));
    v.add("assigned_ref_to_last", r);
  }
  v.emit([](T const &o) { return o.has_value() ? comp_t{1, which(&o.get_unsafe().get())} : comp_t{0}; }, no_hash{});
}
}
C17_PART(reference)
{
  if (c17::take()) reference_int();
  if (c17::take()) reference_int_std();
  if (c17::take()) reference_const_int();
  if (c17::take()) optional_reference();
}
#endif

// ================================================================ shared_ptr
#ifdef C17_SECTION_shared_ptr
#include <fcppt/const_pointer_cast.hpp>
#include <fcppt/dynamic_pointer_cast.hpp>
#include <fcppt/make_shared_ptr.hpp>
#include <fcppt/make_unique_ptr.hpp>
#include <fcppt/shared_ptr.hpp>
#include <fcppt/shared_ptr_hash_decl.hpp>
#include <fcppt/shared_ptr_hash_impl.hpp>
#include <fcppt/shared_ptr_std_hash.hpp>
#include <fcppt/static_pointer_cast.hpp>
#include <fcppt/unique_ptr.hpp>
#include <fcppt/weak_ptr.hpp>
#include <fcppt/optional/object.hpp>
#include <functional>
namespace
{
// The observable component of a shared_ptr is WHICH object its stored pointer refers to
// (shared_ptr_decl.hpp: "Compares ... for equality, comparing their pointers", "less ... comparing
// their pointers with std::less"; shared_ptr_hash: hash of get_pointer()).  The OWNER is not part of
// it: pointers made with the aliasing constructor shared_ptr(owner, pointer) share an owner and differ,
// or have different owners and are equal.  Addresses are numbered in the order they are first seen
// (0 = the null pointer).
struct addresses
{
  std::vector<void const *> seen;
  long long id(void const *const p)
  {
    if (p == nullptr) return 0;
    for (std::size_t i = 0; i < seen.size(); ++i)
      if (seen[i] == p) return static_cast<long long>(i) + 1;
    seen.push_back(p);
    return static_cast<long long>(seen.size());
  }
};
int alias_pool[2] = {0, 0};

template <typename Hash>
void shared_ptr_int(char const *const type, Hash const &hash)
{
  using T = fcppt::shared_ptr<int>;
  c17::order<T> v("shared_ptr", type);
  T const p0(fcppt::make_shared_ptr<int>(0));
  T const p1(fcppt::make_shared_ptr<int>(0));
  T const p2(fcppt::make_shared_ptr<int>(1));
  v.add("make_shared_ptr", p0);
  v.add("make_shared_ptr", p1);
  v.add("make_shared_ptr", p2);
  v.add("copy_of_first", T(p0));
  {
    T q(p2);
    q = p1;
    v.add("assigned_second", q);
  }
  // aliasing constructor: same owner / different stored pointers
  T const a00(p0, &alias_pool[0]);
  T const a01(p0, &alias_pool[1]);
  v.add("alias_owner0_pool0", a00);
  v.add("alias_owner0_pool1", a01);
  // different owners / same stored pointer
  v.add("alias_owner1_pool0", T(p1, &alias_pool[0]));
  v.add("alias_owner2_pool1", T(p2, &alias_pool[1]));
  // the stored pointer is another shared_ptr's object / the owner's own object
  v.add("alias_owner0_object1", T(p0, p1.get_pointer()));
  v.add("alias_owner2_object2", T(p2, p2.get_pointer()));
  // null stored pointer with an owner (two different owners), a null pointer that owns nothing
  v.add("alias_owner2_null", T(p2, nullptr));
  v.add("alias_owner0_null", T(p0, nullptr));
  v.add("null_pointer_ctor", T(static_cast<int *>(nullptr)));
  {
    // empty: moved-from (owns nothing, stores nothing), and the pointer it was moved into
    T a(p0);
    T b(std::move(a));
    v.add("moved_from", a); // NOLINT(bugprone-use-after-move)
    v.add("moved_into", b);
  }
  {
    T a(p1);
    T b(a01);
    a.swap(b);
    v.add("swapped_now_alias", a);
    v.add("swapped_now_second", b);
  }
  // weak_ptr-derived
  {
    fcppt::weak_ptr<int> const w(p1);
    auto const l(w.lock());
    if (l.has_value()) v.add("weak_lock_second", l.get_unsafe());
    fcppt::weak_ptr<int> const wa(a01);
    auto const la(wa.lock());
    if (la.has_value()) v.add("weak_lock_alias_owner0_pool1", la.get_unsafe());
    fcppt::weak_ptr<int> const copy(wa);
    auto const lc(copy.lock());
    if (lc.has_value()) v.add("weak_copy_lock_alias", lc.get_unsafe());
  }
  // cast-derived
  {
    fcppt::shared_ptr<int const> const c(p2);
    v.add("const_cast_of_third", fcppt::const_pointer_cast<int>(c));
    fcppt::shared_ptr<int const> const ca(a00);
    v.add("const_cast_of_alias_owner0_pool0", fcppt::const_pointer_cast<int>(ca));
    v.add("static_cast_of_first", fcppt::static_pointer_cast<int>(p0));
  }
  // a unique_ptr's object
  v.add("from_unique_ptr", T(fcppt::make_unique_ptr<int>(0)));
  addresses table;
  v.emit([&table](T const &p) { return comp_t{table.id(p.get_pointer())}; }, hash);
}

// shared_ptr comparison is a template over two pointee types ("Type1", "Type2"): pointers to a base
// and to a class derived from it (with a non-zero base offset), converted, cast down statically and
// dynamically, aliased
struct pad
{
  int p = 7;
  virtual ~pad() = default;
};
struct base
{
  int id;
  explicit base(int const i) : id(i) {}
  base(base const &) = delete;
  base &operator=(base const &) = delete;
  virtual ~base() = default;
};
struct derived : pad, base
{
  explicit derived(int const i) : base(i) {}
};
void shared_ptr_hierarchy()
{
  using B = fcppt::shared_ptr<base>;
  using D = fcppt::shared_ptr<derived>;
  using T = c17::het<B, D>;
  // (before fcppt 0894e76 operator< forwarded to std::shared_ptr's, which libstdc++ 12 in C++20 mode
  // implements with compare_three_way on void pointers: a shared_ptr<derived> and the shared_ptr<base> to
  // the same object compared equal AND ordered - signature ...:lt-incompatible-with-eq of this type)
  c17::order<T> v("shared_ptr", "shared_ptr<base>|shared_ptr<derived>");
  D const d0(fcppt::make_shared_ptr<derived>(0));
  D const d1(fcppt::make_shared_ptr<derived>(0));
  B const b0(d0);
  B const b1(d1);
  B const b2(fcppt::make_shared_ptr<base>(0));
  v.add("derived", T{d0});
  v.add("derived", T{d1});
  v.add("to_base", T{b0});
  v.add("to_base", T{b1});
  v.add("base_object", T{b2});
  v.add("static_cast_down", T{fcppt::static_pointer_cast<derived>(b0)});
  {
    auto const dc(fcppt::dynamic_pointer_cast<derived>(b1));
    if (dc.has_value()) v.add("dynamic_cast_down", T{dc.get_unsafe()});
  }
  v.add("alias_owner0_base_of_1", T{B(d0, static_cast<base *>(d1.get_pointer()))});
  v.add("alias_owner1_derived_0", T{D(d1, d0.get_pointer())});
  v.add("alias_owner_base_null", T{B(b2, nullptr)});
  v.add("derived_null", T{D(d0, nullptr)});
  {
    fcppt::weak_ptr<base> const w(b0);
    auto const l(w.lock());
    if (l.has_value()) v.add("weak_lock_base_0", T{l.get_unsafe()});
  }
  addresses table;
  v.emit(
      [&table](T const &t) {
        return std::visit([&table](auto const &p) { return comp_t{table.id(static_cast<base const *>(p.get_pointer()))}; }, t.v);
      },
      no_hash{});
}
void shared_ptr_derived()
{
  using T = fcppt::shared_ptr<derived>;
  c17::order<T> v("shared_ptr", "shared_ptr<derived>");
  T const d0(fcppt::make_shared_ptr<derived>(0));
  T const d1(fcppt::make_shared_ptr<derived>(0));
  fcppt::shared_ptr<base> const b0(d0);
  v.add("make_shared_ptr", d0);
  v.add("make_shared_ptr", d1);
  v.add("copy_of_first", T(d0));
  v.add("static_cast_down", fcppt::static_pointer_cast<derived>(b0));
  {
    auto const dc(fcppt::dynamic_pointer_cast<derived>(b0));
    if (dc.has_value()) v.add("dynamic_cast_down", dc.get_unsafe());
  }
  v.add("alias_owner1_object0", T(d1, d0.get_pointer()));
  v.add("alias_owner0_null", T(d0, nullptr));
  addresses table;
  v.emit([&table](T const &p) { return comp_t{table.id(p.get_pointer())}; }, [](T const &p) { return fcppt::shared_ptr_hash<T>{}(p); });
}
}
C17_PART(shared_ptr)
{
  using T = fcppt::shared_ptr<int>;
  if (c17::take()) shared_ptr_int("shared_ptr<int>", [](T const &p) { return fcppt::shared_ptr_hash<T>{}(p); });
  if (c17::take()) shared_ptr_int("shared_ptr<int>/std::hash", [](T const &p) { return std::hash<T>{}(p); });
  if (c17::take()) shared_ptr_hierarchy();
  if (c17::take()) shared_ptr_derived();
}
#endif

// ================================================================ recursive
#ifdef C17_SECTION_recursive
#include <fcppt/make_recursive.hpp>
#include <fcppt/recursive.hpp>
#include <fcppt/recursive_comparison.hpp>
namespace
{
void recursive_int()
{
  using T = fcppt::recursive<int>;
  c17::order<T> v("recursive", "recursive<int>");
  for (int a : dom) v.add("ctor", T(a));
  v.add("make_recursive", fcppt::make_recursive(1));
  {
    T r(0);
    r = fcppt::make_recursive(2);
    v.add("assigned", r);
  }
  {
    T r(0);
    r.get() = 1;
    v.add("written_through_get", r);
  }
  {
    // distinct objects holding equal values: a copy (recursive copies the object it holds)
    T r(2);
    T const c(r);
    r.get() = 0;
    v.add("copy_taken_before_write", c);
    v.add("written_after_copy", r);
  }
  {
    T r(1);
    T m(std::move(r));
    v.add("moved_into", m);
  }
  v.emit([](T const &r) { return comp_t{r.get()}; }, no_hash{});
}
}
C17_PART(recursive)
{
  if (c17::take()) recursive_int();
}
#endif
