// C16 conformance harness (part "foldtables"): fold / fold_break over enumerated tables.
// fold / fold_break are named by the statement: their own translation unit and harness part, so that
// neither a compile failure nor an abort inside one of the observed-only extension calls
// (c16_ext.cpp) can cut these records off.  Drives and records only.
#include "c16_common.hpp"

#include <fcppt/loop.hpp>
#include <fcppt/algorithm/fold.hpp>
#include <fcppt/algorithm/fold_break.hpp>

#include <array>
#include <string>
#include <utility>
#include <vector>

namespace c16
{
namespace
{
using ivec = std::vector<int>;

// ---------------------------------------------------------------- fold tables (thorough: exhaustive)
struct FoldT // explicit 3x3 table
{
  std::array<std::array<int, 3>, 3> t;
  explicit FoldT(unsigned idx)
  {
    for (auto &row : t)
      for (auto &x : row)
      {
        x = static_cast<int>(idx % 3U);
        idx /= 3U;
      }
  }
  int operator()(int const e, int const st) const
  {
    lg("[" + ej(e) + "," + ej(st) + "]");
    return t[static_cast<std::size_t>(e)][static_cast<std::size_t>(st)];
  }
  std::string json() const { return seqseqj(t); }
};

struct FoldBreakT
{
  FoldT f;
  unsigned mask; // bit 3 e + st: break
  std::pair<fcppt::loop, int> operator()(int const e, int const st) const
  {
    int const next = f(e, st);
    return std::make_pair(
        ((mask >> (3 * e + st)) & 1U) != 0U ? fcppt::loop::break_ : fcppt::loop::continue_, next);
  }
  std::string json() const
  {
    std::string s = "[";
    for (int e = 0; e < 3; ++e)
    {
      if (e) s += ',';
      s += '[';
      for (int st = 0; st < 3; ++st)
      {
        if (st) s += ',';
        s += std::string("[") + (((mask >> (3 * e + st)) & 1U) != 0U ? "true" : "false") + "," +
             std::to_string(f.t[static_cast<std::size_t>(e)][static_cast<std::size_t>(st)]) + "]";
      }
      s += ']';
    }
    return s + "]";
  }
};

// every one of the 3^9 fold tables (thorough; every `stride`-th in quick), each on a long and a
// short input that rotate through all sequences; fold_break: every state table with a rotating break
// mask, so that every one of the 2^9 break masks occurs as well (not every combination: 6^9)
void fold_tables(unsigned const stride)
{
  std::vector<ivec> longs, shorts;
  each_seq(6, 3, [&](ivec const &v) { longs.push_back(v); });
  each_seq_upto(3, 3, [&](ivec const &v) { shorts.push_back(v); });
  for (unsigned idx = 0; idx < 19683U; idx += stride)
  {
    FoldT const f(idx);
    for (int which = 0; which < 2; ++which)
    {
      ivec const &v = which == 0 ? longs[(idx * 7U + 3U) % longs.size()] : shorts[idx % shorts.size()];
      std::vector<int> const src(v);
      int const init = static_cast<int>((idx + static_cast<unsigned>(which)) % 3U);
      {
        Rec r("fold");
        r.ks("src", "vector").ks("tables", "enumerated").ki("ek", 0).k("xs", seqj(v)).ki("init", init).k("ft2", f.json()).begin();
        int const res = fcppt::algorithm::fold(src, init, f);
        r.ki("r", res).end_log();
      }
      {
        FoldBreakT const g{f, (idx * 5U + static_cast<unsigned>(which) * 257U) % 512U};
        Rec r("fold_break");
        r.ks("src", "vector").ks("tables", "enumerated").ki("ek", 0).k("xs", seqj(v)).ki("init", init).k("ft2", g.json()).begin();
        int const res = fcppt::algorithm::fold_break(src, init, g);
        r.ki("r", res).end_log();
      }
    }
  }
}

}
}

extern "C" void c16_part_foldtables(unsigned long long, int const thorough) { c16::fold_tables(thorough != 0 ? 1U : 27U); }
