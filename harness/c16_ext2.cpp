// C16 conformance harness (part "extension2"): the two OBSERVED-ONLY kinds that used to live inside
// the primary units - fcppt::algorithm::map_iteration_second and
// fcppt::container::get_or_insert_with_result (with get_or_insert_result's members element() /
// inserted()).  The statement names map_iteration and get_or_insert only; a change after which these
// two no longer compile (or crash) must not take the in-scope parts "assoc" / "containers" with it,
// so they are a translation unit and a harness part of their own.  Drives and records only.
#include "c16_common.hpp"

#include <fcppt/algorithm/map_iteration_second.hpp>
#include <fcppt/container/get_or_insert_result.hpp>
#include <fcppt/container/get_or_insert_with_result.hpp>

#include <map>
#include <string>
#include <unordered_map>
#include <utility>
#include <vector>

namespace c16
{
namespace
{
using ivec = std::vector<int>;
using pvec = std::vector<std::pair<int, int>>;

template <typename Map>
std::string map_state(Map const &m)
{
  // presentation of the final state in key order (also for unordered maps)
  std::string s = "[";
  bool first = true;
  for (int k = -2; k <= 5; ++k)
  {
    auto const it(m.find(k));
    if (it == m.end()) continue;
    if (!first) s += ',';
    first = false;
    s += ej(*it);
  }
  return s + "]";
}

// create function: a table, logs the key it is called with and whether that key is already in the
// map at that moment
template <typename Map>
struct CreateF
{
  UF f;
  Map const *m;
  std::string *present;
  int operator()(int const key) const
  {
    if (!present->empty()) *present += ',';
    *present += m->find(key) != m->end() ? "true" : "false";
    return f(key);
  }
};

template <typename Map>
void with_result_algos(char const *sn, pvec const &ps)
{
  std::string const mj = seqj(ps);
  Map const base(ps.begin(), ps.end());
  for (int k = 0; k <= 2; ++k)
    for (int idx = 0; idx < 27; idx += (k == 1 ? 1 : 4))
    {
      int const bump = 3 + idx % 2;
      Map m(base);
      std::string present;
      CreateF<Map> const f{UF(idx), &m, &present};
      Rec r("get_or_insert_with_result");
      r.ks("src", sn).k("m", mj).ki("k", k).k("ft", f.f.json()).ki("bump", bump).begin();
      auto const res(fcppt::container::get_or_insert_with_result(m, k, f));
      r.ki("elem", res.element()).kb("inserted", res.inserted());
      res.element() += bump; // the result must refer to the element inside the container
      r.k("present", "[" + present + "]").k("st", map_state(m)).end_log();
    }
}

void second_algos(pvec const &ps)
{
  std::string const xs = seqj(ps);
  for (int i = 0; i < 8; ++i)
  {
    AF const f(i);
    std::map<int, int> m(ps.begin(), ps.end());
    Rec r("map_iteration_second");
    r.ks("src", "map").k("xs", xs).k("ft", f.json()).begin();
    fcppt::algorithm::map_iteration_second(m, f);
    r.k("st", seqj(m)).end_log();
  }
}
}
}

extern "C" void c16_part_extension2(unsigned long long, int)
{
  using namespace c16;
  // all std::map<int,int> with keys and mapped values in {0,1,2}
  for (unsigned mask = 0; mask < 8; ++mask)
  {
    ivec keys;
    for (int i = 0; i < 3; ++i)
      if (mask & (1U << i)) keys.push_back(i);
    each_seq(static_cast<unsigned>(keys.size()), 3, [&](ivec const &vals) {
      pvec ps;
      for (std::size_t i = 0; i < keys.size(); ++i) ps.emplace_back(keys[i], vals[i]);
      second_algos(ps);
      with_result_algos<std::map<int, int>>("map", ps);
      with_result_algos<std::unordered_map<int, int>>("unordered_map", ps);
    });
  }
}
