// C18 conformance harness: drives the real fcppt integer ranges, enum ranges, cyclic iterator,
// grid spiral range, moore/neumann neighbour helpers, iterator::range / make_range / adapt_range,
// range::size and the static math::int_range and records the sequences they enumerate (ndjson).
// It contains no expected values: spec/RangesJudge.tla (TLC) judges every record.
//
//   c18_ranges record OUT tier        (tier: quick | thorough)
//   c18_ranges replay RECORD.json OUT
//
// Conventions (representation, not expectations): iterations are cut after CAP steps (watchdog,
// "capped":true); values of 32/64 bit types in the *_wide records are logged biased (value minus
// the minimum of the type) as 3 resp. 5 little-endian limbs in base 2^15; other unsigned values
// >= 2^31-1 are logged as 2147483647.
#include <common/vjson.hpp>

#include <fcppt/cyclic_iterator.hpp>
#include <fcppt/int_range_impl.hpp>
#include <fcppt/make_int_range.hpp>
#include <fcppt/make_int_range_count.hpp>
#include <fcppt/make_literal_strong_typedef.hpp>
#include <fcppt/make_strong_typedef.hpp>
#include <fcppt/strong_typedef.hpp>
#include <fcppt/tag.hpp>
#include <fcppt/algorithm/loop.hpp>
#include <fcppt/algorithm/loop_break_mpl.hpp>
#include <fcppt/container/grid/make_spiral_range.hpp>
#include <fcppt/container/grid/moore_neighbors.hpp>
#include <fcppt/container/grid/neumann_neighbors.hpp>
#include <fcppt/container/grid/pos.hpp>
#include <fcppt/container/grid/spiral_range_impl.hpp>
#include <fcppt/enum/make_range.hpp>
#include <fcppt/enum/make_range_start.hpp>
#include <fcppt/enum/make_range_start_end.hpp>
#include <fcppt/enum/iterator_impl.hpp>
#include <fcppt/enum/range_impl.hpp>
#include <fcppt/int_iterator_impl.hpp>
#include <fcppt/iterator/adapt_range.hpp>
#include <fcppt/iterator/make_range.hpp>
#include <fcppt/iterator/range_impl.hpp>
#include <fcppt/math/int_range.hpp>
#include <fcppt/math/int_range_count.hpp>
#include <fcppt/math/size_constant.hpp>
#include <fcppt/math/size_type.hpp>
#include <fcppt/math/vector/comparison.hpp>
#include <fcppt/range/size.hpp>
#include <fcppt/type_iso/strong_typedef.hpp>

#include <cstdint>
#include <deque>
#include <iterator>
#include <limits>
#include <list>
#include <set>
#include <string>
#include <type_traits>
#include <vector>

namespace
{
using ll = long long;
using ull = unsigned long long;
constexpr int CAP = 400;

ll sat(ull v) { return v >= 2147483647ULL ? 2147483647LL : static_cast<ll>(v); }
std::string jl(std::vector<ll> const &v) { return vj::arr(v); }
std::string b2s(bool b) { return b ? "true" : "false"; }

FCPPT_MAKE_STRONG_TYPEDEF(std::int8_t, st_i8);
FCPPT_MAKE_STRONG_TYPEDEF(std::uint8_t, st_u8);
FCPPT_MAKE_STRONG_TYPEDEF(int, st_i32);
FCPPT_MAKE_STRONG_TYPEDEF(std::int16_t, st_i16);
FCPPT_MAKE_STRONG_TYPEDEF(std::uint16_t, st_u16);

template <typename T>
struct tinfo;
#define TINFO(type, nm, stv, base) \
  template <> \
  struct tinfo<type> \
  { \
    static char const *name() { return nm; } \
    static constexpr bool st = stv; \
    using under = base; \
    static under get(type const &v) { return under(v); } \
    static type make(ll v) { return type(static_cast<base>(v)); } \
  }
TINFO(std::int8_t, "i8", false, std::int8_t);
TINFO(std::uint8_t, "u8", false, std::uint8_t);
TINFO(std::int16_t, "i16", false, std::int16_t);
TINFO(std::uint16_t, "u16", false, std::uint16_t);
TINFO(int, "i32", false, int);
#undef TINFO
#define TINFO_ST(type, nm, base) \
  template <> \
  struct tinfo<type> \
  { \
    static char const *name() { return nm; } \
    static constexpr bool st = true; \
    using under = base; \
    static under get(type const &v) { return v.get(); } \
    static type make(ll v) { return type(static_cast<base>(v)); } \
  }
TINFO_ST(st_i8, "i8", std::int8_t);
TINFO_ST(st_u8, "u8", std::uint8_t);
TINFO_ST(st_i32, "i32", int);
TINFO_ST(st_i16, "i16", std::int16_t);
TINFO_ST(st_u16, "u16", std::uint16_t);
#undef TINFO_ST

// ------------------------------------------------------------------ integer ranges (values fit TLC)
template <typename T>
void op_int_range(ll b, ll e, bool mk)
{
  using I = tinfo<T>;
  vj::begin_call(vj::J().kv("f", "int_range").kv("T", I::name()).kv("st", I::st).kv("via", mk ? "mk" : "ctor").kv("b", b).kv("e", e).s);
  fcppt::int_range<T> const r = mk ? fcppt::make_int_range(I::make(b), I::make(e)) : fcppt::int_range<T>(I::make(b), I::make(e));
  std::vector<ll> seq;
  bool capped = false;
  auto const end = r.end();
  for (auto it = r.begin(); it != end; ++it)
  {
    if (seq.size() == CAP)
    {
      capped = true;
      break;
    }
    seq.push_back(static_cast<ll>(I::get(*it)));
  }
  ll const size = static_cast<ll>(r.size());
  // fcppt::range::size (std::distance in the iterator's difference type = Int): driven for plain signed
  // types when the number of elements fits the type
  ll rsize = -1;
  if constexpr (std::is_signed_v<T> && !I::st)
  {
    ll const cnt = e > b ? e - b : 0;
    if (cnt <= static_cast<ll>(std::numeric_limits<T>::max())) rsize = static_cast<ll>(fcppt::range::size(r));
  }
  vj::end_call(",\"seq\":" + jl(seq) + ",\"capped\":" + b2s(capped) + ",\"size\":" + std::to_string(size) + ",\"rsize\":" + std::to_string(rsize) + "}");
}

template <typename T>
void op_int_range_count(ll n)
{
  using I = tinfo<T>;
  vj::begin_call(vj::J().kv("f", "int_range_count").kv("T", I::name()).kv("st", I::st).kv("n", n).s);
  fcppt::int_range<T> const r = fcppt::make_int_range_count(I::make(n));
  std::vector<ll> seq;
  bool capped = false;
  for (auto it = r.begin(); it != r.end(); ++it)
  {
    if (seq.size() == CAP)
    {
      capped = true;
      break;
    }
    seq.push_back(static_cast<ll>(I::get(*it)));
  }
  ll const size = static_cast<ll>(r.size());
  vj::end_call(",\"seq\":" + jl(seq) + ",\"capped\":" + b2s(capped) + ",\"size\":" + std::to_string(size) + "}");
}

// small ranges of int, additionally through fcppt::range::size
void op_int_range_rsize(ll b, ll e)
{
  vj::begin_call(vj::J().kv("f", "int_range_rsize").kv("T", "i32").kv("b", b).kv("e", e).s);
  auto const r = fcppt::make_int_range(static_cast<int>(b), static_cast<int>(e));
  std::vector<ll> seq;
  for (int const x : r)
  {
    if (seq.size() == CAP) break;
    seq.push_back(x);
  }
  vj::end_call(",\"seq\":" + jl(seq) + ",\"size\":" + std::to_string(r.size()) + ",\"rsize\":" + std::to_string(sat(fcppt::range::size(r))) + "}");
}

// ------------------------------------------------------------------ wide types (limbs)
template <typename W>
std::string limbs(W v)
{
  using U = std::make_unsigned_t<W>;
  U u = static_cast<U>(static_cast<U>(v) - static_cast<U>(std::numeric_limits<W>::min()));
  int const n = sizeof(W) == 4 ? 3 : 5;
  std::string s = "[";
  for (int i = 0; i < n; ++i)
  {
    if (i) s += ',';
    s += std::to_string(static_cast<unsigned>(u & 0x7FFFU));
    u = static_cast<U>(u >> 15);
  }
  return s + "]";
}
template <typename W>
char const *wname();
template <>
char const *wname<int>() { return "i32"; }
template <>
char const *wname<unsigned>() { return "u32"; }
template <>
char const *wname<long>() { return "i64"; }
template <>
char const *wname<unsigned long>() { return "u64"; }

// the lattice of boundary values of a type, by index (so that a record can be replayed)
template <typename W>
std::vector<W> lattice()
{
  std::vector<W> v;
  W const mn = std::numeric_limits<W>::min(), mx = std::numeric_limits<W>::max();
  for (int i = 0; i < 4; ++i) v.push_back(static_cast<W>(mn + static_cast<W>(i)));
  if (std::is_signed_v<W>)
    for (int i = -3; i <= 3; ++i) v.push_back(static_cast<W>(i));
  else
    for (int i = 0; i < 4; ++i) v.push_back(static_cast<W>(mx / 2 + static_cast<W>(i)));
  for (int i = 3; i >= 0; --i) v.push_back(static_cast<W>(mx - static_cast<W>(i)));
  return v;
}

template <typename W>
void op_int_range_wide(int bi, int ei)
{
  auto const lat = lattice<W>();
  W const b = lat.at(static_cast<std::size_t>(bi)), e = lat.at(static_cast<std::size_t>(ei));
  vj::begin_call(vj::J().kv("f", "int_range_wide").kv("T", wname<W>()).kv("bi", bi).kv("ei", ei).raw("b", limbs(b)).raw("e", limbs(e)).s);
  auto const r = fcppt::make_int_range(b, e);
  std::string seq = "[";
  int n = 0;
  bool capped = false;
  for (auto it = r.begin(); it != r.end(); ++it)
  {
    if (n == CAP)
    {
      capped = true;
      break;
    }
    if (n) seq += ',';
    seq += limbs(*it);
    ++n;
  }
  seq += "]";
  // size() of a non-empty range whose count does not fit the type is not constrained (and is a
  // signed overflow for int/long): the driver only drives short and empty/inverted ranges here
  ll const size = static_cast<ll>(r.size());
  vj::end_call(",\"seq\":" + seq + ",\"capped\":" + b2s(capped) + ",\"size\":" + std::to_string(size) + "}");
}

// ------------------------------------------------------------------ enum ranges
enum class e1
{
  a,
  fcppt_maximum = a
};
enum class e3
{
  a,
  b,
  c,
  fcppt_maximum = c
};
enum class e9 : std::uint8_t
{
  a,
  b,
  c,
  d,
  e,
  f,
  g,
  h,
  i,
  fcppt_maximum = i
};
enum class e5 : short
{
  a,
  b,
  c,
  d,
  e,
  fcppt_maximum = e
};

enum class e4 : signed char
{
  a,
  b,
  c,
  d,
  fcppt_maximum = d
};
enum class e6 : unsigned long long
{
  a,
  b,
  c,
  d,
  e,
  f,
  fcppt_maximum = f
};
enum class e2 : unsigned short
{
  a,
  b,
  fcppt_maximum = b
};

template <typename E>
char const *ename();
template <>
char const *ename<e4>() { return "e4"; }
template <>
char const *ename<e6>() { return "e6"; }
template <>
char const *ename<e2>() { return "e2"; }
template <>
char const *ename<e1>() { return "e1"; }
template <>
char const *ename<e3>() { return "e3"; }
template <>
char const *ename<e9>() { return "e9"; }
template <>
char const *ename<e5>() { return "e5"; }

template <typename E>
void op_enum_range(std::string const &via, ll s, ll e)
{
  ll const n = static_cast<ll>(E::fcppt_maximum) + 1;
  vj::begin_call(vj::J().kv("f", "enum_range").kv("E", ename<E>()).kv("n", n).kv("via", via).kv("s", s).kv("e", e).s);
  fcppt::enum_::range<E> const r = via == "all" ? fcppt::enum_::make_range<E>()
                                   : via == "start" ? fcppt::enum_::make_range_start(static_cast<E>(s))
                                                    : fcppt::enum_::make_range_start_end(static_cast<E>(s), static_cast<E>(e));
  std::vector<ll> seq;
  bool capped = false;
  for (auto it = r.begin(); it != r.end(); ++it)
  {
    if (seq.size() == CAP)
    {
      capped = true;
      break;
    }
    seq.push_back(static_cast<ll>(*it));
  }
  vj::end_call(",\"seq\":" + jl(seq) + ",\"capped\":" + b2s(capped) + ",\"size\":" + std::to_string(sat(static_cast<ull>(r.size()))) + ",\"rsize\":" +
               std::to_string(sat(static_cast<ull>(fcppt::range::size(r)))) + "}");
}

template <typename E>
void all_enum_ranges()
{
  ll const n = static_cast<ll>(E::fcppt_maximum) + 1;
  op_enum_range<E>("all", 0, n - 1);
  for (ll s = 0; s < n; ++s)
  {
    op_enum_range<E>("start", s, n - 1);
    for (ll e = s; e < n; ++e) op_enum_range<E>("start_end", s, e);
  }
}

// ------------------------------------------------------------------ cyclic iterator
constexpr int MARGIN = 30;
void op_cyclic(int len, int start, int n)
{
  vj::begin_call(vj::J().kv("f", "cyclic").kv("len", len).kv("start", start).kv("n", n).s);
  std::vector<int> cont;
  for (int i = 0; i < len + 2 * MARGIN; ++i) cont.push_back(1000 + i - MARGIN); // cont[MARGIN + k] = 1000 + k
  using cit = std::vector<int>::const_iterator;
  using cyc = fcppt::cyclic_iterator<cit>;
  cit const first = cont.begin() + MARGIN;
  cit const second = first + len;
  cyc const s0(first + start, cyc::boundary{first, second});
  auto const idx = [&](cyc const &c) { return static_cast<ll>(c.get() - first); };
  cyc a(s0);
  a += n;
  cyc const p = s0 + n;
  cyc m(s0);
  m -= n;
  std::vector<ll> steps, vals;
  cyc w(s0);
  for (int k = 0; k < (n < 0 ? -n : n); ++k)
  {
    if (n > 0)
      ++w;
    else
      --w;
    steps.push_back(idx(w));
    vals.push_back(*w);
  }
  vj::end_call(",\"base\":1000,\"adv\":" + std::to_string(idx(a)) + ",\"advv\":" + std::to_string(*a) + ",\"plus\":" + std::to_string(idx(p)) +
               ",\"sub\":" + std::to_string(idx(m)) + ",\"steps\":" + jl(steps) + ",\"stepv\":" + jl(vals) + ",\"s0v\":" + std::to_string(*s0) + "}");
}

// ------------------------------------------------------------------ spiral range, neighbours
template <typename T>
char const *pname();
template <>
char const *pname<int>() { return "i32"; }
template <>
char const *pname<long>() { return "i64"; }
template <>
char const *pname<unsigned>() { return "u32"; }
template <>
char const *pname<unsigned long>() { return "u64"; }

template <typename P>
std::string jp(P const &p)
{
  return "[" + std::to_string(static_cast<ll>(p.x())) + "," + std::to_string(static_cast<ll>(p.y())) + "]";
}

template <typename T>
void op_spiral(ll ox, ll oy, ll d)
{
  using pos = fcppt::container::grid::pos<T, 2>;
  vj::begin_call(vj::J().kv("f", "spiral").kv("T", pname<T>()).raw("o", "[" + std::to_string(ox) + "," + std::to_string(oy) + "]").kv("d", d).s);
  auto const r = fcppt::container::grid::make_spiral_range(pos(static_cast<T>(ox), static_cast<T>(oy)), static_cast<T>(d));
  std::string vis = "[";
  int n = 0;
  bool capped = false;
  for (auto it = r.begin(); it != r.end(); ++it)
  {
    if (n == CAP)
    {
      capped = true;
      break;
    }
    if (n) vis += ',';
    vis += jp(*it);
    ++n;
  }
  ll const rsize = capped ? -1 : sat(static_cast<ull>(fcppt::range::size(r)));
  vj::end_call(",\"vis\":" + vis + "],\"capped\":" + b2s(capped) + ",\"rsize\":" + std::to_string(rsize) + "}");
}

template <typename T>
void op_neighbors(std::string const &which, ll x, ll y)
{
  using pos = fcppt::container::grid::pos<T, 2>;
  vj::begin_call(vj::J().kv("f", which).kv("T", pname<T>()).raw("p", "[" + std::to_string(x) + "," + std::to_string(y) + "]").s);
  std::string r = "[";
  pos const p(static_cast<T>(x), static_cast<T>(y));
  bool first = true;
  if (which == "moore")
    for (auto const &q : fcppt::container::grid::moore_neighbors(p))
    {
      if (!first) r += ',';
      first = false;
      r += jp(q);
    }
  else
    for (auto const &q : fcppt::container::grid::neumann_neighbors(p))
    {
      if (!first) r += ',';
      first = false;
      r += jp(q);
    }
  vj::end_call(",\"r\":" + r + "]}");
}

// ------------------------------------------------------------------ iterator::range, adapt_range, range::size
void op_iter_range(int len, int i, int j, std::string const &via)
{
  vj::begin_call(vj::J().kv("f", "iter_range").kv("len", len).kv("i", i).kv("j", j).kv("via", via).s);
  std::vector<int> cont;
  for (int k = 0; k < len; ++k) cont.push_back(10 * k + 3);
  std::vector<int> const &ccont = cont;
  std::vector<ll> seq;
  ll rsize = 0;
  auto const walk = [&seq, &rsize](auto const &r) {
    for (auto it = r.begin(); it != r.end(); ++it)
    {
      if (seq.size() == CAP) break;
      seq.push_back(*it);
    }
    rsize = sat(static_cast<ull>(fcppt::range::size(r)));
  };
  if (via == "ctor")
    walk(fcppt::iterator::range<std::vector<int>::iterator>(cont.begin() + i, cont.begin() + j));
  else if (via == "make_range")
    walk(fcppt::iterator::make_range(ccont.begin() + i, ccont.begin() + j));
  else if (via == "make_range_list")
  {
    std::list<int> const lst(cont.begin(), cont.end());
    walk(fcppt::iterator::make_range(std::next(lst.begin(), i), std::next(lst.begin(), j)));
  }
  else if (via == "make_range_deque")
  {
    std::deque<int> dq(cont.begin(), cont.end());
    walk(fcppt::iterator::make_range(dq.begin() + i, dq.begin() + j));
  }
  else if (via == "adapt_list")
  {
    std::list<int> lst(cont.begin(), cont.end());
    walk(fcppt::iterator::adapt_range(lst));
  }
  else if (via == "adapt")
    walk(fcppt::iterator::adapt_range(cont));
  else
    walk(fcppt::iterator::adapt_range(ccont));
  std::vector<ll> c(cont.begin(), cont.end());
  vj::end_call(",\"cont\":" + jl(c) + ",\"seq\":" + jl(seq) + ",\"rsize\":" + std::to_string(rsize) + "}");
}

template <fcppt::math::size_type S, fcppt::math::size_type E>
void op_static_range()
{
  vj::begin_call(vj::J().kv("f", "static_int_range").kv("s", static_cast<ll>(S)).kv("e", static_cast<ll>(E)).s);
  std::vector<ll> seq;
  fcppt::algorithm::loop(
      fcppt::math::int_range<S, E>{},
      [&seq]<fcppt::math::size_type I>(fcppt::tag<fcppt::math::size_constant<I>>) { seq.push_back(static_cast<ll>(I)); });
  vj::end_call(",\"seq\":" + jl(seq) + "}");
}
template <fcppt::math::size_type C>
void op_static_count()
{
  vj::begin_call(vj::J().kv("f", "static_int_range").kv("s", 0).kv("e", static_cast<ll>(C)).s);
  std::vector<ll> seq;
  fcppt::algorithm::loop(
      fcppt::math::int_range_count<C>{},
      [&seq]<fcppt::math::size_type I>(fcppt::tag<fcppt::math::size_constant<I>>) { seq.push_back(static_cast<ll>(I)); });
  vj::end_call(",\"seq\":" + jl(seq) + "}");
}
void static_range_by(ll s, ll e)
{
#define SR(a, b) \
  if (s == a && e == b) return op_static_range<a, b>()
  SR(0, 0);
  SR(0, 1);
  SR(0, 4);
  SR(2, 5);
  SR(3, 3);
  SR(1, 2);
  SR(4, 9);
#undef SR
  throw std::runtime_error("static range not instantiated");
}
void static_count_by(ll c)
{
  switch (c)
  {
  case 0: return op_static_count<0>();
  case 1: return op_static_count<1>();
  case 2: return op_static_count<2>();
  case 3: return op_static_count<3>();
  case 7: return op_static_count<7>();
  default: throw std::runtime_error("static count not instantiated");
  }
}


// ------------------------------------------------------------------ extension: iterator::base operations
// random-access operations of cyclic_iterator (through fcppt::iterator::base): two iterators a (at
// position i) and b (at position j) of the same boundary and a distance n
void op_cyclic_ra(int len, int i, int j, int n)
{
  vj::begin_call(vj::J().kv("f", "cyclic_ra").kv("len", len).kv("i", i).kv("j", j).kv("n", n).s);
  std::vector<int> cont;
  for (int k = 0; k < len + 2 * MARGIN; ++k) cont.push_back(1000 + k - MARGIN);
  using cit = std::vector<int>::const_iterator;
  using cyc = fcppt::cyclic_iterator<cit>;
  cit const first = cont.begin() + MARGIN;
  cyc::boundary const bd{first, first + len};
  cyc const a(first + i, bd), b(first + j, bd);
  auto const idx = [&](cyc const &c) { return static_cast<ll>(c.get() - first); };
  cyc const apn = a + n;
  cyc const back = apn - n;
  cyc const npa = n + a;
  auto const dba = b - a;
  auto const dab = a - b;
  cyc const reach = a + dba;
  cyc pre(a);
  cyc const &preref = ++pre;
  cyc post(a);
  cyc const postold = post++;
  cyc dec(a);
  cyc const decold = dec--;
  cyc s1(a), s2(b);
  s1.swap(s2);
  vj::J o;
  o.kv("base", 1000).kv("apn", idx(apn)).kv("back", idx(back)).kv("npa", idx(npa)).kv("dba", static_cast<ll>(dba)).kv("dab", static_cast<ll>(dab))
      .kv("reach", idx(reach)).kv("sub", static_cast<ll>(a[n])).kv("deref", static_cast<ll>(*(a + n))).kv("lt", a < b).kv("gt", a > b).kv("le", a <= b)
      .kv("ge", a >= b).kv("eq", a == b).kv("ne", a != b).kv("pre", idx(pre)).kv("preret", idx(preref)).kv("post", idx(post)).kv("postold", idx(postold))
      .kv("dec", idx(dec)).kv("decold", idx(decold)).kv("swa", idx(s1)).kv("swb", idx(s2));
  vj::end_call("," + o.s.substr(1) + "}");
}

// input-iterator operations of int_iterator<T> (value v) and enum_::iterator<E>
template <typename T>
void op_int_iter(ll v, ll w)
{
  using I = tinfo<T>;
  using it_t = fcppt::int_iterator<T>;
  vj::begin_call(vj::J().kv("f", "int_iter").kv("T", I::name()).kv("st", I::st).kv("v", v).kv("w", w).s);
  it_t const a(I::make(v)), b(I::make(w));
  it_t pre(a);
  it_t const &preref = ++pre;
  it_t post(a);
  it_t const postold = post++;
  it_t s1(a), s2(b);
  s1.swap(s2);
  vj::J o;
  o.kv("deref", static_cast<ll>(I::get(*a))).kv("pre", static_cast<ll>(I::get(*pre))).kv("preret", static_cast<ll>(I::get(*preref)))
      .kv("post", static_cast<ll>(I::get(*post))).kv("postold", static_cast<ll>(I::get(*postold))).kv("eq", a == b).kv("ne", a != b)
      .kv("swa", static_cast<ll>(I::get(*s1))).kv("swb", static_cast<ll>(I::get(*s2)));
  vj::end_call("," + o.s.substr(1) + "}");
}

template <typename E>
void op_enum_iter(ll v, ll w)
{
  using it_t = fcppt::enum_::iterator<E>;
  using sz = typename it_t::size_type;
  ll const n = static_cast<ll>(E::fcppt_maximum) + 1;
  vj::begin_call(vj::J().kv("f", "enum_iter").kv("E", ename<E>()).kv("n", n).kv("v", v).kv("w", w).s);
  it_t const a(static_cast<sz>(v)), b(static_cast<sz>(w));
  it_t pre(a);
  ++pre;
  it_t post(a);
  it_t const postold = post++;
  vj::J o;
  o.kv("deref", static_cast<ll>(*a)).kv("postold", static_cast<ll>(*postold)).kv("eq", a == b).kv("ne", a != b)
      .kv("pre_is_post", pre == post);
  // the incremented iterator is only dereferenced while it still denotes an enumerator
  o.kv("pre", v + 1 < n ? static_cast<ll>(*pre) : -1);
  vj::end_call("," + o.s.substr(1) + "}");
}
template <typename E>
void all_enum_iters()
{
  ll const n = static_cast<ll>(E::fcppt_maximum) + 1;
  for (ll v = 0; v < n; ++v)
    for (ll w = 0; w < n; ++w) op_enum_iter<E>(v, w);
}

// ------------------------------------------------------------------ enumeration
template <typename T>
std::vector<ll> edge_values()
{
  using U = typename tinfo<T>::under;
  ll const mn = std::numeric_limits<U>::min(), mx = std::numeric_limits<U>::max();
  std::set<ll> s;
  for (ll i = 0; i < 4; ++i)
  {
    s.insert(mn + i);
    s.insert(mx - i);
    s.insert(mx / 2 + i);
    if (mn < 0)
    {
      s.insert(i);
      s.insert(-i);
    }
  }
  return std::vector<ll>(s.begin(), s.end());
}

// every (b, e) of the edge lattice that is empty/inverted or at most 8 long
template <typename T>
void edge_ranges()
{
  auto const v = edge_values<T>();
  bool mk = false;
  for (ll b : v)
    for (ll e : v)
      if (e - b <= 8)
      {
        op_int_range<T>(b, e, mk);
        mk = !mk;
      }
  for (ll n : v)
    if (n <= 8) op_int_range_count<T>(n);
}

template <typename T>
void full_ranges(int stride)
{
  using U = typename tinfo<T>::under;
  ll const mn = std::numeric_limits<U>::min(), mx = std::numeric_limits<U>::max();
  int k = 0;
  for (ll b = mn; b <= mx; ++b)
    for (ll e = mn; e <= mx; ++e, ++k)
      if (stride == 1 || k % stride == 0 || (e - b <= 2 && b - e <= 2) || b == mn || e == mx || b == mx || e == mn) op_int_range<T>(b, e, (k & 1) != 0);
  for (ll n = mn; n <= mx; ++n) op_int_range_count<T>(n);
}

template <typename W>
void wide_ranges()
{
  auto const lat = lattice<W>();
  for (std::size_t bi = 0; bi < lat.size(); ++bi)
    for (std::size_t ei = 0; ei < lat.size(); ++ei)
    {
      W const b = lat[bi], e = lat[ei];
      // only empty / inverted ranges and ranges of at most 8 elements (the others cannot be walked,
      // and size() of a range whose count does not fit the type is not constrained)
      if (e <= b || static_cast<std::make_unsigned_t<W>>(e) - static_cast<std::make_unsigned_t<W>>(b) <= 8U)
        op_int_range_wide<W>(static_cast<int>(bi), static_cast<int>(ei));
    }
}

void record(bool thorough)
{
  // integer ranges
  full_ranges<std::int8_t>(1);
  full_ranges<std::uint8_t>(1);
  full_ranges<st_i8>(thorough ? 1 : 7);
  full_ranges<st_u8>(thorough ? 1 : 7);
  edge_ranges<std::int16_t>();
  edge_ranges<std::uint16_t>();
  edge_ranges<int>();
  edge_ranges<st_i32>();
  edge_ranges<st_i16>();
  edge_ranges<st_u16>();
  for (ll b = -4; b <= 4; ++b)
    for (ll e = -4; e <= 4; ++e) op_int_range_rsize(b, e);
  wide_ranges<int>();
  wide_ranges<unsigned>();
  wide_ranges<long>();
  wide_ranges<unsigned long>();
  // enum ranges
  all_enum_ranges<e1>();
  all_enum_ranges<e3>();
  all_enum_ranges<e9>();
  all_enum_ranges<e5>();
  all_enum_ranges<e4>();
  all_enum_ranges<e6>();
  all_enum_ranges<e2>();
  // cyclic iterator
  for (int len = 1; len <= 6; ++len)
    for (int start = 0; start < len; ++start)
      for (int n = -20; n <= 20; ++n) op_cyclic(len, start, n);
  // extension: iterator::base operations
  for (int len = 1; len <= 5; ++len)
    for (int i = 0; i < len; ++i)
      for (int j = 0; j < len; ++j)
        for (int n = -7; n <= 7; ++n) op_cyclic_ra(len, i, j, n);
  // spiral, neighbours
  ll const origins[][2] = {{0, 0}, {-3, 2}, {5, -7}, {100, -100}, {-1, -1}};
  for (auto const &o : origins)
    for (ll d = 0; d <= (thorough ? 8 : 6); ++d)
    {
      op_spiral<int>(o[0], o[1], d);
      op_spiral<long>(o[0], o[1], d);
    }
  for (ll x = -2; x <= 2; ++x)
    for (ll y = -2; y <= 2; ++y)
    {
      op_neighbors<int>("moore", x, y);
      op_neighbors<int>("neumann", x, y);
      op_neighbors<long>("moore", x * 1000, y - 7);
      op_neighbors<long>("neumann", x * 1000, y - 7);
      op_neighbors<unsigned long>("moore", x + 3, y + 3);
      op_neighbors<unsigned>("neumann", x + 3, y + 3);
    }
  // iterator ranges
  for (int len = 0; len <= 5; ++len)
  {
    for (int i = 0; i <= len; ++i)
      for (int j = i; j <= len; ++j)
      {
        op_iter_range(len, i, j, "ctor");
        op_iter_range(len, i, j, "make_range");
        op_iter_range(len, i, j, "make_range_list");
        op_iter_range(len, i, j, "make_range_deque");
      }
    op_iter_range(len, 0, len, "adapt_list");
    op_iter_range(len, 0, len, "adapt");
    op_iter_range(len, 0, len, "adapt_const");
  }
  for (ll c : {0, 1, 2, 3, 7}) static_count_by(c);
  ll const sr[][2] = {{0, 0}, {0, 1}, {0, 4}, {2, 5}, {3, 3}, {1, 2}, {4, 9}};
  for (auto const &p : sr) static_range_by(p[0], p[1]);
  // observed only (outside the statement of C18): the iterators taken by themselves, driven last
  for (ll v : {-128, -127, -1, 0, 1, 5, 125, 126})
    for (ll w : {-128, 0, 5, 126, 127})
    {
      op_int_iter<std::int8_t>(v, w);
      op_int_iter<st_i8>(v, w);
    }
  for (ll v : {0, 1, 5, 200, 253, 254})
    for (ll w : {0, 5, 254, 255})
    {
      op_int_iter<std::uint8_t>(v, w);
      op_int_iter<st_u8>(v, w);
      op_int_iter<int>(v * 1000, w * 1000);
      op_int_iter<st_i16>(v, w);
    }
  all_enum_iters<e1>();
  all_enum_iters<e3>();
  all_enum_iters<e9>();
  all_enum_iters<e4>();
  all_enum_iters<e6>();
}

template <typename F>
void by_type(std::string const &T, bool st, F const &f)
{
  if (T == "i8") return st ? f(fcppt::tag<st_i8>{}) : f(fcppt::tag<std::int8_t>{});
  if (T == "u8") return st ? f(fcppt::tag<st_u8>{}) : f(fcppt::tag<std::uint8_t>{});
  if (T == "i16") return st ? f(fcppt::tag<st_i16>{}) : f(fcppt::tag<std::int16_t>{});
  if (T == "u16") return st ? f(fcppt::tag<st_u16>{}) : f(fcppt::tag<std::uint16_t>{});
  if (T == "i32") return st ? f(fcppt::tag<st_i32>{}) : f(fcppt::tag<int>{});
  throw std::runtime_error("replay: unknown type " + T);
}

void replay(vj::V const &v)
{
  std::string const f = v.str("f");
  if (f == "int_range")
    by_type(v.str("T"), v.at("st").b, [&]<typename T>(fcppt::tag<T>) { op_int_range<T>(v.num("b"), v.num("e"), v.str("via") == "mk"); });
  else if (f == "int_range_count")
    by_type(v.str("T"), v.at("st").b, [&]<typename T>(fcppt::tag<T>) { op_int_range_count<T>(v.num("n")); });
  else if (f == "int_range_rsize")
    op_int_range_rsize(v.num("b"), v.num("e"));
  else if (f == "int_range_wide")
  {
    std::string const T = v.str("T");
    int const bi = static_cast<int>(v.num("bi")), ei = static_cast<int>(v.num("ei"));
    if (T == "i32") op_int_range_wide<int>(bi, ei);
    else if (T == "u32") op_int_range_wide<unsigned>(bi, ei);
    else if (T == "i64") op_int_range_wide<long>(bi, ei);
    else op_int_range_wide<unsigned long>(bi, ei);
  }
  else if (f == "enum_range")
  {
    std::string const E = v.str("E");
    if (E == "e1") op_enum_range<e1>(v.str("via"), v.num("s"), v.num("e"));
    else if (E == "e3") op_enum_range<e3>(v.str("via"), v.num("s"), v.num("e"));
    else if (E == "e9") op_enum_range<e9>(v.str("via"), v.num("s"), v.num("e"));
    else if (E == "e4") op_enum_range<e4>(v.str("via"), v.num("s"), v.num("e"));
    else if (E == "e6") op_enum_range<e6>(v.str("via"), v.num("s"), v.num("e"));
    else if (E == "e2") op_enum_range<e2>(v.str("via"), v.num("s"), v.num("e"));
    else op_enum_range<e5>(v.str("via"), v.num("s"), v.num("e"));
  }
  else if (f == "cyclic_ra")
    op_cyclic_ra(static_cast<int>(v.num("len")), static_cast<int>(v.num("i")), static_cast<int>(v.num("j")), static_cast<int>(v.num("n")));
  else if (f == "int_iter")
    by_type(v.str("T"), v.at("st").b, [&]<typename T>(fcppt::tag<T>) { op_int_iter<T>(v.num("v"), v.num("w")); });
  else if (f == "enum_iter")
  {
    std::string const E = v.str("E");
    if (E == "e1") op_enum_iter<e1>(v.num("v"), v.num("w"));
    else if (E == "e3") op_enum_iter<e3>(v.num("v"), v.num("w"));
    else if (E == "e9") op_enum_iter<e9>(v.num("v"), v.num("w"));
    else if (E == "e4") op_enum_iter<e4>(v.num("v"), v.num("w"));
    else op_enum_iter<e6>(v.num("v"), v.num("w"));
  }
  else if (f == "cyclic")
    op_cyclic(static_cast<int>(v.num("len")), static_cast<int>(v.num("start")), static_cast<int>(v.num("n")));
  else if (f == "spiral")
  {
    auto const o = v.nums("o");
    if (v.str("T") == "i32") op_spiral<int>(o.at(0), o.at(1), v.num("d"));
    else op_spiral<long>(o.at(0), o.at(1), v.num("d"));
  }
  else if (f == "moore" || f == "neumann")
  {
    auto const p = v.nums("p");
    std::string const T = v.str("T");
    if (T == "i32") op_neighbors<int>(f, p.at(0), p.at(1));
    else if (T == "i64") op_neighbors<long>(f, p.at(0), p.at(1));
    else if (T == "u32") op_neighbors<unsigned>(f, p.at(0), p.at(1));
    else op_neighbors<unsigned long>(f, p.at(0), p.at(1));
  }
  else if (f == "iter_range")
    op_iter_range(static_cast<int>(v.num("len")), static_cast<int>(v.num("i")), static_cast<int>(v.num("j")), v.str("via"));
  else if (f == "static_int_range")
  {
    if (v.num("s") == 0 && (v.num("e") == 2 || v.num("e") == 3 || v.num("e") == 7)) static_count_by(v.num("e"));
    else static_range_by(v.num("s"), v.num("e"));
  }
  else
    throw std::runtime_error("replay: unknown f " + f);
}
}

int main(int argc, char **argv)
{
  if (argc < 4)
  {
    std::fprintf(stderr, "usage: c18_ranges record OUT tier | replay RECORD OUT\n");
    return 3;
  }
  std::string const mode = argv[1];
  alarm(1500);
  if (mode == "record")
  {
    vj::open(argv[2]);
    record(std::string(argv[3]) == "thorough");
    vj::close();
    return 0;
  }
  if (mode == "replay")
  {
    auto const lines = vj::read_lines(argv[2]);
    vj::open(argv[3]);
    for (auto const &l : lines) replay(*vj::parse(l));
    vj::close();
    return 0;
  }
  return 3;
}
