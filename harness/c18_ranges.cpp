// C18 conformance harness: drives the real fcppt integer ranges, enum ranges, cyclic iterator,
// grid spiral range, moore/neumann neighbour helpers, iterator::range / make_range / adapt_range,
// range::size and the static math::int_range and records the sequences they enumerate (ndjson).
// It contains no expected values: spec/RangesJudge.tla (TLC) judges every record.
//
//   c18_<unit> record OUT tier [SKIP]   (tier: quick | thorough; SKIP: number of driven calls to skip)
//   c18_<unit> replay RECORD.json OUT
//
// Conventions (representation, not expectations): iterations are cut after CAP steps (watchdog,
// "capped":true); values of 32/64 bit types in the *_wide records are logged biased (value minus
// the minimum of the type) as 3 resp. 5 little-endian limbs in base 2^15; other unsigned values
// >= 2^31-1 are logged as 2147483647.
#include <common/vjson.hpp>

// Translation units (round 3): this file is compiled once per unit with exactly one of
//   -DC18_U_INT  -DC18_U_ENUM  -DC18_U_CYCLIC  -DC18_U_GRID  -DC18_U_ITER  -DC18_U_OBS
// so that a unit whose fcppt headers no longer compile does not take the others with it.  C18_U_OBS is the
// observed-only unit (fcppt::range::size on every kind of range, math::int_range, the iterators taken by
// themselves): it re-uses the drivers of the other units with C18_RSIZE defined.
#if defined(C18_U_OBS)
#define C18_U_INT
#define C18_U_ENUM
#define C18_U_GRID
#define C18_U_ITER
#define C18_RSIZE
#endif

#if defined(C18_U_CYCLIC)
#include <fcppt/cyclic_iterator.hpp>
#endif
#if defined(C18_U_INT)
#include <fcppt/int_range_impl.hpp>
#include <fcppt/int_iterator_impl.hpp>
#include <fcppt/make_int_range.hpp>
#include <fcppt/make_int_range_count.hpp>
#include <fcppt/make_literal_strong_typedef.hpp>
#include <fcppt/make_strong_typedef.hpp>
#include <fcppt/strong_typedef.hpp>
#include <fcppt/type_iso/strong_typedef.hpp>
#endif
#if defined(C18_U_GRID)
#include <fcppt/container/grid/make_spiral_range.hpp>
#include <fcppt/container/grid/moore_neighbors.hpp>
#include <fcppt/container/grid/neumann_neighbors.hpp>
#include <fcppt/container/grid/pos.hpp>
#include <fcppt/container/grid/spiral_range_impl.hpp>
#include <fcppt/math/vector/comparison.hpp>
#endif
#if defined(C18_U_ENUM)
#include <fcppt/enum/make_range.hpp>
#include <fcppt/enum/make_range_start.hpp>
#include <fcppt/enum/make_range_start_end.hpp>
#include <fcppt/enum/iterator_impl.hpp>
#include <fcppt/enum/range_impl.hpp>
#endif
#if defined(C18_U_ITER)
#include <fcppt/iterator/adapt_range.hpp>
#include <fcppt/iterator/make_range.hpp>
#include <fcppt/iterator/range_impl.hpp>
#endif
#if defined(C18_U_OBS)
#include <fcppt/tag.hpp>
#include <fcppt/algorithm/loop.hpp>
#include <fcppt/algorithm/loop_break_mpl.hpp>
#include <fcppt/math/int_range.hpp>
#include <fcppt/math/int_range_count.hpp>
#include <fcppt/math/size_constant.hpp>
#include <fcppt/math/size_type.hpp>
#include <fcppt/range/size.hpp>
#endif

#include <cstdint>
#include <deque>
#include <iterator>
#include <limits>
#include <list>
#include <set>
#include <string>
#include <type_traits>
#include <vector>

namespace
{
using ll = long long;
using ull = unsigned long long;
constexpr int CAP = 400;
constexpr unsigned CALL_SECONDS = 30; // watchdog of one driven call (SIGALRM -> "hang", exit 68)

// every driven call has a number (in the order of the driver); `record OUT tier SKIP` does not execute
// the first SKIP calls: the check restarts the unit behind a call that crashed / hung
long g_call = 0, g_skip = 0;
bool want()
{
  bool const w = g_call >= g_skip;
  ++g_call;
  if (w) alarm(CALL_SECONDS);
  return w;
}

ll sat(ull v) { return v >= 2147483647ULL ? 2147483647LL : static_cast<ll>(v); }
std::string jl(std::vector<ll> const &v) { return vj::arr(v); }
std::string b2s(bool b) { return b ? "true" : "false"; }
template <typename T>
struct tg
{
};

#if defined(C18_U_INT)
FCPPT_MAKE_STRONG_TYPEDEF(std::int8_t, st_i8);
FCPPT_MAKE_STRONG_TYPEDEF(std::uint8_t, st_u8);
FCPPT_MAKE_STRONG_TYPEDEF(int, st_i32);
FCPPT_MAKE_STRONG_TYPEDEF(std::int16_t, st_i16);
FCPPT_MAKE_STRONG_TYPEDEF(std::uint16_t, st_u16);

template <typename T>
struct tinfo;
#define TINFO(type, nm, stv, base) \
  template <> \
  struct tinfo<type> \
  { \
    static char const *name() { return nm; } \
    static constexpr bool st = stv; \
    using under = base; \
    static under get(type const &v) { return under(v); } \
    static type make(ll v) { return type(static_cast<base>(v)); } \
  }
TINFO(std::int8_t, "i8", false, std::int8_t);
TINFO(std::uint8_t, "u8", false, std::uint8_t);
TINFO(std::int16_t, "i16", false, std::int16_t);
TINFO(std::uint16_t, "u16", false, std::uint16_t);
TINFO(int, "i32", false, int);
#undef TINFO
#define TINFO_ST(type, nm, base) \
  template <> \
  struct tinfo<type> \
  { \
    static char const *name() { return nm; } \
    static constexpr bool st = true; \
    using under = base; \
    static under get(type const &v) { return v.get(); } \
    static type make(ll v) { return type(static_cast<base>(v)); } \
  }
TINFO_ST(st_i8, "i8", std::int8_t);
TINFO_ST(st_u8, "u8", std::uint8_t);
TINFO_ST(st_i32, "i32", int);
TINFO_ST(st_i16, "i16", std::int16_t);
TINFO_ST(st_u16, "u16", std::uint16_t);
#undef TINFO_ST

// ------------------------------------------------------------------ integer ranges (values fit TLC)
// second walk of a range through the operators fcppt::iterator::base derives: `*it++` (post-increment,
// the returned copy is dereferenced) and `!(it == end)`
template <typename R, typename G>
std::vector<ll> walk_post(R const &r, G const &get)
{
  std::vector<ll> seq2;
  auto const end = r.end();
  for (auto it = r.begin(); !(it == end);)
  {
    if (seq2.size() == CAP) break;
    auto const old = it++;
    seq2.push_back(get(*old));
  }
  return seq2;
}

template <typename T>
void op_int_range(ll b, ll e, bool mk, bool w2)
{
  if (!want()) return;
  using I = tinfo<T>;
  vj::begin_call(vj::J().kv("f", "int_range").kv("T", I::name()).kv("st", I::st).kv("via", mk ? "mk" : "ctor").kv("b", b).kv("e", e).s);
  fcppt::int_range<T> const r = mk ? fcppt::make_int_range(I::make(b), I::make(e)) : fcppt::int_range<T>(I::make(b), I::make(e));
  std::vector<ll> seq;
  bool capped = false;
  auto const end = r.end();
  for (auto it = r.begin(); it != end; ++it)
  {
    if (seq.size() == CAP)
    {
      capped = true;
      break;
    }
    seq.push_back(static_cast<ll>(I::get(*it)));
  }
  std::vector<ll> seq2;
  if (w2) seq2 = walk_post(r, [](T const &x) { return static_cast<ll>(I::get(x)); });
  ll const size = static_cast<ll>(r.size());
  // fcppt::range::size (std::distance in the iterator's difference type = Int): driven (observed-only unit)
  // for plain signed types when the number of elements fits the type
  ll rsize = -1;
#if defined(C18_RSIZE)
  if constexpr (std::is_signed_v<T> && !I::st)
  {
    ll const cnt = e > b ? e - b : 0;
    if (cnt <= static_cast<ll>(std::numeric_limits<T>::max())) rsize = static_cast<ll>(fcppt::range::size(r));
  }
#endif
  vj::end_call(",\"seq\":" + jl(seq) + ",\"capped\":" + b2s(capped) + ",\"w2\":" + b2s(w2) + ",\"seq2\":" + jl(seq2) + ",\"size\":" + std::to_string(size) +
               ",\"rsize\":" + std::to_string(rsize) + "}");
}

template <typename T>
void op_int_range_count(ll n)
{
  if (!want()) return;
  using I = tinfo<T>;
  vj::begin_call(vj::J().kv("f", "int_range_count").kv("T", I::name()).kv("st", I::st).kv("n", n).s);
  fcppt::int_range<T> const r = fcppt::make_int_range_count(I::make(n));
  std::vector<ll> seq;
  bool capped = false;
  for (auto it = r.begin(); it != r.end(); ++it)
  {
    if (seq.size() == CAP)
    {
      capped = true;
      break;
    }
    seq.push_back(static_cast<ll>(I::get(*it)));
  }
  std::vector<ll> const seq2 = walk_post(r, [](T const &x) { return static_cast<ll>(I::get(x)); });
  ll const size = static_cast<ll>(r.size());
  vj::end_call(",\"seq\":" + jl(seq) + ",\"capped\":" + b2s(capped) + ",\"seq2\":" + jl(seq2) + ",\"size\":" + std::to_string(size) + "}");
}

#if defined(C18_RSIZE)
// small ranges of int, additionally through fcppt::range::size
void op_int_range_rsize(ll b, ll e)
{
  if (!want()) return;
  vj::begin_call(vj::J().kv("f", "int_range_rsize").kv("T", "i32").kv("b", b).kv("e", e).s);
  auto const r = fcppt::make_int_range(static_cast<int>(b), static_cast<int>(e));
  std::vector<ll> seq;
  for (int const x : r)
  {
    if (seq.size() == CAP) break;
    seq.push_back(x);
  }
  vj::end_call(",\"seq\":" + jl(seq) + ",\"size\":" + std::to_string(r.size()) + ",\"rsize\":" + std::to_string(sat(fcppt::range::size(r))) + "}");
}
#endif

// ------------------------------------------------------------------ wide types (limbs)
template <typename W>
std::string limbs(W v)
{
  using U = std::make_unsigned_t<W>;
  U u = static_cast<U>(static_cast<U>(v) - static_cast<U>(std::numeric_limits<W>::min()));
  int const n = sizeof(W) == 4 ? 3 : 5;
  std::string s = "[";
  for (int i = 0; i < n; ++i)
  {
    if (i) s += ',';
    s += std::to_string(static_cast<unsigned>(u & 0x7FFFU));
    u = static_cast<U>(u >> 15);
  }
  return s + "]";
}
template <typename W>
char const *wname();
template <>
char const *wname<int>() { return "i32"; }
template <>
char const *wname<unsigned>() { return "u32"; }
template <>
char const *wname<long>() { return "i64"; }
template <>
char const *wname<unsigned long>() { return "u64"; }

// the lattice of boundary values of a type, by index (so that a record can be replayed)
template <typename W>
std::vector<W> lattice()
{
  std::vector<W> v;
  W const mn = std::numeric_limits<W>::min(), mx = std::numeric_limits<W>::max();
  for (int i = 0; i < 4; ++i) v.push_back(static_cast<W>(mn + static_cast<W>(i)));
  if (std::is_signed_v<W>)
    for (int i = -3; i <= 3; ++i) v.push_back(static_cast<W>(i));
  else
    for (int i = 0; i < 4; ++i) v.push_back(static_cast<W>(mx / 2 + static_cast<W>(i)));
  for (int i = 3; i >= 0; --i) v.push_back(static_cast<W>(mx - static_cast<W>(i)));
  return v;
}

template <typename W>
void op_int_range_wide(int bi, int ei)
{
  if (!want()) return;
  auto const lat = lattice<W>();
  W const b = lat.at(static_cast<std::size_t>(bi)), e = lat.at(static_cast<std::size_t>(ei));
  vj::begin_call(vj::J().kv("f", "int_range_wide").kv("T", wname<W>()).kv("bi", bi).kv("ei", ei).raw("b", limbs(b)).raw("e", limbs(e)).s);
  auto const r = fcppt::make_int_range(b, e);
  std::string seq = "[";
  int n = 0;
  bool capped = false;
  for (auto it = r.begin(); it != r.end(); ++it)
  {
    if (n == CAP)
    {
      capped = true;
      break;
    }
    if (n) seq += ',';
    seq += limbs(*it);
    ++n;
  }
  seq += "]";
  std::string seq2 = "[";
  {
    int k = 0;
    auto const end = r.end();
    for (auto it = r.begin(); !(it == end) && k < CAP; ++k)
    {
      auto const old = it++;
      if (k) seq2 += ',';
      seq2 += limbs(*old);
    }
  }
  seq2 += "]";
  // size() of a non-empty range whose count does not fit the type is not constrained (and is a
  // signed overflow for int/long): the driver only drives short and empty/inverted ranges here
  ll const size = static_cast<ll>(r.size());
  vj::end_call(",\"seq\":" + seq + ",\"capped\":" + b2s(capped) + ",\"seq2\":" + seq2 + ",\"size\":" + std::to_string(size) + "}");
}
#endif // C18_U_INT

#if defined(C18_U_ENUM)
// ------------------------------------------------------------------ enum ranges
enum class e1
{
  a,
  fcppt_maximum = a
};
enum class e3
{
  a,
  b,
  c,
  fcppt_maximum = c
};
enum class e9 : std::uint8_t
{
  a,
  b,
  c,
  d,
  e,
  f,
  g,
  h,
  i,
  fcppt_maximum = i
};
enum class e5 : short
{
  a,
  b,
  c,
  d,
  e,
  fcppt_maximum = e
};

enum class e4 : signed char
{
  a,
  b,
  c,
  d,
  fcppt_maximum = d
};
enum class e6 : unsigned long long
{
  a,
  b,
  c,
  d,
  e,
  f,
  fcppt_maximum = f
};
enum class e2 : unsigned short
{
  a,
  b,
  fcppt_maximum = b
};

template <typename E>
char const *ename();
template <>
char const *ename<e4>() { return "e4"; }
template <>
char const *ename<e6>() { return "e6"; }
template <>
char const *ename<e2>() { return "e2"; }
template <>
char const *ename<e1>() { return "e1"; }
template <>
char const *ename<e3>() { return "e3"; }
template <>
char const *ename<e9>() { return "e9"; }
template <>
char const *ename<e5>() { return "e5"; }

template <typename E>
void op_enum_range(std::string const &via, ll s, ll e)
{
  if (!want()) return;
  ll const n = static_cast<ll>(E::fcppt_maximum) + 1;
  vj::begin_call(vj::J().kv("f", "enum_range").kv("E", ename<E>()).kv("n", n).kv("via", via).kv("s", s).kv("e", e).s);
  fcppt::enum_::range<E> const r = via == "all" ? fcppt::enum_::make_range<E>()
                                   : via == "start" ? fcppt::enum_::make_range_start(static_cast<E>(s))
                                                    : fcppt::enum_::make_range_start_end(static_cast<E>(s), static_cast<E>(e));
  std::vector<ll> seq;
  bool capped = false;
  for (auto it = r.begin(); it != r.end(); ++it)
  {
    if (seq.size() == CAP)
    {
      capped = true;
      break;
    }
    seq.push_back(static_cast<ll>(*it));
  }
  // second walk: `*it++` and `!(it == end)` (the operators fcppt::iterator::base derives)
  std::vector<ll> seq2;
  {
    auto const end = r.end();
    for (auto it = r.begin(); !(it == end) && seq2.size() < CAP;)
    {
      auto const old = it++;
      seq2.push_back(static_cast<ll>(*old));
    }
  }
  ll rsize = -1;
#if defined(C18_RSIZE)
  rsize = sat(static_cast<ull>(fcppt::range::size(r)));
#endif
  vj::end_call(",\"seq\":" + jl(seq) + ",\"capped\":" + b2s(capped) + ",\"seq2\":" + jl(seq2) + ",\"size\":" + std::to_string(sat(static_cast<ull>(r.size()))) +
               ",\"rsize\":" + std::to_string(rsize) + "}");
}

template <typename E>
void all_enum_ranges()
{
  ll const n = static_cast<ll>(E::fcppt_maximum) + 1;
  op_enum_range<E>("all", 0, n - 1);
  for (ll s = 0; s < n; ++s)
  {
    op_enum_range<E>("start", s, n - 1);
    for (ll e = s; e < n; ++e) op_enum_range<E>("start_end", s, e);
  }
}
#endif // C18_U_ENUM

#if defined(C18_U_CYCLIC)
// ------------------------------------------------------------------ cyclic iterator
constexpr int MARGIN = 30;
// Positions are logged as the index of the element the iterator stands on, relative to the first element
// of the boundary (from the container iterator inside, `get()`), resp. - for operator[] and operator-> -
// by the identity (address) of the element returned.
void op_cyclic(int len, int start, int n)
{
  if (!want()) return;
  vj::begin_call(vj::J().kv("f", "cyclic").kv("len", len).kv("start", start).kv("n", n).s);
  std::vector<int> cont;
  for (int i = 0; i < len + 2 * MARGIN; ++i) cont.push_back(1000 + i - MARGIN); // cont[MARGIN + k] = 1000 + k
  using cit = std::vector<int>::const_iterator;
  using cyc = fcppt::cyclic_iterator<cit>;
  cit const first = cont.begin() + MARGIN;
  cit const second = first + len;
  int const *const first_p = cont.data() + MARGIN;
  cyc const s0(first + start, cyc::boundary{first, second});
  auto const idx = [&](cyc const &c) { return static_cast<ll>(c.get() - first); };
  auto const pidx = [&](int const *p) { return static_cast<ll>(p - first_p); };
  cyc a(s0);
  a += n;
  cyc const p = s0 + n;
  cyc const np = n + s0;
  cyc m(s0);
  m -= n;
  cyc const mi = s0 - n;
  int const &subr = s0[n];
  ll const subi = pidx(&subr), subv = subr;
  ll const arrow = pidx(a.operator->()), arrow0 = pidx(s0.operator->());
  std::vector<ll> steps, vals;
  cyc w(s0);
  bool preself = true;
  for (int k = 0; k < (n < 0 ? -n : n); ++k)
  {
    cyc const &ret = n > 0 ? ++w : --w;
    preself = preself && &ret == &w;
    steps.push_back(idx(w));
    vals.push_back(*w);
  }
  // the same walk with post-increment / post-decrement: the positions of the returned (old) iterators
  std::vector<ll> olds;
  cyc w2(s0);
  for (int k = 0; k < (n < 0 ? -n : n); ++k)
  {
    cyc const old = n > 0 ? w2++ : w2--;
    olds.push_back(idx(old));
  }
  vj::end_call(",\"base\":1000,\"adv\":" + std::to_string(idx(a)) + ",\"advv\":" + std::to_string(*a) + ",\"plus\":" + std::to_string(idx(p)) +
               ",\"npa\":" + std::to_string(idx(np)) + ",\"sub\":" + std::to_string(idx(m)) + ",\"minus\":" + std::to_string(idx(mi)) +
               ",\"subi\":" + std::to_string(subi) + ",\"subv\":" + std::to_string(subv) + ",\"arrow\":" + std::to_string(arrow) +
               ",\"arrow0\":" + std::to_string(arrow0) + ",\"steps\":" + jl(steps) + ",\"stepv\":" + jl(vals) + ",\"preself\":" + b2s(preself) +
               ",\"olds\":" + jl(olds) + ",\"w2\":" + std::to_string(idx(w2)) + ",\"s0v\":" + std::to_string(*s0) + "}");
}

// cyclic_iterator over a bidirectional container iterator (std::list): |n| single steps with ++ / -- (pre and
// post); the boundary lies inside a longer list; a position is the index of the list node the iterator
// stands on relative to the first node of the boundary (-99: the end of the list)
void op_cyclic_list(int len, int start, int n)
{
  if (!want()) return;
  vj::begin_call(vj::J().kv("f", "cyclic_list").kv("len", len).kv("start", start).kv("n", n).s);
  constexpr int LM = 3;
  std::list<int> lst;
  for (int i = 0; i < len + 2 * LM; ++i) lst.push_back(1000 + i - LM);
  using lit = std::list<int>::const_iterator;
  using cyc = fcppt::cyclic_iterator<lit>;
  lit const first = std::next(lst.cbegin(), LM);
  lit const second = std::next(first, len);
  auto const idx = [&](cyc const &c) -> ll {
    ll k = 0;
    for (lit i = lst.cbegin(); i != lst.cend(); ++i, ++k)
      if (i == c.get()) return k - LM;
    return -99;
  };
  cyc const s0(std::next(first, start), cyc::boundary{first, second});
  std::vector<ll> steps, olds;
  cyc w(s0), w2(s0);
  for (int k = 0; k < (n < 0 ? -n : n); ++k)
  {
    if (n > 0)
      ++w;
    else
      --w;
    steps.push_back(idx(w));
    cyc const old = n > 0 ? w2++ : w2--;
    olds.push_back(idx(old));
  }
  vj::end_call(",\"steps\":" + jl(steps) + ",\"olds\":" + jl(olds) + ",\"w2\":" + std::to_string(idx(w2)) + ",\"eq\":" + b2s(w == w2) + ",\"ne\":" + b2s(w != w2) + "}");
}
#endif // C18_U_CYCLIC

#if defined(C18_U_GRID)
// ------------------------------------------------------------------ spiral range, neighbours
template <typename T>
char const *pname();
template <>
char const *pname<int>() { return "i32"; }
template <>
char const *pname<long>() { return "i64"; }
template <>
char const *pname<unsigned>() { return "u32"; }
template <>
char const *pname<unsigned long>() { return "u64"; }

template <typename P>
std::string jp(P const &p)
{
  return "[" + std::to_string(static_cast<ll>(p.x())) + "," + std::to_string(static_cast<ll>(p.y())) + "]";
}

template <typename T>
void op_spiral(ll ox, ll oy, ll d)
{
  if (!want()) return;
  using pos = fcppt::container::grid::pos<T, 2>;
  vj::begin_call(vj::J().kv("f", "spiral").kv("T", pname<T>()).raw("o", "[" + std::to_string(ox) + "," + std::to_string(oy) + "]").kv("d", d).s);
  auto const r = fcppt::container::grid::make_spiral_range(pos(static_cast<T>(ox), static_cast<T>(oy)), static_cast<T>(d));
  std::string vis = "[";
  int n = 0;
  bool capped = false;
  for (auto it = r.begin(); it != r.end(); ++it)
  {
    if (n == CAP)
    {
      capped = true;
      break;
    }
    if (n) vis += ',';
    vis += jp(*it);
    ++n;
  }
  // second walk: `*it++` and `!(it == end)` (the operators fcppt::iterator::base derives)
  std::string vis2 = "[";
  {
    int k = 0;
    auto const end = r.end();
    for (auto it = r.begin(); !(it == end) && k < CAP; ++k)
    {
      auto const old = it++;
      if (k) vis2 += ',';
      vis2 += jp(*old);
    }
  }
  ll rsize = -1;
#if defined(C18_RSIZE)
  rsize = capped ? -1 : sat(static_cast<ull>(fcppt::range::size(r)));
#endif
  vj::end_call(",\"vis\":" + vis + "],\"capped\":" + b2s(capped) + ",\"vis2\":" + vis2 + "],\"rsize\":" + std::to_string(rsize) + "}");
}

template <typename T>
void op_neighbors(std::string const &which, ll x, ll y)
{
  if (!want()) return;
  using pos = fcppt::container::grid::pos<T, 2>;
  vj::begin_call(vj::J().kv("f", which).kv("T", pname<T>()).raw("p", "[" + std::to_string(x) + "," + std::to_string(y) + "]").s);
  std::string r = "[";
  pos const p(static_cast<T>(x), static_cast<T>(y));
  bool first = true;
  if (which == "moore")
    for (auto const &q : fcppt::container::grid::moore_neighbors(p))
    {
      if (!first) r += ',';
      first = false;
      r += jp(q);
    }
  else
    for (auto const &q : fcppt::container::grid::neumann_neighbors(p))
    {
      if (!first) r += ',';
      first = false;
      r += jp(q);
    }
  vj::end_call(",\"r\":" + r + "]}");
}
#endif // C18_U_GRID

#if defined(C18_U_ITER)
// ------------------------------------------------------------------ iterator::range, adapt_range, range::size
void op_iter_range(int len, int i, int j, std::string const &via)
{
  if (!want()) return;
  vj::begin_call(vj::J().kv("f", "iter_range").kv("len", len).kv("i", i).kv("j", j).kv("via", via).s);
  std::vector<int> cont;
  for (int k = 0; k < len; ++k) cont.push_back(10 * k + 3);
  std::vector<int> const &ccont = cont;
  std::vector<ll> seq;
  ll rsize = -1;
  auto const walk = [&seq, &rsize](auto const &r) {
    for (auto it = r.begin(); it != r.end(); ++it)
    {
      if (seq.size() == CAP) break;
      seq.push_back(*it);
    }
#if defined(C18_RSIZE)
    rsize = sat(static_cast<ull>(fcppt::range::size(r)));
#endif
  };
  if (via == "ctor")
    walk(fcppt::iterator::range<std::vector<int>::iterator>(cont.begin() + i, cont.begin() + j));
  else if (via == "make_range")
    walk(fcppt::iterator::make_range(ccont.begin() + i, ccont.begin() + j));
  else if (via == "make_range_list")
  {
    std::list<int> const lst(cont.begin(), cont.end());
    walk(fcppt::iterator::make_range(std::next(lst.begin(), i), std::next(lst.begin(), j)));
  }
  else if (via == "make_range_deque")
  {
    std::deque<int> dq(cont.begin(), cont.end());
    walk(fcppt::iterator::make_range(dq.begin() + i, dq.begin() + j));
  }
  else if (via == "adapt_list")
  {
    std::list<int> lst(cont.begin(), cont.end());
    walk(fcppt::iterator::adapt_range(lst));
  }
  else if (via == "adapt_deque")
  {
    std::deque<int> const dq(cont.begin(), cont.end());
    walk(fcppt::iterator::adapt_range(dq));
  }
  else if (via == "adapt")
    walk(fcppt::iterator::adapt_range(cont));
  else
    walk(fcppt::iterator::adapt_range(ccont));
  std::vector<ll> c(cont.begin(), cont.end());
  vj::end_call(",\"cont\":" + jl(c) + ",\"seq\":" + jl(seq) + ",\"rsize\":" + std::to_string(rsize) + "}");
}
#endif // C18_U_ITER

#if defined(C18_U_OBS)
template <fcppt::math::size_type S, fcppt::math::size_type E>
void op_static_range()
{
  if (!want()) return;
  vj::begin_call(vj::J().kv("f", "static_int_range").kv("s", static_cast<ll>(S)).kv("e", static_cast<ll>(E)).s);
  std::vector<ll> seq;
  fcppt::algorithm::loop(
      fcppt::math::int_range<S, E>{},
      [&seq]<fcppt::math::size_type I>(fcppt::tag<fcppt::math::size_constant<I>>) { seq.push_back(static_cast<ll>(I)); });
  vj::end_call(",\"seq\":" + jl(seq) + "}");
}
template <fcppt::math::size_type C>
void op_static_count()
{
  if (!want()) return;
  vj::begin_call(vj::J().kv("f", "static_int_range").kv("s", 0).kv("e", static_cast<ll>(C)).s);
  std::vector<ll> seq;
  fcppt::algorithm::loop(
      fcppt::math::int_range_count<C>{},
      [&seq]<fcppt::math::size_type I>(fcppt::tag<fcppt::math::size_constant<I>>) { seq.push_back(static_cast<ll>(I)); });
  vj::end_call(",\"seq\":" + jl(seq) + "}");
}
void static_range_by(ll s, ll e)
{
#define SR(a, b) \
  if (s == a && e == b) return op_static_range<a, b>()
  SR(0, 0);
  SR(0, 1);
  SR(0, 4);
  SR(2, 5);
  SR(3, 3);
  SR(1, 2);
  SR(4, 9);
#undef SR
  throw std::runtime_error("static range not instantiated");
}
void static_count_by(ll c)
{
  switch (c)
  {
  case 0: return op_static_count<0>();
  case 1: return op_static_count<1>();
  case 2: return op_static_count<2>();
  case 3: return op_static_count<3>();
  case 7: return op_static_count<7>();
  default: throw std::runtime_error("static count not instantiated");
  }
}
#endif // C18_U_OBS

#if defined(C18_U_CYCLIC)
// ------------------------------------------------------------------ extension: iterator::base operations
// random-access operations of cyclic_iterator (through fcppt::iterator::base): two iterators a (at
// position i) and b (at position j) of the same boundary and a distance n
void op_cyclic_ra(int len, int i, int j, int n)
{
  if (!want()) return;
  vj::begin_call(vj::J().kv("f", "cyclic_ra").kv("len", len).kv("i", i).kv("j", j).kv("n", n).s);
  std::vector<int> cont;
  for (int k = 0; k < len + 2 * MARGIN; ++k) cont.push_back(1000 + k - MARGIN);
  using cit = std::vector<int>::const_iterator;
  using cyc = fcppt::cyclic_iterator<cit>;
  cit const first = cont.begin() + MARGIN;
  int const *const first_p = cont.data() + MARGIN;
  cyc::boundary const bd{first, first + len};
  cyc const a(first + i, bd), b(first + j, bd);
  auto const idx = [&](cyc const &c) { return static_cast<ll>(c.get() - first); };
  cyc const apn = a + n;
  cyc const back = apn - n;
  cyc const npa = n + a;
  auto const dba = b - a;
  auto const dab = a - b;
  cyc const reach = a + dba;
  cyc pre(a);
  cyc const &preref = ++pre;
  cyc post(a);
  cyc const postold = post++;
  cyc dec(a);
  cyc const decold = dec--;
  cyc pdec(a);
  cyc const &pdecref = --pdec;
  cyc s1(a), s2(b);
  s1.swap(s2);
  int const &subr = a[n];
  vj::J o;
  o.kv("base", 1000).kv("apn", idx(apn)).kv("back", idx(back)).kv("npa", idx(npa)).kv("dba", static_cast<ll>(dba)).kv("dab", static_cast<ll>(dab))
      .kv("reach", idx(reach)).kv("sub", static_cast<ll>(subr)).kv("subi", static_cast<ll>(&subr - first_p)).kv("deref", static_cast<ll>(*(a + n)))
      .kv("arrow", static_cast<ll>(apn.operator->() - first_p)).kv("lt", a < b).kv("gt", a > b).kv("le", a <= b)
      .kv("ge", a >= b).kv("eq", a == b).kv("ne", a != b).kv("pre", idx(pre)).kv("preret", idx(preref)).kv("post", idx(post)).kv("postold", idx(postold))
      .kv("dec", idx(dec)).kv("decold", idx(decold)).kv("pdec", idx(pdec)).kv("pdecret", idx(pdecref)).kv("swa", idx(s1)).kv("swb", idx(s2));
  vj::end_call("," + o.s.substr(1) + "}");
}
#endif

#if defined(C18_U_OBS)
// input-iterator operations of int_iterator<T> (value v) and enum_::iterator<E>
template <typename T>
void op_int_iter(ll v, ll w)
{
  if (!want()) return;
  using I = tinfo<T>;
  using it_t = fcppt::int_iterator<T>;
  vj::begin_call(vj::J().kv("f", "int_iter").kv("T", I::name()).kv("st", I::st).kv("v", v).kv("w", w).s);
  it_t const a(I::make(v)), b(I::make(w));
  it_t pre(a);
  it_t const &preref = ++pre;
  it_t post(a);
  it_t const postold = post++;
  it_t s1(a), s2(b);
  s1.swap(s2);
  vj::J o;
  o.kv("deref", static_cast<ll>(I::get(*a))).kv("pre", static_cast<ll>(I::get(*pre))).kv("preret", static_cast<ll>(I::get(*preref)))
      .kv("post", static_cast<ll>(I::get(*post))).kv("postold", static_cast<ll>(I::get(*postold))).kv("eq", a == b).kv("ne", a != b)
      .kv("swa", static_cast<ll>(I::get(*s1))).kv("swb", static_cast<ll>(I::get(*s2)));
  vj::end_call("," + o.s.substr(1) + "}");
}

template <typename E>
void op_enum_iter(ll v, ll w)
{
  if (!want()) return;
  using it_t = fcppt::enum_::iterator<E>;
  using sz = typename it_t::size_type;
  ll const n = static_cast<ll>(E::fcppt_maximum) + 1;
  vj::begin_call(vj::J().kv("f", "enum_iter").kv("E", ename<E>()).kv("n", n).kv("v", v).kv("w", w).s);
  it_t const a(static_cast<sz>(v)), b(static_cast<sz>(w));
  it_t pre(a);
  ++pre;
  it_t post(a);
  it_t const postold = post++;
  vj::J o;
  o.kv("deref", static_cast<ll>(*a)).kv("postold", static_cast<ll>(*postold)).kv("eq", a == b).kv("ne", a != b)
      .kv("pre_is_post", pre == post);
  // the incremented iterator is only dereferenced while it still denotes an enumerator
  o.kv("pre", v + 1 < n ? static_cast<ll>(*pre) : -1);
  vj::end_call("," + o.s.substr(1) + "}");
}
template <typename E>
void all_enum_iters()
{
  ll const n = static_cast<ll>(E::fcppt_maximum) + 1;
  for (ll v = 0; v < n; ++v)
    for (ll w = 0; w < n; ++w) op_enum_iter<E>(v, w);
}
#endif

// ------------------------------------------------------------------ enumeration
#if defined(C18_U_INT)
template <typename T>
std::vector<ll> edge_values()
{
  using U = typename tinfo<T>::under;
  ll const mn = std::numeric_limits<U>::min(), mx = std::numeric_limits<U>::max();
  std::set<ll> s;
  for (ll i = 0; i < 4; ++i)
  {
    s.insert(mn + i);
    s.insert(mx - i);
    s.insert(mx / 2 + i);
    if (mn < 0)
    {
      s.insert(i);
      s.insert(-i);
    }
  }
  return std::vector<ll>(s.begin(), s.end());
}

// every (b, e) of the edge lattice that is empty/inverted or at most 8 long
template <typename T>
void edge_ranges()
{
  auto const v = edge_values<T>();
  bool mk = false;
  for (ll b : v)
    for (ll e : v)
      if (e - b <= 8)
      {
        op_int_range<T>(b, e, mk, true);
        mk = !mk;
      }
  for (ll n : v)
    if (n <= 8) op_int_range_count<T>(n);
}

template <typename T>
void full_ranges(int stride)
{
  using U = typename tinfo<T>::under;
  ll const mn = std::numeric_limits<U>::min(), mx = std::numeric_limits<U>::max();
  int k = 0;
  for (ll b = mn; b <= mx; ++b)
    for (ll e = mn; e <= mx; ++e, ++k)
      if (stride == 1 || k % stride == 0 || (e - b <= 2 && b - e <= 2) || b == mn || e == mx || b == mx || e == mn)
        op_int_range<T>(b, e, (k & 1) != 0, k % 5 == 0 || (e - b <= 2 && b - e <= 2) || e == mx);
  for (ll n = mn; n <= mx; ++n) op_int_range_count<T>(n);
}

template <typename W>
void wide_ranges()
{
  auto const lat = lattice<W>();
  for (std::size_t bi = 0; bi < lat.size(); ++bi)
    for (std::size_t ei = 0; ei < lat.size(); ++ei)
    {
      W const b = lat[bi], e = lat[ei];
      // only empty / inverted ranges and ranges of at most 8 elements (the others cannot be walked,
      // and size() of a range whose count does not fit the type is not constrained)
      if (e <= b || static_cast<std::make_unsigned_t<W>>(e) - static_cast<std::make_unsigned_t<W>>(b) <= 8U)
        op_int_range_wide<W>(static_cast<int>(bi), static_cast<int>(ei));
    }
}
#endif

void record(bool thorough)
{
  (void)thorough;
#if defined(C18_U_OBS)
  // observed only (outside the statement of C18): fcppt::range::size on every kind of range, math::int_range,
  // the iterators taken by themselves
  for (ll b = -128; b <= 127; b += 15)
    for (ll e = -128; e <= 127; e += 17) op_int_range<std::int8_t>(b, e, true, false);
  edge_ranges<std::int16_t>();
  edge_ranges<int>();
  for (ll b = -4; b <= 4; ++b)
    for (ll e = -4; e <= 4; ++e) op_int_range_rsize(b, e);
  all_enum_ranges<e3>();
  all_enum_ranges<e9>();
  all_enum_ranges<e6>();
  for (ll d = 0; d <= 4; ++d)
  {
    op_spiral<int>(-3, 2, d);
    op_spiral<long>(5, -7, d);
  }
  for (int len = 0; len <= 4; ++len)
  {
    for (int i = 0; i <= len; ++i)
      for (int j = i; j <= len; ++j)
      {
        op_iter_range(len, i, j, "make_range");
        op_iter_range(len, i, j, "make_range_list");
      }
    op_iter_range(len, 0, len, "adapt_list");
    op_iter_range(len, 0, len, "adapt");
  }
  for (ll c : {0, 1, 2, 3, 7}) static_count_by(c);
  ll const sr[][2] = {{0, 0}, {0, 1}, {0, 4}, {2, 5}, {3, 3}, {1, 2}, {4, 9}};
  for (auto const &p : sr) static_range_by(p[0], p[1]);
  for (ll v : {-128, -127, -1, 0, 1, 5, 125, 126})
    for (ll w : {-128, 0, 5, 126, 127})
    {
      op_int_iter<std::int8_t>(v, w);
      op_int_iter<st_i8>(v, w);
    }
  for (ll v : {0, 1, 5, 200, 253, 254})
    for (ll w : {0, 5, 254, 255})
    {
      op_int_iter<std::uint8_t>(v, w);
      op_int_iter<st_u8>(v, w);
      op_int_iter<int>(v * 1000, w * 1000);
      op_int_iter<st_i16>(v, w);
    }
  all_enum_iters<e1>();
  all_enum_iters<e3>();
  all_enum_iters<e9>();
  all_enum_iters<e4>();
  all_enum_iters<e6>();
#else
#if defined(C18_U_INT)
  // integer ranges: the small sections first (a crash in the long exhaustive part does not hide them)
  edge_ranges<std::int16_t>();
  edge_ranges<std::uint16_t>();
  edge_ranges<int>();
  edge_ranges<st_i32>();
  edge_ranges<st_i16>();
  edge_ranges<st_u16>();
  wide_ranges<int>();
  wide_ranges<unsigned>();
  wide_ranges<long>();
  wide_ranges<unsigned long>();
  full_ranges<std::int8_t>(1);
  full_ranges<std::uint8_t>(1);
  full_ranges<st_i8>(thorough ? 1 : 7);
  full_ranges<st_u8>(thorough ? 1 : 7);
#endif
#if defined(C18_U_ENUM)
  all_enum_ranges<e1>();
  all_enum_ranges<e3>();
  all_enum_ranges<e9>();
  all_enum_ranges<e5>();
  all_enum_ranges<e4>();
  all_enum_ranges<e6>();
  all_enum_ranges<e2>();
#endif
#if defined(C18_U_CYCLIC)
  for (int len = 1; len <= 6; ++len)
    for (int start = 0; start < len; ++start)
      for (int n = -20; n <= 20; ++n) op_cyclic(len, start, n);
  for (int len = 1; len <= 6; ++len)
    for (int start = 0; start < len; ++start)
      for (int n = -20; n <= 20; ++n) op_cyclic_list(len, start, n);
  // extension: iterator::base operations
  for (int len = 1; len <= 6; ++len)
    for (int i = 0; i < len; ++i)
      for (int j = 0; j < len; ++j)
        for (int n = -7; n <= 7; ++n) op_cyclic_ra(len, i, j, n);
#endif
#if defined(C18_U_GRID)
  ll const origins[][2] = {{0, 0}, {-3, 2}, {5, -7}, {100, -100}, {-1, -1}};
  for (auto const &o : origins)
    for (ll d = 0; d <= (thorough ? 8 : 6); ++d)
    {
      op_spiral<int>(o[0], o[1], d);
      op_spiral<long>(o[0], o[1], d);
    }
  for (ll x = -2; x <= 2; ++x)
    for (ll y = -2; y <= 2; ++y)
    {
      op_neighbors<int>("moore", x, y);
      op_neighbors<int>("neumann", x, y);
      op_neighbors<long>("moore", x * 1000, y - 7);
      op_neighbors<long>("neumann", x * 1000, y - 7);
      op_neighbors<unsigned long>("moore", x + 3, y + 3);
      op_neighbors<unsigned>("neumann", x + 3, y + 3);
    }
#endif
#if defined(C18_U_ITER)
  for (int len = 0; len <= 5; ++len)
  {
    for (int i = 0; i <= len; ++i)
      for (int j = i; j <= len; ++j)
      {
        op_iter_range(len, i, j, "ctor");
        op_iter_range(len, i, j, "make_range");
        op_iter_range(len, i, j, "make_range_list");
        op_iter_range(len, i, j, "make_range_deque");
      }
    op_iter_range(len, 0, len, "adapt_list");
    op_iter_range(len, 0, len, "adapt_deque");
    op_iter_range(len, 0, len, "adapt");
    op_iter_range(len, 0, len, "adapt_const");
  }
#endif
#endif
}

#if defined(C18_U_INT)
template <typename F>
void by_type(std::string const &T, bool st, F const &f)
{
  if (T == "i8") return st ? f(tg<st_i8>{}) : f(tg<std::int8_t>{});
  if (T == "u8") return st ? f(tg<st_u8>{}) : f(tg<std::uint8_t>{});
  if (T == "i16") return st ? f(tg<st_i16>{}) : f(tg<std::int16_t>{});
  if (T == "u16") return st ? f(tg<st_u16>{}) : f(tg<std::uint16_t>{});
  if (T == "i32") return st ? f(tg<st_i32>{}) : f(tg<int>{});
  throw std::runtime_error("replay: unknown type " + T);
}
#endif

// replays the record if its kind belongs to this unit (the check passes the record to the right unit)
void replay(vj::V const &v)
{
  std::string const f = v.str("f");
#if defined(C18_U_INT)
  if (f == "int_range")
    return by_type(v.str("T"), v.at("st").b, [&]<typename T>(tg<T>) { op_int_range<T>(v.num("b"), v.num("e"), v.str("via") == "mk", true); });
  if (f == "int_range_count") return by_type(v.str("T"), v.at("st").b, [&]<typename T>(tg<T>) { op_int_range_count<T>(v.num("n")); });
  if (f == "int_range_wide")
  {
    std::string const T = v.str("T");
    int const bi = static_cast<int>(v.num("bi")), ei = static_cast<int>(v.num("ei"));
    if (T == "i32") return op_int_range_wide<int>(bi, ei);
    if (T == "u32") return op_int_range_wide<unsigned>(bi, ei);
    if (T == "i64") return op_int_range_wide<long>(bi, ei);
    return op_int_range_wide<unsigned long>(bi, ei);
  }
#endif
#if defined(C18_U_ENUM)
  if (f == "enum_range")
  {
    std::string const E = v.str("E");
    if (E == "e1") return op_enum_range<e1>(v.str("via"), v.num("s"), v.num("e"));
    if (E == "e3") return op_enum_range<e3>(v.str("via"), v.num("s"), v.num("e"));
    if (E == "e9") return op_enum_range<e9>(v.str("via"), v.num("s"), v.num("e"));
    if (E == "e4") return op_enum_range<e4>(v.str("via"), v.num("s"), v.num("e"));
    if (E == "e6") return op_enum_range<e6>(v.str("via"), v.num("s"), v.num("e"));
    if (E == "e2") return op_enum_range<e2>(v.str("via"), v.num("s"), v.num("e"));
    return op_enum_range<e5>(v.str("via"), v.num("s"), v.num("e"));
  }
#endif
#if defined(C18_U_CYCLIC)
  if (f == "cyclic_ra")
    return op_cyclic_ra(static_cast<int>(v.num("len")), static_cast<int>(v.num("i")), static_cast<int>(v.num("j")), static_cast<int>(v.num("n")));
  if (f == "cyclic") return op_cyclic(static_cast<int>(v.num("len")), static_cast<int>(v.num("start")), static_cast<int>(v.num("n")));
  if (f == "cyclic_list") return op_cyclic_list(static_cast<int>(v.num("len")), static_cast<int>(v.num("start")), static_cast<int>(v.num("n")));
#endif
#if defined(C18_U_GRID)
  if (f == "spiral")
  {
    auto const o = v.nums("o");
    if (v.str("T") == "i32") return op_spiral<int>(o.at(0), o.at(1), v.num("d"));
    return op_spiral<long>(o.at(0), o.at(1), v.num("d"));
  }
  if (f == "moore" || f == "neumann")
  {
    auto const p = v.nums("p");
    std::string const T = v.str("T");
    if (T == "i32") return op_neighbors<int>(f, p.at(0), p.at(1));
    if (T == "i64") return op_neighbors<long>(f, p.at(0), p.at(1));
    if (T == "u32") return op_neighbors<unsigned>(f, p.at(0), p.at(1));
    return op_neighbors<unsigned long>(f, p.at(0), p.at(1));
  }
#endif
#if defined(C18_U_ITER)
  if (f == "iter_range") return op_iter_range(static_cast<int>(v.num("len")), static_cast<int>(v.num("i")), static_cast<int>(v.num("j")), v.str("via"));
#endif
#if defined(C18_U_OBS)
  if (f == "int_range_rsize") return op_int_range_rsize(v.num("b"), v.num("e"));
  if (f == "int_iter") return by_type(v.str("T"), v.at("st").b, [&]<typename T>(tg<T>) { op_int_iter<T>(v.num("v"), v.num("w")); });
  if (f == "enum_iter")
  {
    std::string const E = v.str("E");
    if (E == "e1") return op_enum_iter<e1>(v.num("v"), v.num("w"));
    if (E == "e3") return op_enum_iter<e3>(v.num("v"), v.num("w"));
    if (E == "e9") return op_enum_iter<e9>(v.num("v"), v.num("w"));
    if (E == "e4") return op_enum_iter<e4>(v.num("v"), v.num("w"));
    return op_enum_iter<e6>(v.num("v"), v.num("w"));
  }
  if (f == "static_int_range")
  {
    if (v.num("s") == 0 && (v.num("e") == 2 || v.num("e") == 3 || v.num("e") == 7)) return static_count_by(v.num("e"));
    return static_range_by(v.num("s"), v.num("e"));
  }
#endif
  throw std::runtime_error("replay: record kind " + f + " does not belong to this unit");
}
}

int main(int argc, char **argv)
{
  if (argc < 4)
  {
    std::fprintf(stderr, "usage: c18_ranges record OUT tier [SKIP] | replay RECORD OUT\n");
    return 3;
  }
  std::string const mode = argv[1];
  alarm(CALL_SECONDS);
  if (mode == "record")
  {
    vj::open(argv[2]);
    g_skip = argc > 4 ? std::atol(argv[4]) : 0;
    record(std::string(argv[3]) == "thorough");
    alarm(CALL_SECONDS);
    vj::close();
    return 0;
  }
  if (mode == "replay")
  {
    auto const lines = vj::read_lines(argv[2]);
    vj::open(argv[3]);
    for (auto const &l : lines) replay(*vj::parse(l));
    vj::close();
    return 0;
  }
  return 3;
}
