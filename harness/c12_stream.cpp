// C12 conformance harness: drives fcppt::parse::detail::stream<Ch> (char and wchar_t) over
// std::basic_istringstream and records what it returned.  It contains no expected values; the
// judge is TLC (spec/StreamTrace.tla on top of spec/ParseStream.tla).
//
// One ndjson line per history:
//   {"f":"hist","ch":0|1,"sk":stream kind,"fa":failing offset,"via":0|1,"text":[code points],"ev":[event,...]}
//   via 0: the members of detail::stream<Ch>; via 1: the free functions fcppt::parse::get_char / get_position /
//   set_position on a fcppt::reference<basic_stream<Ch>> (what every parser uses)
//   A history cut short by a crash / sanitizer report / hang of the code under test is completed by the crash
//   handler: the events before the fatal call, then ,"crash":<code of the running call>,"what":"..."} - the
//   complete prefix is judged like any other history, checks/c12.py turns the crash field into the verdict.
//   All recorded integers are clamped to [-2^30, 2^30] (TLC integers are 32 bit).
//   stream kinds: 0 std::basic_istringstream, 1 std::basic_stringstream (in|out), 2 a stream buffer that
//   cannot seek, 3 a stream buffer that throws when the character at offset fa is requested
//   (kinds 1-3 and the events 7-10 below belong to the extension round: observed only, see StreamTrace.tla)
//   [7,i,j,eq] position i == position j; [8,i,line,col] location of position i via operator<<, parsed;
//   [9,r] get_char_error (r = -1: failure "EOF", -3: failure with another message);
//   [10,[w],res,line,col] string(w).parse
// events (integers only, see spec/ParseStream.tla):
//   [1,r]                  get_char: r >= 0 character, -1 nothing, -2 exception
//   [2,id,off,line,col]    get_position (id-th position handed out), [2,-2] exception
//   [3,id,x]               set_position(saved id): x = 0 returned, -2 exception
//   [4]                    badbit set on the underlying std stream by the driver
//   [5,c,res,line,col]     literal(c).parse(stream, epsilon)
//   [6,[cs],res,line,col,ch] char_set(cs).parse(stream, epsilon)
//                          res 1 success, 0 failure with "Line l:c: " prefix, -1 failure without
//                          location, -2 exception
// and one line per entry-point call
//   {"f":"entry","ch":..,"kind":5|6,"arg":[..],"text":[..],"res":..,"line":..,"col":..}
//   = phrase_parse_string(literal(arg[0]) | char_set(arg), text, *skipper::basic_char_set<Ch>{space_set<Ch>()})
//
// modes:
//   record OUT SEED MAXLEN NSEQ SHARD NSHARDS NLONG   all texts <= MAXLEN over {a,\n,space,tab}
//                                                     (those with index % NSHARDS == SHARD),
//                                                     NSEQ random call sequences each and type,
//                                                     NLONG random longer texts
//   scan OUT SEED MINLEN MAXLEN SHARD NSHARDS [CHMASK]  one compact fixed-shape history per text
//   replay SCRIPTS OUT                                TLC-generated / saved scripts
#include "common/vjson.hpp"

#include <fcppt/make_ref.hpp>
#include <fcppt/reference_to_base.hpp>
#include <fcppt/either/object_impl.hpp>
#include <fcppt/optional/object_impl.hpp>
// Units (checks/c12.py builds with -DC12_PARSERS -DC12_EXT; if that does not compile against the tree under
// test, without C12_EXT; if that does not compile either, the stream alone):
//   (always)     detail::stream<Ch>, get_char / get_position / set_position (members and free functions)
//   C12_PARSERS  literal / char_set on the stream, phrase_parse_string entry records
//   C12_EXT      extension round, observed only: position ==, location <<, get_char_error, string parser
#include <fcppt/parse/basic_stream_impl.hpp>
#include <fcppt/parse/get_char.hpp>
#include <fcppt/parse/get_position.hpp>
#include <fcppt/parse/set_position.hpp>
#include <fcppt/parse/location.hpp>
#include <fcppt/parse/position.hpp>
#include <fcppt/parse/detail/stream_impl.hpp>
#ifdef C12_PARSERS
#include <fcppt/parse/basic_char_set.hpp>
#include <fcppt/parse/basic_char_set_container.hpp>
#include <fcppt/parse/basic_literal.hpp>
#include <fcppt/parse/error.hpp>
#include <fcppt/parse/phrase_parse_string.hpp>
#include <fcppt/parse/space_set.hpp>
#include <fcppt/parse/skipper/basic_char_set.hpp>
#include <fcppt/parse/skipper/operators/repetition.hpp>
#include <fcppt/parse/skipper/epsilon.hpp>
#endif
#ifdef C12_EXT
#include <fcppt/parse/basic_string.hpp>
#include <fcppt/parse/get_char_error.hpp>
#include <fcppt/parse/location_output.hpp>
#include <fcppt/parse/position_equal.hpp>
#include <fcppt/parse/location_equal.hpp>
#include <fcppt/optional/comparison.hpp>
#include <fcppt/output_to_string.hpp>
#endif

#include <sys/time.h>
#include <unistd.h>
#if defined(__SANITIZE_ADDRESS__)
#include <sanitizer/common_interface_defs.h>
#endif
#include <ios>
#include <limits>
#include <memory>
#include <stdexcept>
#include <streambuf>
#include <istream>
#include <sstream>
#include <string>
#include <vector>

namespace
{
using cps_t = std::vector<long long>;

// ---- recorded integers: clamped, TLC integers are 32 bit (a garbage offset / line / column / character
// must reach the judge as a wrong value, not as a number TLC cannot read)
constexpr long long kClamp = 1LL << 30;
inline long long clampll(long long const v) { return v > kClamp ? kClamp : (v < -kClamp ? -kClamp : v); }
template <typename U>
inline long long clampu(U const v)
{
  return static_cast<unsigned long long>(v) > static_cast<unsigned long long>(kClamp) ? kClamp : static_cast<long long>(v);
}
template <typename Ch>
inline long long code_of(Ch const c) { return clampu(static_cast<std::make_unsigned_t<Ch>>(c)); }

// ---- crash / hang handling: the record under construction is completed from the handler
namespace crash
{
int mode = 0;                   // 0 no record open, 1 history (prefix flushed, events in *ev), 2 entry record
std::string const *ev = nullptr;
volatile int op = 0;            // event code of the call being executed (0: between calls)
char call[200] = "[0]";         // the call being executed as a script op (so that the replay can repeat it)
volatile sig_atomic_t done = 0;

void put(char const *s) { ssize_t r = ::write(vj::out_fd(), s, std::strlen(s)); (void)r; }

void complete(char const *what)
{
  if (done != 0) return;
  done = 1;
  if (mode == 1)
  {
    if (ev != nullptr) { ssize_t r = ::write(vj::out_fd(), ev->data(), ev->size()); (void)r; }
    char buf[96];
    std::snprintf(buf, sizeof buf, "],\"crash\":%d,\"what\":\"%s\",\"call\":", static_cast<int>(op), what);
    put(buf);
    put(op != 0 ? call : "[0]");
    put("}\n");
  }
  else if (mode == 2)
  {
    char buf[128];
    std::snprintf(buf, sizeof buf, ",\"res\":-3,\"line\":0,\"col\":0,\"crash\":%d,\"what\":\"%s\"}\n", static_cast<int>(op), what);
    put(buf);
  }
  else
    vj::crash_line(what, 0);
}
void on_signal(int const sig)
{
  bool const hang{sig == SIGALRM || sig == SIGPROF};
  complete(hang ? "hang" : "signal");
  _exit(hang ? 68 : 67);
}
void on_terminate()
{
  complete("terminate");
  _exit(67);
}
void on_sanitizer_death() { complete("sanitizer"); }

// watchdog, re-armed for every record: 10 s of CPU time (an endless loop burns CPU whatever the load of the
// machine is) and 300 s of wall time
void arm()
{
  itimerval t{};
  t.it_value.tv_sec = 10;
  ::setitimer(ITIMER_PROF, &t, nullptr);
  ::alarm(300);
}
// before the process winds down (leak check at exit): no watchdog any more
void disarm()
{
  itimerval t{};
  ::setitimer(ITIMER_PROF, &t, nullptr);
  ::alarm(0);
}
void install()
{
#if defined(__SANITIZE_ADDRESS__)
  __sanitizer_set_death_callback(on_sanitizer_death);
#endif
  std::set_terminate(on_terminate);
  for (int s : {SIGSEGV, SIGBUS, SIGFPE, SIGILL, SIGABRT, SIGALRM, SIGPROF}) std::signal(s, on_signal);
}
struct Scope   // one record under construction
{
  Scope(int const m, std::string const *e) { ev = e; op = 0; mode = m; arm(); }
  ~Scope() { mode = 0; ev = nullptr; op = 0; }
};
}

struct Op
{
  int k;          // 1..6
  long long a;    // id / literal character
  cps_t cs;       // char set
};

template <typename Ch>
std::basic_string<Ch> to_string(cps_t const &t)
{
  std::basic_string<Ch> s;
  for (long long c : t) s.push_back(static_cast<Ch>(c));
  return s;
}

// "Line l:c: " prefix of an error message -> res 0 + (l, c); otherwise res -1
template <typename Ch>
void location_prefix(std::basic_string<Ch> const &msg, int &res, long long &line, long long &col)
{
  res = -1;
  line = 0;
  col = 0;
  std::string n;
  for (Ch c : msg) n.push_back(static_cast<unsigned long>(c) < 128UL ? static_cast<char>(c) : '?');
  if (n.rfind("Line ", 0) != 0) return;
  std::size_t i = 5;
  long long l = 0, c = 0;
  std::size_t d = 0;
  while (i < n.size() && n[i] >= '0' && n[i] <= '9') { l = clampll(l * 10 + (n[i] - '0')); ++i; ++d; }
  if (d == 0 || i >= n.size() || n[i] != ':') return;
  ++i;
  d = 0;
  while (i < n.size() && n[i] >= '0' && n[i] <= '9') { c = clampll(c * 10 + (n[i] - '0')); ++i; ++d; }
  if (d == 0 || n.compare(i, 2, ": ") != 0) return;
  res = 0;
  line = l;
  col = c;
}

// kind 2: serves the text, cannot seek (the default seekoff / seekpos of basic_streambuf fail)
// kind 3: serves the first `failat` characters, then throws from underflow; can seek within them
template <typename Ch>
class test_buf : public std::basic_streambuf<Ch>
{
public:
  using traits = std::char_traits<Ch>;
  using pos_type = typename traits::pos_type;
  using off_type = typename traits::off_type;
  test_buf(std::basic_string<Ch> _data, long long const _failat, bool const _seekable)
      : data_{std::move(_data)}, failing_{_failat >= 0}, seekable_{_seekable}
  {
    std::size_t const n = failing_ ? static_cast<std::size_t>(_failat) : data_.size();
    this->setg(data_.data(), data_.data(), data_.data() + n);
  }

protected:
  typename traits::int_type underflow() override
  {
    if (failing_) throw std::runtime_error("read error");
    return traits::eof();
  }
  pos_type seekoff(off_type const _off, std::ios_base::seekdir const _dir, std::ios_base::openmode) override
  {
    if (!seekable_) return pos_type(off_type(-1));
    off_type const base = _dir == std::ios_base::beg ? 0 : _dir == std::ios_base::cur ? this->gptr() - this->eback() : this->egptr() - this->eback();
    return this->seekpos(pos_type(base + _off), std::ios_base::in);
  }
  pos_type seekpos(pos_type const _pos, std::ios_base::openmode) override
  {
    off_type const o = off_type(_pos);
    if (!seekable_ || o < 0 || o > this->egptr() - this->eback()) return pos_type(off_type(-1));
    this->setg(this->eback(), this->eback() + o, this->egptr());
    return _pos;
  }

private:
  std::basic_string<Ch> data_;
  bool failing_;
  bool seekable_;
};

template <typename Ch>
std::unique_ptr<std::basic_streambuf<Ch>> make_buf(int const kind, cps_t const &text, long long const failat)
{
  if (kind == 2) return std::make_unique<test_buf<Ch>>(to_string<Ch>(text), -1, false);
  if (kind == 3) return std::make_unique<test_buf<Ch>>(to_string<Ch>(text), failat, true);
  return nullptr;
}
template <typename Ch>
std::unique_ptr<std::basic_istream<Ch>> make_stream(int const kind, cps_t const &text, std::basic_streambuf<Ch> *const buf)
{
  if (kind == 0) return std::make_unique<std::basic_istringstream<Ch>>(to_string<Ch>(text));
  if (kind == 1) return std::make_unique<std::basic_stringstream<Ch>>(to_string<Ch>(text), std::ios_base::in | std::ios_base::out);
  return std::make_unique<std::basic_istream<Ch>>(buf);
}

template <typename Ch>
struct History
{
  std::unique_ptr<std::basic_streambuf<Ch>> buf;
  std::unique_ptr<std::basic_istream<Ch>> isp;
  std::basic_istream<Ch> &iss;
  fcppt::parse::detail::stream<Ch> st;
  std::vector<fcppt::parse::position<Ch>> saved;
  std::string ev;
  bool first = true;
  int via;   // 0: members of detail::stream<Ch>, 1: the free functions on a reference to basic_stream<Ch>

  explicit History(cps_t const &text, int const kind = 0, long long const failat = -1, int const _via = 0)
      : buf{make_buf<Ch>(kind, text, failat)},
        isp{make_stream<Ch>(kind, text, buf.get())},
        iss{*isp},
        st{fcppt::make_ref(iss)},
        via{_via}
  {
    iss.unsetf(std::ios_base::skipws);
  }

  fcppt::optional::object<Ch> do_get_char()
  {
    return via == 0 ? st.get_char() : fcppt::parse::get_char(ref());
  }
  fcppt::parse::position<Ch> do_get_position()
  {
    return via == 0 ? st.get_position() : fcppt::parse::get_position(ref());
  }
  void do_set_position(fcppt::parse::position<Ch> const &_p)
  {
    if (via == 0)
      st.set_position(_p);
    else
      fcppt::parse::set_position(ref(), _p);
  }

  fcppt::reference<fcppt::parse::basic_stream<Ch>> ref()
  {
    return fcppt::reference_to_base<fcppt::parse::basic_stream<Ch>>(fcppt::make_ref(st));
  }

  void emit(std::string const &e)
  {
    if (!first) ev += ',';
    first = false;
    ev += e;
  }

  // returns false if the op could not be driven (set_position without a saved position)
  bool run(Op const &op)
  {
    // any exception is recorded as "exception" (-2): the documented one (detail::exception<Ch>) and any other
    {
      std::string c{"[" + std::to_string(op.k)};
      if (op.k == 3 || op.k == 5 || op.k == 7 || op.k == 8) c += "," + std::to_string(op.a);
      if (op.k == 7 && !op.cs.empty()) c += "," + std::to_string(op.cs[0]);
      if (op.k == 6 || op.k == 10) c += "," + vj::arr(op.cs);
      c += "]";
      std::snprintf(crash::call, sizeof crash::call, "%s", c.c_str());
    }
    crash::op = op.k;
    switch (op.k)
    {
    case 1:
    {
      long long r = -1;
      try
      {
        fcppt::optional::object<Ch> const c{do_get_char()};
        if (c.has_value())
          r = code_of(c.get_unsafe());
      }
      catch (...)
      {
        r = -2;
      }
      emit("[1," + std::to_string(r) + "]");
      return true;
    }
    case 2:
    {
      try
      {
        fcppt::parse::position<Ch> const p{do_get_position()};
        long long const off = clampll(static_cast<long long>(std::streamoff(p.pos())));
        long long line = 0, col = 0;
        if (p.location().has_value())
        {
          line = clampu(p.location().get_unsafe().line().get());
          col = clampu(p.location().get_unsafe().column().get());
        }
        emit("[2," + std::to_string(saved.size()) + "," + std::to_string(off) + "," + std::to_string(line) + "," + std::to_string(col) + "]");
        saved.push_back(p);
      }
      catch (...)
      {
        emit("[2,-2]");
      }
      return true;
    }
    case 3:
    {
      if (op.a < 0 || static_cast<std::size_t>(op.a) >= saved.size()) return false;
      long long x = 0;
      try
      {
        do_set_position(saved[static_cast<std::size_t>(op.a)]);
      }
      catch (...)
      {
        x = -2;
      }
      emit("[3," + std::to_string(op.a) + "," + std::to_string(x) + "]");
      return true;
    }
    case 4:
      iss.setstate(std::ios_base::badbit);
      emit("[4]");
      return true;
#ifdef C12_PARSERS
    case 5:
    {
      int res = 0;
      long long line = 0, col = 0;
      try
      {
        fcppt::parse::basic_literal<Ch> const parser{static_cast<Ch>(op.a)};
        auto const result{parser.parse(ref(), fcppt::parse::skipper::epsilon{})};
        if (result.has_success())
          res = 1;
        else
          location_prefix(result.get_failure_unsafe().get(), res, line, col);
      }
      catch (...)
      {
        res = -2;
      }
      emit("[5," + std::to_string(op.a) + "," + std::to_string(res) + "," + std::to_string(line) + "," + std::to_string(col) + "]");
      return true;
    }
    case 6:
    {
      int res = 0;
      long long line = 0, col = 0, ch = 0;
      try
      {
        fcppt::parse::basic_char_set_container<Ch> set{};
        for (long long c : op.cs) set.insert(static_cast<Ch>(c));
        fcppt::parse::basic_char_set<Ch> const parser{std::move(set)};
        auto const result{parser.parse(ref(), fcppt::parse::skipper::epsilon{})};
        if (result.has_success())
        {
          res = 1;
          ch = code_of(result.get_success_unsafe());
        }
        else
          location_prefix(result.get_failure_unsafe().get(), res, line, col);
      }
      catch (...)
      {
        res = -2;
      }
      emit("[6," + vj::arr(op.cs) + "," + std::to_string(res) + "," + std::to_string(line) + "," + std::to_string(col) + "," + std::to_string(ch) + "]");
      return true;
    }
#endif
#ifdef C12_EXT
    case 7:
    {
      if (op.a < 0 || static_cast<std::size_t>(op.a) >= saved.size() || op.cs.size() != 1U || op.cs[0] < 0 ||
          static_cast<std::size_t>(op.cs[0]) >= saved.size())
        return false;
      bool const eq{saved[static_cast<std::size_t>(op.a)] == saved[static_cast<std::size_t>(op.cs[0])]};
      emit("[7," + std::to_string(op.a) + "," + std::to_string(op.cs[0]) + "," + (eq ? "1" : "0") + "]");
      return true;
    }
    case 8:
    {
      if (op.a < 0 || static_cast<std::size_t>(op.a) >= saved.size()) return false;
      long long line = -1, col = -1;
      auto const &loc{saved[static_cast<std::size_t>(op.a)].location()};
      if (loc.has_value())
      {
        // "Line " + output + ": " is how detail/expected.hpp composes the documented error prefix
        int res = 0;
        location_prefix(
            std::basic_string<Ch>{Ch('L'), Ch('i'), Ch('n'), Ch('e'), Ch(' ')} +
                fcppt::output_to_string<std::basic_string<Ch>>(loc.get_unsafe()) + std::basic_string<Ch>{Ch(':'), Ch(' ')},
            res, line, col);
        if (res != 0) line = col = -1;
      }
      emit("[8," + std::to_string(op.a) + "," + std::to_string(line) + "," + std::to_string(col) + "]");
      return true;
    }
    case 9:
    {
      long long r = -1;
      try
      {
        auto const res{fcppt::parse::get_char_error(ref())};
        if (res.has_success())
          r = code_of(res.get_success_unsafe());
        else
          r = res.get_failure_unsafe().get() == std::basic_string<Ch>{Ch('E'), Ch('O'), Ch('F')} ? -1 : -3;
      }
      catch (...)
      {
        r = -2;
      }
      emit("[9," + std::to_string(r) + "]");
      return true;
    }
    case 10:
    {
      int res = 0;
      long long line = 0, col = 0;
      try
      {
        fcppt::parse::basic_string<Ch> const parser{to_string<Ch>(op.cs)};
        auto const result{parser.parse(ref(), fcppt::parse::skipper::epsilon{})};
        if (result.has_success())
          res = 1;
        else
          location_prefix(result.get_failure_unsafe().get(), res, line, col);
      }
      catch (...)
      {
        res = -2;
      }
      emit("[10," + vj::arr(op.cs) + "," + std::to_string(res) + "," + std::to_string(line) + "," + std::to_string(col) + "]");
      return true;
    }
#endif
    default:
      return false;
    }
  }
};

std::string prefix(int ch, cps_t const &text, int const kind = 0, long long const failat = -1, int const via = 0)
{
  return "{\"f\":\"hist\",\"ch\":" + std::to_string(ch) + ",\"sk\":" + std::to_string(kind) + ",\"fa\":" + std::to_string(failat) +
         ",\"via\":" + std::to_string(via) + ",\"text\":" + vj::arr(text) + ",\"ev\":[";
}

// The documented whitespace skipper: repetition of char_set over space_set (what
// skipper::basic_space<Ch>() is defined as; basic_space<wchar_t>() itself does not compile
// because it names the char alias skipper::char_set - noted in docs/notes_C12.md).
#ifdef C12_PARSERS
template <typename Ch>
auto space_skipper()
{
  return *fcppt::parse::skipper::basic_char_set<Ch>{fcppt::parse::space_set<Ch>()};
}
#endif

cps_t const kSyms{97, 10, 32, 9};
std::vector<cps_t> const kSets{{97, 32}, {10, 9}, {120, 121}};
cps_t const kLits{97, 120, 10, 32};
long long const kLitX{120};
cps_t const kOddChar{0, 13, 255, 128, 65};
cps_t const kOddWide{0, 13, 255, 0x20AC, 0x10FFFF};

// a random call sequence, generated while it is executed (set_position needs a saved position)
std::vector<cps_t> const kWords{{97}, {97, 32}, {10, 97}, {32, 9}, {97, 97, 10}};

// ext = false: the calls of the property statement on a std::basic_istringstream (kind 0);
// ext = true (extension round, observed only): any stream kind and the calls 7-10 as well
template <typename Ch>
void random_history(int ch, cps_t const &text, vj::Rng &rng, bool const ext = false)
{
#ifndef C12_EXT
  if (ext) return;
#endif
  long long const n = static_cast<long long>(text.size());
  int const kind = ext ? static_cast<int>(rng.below(4)) : 0;
  long long const failat = kind == 3 ? rng.range(0, n) : -1;
  int const via = static_cast<int>(rng.below(2));
  vj::begin_call(prefix(ch, text, kind, failat, via));
  History<Ch> h{text, kind, failat, via};
  crash::Scope const scope{1, &h.ev};
  long long const len = rng.range(n + 2, 2 * n + 10);
  long long const bad_at = rng.below(8) == 0 ? rng.range(0, len - 1) : -1;
  for (long long i = 0; i < len; ++i)
  {
    Op op{1, 0, {}};
    if (i == bad_at)
      op.k = 4;
    else if (ext && rng.below(4) == 0)
    {
      std::uint64_t const w = rng.below(4);
      if (w == 0 && !h.saved.empty())
      {
        op.k = 7;
        op.a = static_cast<long long>(rng.below(h.saved.size()));
        op.cs = {static_cast<long long>(rng.below(h.saved.size()))};
      }
      else if (w == 1 && !h.saved.empty())
      {
        op.k = 8;
        op.a = static_cast<long long>(rng.below(h.saved.size()));
      }
      else if (w == 2)
      {
        op.k = 10;
        op.cs = kWords[rng.below(kWords.size())];
      }
      else
        op.k = 9;
    }
    else
    {
      std::uint64_t const w = rng.below(16);
      if (w <= 6 || w == 15)
        op.k = 1;
      else if (w <= 9 || (w <= 12 && h.saved.empty()))
        op.k = 2;
      else if (w <= 12)
      {
        op.k = 3;
        op.a = static_cast<long long>(rng.below(h.saved.size()));
      }
      else if (w == 13)
      {
        op.k = 5;
        op.a = kLits[rng.below(kLits.size())];
      }
      else
      {
        op.k = 6;
        op.cs = kSets[rng.below(kSets.size())];
      }
    }
    h.run(op);
  }
  crash::op = 0;
  vj::end_call(h.ev + "]}");
}

template <typename Ch>
void entry_records(int ch, cps_t const &text)
{
#ifdef C12_PARSERS
  auto const one = [&](int kind, cps_t const &arg) {
    crash::Scope const scope{2, nullptr};
    crash::op = kind;
    vj::begin_call("{\"f\":\"entry\",\"ch\":" + std::to_string(ch) + ",\"kind\":" + std::to_string(kind) +
                   ",\"arg\":" + vj::arr(arg) + ",\"text\":" + vj::arr(text));
    int res = 0;
    long long line = 0, col = 0;
    auto const handle = [&](auto const &result) {
      if (result.has_success())
        res = 1;
      else
        location_prefix(result.get_failure_unsafe().get(), res, line, col);
    };
    try
    {
    if (kind == 5)
      handle(fcppt::parse::phrase_parse_string(
          fcppt::parse::basic_literal<Ch>{static_cast<Ch>(arg[0])}, to_string<Ch>(text),
          space_skipper<Ch>()));
    else
    {
      fcppt::parse::basic_char_set_container<Ch> set{};
      for (long long c : arg) set.insert(static_cast<Ch>(c));
      handle(fcppt::parse::phrase_parse_string(
          fcppt::parse::basic_char_set<Ch>{std::move(set)}, to_string<Ch>(text),
          space_skipper<Ch>()));
    }
    }
    catch (...)
    {
      res = -2;   // the string entry point over a healthy std::basic_istringstream: no exception is documented
    }
    crash::op = 0;
    vj::end_call(",\"res\":" + std::to_string(res) + ",\"line\":" + std::to_string(line) + ",\"col\":" + std::to_string(col) + "}");
  };
  one(5, {120});
  one(5, {97});
  one(6, {120, 121});
#else
  (void)ch;
  (void)text;
#endif
}

// Compact record of one fixed-shape history (used for the exhaustive sweep over long texts):
//   get_position, (get_char, get_position)* until get_char returns nothing, get_char once more,
//   set_position(the k-th position obtained), (get_position, get_char)* until nothing again.
// {"f":"scan","ch":..,"text":[..],"k":k,"exc":0|1,"p1":[off,line,col,...],"c1":[..],"p2":[...],"c2":[..]}
template <typename Ch>
void scan_record(int ch, cps_t const &text, std::size_t k)
{
  // (22 million of these in the thorough tier: written without the per-call flush of begin_call; a
  // crash is reproduced from the harness arguments instead)
  std::string const head{"{\"f\":\"scan\",\"ch\":" + std::to_string(ch) + ",\"text\":" + vj::arr(text) + ",\"k\":" + std::to_string(k)};
  std::basic_istringstream<Ch> iss{to_string<Ch>(text)};
  iss.unsetf(std::ios_base::skipws);
  fcppt::parse::detail::stream<Ch> st{fcppt::reference_to_base<std::basic_istream<Ch>>(fcppt::make_ref(iss))};
  std::vector<fcppt::parse::position<Ch>> saved;
  cps_t p1, c1, p2, c2;
  int exc = 0;
  crash::Scope const scope{0, nullptr};
  std::size_t const bound{text.size() + 3U};   // a stream that never ends is cut off (and rejected by the judge)
  auto const pos = [&](cps_t &out, bool keep) {
    fcppt::parse::position<Ch> const p{st.get_position()};
    out.push_back(clampll(static_cast<long long>(std::streamoff(p.pos()))));
    out.push_back(p.location().has_value() ? clampu(p.location().get_unsafe().line().get()) : 0);
    out.push_back(p.location().has_value() ? clampu(p.location().get_unsafe().column().get()) : 0);
    if (keep) saved.push_back(p);
  };
  auto const get = [&](cps_t &out) {
    fcppt::optional::object<Ch> const c{st.get_char()};
    out.push_back(c.has_value() ? code_of(c.get_unsafe()) : -1);
    return c.has_value() && out.size() < bound;
  };
  try
  {
    pos(p1, true);
    while (get(c1)) pos(p1, true);
    get(c1);
    st.set_position(saved.at(k < saved.size() ? k : saved.size() - 1));
    do pos(p2, false); while (get(c2));
  }
  catch (...)
  {
    exc = 1;
  }
  vj::line(head + ",\"exc\":" + std::to_string(exc) + ",\"p1\":" + vj::arr(p1) + ",\"c1\":" + vj::arr(c1) + ",\"p2\":" + vj::arr(p2) + ",\"c2\":" + vj::arr(c2) + "}");
}

// Very long lines / very many lines with a handful of observations (a full scan record of such a text
// would be megabytes): the text is pre ++ fill^n; the stream is read to the end, the position is recorded
// in front of the characters at the offsets `at` (ascending), the k-th of them is restored after the end
// has been reached, and one more position / character is recorded there.
// {"f":"longline","ch":..,"pre":[..],"fill":c,"n":n,"at":[..],"pos":[off,line,col,...],"chr":[..],"k":k,
//  "pos2":[off,line,col],"chr2":c,"exc":0|1}
template <typename Ch>
void longline_record(int ch, cps_t const &pre, long long const fill, std::size_t const n, std::vector<std::size_t> const &at, std::size_t const k)
{
  cps_t text(pre);
  text.insert(text.end(), n, fill);
  cps_t atl;
  for (std::size_t a : at) atl.push_back(static_cast<long long>(a));
  std::string const head{"{\"f\":\"longline\",\"ch\":" + std::to_string(ch) + ",\"pre\":" + vj::arr(pre) + ",\"fill\":" + std::to_string(fill) +
                         ",\"n\":" + std::to_string(n) + ",\"at\":" + vj::arr(atl) + ",\"k\":" + std::to_string(k)};
  std::basic_istringstream<Ch> iss{to_string<Ch>(text)};
  iss.unsetf(std::ios_base::skipws);
  fcppt::parse::detail::stream<Ch> st{fcppt::reference_to_base<std::basic_istream<Ch>>(fcppt::make_ref(iss))};
  std::vector<fcppt::parse::position<Ch>> saved;
  cps_t pos, chr, pos2;
  long long chr2 = -2;
  int exc = 0;
  crash::Scope const scope{0, nullptr};
  auto const record_pos = [&](cps_t &out, bool keep) {
    fcppt::parse::position<Ch> const p{st.get_position()};
    out.push_back(clampll(static_cast<long long>(std::streamoff(p.pos()))));
    out.push_back(p.location().has_value() ? clampu(p.location().get_unsafe().line().get()) : 0);
    out.push_back(p.location().has_value() ? clampu(p.location().get_unsafe().column().get()) : 0);
    if (keep) saved.push_back(p);
  };
  try
  {
    std::size_t next = 0;
    for (std::size_t o = 0; o <= text.size() + 2U; ++o)
    {
      bool const wanted = next < at.size() && at[next] == o;
      if (wanted) record_pos(pos, true);
      fcppt::optional::object<Ch> const c{st.get_char()};
      if (wanted)
      {
        chr.push_back(c.has_value() ? code_of(c.get_unsafe()) : -1);
        ++next;
      }
      if (!c.has_value()) break;
    }
    if (!saved.empty())
    {
      st.set_position(saved.at(k < saved.size() ? k : saved.size() - 1));
      record_pos(pos2, false);
      fcppt::optional::object<Ch> const c{st.get_char()};
      chr2 = c.has_value() ? code_of(c.get_unsafe()) : -1;
    }
  }
  catch (...)
  {
    exc = 1;
  }
  vj::line(head + ",\"exc\":" + std::to_string(exc) + ",\"pos\":" + vj::arr(pos) + ",\"chr\":" + vj::arr(chr) + ",\"pos2\":" + vj::arr(pos2) +
           ",\"chr2\":" + std::to_string(chr2) + "}");
}

template <typename Ch>
void replay_script(int ch, cps_t const &text, std::vector<Op> const &ops, int const kind = 0, long long const failat = -1, int const via = 0)
{
#ifndef C12_EXT
  if (kind != 0) return;
#endif
  vj::begin_call(prefix(ch, text, kind, failat, via));
  History<Ch> h{text, kind, failat, via};
  crash::Scope const scope{1, &h.ev};
  for (Op const &op : ops) h.run(op);
  crash::op = 0;
  vj::end_call(h.ev + "]}");
}

cps_t text_of_index(unsigned long long idx, int len)
{
  cps_t t;
  for (int i = 0; i < len; ++i)
  {
    t.push_back(kSyms[idx % 4U]);
    idx /= 4U;
  }
  return t;
}
}

int main(int argc, char **argv)
try
{
  if (argc < 2) return 3;
  std::string const mode{argv[1]};
  if (mode == "record" && argc >= 9)
  {
    vj::open(argv[2]);
    crash::install();
    std::uint64_t const seed = std::strtoull(argv[3], nullptr, 10);
    int const maxlen = std::atoi(argv[4]);
    int const nseq = std::atoi(argv[5]);
    unsigned long long const shard = std::strtoull(argv[6], nullptr, 10);
    unsigned long long const nshards = std::strtoull(argv[7], nullptr, 10);
    long long const nlong = std::atoll(argv[8]);
    int const chmask = argc >= 10 ? std::atoi(argv[9]) : 3;
    vj::Rng rng{seed * 1000003ULL + shard};
    unsigned long long counter = 0;
    for (int len = 0; len <= maxlen; ++len)
    {
      unsigned long long const count = 1ULL << (2 * len);
      for (unsigned long long idx = 0; idx < count; ++idx, ++counter)
      {
        if (counter % nshards != shard) continue;
        cps_t const text{text_of_index(idx, len)};
        for (int s = 0; s < nseq; ++s)
        {
          if ((chmask & 1) != 0) random_history<char>(0, text, rng);
          if ((chmask & 2) != 0) random_history<wchar_t>(1, text, rng);
        }
        // extension round: one history over the other stream kinds / calls, alternating the character type
        if ((counter & 1U) == 0U)
          random_history<char>(0, text, rng, true);
        else
          random_history<wchar_t>(1, text, rng, true);
        if (len <= 7)
        {
          if ((chmask & 1) != 0) entry_records<char>(0, text);
          if ((chmask & 2) != 0) entry_records<wchar_t>(1, text);
        }
      }
    }
    for (long long i = 0; i < nlong; ++i)
    {
      if (static_cast<unsigned long long>(i) % nshards != shard) { rng.next(); continue; }
      long long const len = rng.range(13, 40);
      cps_t text;
      // newline-rich and newline-poor texts alike
      std::uint64_t const nlw = rng.below(3);
      for (long long k = 0; k < len; ++k)
        text.push_back(rng.below(4) <= nlw ? 10 : kSyms[rng.below(4)]);
      if (rng.coin())
      {
        // other code units as well ("for every input text"): NUL, CR, the largest and a negative char value,
        // for wchar_t values beyond one byte (not WEOF, which no std stream can deliver)
        cps_t wide{text};
        for (long long k = 0; k < len; ++k)
          if (rng.below(3) == 0)
          {
            std::uint64_t const w = rng.below(5);
            text[static_cast<std::size_t>(k)] = kOddChar[w];
            wide[static_cast<std::size_t>(k)] = kOddWide[w];
          }
        random_history<char>(0, text, rng);
        random_history<wchar_t>(1, wide, rng);
        entry_records<char>(0, text);
        entry_records<wchar_t>(1, wide);
        continue;
      }
      random_history<char>(0, text, rng);
      random_history<wchar_t>(1, text, rng);
      random_history<char>(0, text, rng, true);
      random_history<wchar_t>(1, text, rng, true);
      entry_records<char>(0, text);
      entry_records<wchar_t>(1, text);
    }
    // long lines and many lines: two texts per shard and character type (lines > 255 characters, > 255 lines)
    for (int i = 0; i < 2; ++i)
    {
      long long const len = rng.range(300, 420);
      cps_t text;
      for (long long k = 0; k < len; ++k)
        text.push_back(i == 0 ? (k + 30 >= len && rng.below(6) == 0 ? 10 : kSyms[(rng.below(3) + 2U) % 4U])   // one long line
                              : (rng.below(8) == 0 ? 97 : 10));                                               // > 255 lines
      // (the compact fixed-shape record: judging a long event-by-event history costs TLC minutes)
      std::size_t const k = static_cast<std::size_t>(rng.below(static_cast<std::uint64_t>(len) + 1U));
      scan_record<char>(0, text, k);
      scan_record<wchar_t>(1, text, k);
    }
    crash::disarm();
    vj::close();
    return 0;
  }
  if (mode == "longline" && argc >= 4)
  {
    // longline OUT SEED: lines longer than 2^16 columns and texts with more than 2^16 lines
    vj::open(argv[2]);
    crash::install();
    std::uint64_t const seed = std::strtoull(argv[3], nullptr, 10);
    vj::Rng rng{seed * 104729ULL + 17ULL};
    std::vector<cps_t> const pres{cps_t{}, cps_t{97, 98, 10, 97}, cps_t{10, 10, 98}};
    for (cps_t const &pre : pres)
      for (long long const fill : {97LL, 10LL})
      {
        std::size_t const n = 66000U + static_cast<std::size_t>(rng.below(4000U));
        std::size_t const lp = pre.size();
        std::vector<std::size_t> at{0U, lp, lp + 254U, lp + 255U, lp + 256U, lp + 257U, lp + 32767U, lp + 32768U, lp + 65533U, lp + 65534U,
                                    lp + 65535U, lp + 65536U, lp + 65537U, lp + n - 1U, lp + n};
        at.push_back(lp + 300U + static_cast<std::size_t>(rng.below(60000U)));
        std::sort(at.begin(), at.end());
        at.erase(std::unique(at.begin(), at.end()), at.end());
        std::size_t const k = static_cast<std::size_t>(rng.below(static_cast<std::uint64_t>(at.size())));
        longline_record<char>(0, pre, fill, n, at, k);
        longline_record<wchar_t>(1, pre, fill, n, at, at.size() - 1U - k);
      }
    crash::disarm();
    vj::close();
    return 0;
  }
  if (mode == "scan" && argc >= 8)
  {
    // scan OUT SEED MINLEN MAXLEN SHARD NSHARDS [CHMASK]
    vj::open(argv[2]);
    crash::install();
    std::uint64_t const seed = std::strtoull(argv[3], nullptr, 10);
    int const minlen = std::atoi(argv[4]);
    int const maxlen = std::atoi(argv[5]);
    unsigned long long const shard = std::strtoull(argv[6], nullptr, 10);
    unsigned long long const nshards = std::strtoull(argv[7], nullptr, 10);
    int const chmask = argc >= 9 ? std::atoi(argv[8]) : 3;
    vj::Rng rng{seed * 7919ULL + shard};
    for (int len = minlen; len <= maxlen; ++len)
    {
      unsigned long long const count = 1ULL << (2 * len);
      for (unsigned long long idx = shard; idx < count; idx += nshards)
      {
        cps_t const text{text_of_index(idx, len)};
        std::size_t const k = static_cast<std::size_t>(rng.below(static_cast<std::uint64_t>(len) + 1U));
        if ((chmask & 1) != 0) scan_record<char>(0, text, k);
        if ((chmask & 2) != 0) scan_record<wchar_t>(1, text, k);
      }
    }
    crash::disarm();
    vj::close();
    return 0;
  }
  if (mode == "replay" && argc >= 4)
  {
    vj::open(argv[3]);
    crash::install();
    unsigned long nscript = 0;
    for (std::string const &l : vj::read_lines(argv[2]))
    {
      vj::VP const v{vj::parse(l)};
      cps_t const text{v->nums("text")};
      std::vector<Op> ops;
      if (v->has("ops"))
      for (auto const &o : v->at("ops").a)
      {
        Op op{static_cast<int>(o->a.at(0)->n), 0, {}};
        if (op.k == 3 || op.k == 5 || op.k == 7 || op.k == 8) op.a = o->a.at(1)->n;
        if (op.k == 7) op.cs = {o->a.at(2)->n};
        if (op.k == 6 || op.k == 10)
          for (auto const &c : o->a.at(1)->a) op.cs.push_back(c->n);
        ops.push_back(op);
      }
      int const chmask = v->has("ch") ? (v->num("ch") == 0 ? 1 : 2) : 3;
      if (v->has("entry"))
      {
        if ((chmask & 1) != 0) entry_records<char>(0, text);
        if ((chmask & 2) != 0) entry_records<wchar_t>(1, text);
        continue;
      }
      if (v->has("scan"))
      {
        std::size_t const k = static_cast<std::size_t>(v->num("scan"));
        if ((chmask & 1) != 0) scan_record<char>(0, text, k);
        if ((chmask & 2) != 0) scan_record<wchar_t>(1, text, k);
        continue;
      }
      int const kind = static_cast<int>(v->num_or("sk", 0));
      long long const failat = v->num_or("fa", -1);
      // "via" of the script (replay of a saved history) or alternating with the script index: each script runs
      // through the members on one character type and through the free functions on the other
      int const via = static_cast<int>(v->num_or("via", static_cast<long long>(nscript % 2U)));
      ++nscript;
      if ((chmask & 1) != 0) replay_script<char>(0, text, ops, kind, failat, via);
      if ((chmask & 2) != 0) replay_script<wchar_t>(1, text, ops, kind, failat, v->has("via") ? via : 1 - via);
    }
    crash::disarm();
    vj::close();
    return 0;
  }
  return 3;
}
catch (std::exception const &e)
{
  std::fprintf(stderr, "harness error: %s\n", e.what());
  return 4;
}
