// C16 conformance harness: drivers of the fcppt.algorithm functions over one source range
// (templates shared by the per-source translation units).  Drives and records only.
#ifndef VERIF_C16_RANGE_HPP
#define VERIF_C16_RANGE_HPP

#include "c16_common.hpp"

#include <fcppt/make_int_range.hpp>
#include <fcppt/make_int_range_count.hpp>
#include <fcppt/int_range_impl.hpp>
#include <fcppt/int_iterator_impl.hpp>
#include <fcppt/algorithm/all_of.hpp>
#include <fcppt/algorithm/binary_search.hpp>
#include <fcppt/algorithm/contains.hpp>
#include <fcppt/algorithm/contains_if.hpp>
#include <fcppt/algorithm/equal_range.hpp>
#include <fcppt/algorithm/find_by_opt.hpp>
#include <fcppt/algorithm/find_if_opt.hpp>
#include <fcppt/algorithm/find_opt.hpp>
#include <fcppt/algorithm/fold.hpp>
#include <fcppt/algorithm/fold_break.hpp>
#include <fcppt/algorithm/generate_n.hpp>
#include <fcppt/algorithm/index_of.hpp>
#include <fcppt/algorithm/join_strings.hpp>
#include <fcppt/algorithm/loop.hpp>
#include <fcppt/algorithm/loop_break.hpp>
#include <fcppt/algorithm/loop_break_mpl.hpp>
#include <fcppt/algorithm/loop_break_tuple.hpp>
#include <fcppt/algorithm/map.hpp>
#include <fcppt/algorithm/map_array.hpp>
#include <fcppt/algorithm/map_tuple.hpp>
#include <fcppt/algorithm/map_concat.hpp>
#include <fcppt/algorithm/map_iteration.hpp>
#include <fcppt/algorithm/map_optional.hpp>
#include <fcppt/algorithm/remove.hpp>
#include <fcppt/algorithm/remove_if.hpp>
#include <fcppt/algorithm/repeat.hpp>
#include <fcppt/algorithm/reverse.hpp>
#include <fcppt/algorithm/sequence_iteration.hpp>
#include <fcppt/algorithm/split_string.hpp>
#include <fcppt/algorithm/unique.hpp>
#include <fcppt/algorithm/unique_if.hpp>
#include <fcppt/array/object.hpp>
#include <fcppt/enum/make_range.hpp>
#include <fcppt/enum/make_range_start_end.hpp>
#include <fcppt/enum/range_impl.hpp>
#include <fcppt/enum/iterator_impl.hpp>
#include <fcppt/mpl/list/object.hpp>
#include <fcppt/tuple/get.hpp>
#include <fcppt/tuple/object.hpp>
#include <fcppt/tuple/size.hpp>

#include <cstring>
#include <deque>
#include <iterator>
#include <list>
#include <map>
#include <set>
#include <string>
#include <vector>

namespace c16
{
using ivec = std::vector<int>;

template <typename It1, typename It2>
long dist(It1 b, It2 e)
{
  // a garbage iterator (not reachable from begin) must not walk for ever: absurd distance instead
  long n = 0;
  for (; !(b == e); ++b)
    if (++n > 1000000) return static_cast<long>(CLAMP);
  return n;
}

template <typename Opt, typename Beg>
std::string opt_pos(Opt const &o, Beg const &beg)
{
  return o.has_value() ? "[" + std::to_string(dist(beg, o.get_unsafe())) + "]" : std::string("[]");
}

// ---------------------------------------------------------------- algorithms on anything loop_break accepts
template <typename Target, typename Src>
void do_map(char const *sn, char const *tn, int ek, Src const &src, std::string const &xs, int idx)
{
  UF const f(idx);
  Rec r("map");
  r.ks("src", sn).ks("tgt", tn).ki("ek", ek).k("xs", xs).k("ft", f.json()).begin();
  Target const res(fcppt::algorithm::map<Target>(src, f));
  r.k("r", seqj(res)).end_log();
}

template <typename Target, typename Src>
void do_map_concat(char const *sn, char const *tn, int ek, Src const &src, std::string const &xs, int idx)
{
  SF<Target> const f(idx);
  Rec r("map_concat");
  r.ks("src", sn).ks("tgt", tn).ki("ek", ek).k("xs", xs).k("ft", f.json()).begin();
  Target const res(fcppt::algorithm::map_concat<Target>(src, f));
  r.k("r", seqj(res)).end_log();
}

template <typename Src>
void loop_algos(char const *sn, int ek, Src const &src, std::string const &xs, bool full, Sel &sel)
{
  sel.tables(27, full, [&](int i) { do_map<std::vector<int>>(sn, "vector", ek, src, xs, i); });
  sel.tables(27, false, [&](int i) { do_map<std::list<int>>(sn, "list", ek, src, xs, i); });
  sel.tables(27, false, [&](int i) { do_map<std::deque<int>>(sn, "deque", ek, src, xs, i); });
  sel.tables(27, false, [&](int i) { do_map<std::set<int>>(sn, "set", ek, src, xs, i); });
  sel.tables(125, false, [&](int i) { do_map_concat<std::vector<int>>(sn, "vector", ek, src, xs, i); });
  sel.tables(125, false, [&](int i) { do_map_concat<std::list<int>>(sn, "list", ek, src, xs, i); });
  sel.tables(125, false, [&](int i) { do_map_concat<std::set<int>>(sn, "set", ek, src, xs, i); });
  for (unsigned k = 0; k < (full ? 6U : 2U); ++k)
  {
    {
      FF const f(sel.rng);
      int const init = static_cast<int>(sel.rng.below(3));
      Rec r("fold");
      r.ks("src", sn).ki("ek", ek).k("xs", xs).ki("init", init).k("ft2", f.json()).begin();
      int const res = fcppt::algorithm::fold(src, init, f);
      r.ki("r", res).end_log();
    }
    {
      FBF const f(sel.rng, 2U + k);
      int const init = static_cast<int>(sel.rng.below(3));
      Rec r("fold_break");
      r.ks("src", sn).ki("ek", ek).k("xs", xs).ki("init", init).k("ft2", f.json()).begin();
      int const res = fcppt::algorithm::fold_break(src, init, f);
      r.ki("r", res).end_log();
    }
  }
  {
    Rec r("loop");
    r.ks("src", sn).ki("ek", ek).k("xs", xs).begin();
    fcppt::algorithm::loop(src, [](auto const &x) { lg(ej(x)); });
    r.end_log();
  }
  for (int i = 0; i < 8; ++i)
  {
    {
      BF const f(i);
      Rec r("loop_break");
      r.ks("src", sn).ki("ek", ek).k("xs", xs).k("ft", f.json()).begin();
      fcppt::algorithm::loop_break(src, f);
      r.end_log();
    }
    {
      PF const f(i);
      Rec r("all_of");
      r.ks("src", sn).ki("ek", ek).k("xs", xs).k("ft", f.json()).begin();
      bool const res = fcppt::algorithm::all_of(src, f);
      r.kb("r", res).end_log();
    }
    {
      PF const f(i);
      Rec r("contains_if");
      r.ks("src", sn).ki("ek", ek).k("xs", xs).k("ft", f.json()).begin();
      bool const res = fcppt::algorithm::contains_if(src, f);
      r.kb("r", res).end_log();
    }
  }
}

// ---------------------------------------------------------------- algorithms that need begin()/end()
template <typename Target, typename Src>
void do_map_optional(char const *sn, char const *tn, int ek, Src const &src, std::string const &xs, int idx)
{
  OF const f(idx);
  Rec r("map_optional");
  r.ks("src", sn).ks("tgt", tn).ki("ek", ek).k("xs", xs).k("ft", f.json()).begin();
  Target const res(fcppt::algorithm::map_optional<Target>(src, f));
  r.k("r", seqj(res)).end_log();
}

template <typename Src>
void iter_algos(char const *sn, int ek, Src const &src, std::string const &xs, bool full, Sel &sel)
{
  sel.tables(64, full, [&](int i) { do_map_optional<std::vector<int>>(sn, "vector", ek, src, xs, i); });
  sel.tables(64, false, [&](int i) { do_map_optional<std::list<int>>(sn, "list", ek, src, xs, i); });
  sel.tables(64, false, [&](int i) { do_map_optional<std::set<int>>(sn, "set", ek, src, xs, i); });
  for (int i = 0; i < 8; ++i)
  {
    PF const f(i);
    Rec r("find_if_opt");
    r.ks("src", sn).ki("ek", ek).k("xs", xs).k("ft", f.json()).begin();
    auto const res(fcppt::algorithm::find_if_opt(src, f));
    r.k("r", opt_pos(res, src.begin())).end_log();
  }
  sel.tables(64, full, [&](int i) {
    OF const f(i);
    Rec r("find_by_opt");
    r.ks("src", sn).ki("ek", ek).k("xs", xs).k("ft", f.json()).begin();
    fcppt::optional::object<int> const res(fcppt::algorithm::find_by_opt(src, f));
    r.k("r", ej(res)).end_log();
  });
}

// value searches (element type T constructed from an int)
template <typename T, typename Src>
void value_algos(char const *sn, Src const &src, std::string const &xs, int lo, int hi)
{
  for (int v = lo; v <= hi; ++v)
  {
    T const val = static_cast<T>(v);
    {
      Rec r("contains");
      r.ks("src", sn).k("xs", xs).ki("v", v).begin();
      bool const res = fcppt::algorithm::contains(src, val);
      r.kb("r", res).end();
    }
    {
      Rec r("find_opt");
      r.ks("src", sn).k("xs", xs).ki("v", v).begin();
      auto const res(fcppt::algorithm::find_opt(src, val));
      r.k("r", opt_pos(res, src.begin())).end();
    }
  }
}

template <typename Src>
void index_algos(char const *sn, Src const &src, std::string const &xs)
{
  for (int v = -1; v <= 3; ++v)
  {
    Rec r("index_of");
    r.ks("src", sn).k("xs", xs).ki("v", v).begin();
    auto const res(fcppt::algorithm::index_of(src, v));
    r.k("r", ej(res)).end();
  }
}

template <typename Src>
void sorted_algos(char const *sn, Src const &src, std::string const &xs)
{
  for (int v = -1; v <= 3; ++v)
  {
    {
      Rec r("binary_search");
      r.ks("src", sn).k("xs", xs).ki("v", v).begin();
      auto const res(fcppt::algorithm::binary_search(src, v));
      r.k("r", opt_pos(res, src.begin())).end();
    }
    {
      Rec r("equal_range");
      r.ks("src", sn).k("xs", xs).ki("v", v).begin();
      auto const res(fcppt::algorithm::equal_range(src, v));
      r.k("r", "[" + std::to_string(dist(src.begin(), res.begin())) + "," + std::to_string(dist(src.begin(), res.end())) + "]")
          .end();
    }
  }
}

// ---------------------------------------------------------------- mutating algorithms on sequence containers
template <typename Cont>
void mut_algos(char const *sn, ivec const &v, std::string const &xs, bool full, Sel &sel)
{
  for (int i = 0; i < 8; ++i)
  {
    {
      PF const f(i);
      Cont c(v.begin(), v.end());
      Rec r("remove_if");
      r.ks("src", sn).k("xs", xs).k("ft", f.json()).begin();
      bool const res = fcppt::algorithm::remove_if(c, f);
      r.kb("r", res).k("st", seqj(c)).end_log();
    }
    {
      AF const f(i);
      Cont c(v.begin(), v.end());
      Rec r("sequence_iteration");
      r.ks("src", sn).k("xs", xs).k("ft", f.json()).begin();
      fcppt::algorithm::sequence_iteration(c, f);
      r.k("st", seqj(c)).end_log();
    }
  }
  for (int val = -1; val <= 3; ++val)
  {
    Cont c(v.begin(), v.end());
    Rec r("remove");
    r.ks("src", sn).k("xs", xs).ki("v", val).begin();
    bool const res = fcppt::algorithm::remove(c, val);
    r.kb("r", res).k("st", seqj(c)).end();
  }
  // the value is a reference to an element of the container itself (legal: the parameter is a
  // const_reference); the record carries its value before the call
  for (std::size_t i = 0; i < v.size(); ++i)
  {
    Cont c(v.begin(), v.end());
    auto it(c.begin());
    std::advance(it, static_cast<std::ptrdiff_t>(i));
    Rec r("remove");
    r.ks("src", sn).k("xs", xs).ki("v", v[i]).ki("alias", static_cast<long long>(i)).begin();
    bool const res = fcppt::algorithm::remove(c, *it);
    r.kb("r", res).k("st", seqj(c)).end();
  }
  {
    Cont c(v.begin(), v.end());
    Rec r("unique");
    r.ks("src", sn).k("xs", xs).begin();
    fcppt::algorithm::unique(c);
    r.k("st", seqj(c)).end();
  }
  for (int i = 0; i < 5; ++i)
  {
    EQF const f(i);
    Cont c(v.begin(), v.end());
    Rec r("unique_if");
    r.ks("src", sn).k("xs", xs).k("bt", f.json()).begin();
    fcppt::algorithm::unique_if(c, f);
    r.k("st", seqj(c)).end_log();
  }
  {
    Cont const c(v.begin(), v.end());
    Rec r("reverse");
    r.ks("src", sn).ks("cat", "lvalue").k("xs", xs).begin();
    Cont const res(fcppt::algorithm::reverse(c));
    r.k("r", seqj(res)).k("after", seqj(c)).end();
  }
  {
    Cont c(v.begin(), v.end());
    Rec r("reverse");
    r.ks("src", sn).ks("cat", "rvalue").k("xs", xs).begin();
    Cont const res(fcppt::algorithm::reverse(std::move(c)));
    r.k("r", seqj(res)).k("after", xs).end();
  }
  (void)full;
  (void)sel;
}

// ---------------------------------------------------------------- value categories of the source range
// (round 3 audit) map / map_concat / map_optional / fold / fold_break / loop / loop_break / find_* /
// binary_search / equal_range / reverse take forwarding references: besides the const lvalue that every
// driver above passes, an rvalue (elements are moved: fcppt::move_if_rvalue) and a non-const lvalue
// (mutable iterators in the result) are driven here.  `cat` is informative; the prediction is the same.
template <typename Cont>
void category_algos(char const *sn, ivec const &v, std::string const &xs, Sel &sel)
{
  sel.tables(27, false, [&](int i) {
    {
      UF const f(i);
      Cont c(v.begin(), v.end());
      Rec r("map");
      r.ks("src", sn).ks("cat", "rvalue").ks("tgt", "vector").ki("ek", 0).k("xs", xs).k("ft", f.json()).begin();
      std::vector<int> const res(fcppt::algorithm::map<std::vector<int>>(std::move(c), f));
      r.k("r", seqj(res)).end_log();
    }
    {
      UF const f(i);
      Cont c(v.begin(), v.end());
      Rec r("map");
      r.ks("src", sn).ks("cat", "mutable").ks("tgt", "list").ki("ek", 0).k("xs", xs).k("ft", f.json()).begin();
      std::list<int> const res(fcppt::algorithm::map<std::list<int>>(c, f));
      r.k("r", seqj(res)).end_log();
    }
  });
  sel.tables(125, false, [&](int i) {
    SF<std::vector<int>> const f(i);
    Cont c(v.begin(), v.end());
    Rec r("map_concat");
    r.ks("src", sn).ks("cat", "rvalue").ks("tgt", "vector").ki("ek", 0).k("xs", xs).k("ft", f.json()).begin();
    std::vector<int> const res(fcppt::algorithm::map_concat<std::vector<int>>(std::move(c), f));
    r.k("r", seqj(res)).end_log();
  });
  sel.tables(64, false, [&](int i) {
    {
      OF const f(i);
      Cont c(v.begin(), v.end());
      Rec r("map_optional");
      r.ks("src", sn).ks("cat", "rvalue").ks("tgt", "vector").ki("ek", 0).k("xs", xs).k("ft", f.json()).begin();
      std::vector<int> const res(fcppt::algorithm::map_optional<std::vector<int>>(std::move(c), f));
      r.k("r", seqj(res)).end_log();
    }
    {
      OF const f(i);
      Cont c(v.begin(), v.end());
      Rec r("find_by_opt");
      r.ks("src", sn).ks("cat", "mutable").ki("ek", 0).k("xs", xs).k("ft", f.json()).begin();
      fcppt::optional::object<int> const res(fcppt::algorithm::find_by_opt(c, f));
      r.k("r", ej(res)).end_log();
    }
  });
  {
    FF const f(sel.rng);
    int const init = static_cast<int>(sel.rng.below(3));
    Cont c(v.begin(), v.end());
    Rec r("fold");
    r.ks("src", sn).ks("cat", "rvalue").ki("ek", 0).k("xs", xs).ki("init", init).k("ft2", f.json()).begin();
    int const res = fcppt::algorithm::fold(std::move(c), init, f);
    r.ki("r", res).end_log();
  }
  {
    FBF const f(sel.rng, 3U);
    int const init = static_cast<int>(sel.rng.below(3));
    Cont c(v.begin(), v.end());
    Rec r("fold_break");
    r.ks("src", sn).ks("cat", "mutable").ki("ek", 0).k("xs", xs).ki("init", init).k("ft2", f.json()).begin();
    int const res = fcppt::algorithm::fold_break(c, init, f);
    r.ki("r", res).end_log();
  }
  {
    Cont c(v.begin(), v.end());
    Rec r("loop");
    r.ks("src", sn).ks("cat", "rvalue").ki("ek", 0).k("xs", xs).begin();
    fcppt::algorithm::loop(std::move(c), [](auto &&x) { lg(ej(x)); });
    r.end_log();
  }
  for (int i = 0; i < 8; ++i)
  {
    {
      BF const f(i);
      Cont c(v.begin(), v.end());
      Rec r("loop_break");
      r.ks("src", sn).ks("cat", i % 2 == 0 ? "mutable" : "rvalue").ki("ek", 0).k("xs", xs).k("ft", f.json()).begin();
      if (i % 2 == 0)
        fcppt::algorithm::loop_break(c, f);
      else
        fcppt::algorithm::loop_break(std::move(c), f);
      r.end_log();
    }
    {
      PF const f(i);
      Cont c(v.begin(), v.end());
      Rec r("find_if_opt");
      r.ks("src", sn).ks("cat", "mutable").ki("ek", 0).k("xs", xs).k("ft", f.json()).begin();
      auto const res(fcppt::algorithm::find_if_opt(c, f));
      r.k("r", opt_pos(res, c.begin())).end_log();
    }
  }
  for (int val = -1; val <= 3; ++val)
  {
    {
      Cont c(v.begin(), v.end());
      Rec r("find_opt");
      r.ks("src", sn).ks("cat", "mutable").k("xs", xs).ki("v", val).begin();
      auto const res(fcppt::algorithm::find_opt(c, val));
      r.k("r", opt_pos(res, c.begin())).end();
    }
    if (sorted(v))
    {
      Cont c(v.begin(), v.end());
      {
        Rec r("binary_search");
        r.ks("src", sn).ks("cat", "mutable").k("xs", xs).ki("v", val).begin();
        auto const res(fcppt::algorithm::binary_search(c, val));
        r.k("r", opt_pos(res, c.begin())).end();
      }
      {
        Rec r("equal_range");
        r.ks("src", sn).ks("cat", "mutable").k("xs", xs).ki("v", val).begin();
        auto const res(fcppt::algorithm::equal_range(c, val));
        r.k("r", "[" + std::to_string(dist(c.begin(), res.begin())) + "," + std::to_string(dist(c.begin(), res.end())) + "]")
            .end();
      }
    }
  }
}

// ---------------------------------------------------------------- inputs beyond the exhaustive bound
// (round 3 audit) seeded random sequences over {0,1,2} of lengths 7..33 (and their sorted forms, full of
// duplicates, for binary_search / equal_range), so that a defect that needs more than 6 elements - a
// second reallocation, a counter of a narrower type, an unrolled loop - is met in the quick tier.
inline std::vector<ivec> long_inputs(vj::Rng &rng, bool const thorough)
{
  std::vector<ivec> res;
  static unsigned const lens[] = {7, 8, 9, 12, 16, 17, 33};
  for (unsigned const len : lens)
    for (unsigned k = 0; k < (thorough ? 6U : 2U); ++k)
    {
      ivec v;
      unsigned const bias = static_cast<unsigned>(rng.below(3)); // some inputs with long runs of one value
      for (unsigned i = 0; i < len; ++i)
        v.push_back(static_cast<int>(rng.below(4) == 0 ? rng.below(3) : (k % 2 == 0 ? rng.below(3) : bias)));
      res.push_back(v);
      ivec s(v);
      for (std::size_t a = 1; a < s.size(); ++a) // insertion sort (no std algorithm needed here)
        for (std::size_t b = a; b > 0 && s[b - 1] > s[b]; --b) std::swap(s[b - 1], s[b]);
      res.push_back(s);
    }
  res.push_back(ivec(10, 1));
  res.push_back(ivec(20, 2));
  // one element that differs, far from the front (a predicate / value that matches only there: the
  // first match, the break, the removed element lie beyond position 8), also as sorted sequences
  {
    ivec v(10, 1);
    v.back() = 0;
    res.push_back(v);
  }
  {
    ivec v(20, 2);
    v[12] = 0;
    res.push_back(v);
  }
  {
    ivec v(17, 0);
    v[15] = 1;
    v[16] = 2;
    res.push_back(v);
  }
  {
    ivec v(16, 2);
    v[0] = 0;
    v[1] = 1;
    res.push_back(v);
  }
  {
    ivec v(13, 1);
    v[0] = 0;
    v[12] = 2;
    res.push_back(v);
  }
  return res;
}

// ---------------------------------------------------------------- static-size sources
template <std::size_t N, std::size_t... Is>
fcppt::array::object<int, N> mk_array(ivec const &v, std::index_sequence<Is...>)
{
  return fcppt::array::object<int, N>{v[Is]...};
}
template <std::size_t N>
fcppt::array::object<int, N> mk_array(ivec const &v)
{
  return mk_array<N>(v, std::make_index_sequence<N>{});
}

// fcppt::algorithm::map with an array source AND an array target (map_array.hpp: a specialisation of
// map_impl that dispatches to fcppt::array::map), lvalue and rvalue source
template <std::size_t N>
void array_target(ivec const &v, std::string const &xs, bool const full, Sel &sel)
{
  sel.tables(27, full, [&](int i) {
    {
      auto const a(mk_array<N>(v));
      UF const f(i);
      Rec r("map");
      r.ks("src", "array").ks("tgt", "array").ks("cat", "lvalue").ki("ek", 0).k("xs", xs).k("ft", f.json()).begin();
      fcppt::array::object<int, N> const res(fcppt::algorithm::map<fcppt::array::object<int, N>>(a, f));
      r.k("r", seqj(res)).end_log();
    }
    if (i % 3 == 2)
    {
      auto a(mk_array<N>(v));
      UF const f(i);
      Rec r("map");
      r.ks("src", "array").ks("tgt", "array").ks("cat", "rvalue").ki("ek", 0).k("xs", xs).k("ft", f.json()).begin();
      fcppt::array::object<int, N> const res(fcppt::algorithm::map<fcppt::array::object<int, N>>(std::move(a), f));
      r.k("r", seqj(res)).end_log();
    }
  });
}

template <std::size_t N>
void array_source_one(ivec const &v, bool const full, Sel &sel)
{
  auto const a(mk_array<N>(v));
  std::string const xs = vj::arr(v);
  loop_algos("array", 0, a, xs, full, sel);
  iter_algos("array", 0, a, xs, full, sel);
  value_algos<int>("array", a, xs, -1, 3);
  index_algos("array", a, xs);
  if (sorted(v)) sorted_algos("array", a, xs);
  array_target<N>(v, xs, N <= 2, sel);
}

template <std::size_t N>
void array_source(Sel &sel)
{
  each_seq(N, 3, [&](ivec const &v) { array_source_one<N>(v, N <= 3, sel); });
}

// arrays beyond the exhaustive bound: seeded samples (and their sorted forms)
template <std::size_t N>
void array_source_sampled(Sel &sel, unsigned const count)
{
  SampleOnly const sampled(sel);
  for (unsigned k = 0; k < count; ++k)
  {
    ivec v;
    for (std::size_t i = 0; i < N; ++i) v.push_back(static_cast<int>(sel.rng.below(3)));
    array_source_one<N>(v, false, sel);
    for (std::size_t a = 1; a < v.size(); ++a)
      for (std::size_t b = a; b > 0 && v[b - 1] > v[b]; --b) std::swap(v[b - 1], v[b]);
    array_source_one<N>(v, false, sel);
  }
}

template <typename Tuple, std::size_t... Is>
std::string tuple_seqj(Tuple const &t, std::index_sequence<Is...>)
{
  std::string s = "[";
  bool first = true;
  (void)first;
  ((s += (first ? "" : ","), s += ej(fcppt::tuple::get<Is>(t)), first = false), ...);
  return s + "]";
}

// fcppt::algorithm::map with a tuple source AND a tuple target (map_tuple.hpp -> fcppt::tuple::map)
template <typename Target, typename Tuple>
void tuple_target(Tuple const &t, std::string const &xs, bool const full, Sel &sel)
{
  sel.tables(27, full, [&](int i) {
    {
      UF const f(i);
      Rec r("map");
      r.ks("src", "tuple").ks("tgt", "tuple").ks("cat", "lvalue").ki("ek", 0).k("xs", xs).k("ft", f.json()).begin();
      Target const res(fcppt::algorithm::map<Target>(t, f));
      r.k("r", tuple_seqj(res, std::make_index_sequence<fcppt::tuple::size<Target>::value>{})).end_log();
    }
    if (i % 3 == 0)
    {
      Tuple copy(t);
      UF const f(i);
      Rec r("map");
      r.ks("src", "tuple").ks("tgt", "tuple").ks("cat", "rvalue").ki("ek", 0).k("xs", xs).k("ft", f.json()).begin();
      Target const res(fcppt::algorithm::map<Target>(std::move(copy), f));
      r.k("r", tuple_seqj(res, std::make_index_sequence<fcppt::tuple::size<Target>::value>{})).end_log();
    }
  });
}

inline void tuple_sources(Sel &sel)
{
  // tuples beyond 4 elements: seeded samples
  for (unsigned k = 0; k < 12; ++k)
  {
    ivec v;
    for (unsigned i = 0; i < 7; ++i) v.push_back(static_cast<int>(sel.rng.below(3)));
    {
      fcppt::tuple::object<int, long, E3, unsigned, int> const t{
          v[0], static_cast<long>(v[1]), static_cast<E3>(v[2]), static_cast<unsigned>(v[3]), v[4]};
      ivec const w(v.begin(), v.begin() + 5);
      loop_algos("tuple", 0, t, vj::arr(w), false, sel);
      tuple_target<fcppt::tuple::object<int, int, int, int, int>>(t, vj::arr(w), false, sel);
    }
    {
      fcppt::tuple::object<long, int, int, E3, unsigned, int, long> const t{
          static_cast<long>(v[0]), v[1], v[2], static_cast<E3>(v[3]), static_cast<unsigned>(v[4]), v[5], static_cast<long>(v[6])};
      loop_algos("tuple", 0, t, vj::arr(v), false, sel);
      tuple_target<fcppt::tuple::object<int, int, int, int, int, int, int>>(t, vj::arr(v), false, sel);
    }
  }
  {
    fcppt::tuple::object<> const t{};
    loop_algos("tuple", 0, t, "[]", true, sel);
    tuple_target<fcppt::tuple::object<>>(t, "[]", true, sel);
  }
  each_seq(1, 3, [&](ivec const &v) {
    fcppt::tuple::object<long> const t{static_cast<long>(v[0])};
    loop_algos("tuple", 0, t, vj::arr(v), true, sel);
  });
  each_seq(2, 3, [&](ivec const &v) {
    fcppt::tuple::object<int, unsigned> const t{v[0], static_cast<unsigned>(v[1])};
    loop_algos("tuple", 0, t, vj::arr(v), true, sel);
  });
  each_seq(3, 3, [&](ivec const &v) {
    fcppt::tuple::object<int, long, E3> const t{v[0], static_cast<long>(v[1]), static_cast<E3>(v[2])};
    loop_algos("tuple", 0, t, vj::arr(v), true, sel);
    tuple_target<fcppt::tuple::object<int, int, int>>(t, vj::arr(v), false, sel);
  });
  each_seq(4, 3, [&](ivec const &v) {
    fcppt::tuple::object<unsigned, int, int, long> const t{
        static_cast<unsigned>(v[0]), v[1], v[2], static_cast<long>(v[3])};
    loop_algos("tuple", 0, t, vj::arr(v), false, sel);
  });
}

template <int... Ns>
void mpl_source(Sel &sel)
{
  fcppt::mpl::list::object<std::integral_constant<int, Ns>...> const l{};
  ivec const v{Ns...};
  loop_algos("mpl", 0, l, vj::arr(v), true, sel);
}

inline void mpl_sources(Sel &sel)
{
  mpl_source<>(sel);
  mpl_source<0>(sel);
  mpl_source<2>(sel);
  mpl_source<1, 0>(sel);
  mpl_source<2, 2>(sel);
  mpl_source<0, 1, 2>(sel);
  mpl_source<2, 0, 1>(sel);
  mpl_source<1, 1, 0, 2>(sel);
  mpl_source<2, 1, 0, 0, 1>(sel);
  mpl_source<0, 2, 1, 1, 2, 0>(sel);
  mpl_source<1, 2, 0, 0, 2, 1, 1>(sel);
  mpl_source<2, 0, 1, 2, 2, 0, 1, 0, 1>(sel);
}

// ---------------------------------------------------------------- dynamic sources
template <typename Cont>
void seq_source(char const *sn, unsigned maxlen, unsigned fulllen, bool mut, Sel &sel)
{
  each_seq_upto(maxlen, 3, [&](ivec const &v) {
    Cont const c(v.begin(), v.end());
    std::string const xs = vj::arr(v);
    bool const full = v.size() <= fulllen;
    loop_algos(sn, 0, c, xs, full, sel);
    iter_algos(sn, 0, c, xs, full, sel);
    value_algos<int>(sn, c, xs, -1, 3);
    if (sorted(v)) sorted_algos(sn, c, xs);
    if (mut) mut_algos<Cont>(sn, v, xs, full, sel);
    if (v.size() <= (sel.thorough ? 4U : 3U)) category_algos<Cont>(sn, v, xs, sel);
  });
  SampleOnly const sampled(sel);
  for (ivec const &v : long_inputs(sel.rng, sel.thorough))
  {
    Cont const c(v.begin(), v.end());
    std::string const xs = vj::arr(v);
    loop_algos(sn, 0, c, xs, false, sel);
    iter_algos(sn, 0, c, xs, false, sel);
    value_algos<int>(sn, c, xs, -1, 3);
    if (sorted(v)) sorted_algos(sn, c, xs);
    if (mut) mut_algos<Cont>(sn, v, xs, false, sel);
    category_algos<Cont>(sn, v, xs, sel);
  }
}

template <typename Cont>
void index_source(char const *sn, unsigned maxlen)
{
  each_seq_upto(maxlen, 3, [&](ivec const &v) {
    Cont const c(v.begin(), v.end());
    index_algos(sn, c, vj::arr(v));
  });
  vj::Rng rng(maxlen + 77U);
  for (ivec const &v : long_inputs(rng, false))
  {
    Cont const c(v.begin(), v.end());
    index_algos(sn, c, vj::arr(v));
  }
  // positions that do not fit into 7 / 8 bits: the only 3 of a long sequence sits near its end
  for (unsigned const len : {130U, 300U})
  {
    ivec v;
    for (unsigned i = 0; i < len; ++i) v.push_back(static_cast<int>(rng.below(2)));
    v[len - 2U] = 3;
    v[len - 1U] = 2;
    Cont const c(v.begin(), v.end());
    std::string const xs = vj::arr(v);
    index_algos(sn, c, xs);
    value_algos<int>(sn, c, xs, 2, 3);
  }
}

inline void set_sources(Sel &sel)
{
  for (unsigned mask = 0; mask < 8; ++mask)
  {
    ivec v;
    for (int i = 0; i < 3; ++i)
      if (mask & (1U << i)) v.push_back(i);
    std::set<int> const c(v.begin(), v.end());
    std::string const xs = vj::arr(v);
    loop_algos("set", 0, c, xs, true, sel);
    iter_algos("set", 0, c, xs, true, sel);
    value_algos<int>("set", c, xs, -1, 3);
    sorted_algos("set", c, xs);
  }
}

inline void multiset_sources(unsigned maxlen, Sel &sel)
{
  each_seq_upto(maxlen, 3, [&](ivec const &v) {
    if (!sorted(v)) return;
    std::multiset<int> const c(v.begin(), v.end());
    std::string const xs = vj::arr(v);
    loop_algos("multiset", 0, c, xs, v.size() <= 4, sel);
    iter_algos("multiset", 0, c, xs, v.size() <= 4, sel);
    value_algos<int>("multiset", c, xs, -1, 3);
    sorted_algos("multiset", c, xs);
  });
  SampleOnly const sampled(sel);
  for (ivec const &v : long_inputs(sel.rng, false))
  {
    if (!sorted(v)) continue;
    std::multiset<int> const c(v.begin(), v.end());
    std::string const xs = vj::arr(v);
    loop_algos("multiset", 0, c, xs, false, sel);
    iter_algos("multiset", 0, c, xs, false, sel);
    value_algos<int>("multiset", c, xs, -1, 3);
    sorted_algos("multiset", c, xs);
  }
}

// all std::map<int,int> with keys and mapped values in {0,1,2}
template <typename F>
void each_map(F const &f)
{
  for (unsigned mask = 0; mask < 8; ++mask)
  {
    ivec keys;
    for (int i = 0; i < 3; ++i)
      if (mask & (1U << i)) keys.push_back(i);
    each_seq(static_cast<unsigned>(keys.size()), 3, [&](ivec const &vals) {
      std::vector<std::pair<int, int>> ps;
      for (std::size_t i = 0; i < keys.size(); ++i) ps.emplace_back(keys[i], vals[i]);
      f(ps);
    });
  }
}

inline void map_sources(Sel &sel)
{
  each_map([&](std::vector<std::pair<int, int>> const &ps) {
    std::map<int, int> const c(ps.begin(), ps.end());
    std::string const xs = seqj(ps);
    loop_algos("map", 1, c, xs, true, sel);
    iter_algos("map", 1, c, xs, true, sel);
    for (int i = 0; i < 8; ++i)
    {
      {
        AF const f(i);
        std::map<int, int> m(c);
        Rec r("map_iteration");
        r.ks("src", "map").ki("ek", 1).k("xs", xs).k("ft", f.json()).begin();
        fcppt::algorithm::map_iteration(m, f);
        r.k("st", seqj(m)).end_log();
      }
    }
  });
  // (round 3 audit) maps with more than 3 entries: keys from 0..11, mapped values in {0,1,2}
  SampleOnly const sampled(sel);
  for (unsigned k = 0; k < (sel.thorough ? 60U : 16U); ++k)
  {
    std::vector<std::pair<int, int>> ps;
    unsigned const want = 4U + static_cast<unsigned>(sel.rng.below(7));
    for (int key = 0; key < 12 && ps.size() < want; ++key)
      if (sel.rng.below(12U - static_cast<unsigned>(key)) < want - ps.size() + 1U)
        ps.emplace_back(key, static_cast<int>(sel.rng.below(3)));
    std::map<int, int> const c(ps.begin(), ps.end());
    std::string const xs = seqj(ps);
    loop_algos("map", 1, c, xs, false, sel);
    iter_algos("map", 1, c, xs, false, sel);
    for (int i = 0; i < 8; ++i)
    {
      AF const f(i);
      std::map<int, int> m(c);
      Rec r("map_iteration");
      r.ks("src", "map").ki("ek", 1).k("xs", xs).k("ft", f.json()).begin();
      fcppt::algorithm::map_iteration(m, f);
      r.k("st", seqj(m)).end_log();
    }
  }
  // map_iteration over a std::set ("map-like": erase(iterator))
  for (unsigned mask = 0; mask < 8; ++mask)
  {
    ivec v;
    for (int i = 0; i < 3; ++i)
      if (mask & (1U << i)) v.push_back(i);
    for (int i = 0; i < 8; ++i)
    {
      AF const f(i);
      std::set<int> m(v.begin(), v.end());
      Rec r("map_iteration");
      r.ks("src", "set").ki("ek", 0).k("xs", vj::arr(v)).k("ft", f.json()).begin();
      fcppt::algorithm::map_iteration(m, f);
      r.k("st", seqj(m)).end_log();
    }
  }
  // map_iteration over a std::set and a std::multiset ("map-like": erase(iterator))
  auto const multiset_iteration = [](ivec const &v) {
    if (!sorted(v)) return;
    std::string const xs = vj::arr(v);
    for (int i = 0; i < 8; ++i)
    {
      AF const f(i);
      std::multiset<int> m(v.begin(), v.end());
      Rec r("map_iteration");
      r.ks("src", "multiset").ki("ek", 0).k("xs", xs).k("ft", f.json()).begin();
      fcppt::algorithm::map_iteration(m, f);
      r.k("st", seqj(m)).end_log();
    }
  };
  each_seq_upto(4, 3, multiset_iteration);
  for (ivec const &v : long_inputs(sel.rng, false)) multiset_iteration(v);
}

inline void int_range_sources(Sel &sel)
{
  for (int a = 0; a <= 3; ++a)
    for (int b = a; b <= 3; ++b)
    {
      ivec v;
      for (int i = a; i < b; ++i) v.push_back(i);
      std::string const xs = vj::arr(v);
      {
        auto const rg(fcppt::make_int_range(a, b));
        loop_algos("int_range", 0, rg, xs, true, sel);
        iter_algos("int_range", 0, rg, xs, true, sel);
        value_algos<int>("int_range", rg, xs, -1, 3);
      }
      {
        auto const rg(fcppt::make_int_range(static_cast<unsigned>(a), static_cast<unsigned>(b)));
        loop_algos("uint_range", 0, rg, xs, true, sel);
        iter_algos("uint_range", 0, rg, xs, true, sel);
        value_algos<unsigned>("uint_range", rg, xs, 0, 3);
      }
      if (a == 0)
      {
        auto const rg(fcppt::make_int_range_count(static_cast<std::size_t>(b)));
        loop_algos("int_range_count", 0, rg, xs, true, sel);
        iter_algos("int_range_count", 0, rg, xs, true, sel);
      }
    }
}

// (round 3 audit) longer int ranges: the user-function tables only cover the codes 0..2, so only the
// table-free algorithms (loop, contains, find_opt) are driven on them
inline void long_int_range_sources()
{
  static int const bounds[][2] = {{0, 7}, {3, 20}, {5, 70}, {-4, 4}};
  for (auto const &b : bounds)
  {
    ivec v;
    for (int i = b[0]; i < b[1]; ++i) v.push_back(i);
    std::string const xs = vj::arr(v);
    auto const rg(fcppt::make_int_range(b[0], b[1]));
    {
      Rec r("loop");
      r.ks("src", "int_range").ki("ek", 0).k("xs", xs).begin();
      fcppt::algorithm::loop(rg, [](auto const &x) { lg(ej(x)); });
      r.end_log();
    }
    value_algos<int>("int_range", rg, xs, b[0] - 1, b[0] + 1);
    value_algos<int>("int_range", rg, xs, b[1] - 2, b[1]);
  }
}

inline void enum_range_sources(Sel &sel)
{
  for (int a = 0; a <= 2; ++a)
    for (int b = a; b <= 2; ++b)
    {
      ivec v;
      for (int i = a; i <= b; ++i) v.push_back(i);
      std::string const xs = vj::arr(v);
      auto const rg(fcppt::enum_::make_range_start_end(static_cast<E3>(a), static_cast<E3>(b)));
      loop_algos("enum_range", 0, rg, xs, true, sel);
      iter_algos("enum_range", 0, rg, xs, true, sel);
      value_algos<E3>("enum_range", rg, xs, 0, 2);
    }
  {
    auto const rg(fcppt::enum_::make_range<E3>());
    loop_algos("enum_range_all", 0, rg, "[0,1,2]", true, sel);
    iter_algos("enum_range_all", 0, rg, "[0,1,2]", true, sel);
  }
}

}

#endif
