// C15 conformance harness: drives the binary (io::write / io::read / endianness::swap) and
// textual (output_to_*string / extract_from_string, enum to_string / from_string / << / >>,
// vector / dim << / >>, narrow / widen / fcppt::string conversions in the C.utf8 locale) codecs
// of fcppt and records every call as one ndjson line.  It contains no expected values:
// spec/CodecJudge.tla (TLC) is the judge.
//
// Representation (TLC integers are 32-bit):
//   * a fixed-width value is logged as the base-256 digits of its bit pattern, most significant
//     first, computed here with shifts (never through fcppt and never through memory layout);
//   * an integer that appears as TEXT is logged as {"s":0|1,"m":[base-256 magnitude, stripped]};
//   * texts / byte strings are arrays of code points / bytes; enum texts are JSON strings.
// Input generators (byte strings fed to widen, decimal texts fed to extract_from_string of a
// narrower type) are just that: the judge derives what they mean from the logged input itself.
//
//   c15_codec record OUT seed quick|thorough
//   c15_codec replay RECORDS.ndjson OUT        (re-drives the inputs of saved records)
#include <common/vjson.hpp>
#include <sys/time.h>

// round 3: headers used only by the observed-only part (outside the statement of C15).  When the tree under test no
// longer compiles them, checks/c15.py builds the harness with -DC15_NO_OBSERVED, reports an observation and carries on.
#ifndef C15_NO_OBSERVED
#include <fcppt/char_literal.hpp>
#include <fcppt/make_strong_typedef.hpp>
#include <fcppt/string_literal.hpp>
#include <fcppt/strong_typedef.hpp>
#include <fcppt/strong_typedef_input.hpp>
#include <fcppt/strong_typedef_output.hpp>
#include <fcppt/text.hpp>
#include <fcppt/endianness/convert.hpp>
#include <fcppt/enum/names.hpp>
#include <fcppt/io/basic_scoped_rdbuf_decl.hpp>
#include <fcppt/io/basic_scoped_rdbuf_impl.hpp>
#include <fcppt/io/expect.hpp>
#include <fcppt/io/extract.hpp>
#include <fcppt/io/get.hpp>
#include <fcppt/io/narrow_string.hpp>
#include <fcppt/io/peek.hpp>
#include <fcppt/io/stream_to_string.hpp>
#include <fcppt/io/widen_string.hpp>
#include <fcppt/math/box/object.hpp>
#include <fcppt/math/box/output.hpp>
#include <fcppt/math/matrix/output.hpp>
#include <fcppt/math/matrix/row.hpp>
#include <fcppt/math/matrix/static.hpp>
#endif
#include <fcppt/extract_from_string.hpp>
#include <fcppt/make_ref.hpp>
#include <fcppt/output_to_string_locale.hpp>
#include <fcppt/output_to_std_wstring_locale.hpp>
#include <fcppt/output_to_std_string_locale.hpp>
#include <fcppt/output_to_fcppt_string_locale.hpp>
#include <fcppt/extract_from_string_locale.hpp>
#include <fcppt/from_std_wstring.hpp>
#include <fcppt/from_std_wstring_locale.hpp>
#include <fcppt/narrow.hpp>
#include <fcppt/narrow_locale.hpp>
#include <fcppt/no_init.hpp>
#include <fcppt/output_to_fcppt_string.hpp>
#include <fcppt/output_to_std_string.hpp>
#include <fcppt/enum/size.hpp>
#include <fcppt/from_std_string.hpp>
#include <fcppt/from_std_string_locale.hpp>
#include <fcppt/to_std_string.hpp>
#include <fcppt/to_std_string_locale.hpp>
#include <fcppt/optional_std_string.hpp>
#include <fcppt/output_to_std_wstring.hpp>
#include <fcppt/output_to_string.hpp>
#include <fcppt/string.hpp>
#include <fcppt/to_std_wstring.hpp>
#include <fcppt/to_std_wstring_locale.hpp>
#include <fcppt/widen.hpp>
#include <fcppt/widen_locale.hpp>
#include <fcppt/assert/unreachable.hpp>
#include <fcppt/cast/enum_to_underlying.hpp>
#include <fcppt/endianness/swap.hpp>
#include <fcppt/enum/from_string.hpp>
#include <fcppt/enum/input.hpp>
#include <fcppt/enum/make_range.hpp>
#include <fcppt/enum/output.hpp>
#include <fcppt/enum/to_string.hpp>
#include <fcppt/enum/to_string_impl_fwd.hpp>
#include <fcppt/io/read.hpp>
#include <fcppt/io/write.hpp>
#include <fcppt/math/dim/input.hpp>
#include <fcppt/math/dim/output.hpp>
#include <fcppt/math/dim/static.hpp>
#include <fcppt/math/vector/input.hpp>
#include <fcppt/math/vector/output.hpp>
#include <fcppt/math/vector/static.hpp>
#include <fcppt/optional/object.hpp>

#include <bit>
#include <cstdint>
#include <cstdlib>
#include <exception>
#include <functional>
#include <istream>
#include <locale>
#include <memory>
#include <ostream>
#include <sstream>
#include <string>
#include <string_view>
#include <type_traits>
#include <vector>

// ------------------------------------------------------------------------------ fixture enums
// (the name tables are repeated in spec/Codec.tla, EnumNames)
namespace
{
enum class E1
{
  solo,
  fcppt_maximum = solo
};
enum class E3
{
  red,
  green,
  blue,
  fcppt_maximum = blue
};
enum class E9
{
  a,
  ab,
  abc,
  B,
  b_,
  zero0,
  x_y,
  Ab,
  last,
  fcppt_maximum = last
};
enum class E5u8 : unsigned char
{
  north,
  east,
  south,
  west,
  up,
  fcppt_maximum = up
};
}

namespace fcppt::enum_
{
template <>
struct to_string_impl<E1>
{
  static std::string_view get(E1) { return "solo"; }
};
template <>
struct to_string_impl<E3>
{
  static std::string_view get(E3 const _v)
  {
    switch (_v)
    {
    case E3::red: return "red";
    case E3::green: return "green";
    case E3::blue: return "blue";
    }
    FCPPT_ASSERT_UNREACHABLE;
  }
};
template <>
struct to_string_impl<E9>
{
  static std::string_view get(E9 const _v)
  {
    switch (_v)
    {
    case E9::a: return "a";
    case E9::ab: return "ab";
    case E9::abc: return "abc";
    case E9::B: return "B";
    case E9::b_: return "b_";
    case E9::zero0: return "zero0";
    case E9::x_y: return "x-y";
    case E9::Ab: return "Ab";
    case E9::last: return "last";
    }
    FCPPT_ASSERT_UNREACHABLE;
  }
};
template <>
struct to_string_impl<E5u8>
{
  static std::string_view get(E5u8 const _v)
  {
    switch (_v)
    {
    case E5u8::north: return "north";
    case E5u8::east: return "east";
    case E5u8::south: return "south";
    case E5u8::west: return "west";
    case E5u8::up: return "up";
    }
    FCPPT_ASSERT_UNREACHABLE;
  }
};
}

namespace
{
#define C15_ENUM_IO(E) \
  template <typename Ch, typename Traits> \
  std::basic_ostream<Ch, Traits> &operator<<(std::basic_ostream<Ch, Traits> &_s, E const _v) \
  { \
    return fcppt::enum_::output(_s, _v); \
  } \
  template <typename Ch, typename Traits> \
  std::basic_istream<Ch, Traits> &operator>>(std::basic_istream<Ch, Traits> &_s, E &_v) \
  { \
    return fcppt::enum_::input(_s, _v); \
  }
C15_ENUM_IO(E1)
C15_ENUM_IO(E3)
C15_ENUM_IO(E9)
C15_ENUM_IO(E5u8)

using ull = unsigned long long;

// ------------------------------------------------------------------------------ value <-> digits
template <typename T>
using pattern_t = std::conditional_t<
    sizeof(T) == 1,
    std::uint8_t,
    std::conditional_t<sizeof(T) == 2, std::uint16_t, std::conditional_t<sizeof(T) == 4, std::uint32_t, std::uint64_t>>>;

template <typename T>
std::vector<int> digits_of(T const &v)
{
  auto const u = static_cast<ull>(std::bit_cast<pattern_t<T>>(v));
  std::vector<int> d;
  for (std::size_t i = 0; i < sizeof(T); ++i)
    d.push_back(static_cast<int>((u >> (8U * (sizeof(T) - 1U - i))) & 0xFFU));
  return d;
}

template <typename T>
T value_of_pattern(ull const u)
{
  return std::bit_cast<T>(static_cast<pattern_t<T>>(u));
}

ull pattern_of_digits(std::vector<long long> const &d)
{
  ull u = 0;
  for (long long x : d) u = (u << 8U) | static_cast<ull>(x & 0xFF);
  return u;
}

std::vector<int> bytes_of(std::string const &s)
{
  std::vector<int> r;
  for (char c : s) r.push_back(static_cast<int>(static_cast<unsigned char>(c)));
  return r;
}

std::string string_of_bytes(std::vector<int> const &b)
{
  std::string s;
  for (int x : b) s += static_cast<char>(static_cast<unsigned char>(x));
  return s;
}

// sign + magnitude of an integer (for texts)
struct Num
{
  bool neg;
  ull mag;
};

template <typename T>
Num num_of(T const v)
{
  if constexpr (std::is_signed_v<T>)
  {
    if (v < 0) return Num{true, 0ULL - static_cast<ull>(static_cast<long long>(v))};
  }
  return Num{false, static_cast<ull>(v)};
}

template <typename T>
T int_of_num(Num const n)
{
  return static_cast<T>(n.neg ? 0ULL - n.mag : n.mag);
}

std::string num_json(Num const n)
{
  std::string s = "{\"s\":";
  s += (n.neg && n.mag != 0) ? "1" : "0";
  s += ",\"m\":[";
  bool started = false;
  bool first = true;
  for (int i = 7; i >= 0; --i)
  {
    unsigned const d = static_cast<unsigned>((n.mag >> (8U * static_cast<unsigned>(i))) & 0xFFU);
    if (d != 0) started = true;
    if (started)
    {
      if (!first) s += ',';
      first = false;
      s += std::to_string(d);
    }
  }
  return s + "]}";
}

Num num_of_json(vj::V const &v)
{
  Num n{v.num("s") != 0, 0};
  for (long long d : v.nums("m")) n.mag = (n.mag << 8U) | static_cast<ull>(d);
  return n;
}

// enum texts are logged as JSON strings (TLA+ strings can be compared, not indexed)
std::string ascii_of(std::wstring const &w)
{
  std::string s;
  for (wchar_t c : w) s += (c >= 32 && c < 127) ? static_cast<char>(c) : '\x7f';
  return s;
}
std::string ascii_of(std::string const &w)
{
  std::string s;
  for (char c : w) s += (c >= 32 && c < 127) ? c : '\x7f';
  return s;
}

template <typename T>
struct tname;
#define C15_TNAME(T, N) \
  template <> \
  struct tname<T> \
  { \
    static char const *get() { return N; } \
  };
C15_TNAME(signed char, "schar")
C15_TNAME(unsigned char, "uchar")
C15_TNAME(char, "char")
C15_TNAME(short, "short")
C15_TNAME(unsigned short, "ushort")
C15_TNAME(int, "int")
C15_TNAME(unsigned, "uint")
C15_TNAME(long, "long")
C15_TNAME(unsigned long, "ulong")
C15_TNAME(long long, "llong")
C15_TNAME(unsigned long long, "ullong")
C15_TNAME(float, "float")
C15_TNAME(double, "double")
C15_TNAME(bool, "bool")
C15_TNAME(wchar_t, "wchar_t")

long long records = 0;

// ---- per-call watchdog (round 3): every driven call re-arms a CPU-time timer (ITIMER_VIRTUAL: user
// time of this process only, so a loaded machine cannot fire it); a call that spins for WD_SECS of CPU
// ends the process with a {"e":"crash","what":"hang"} line and rc 68 while the partial line names the call.
constexpr int WD_SECS = 20;
void wd_fire(int) { vj::crash_line("hang", SIGVTALRM); _exit(68); }
void wd_arm()
{
  static bool installed = false;
  if (!installed) { std::signal(SIGVTALRM, wd_fire); installed = true; }
  struct itimerval t{};
  t.it_value.tv_sec = WD_SECS;
  setitimer(ITIMER_VIRTUAL, &t, nullptr);
}
void wd_begin(std::string const &prefix) { wd_arm(); vj::begin_call(prefix); }

void emit(vj::J const &pre, std::function<void(vj::J &)> const &call)
{
  wd_begin(pre.s);
  vj::J rest('{');
  rest.s.clear();
  rest.first = false;
  call(rest);
  vj::end_call(rest.s + "}");
  ++records;
}

// ------------------------------------------------------------------------------ io / swap
template <typename T>
void drive_io(ull const pattern)
{
  T const v = value_of_pattern<T>(pattern);
  vj::J pre;
  pre.kv("f", "io").kv("T", tname<T>::get()).kv("n", static_cast<int>(sizeof(T))).kv("d", digits_of(v));
  if (sizeof(T) <= 4 && pattern < 0x7FFFFFFFULL) pre.kv("v", static_cast<long long>(pattern));
  emit(pre, [&](vj::J &r) {
    std::ostringstream ob;
    fcppt::io::write(ob, v, std::endian::big);
    std::string const wb = ob.str();
    std::ostringstream ol;
    fcppt::io::write(ol, v, std::endian::little);
    std::string const wl = ol.str();
    r.kv("wb", bytes_of(wb)).kv("wl", bytes_of(wl));
    std::istringstream ib(wb);
    fcppt::optional::object<T> const rb = fcppt::io::read<T>(ib, std::endian::big);
    std::istringstream il(wl);
    fcppt::optional::object<T> const rl = fcppt::io::read<T>(il, std::endian::little);
    r.kv("rbok", rb.has_value()).kv("rb", rb.has_value() ? digits_of(rb.get_unsafe()) : std::vector<int>{});
    r.kv("rlok", rl.has_value()).kv("rl", rl.has_value() ? digits_of(rl.get_unsafe()) : std::vector<int>{});
  });
}

template <typename T>
void drive_io_read(std::vector<int> const &bs, bool const big)
{
  vj::J pre;
  pre.kv("f", "io_read").kv("T", tname<T>::get()).kv("n", static_cast<int>(sizeof(T))).kv("bs", bs).kv(
      "e", big ? "big" : "little");
  emit(pre, [&](vj::J &r) {
    std::istringstream in(string_of_bytes(bs));
    fcppt::optional::object<T> const res = fcppt::io::read<T>(in, big ? std::endian::big : std::endian::little);
    r.kv("ok", res.has_value()).kv("r", res.has_value() ? digits_of(res.get_unsafe()) : std::vector<int>{});
  });
}

template <typename T>
void drive_swap(ull const pattern)
{
  T const v = value_of_pattern<T>(pattern);
  vj::J pre;
  pre.kv("f", "swap").kv("T", tname<T>::get()).kv("n", static_cast<int>(sizeof(T))).kv("d", digits_of(v));
  emit(pre, [&](vj::J &r) {
    T const s1 = fcppt::endianness::swap(v);
    T const s2 = fcppt::endianness::swap(s1);
    r.kv("s1", digits_of(s1)).kv("s2", digits_of(s2));
  });
}

// ------------------------------------------------------------------------------ decimal text
char const *const dec_apis[] = {"std_string", "std_wstring", "string", "fcppt_string"};

template <typename T>
void drive_dec(T const v, std::string const &api)
{
  vj::J pre;
  pre.kv("f", "dec").kv("T", tname<T>::get()).kv("bits", static_cast<int>(sizeof(T) * 8)).kv(
      "sg", std::is_signed_v<T> ? 1 : 0);
  pre.kv("api", api).raw("x", num_json(num_of(v)));
  emit(pre, [&](vj::J &r) {
    fcppt::optional::object<T> back;
    if (api == "std_wstring")
    {
      std::wstring const t = fcppt::output_to_std_wstring(v);
      r.raw("text", vj::cps(t));
      back = fcppt::extract_from_string<T>(t);
    }
    else
    {
      std::string const t = api == "std_string" ? fcppt::output_to_std_string(v)
                            : api == "string"   ? fcppt::output_to_string<std::string>(v)
                                                : fcppt::output_to_fcppt_string(v);
      r.raw("text", vj::cps(t));
      back = fcppt::extract_from_string<T>(t);
    }
    r.kv("xok", back.has_value());
    r.raw("xv", back.has_value() ? num_json(num_of(back.get_unsafe())) : std::string("{\"s\":0,\"m\":[]}"));
  });
}

// ------------------------------------------------------------------------------ decimal text, *_locale overloads
// numpunct facets built in-process (the table is repeated in spec/Codec.tla, Puncts)
template <typename Ch>
class punct_facet : public std::numpunct<Ch>
{
public:
  punct_facet(char const _sep, std::string _grouping, char const _point)
      : sep_(_sep), grouping_(std::move(_grouping)), point_(_point)
  {
  }

protected:
  Ch do_thousands_sep() const override { return static_cast<Ch>(sep_); }
  std::string do_grouping() const override { return grouping_; }
  Ch do_decimal_point() const override { return static_cast<Ch>(point_); }

private:
  char sep_;
  std::string grouping_;
  char point_;
};

std::locale make_punct_locale(char const sep, std::string const &grouping, char const point)
{
  std::locale const narrow(std::locale::classic(), new punct_facet<char>(sep, grouping, point));
  return std::locale(narrow, new punct_facet<wchar_t>(sep, grouping, point));
}

std::locale const &locale_named(std::string const &name)
{
  static std::locale const grouped = make_punct_locale('\'', "\3", '.');
  static std::locale const decimal_comma = make_punct_locale(',', "", ',');
  static std::locale const german = make_punct_locale('.', "\3", ',');
  if (name == "grouped") return grouped;
  if (name == "decimal_comma") return decimal_comma;
  if (name == "german") return german;
  return std::locale::classic();
}

char const *const loc_names[] = {"classic", "grouped", "decimal_comma", "german"};
char const *const dec_loc_apis[] = {"std_string_locale", "std_wstring_locale", "string_locale", "fcppt_string_locale", "wstring_locale"};

// the global C++ locale is `glob` while the call runs (restored to the classic one afterwards)
template <typename T>
void drive_dec_loc(T const v, std::string const &api, std::string const &loc, std::string const &glob)
{
  vj::J pre;
  pre.kv("f", "dec_loc").kv("T", tname<T>::get()).kv("bits", static_cast<int>(sizeof(T) * 8)).kv("sg", std::is_signed_v<T> ? 1 : 0);
  pre.kv("api", api).kv("loc", loc).kv("glob", glob).raw("x", num_json(num_of(v)));
  std::locale const &l = locale_named(loc);
  emit(pre, [&](vj::J &r) {
    std::locale::global(locale_named(glob));
    fcppt::optional::object<T> back;
    std::string text_json;
    if (api == "std_wstring_locale" || api == "wstring_locale")
    {
      std::wstring const t =
          api == "std_wstring_locale" ? fcppt::output_to_std_wstring_locale(v, l) : fcppt::output_to_string_locale<std::wstring>(v, l);
      text_json = vj::cps(t);
      back = fcppt::extract_from_string_locale<T>(t, l);
    }
    else
    {
      std::string const t = api == "std_string_locale" ? fcppt::output_to_std_string_locale(v, l)
                            : api == "string_locale"   ? fcppt::output_to_string_locale<std::string>(v, l)
                                                       : fcppt::output_to_fcppt_string_locale(v, l);
      text_json = vj::cps(t);
      back = fcppt::extract_from_string_locale<T>(t, l);
    }
    std::locale::global(std::locale::classic());
    r.raw("text", text_json);
    r.kv("xok", back.has_value());
    r.raw("xv", back.has_value() ? num_json(num_of(back.get_unsafe())) : std::string("{\"s\":0,\"m\":[]}"));
  });
}

template <typename T>
void dec_loc_family(std::vector<ull> const &patterns, std::size_t const every)
{
  char const *const globs[] = {"classic", "german", "grouped"};
  std::size_t k = 0;
  for (ull p : patterns)
  {
    T const v = static_cast<T>(static_cast<pattern_t<T>>(p));
    for (int l = 0; l < 4; ++l)
    {
      // every value: the narrow API with the global locale left classic; the other APIs and other
      // global locales in rotation
      drive_dec_loc<T>(v, dec_loc_apis[0], loc_names[l], "classic");
      if (k % every == 0)
      {
        drive_dec_loc<T>(v, dec_loc_apis[1 + (k / every + static_cast<std::size_t>(l)) % 4], loc_names[l], "classic");
        drive_dec_loc<T>(v, dec_loc_apis[(k / every) % 5], loc_names[l], globs[1 + (k / every + static_cast<std::size_t>(l)) % 2]);
      }
    }
    ++k;
  }
}

// text: a decimal text (input generator: std::to_string of a wider value); extracted into T
template <typename T>
void drive_dec_over(std::string const &text, bool const wide)
{
  vj::J pre;
  pre.kv("f", "dec_over").kv("T", tname<T>::get()).kv("bits", static_cast<int>(sizeof(T) * 8)).kv(
      "sg", std::is_signed_v<T> ? 1 : 0);
  pre.kv("ch", wide ? "w" : "c").raw("text", vj::cps(text));
  emit(pre, [&](vj::J &r) {
    fcppt::optional::object<T> const res = wide ? fcppt::extract_from_string<T>(std::wstring(text.begin(), text.end()))
                                                : fcppt::extract_from_string<T>(text);
    r.kv("ok", res.has_value());
    r.raw("v", res.has_value() ? num_json(num_of(res.get_unsafe())) : std::string("{\"s\":0,\"m\":[]}"));
  });
}

// ------------------------------------------------------------------------------ enums
template <typename E>
std::string opt_enum_json(fcppt::optional::object<E> const &o)
{
  return o.has_value() ? "[" + std::to_string(static_cast<long long>(fcppt::cast::enum_to_underlying(o.get_unsafe()))) + "]"
                       : std::string("[]");
}

template <typename E, typename Ch>
fcppt::optional::object<E> stream_in(std::basic_string<Ch> const &text)
{
  std::basic_istringstream<Ch> in(text);
  E res{};
  if (in >> res) return fcppt::optional::object<E>{res};
  return fcppt::optional::object<E>{};
}

template <typename E>
void drive_enum(char const *name, int const i, int const size)
{
  E const e = static_cast<E>(i); // i is an enumerator index of E (generator precondition)
  vj::J pre;
  pre.kv("f", "enum").kv("E", name).kv("i", i);
  emit(pre, [&](vj::J &r) {
    std::string const ts{fcppt::enum_::to_string(e)};
    r.kv("ts", ascii_of(ts));
    r.raw("fs", opt_enum_json(fcppt::enum_::from_string<E>(ts)));
    std::ostringstream os;
    os << e;
    r.kv("os", ascii_of(os.str()));
    r.raw("is", opt_enum_json(stream_in<E, char>(os.str())));
    std::wostringstream wos;
    wos << e;
    r.kv("wos", ascii_of(wos.str()));
    r.raw("wis", opt_enum_json(stream_in<E, wchar_t>(wos.str())));
    // round 3: several enumerators on one stream, separated by blanks, read back one after the other
    if (size > 0)
    {
      E const e2 = static_cast<E>((i + 1) % size);
      r.kv("j", (i + 1) % size);
      auto const seq = [&]<typename Ch>(Ch, char const *tk, char const *rk) {
        std::basic_ostringstream<Ch> so;
        so << e << so.widen(' ') << e2 << so.widen(' ') << so.widen(' ') << e;
        r.kv(tk, ascii_of(so.str()));
        std::basic_istringstream<Ch> si(so.str());
        std::string reads = "[";
        for (int k = 0; k < 3; ++k)
        {
          E x{};
          bool const ok = static_cast<bool>(si >> x);
          reads += (k ? "," : "") + opt_enum_json(ok ? fcppt::optional::object<E>{x} : fcppt::optional::object<E>{});
        }
        r.raw(rk, reads + "]");
      };
      seq(char{}, "sqt", "sq");
      seq(wchar_t{}, "wsqt", "wsq");
    }
  });
}

template <typename E>
void drive_enum_from(char const *name, std::string const &tok)
{
  vj::J pre;
  pre.kv("f", "enum_from").kv("E", name).kv("s", tok);
  emit(pre, [&](vj::J &r) {
    r.raw("r", opt_enum_json(fcppt::enum_::from_string<E>(tok)));
    r.raw("rin", opt_enum_json(stream_in<E, char>(tok)));
  });
}

// ------------------------------------------------------------------------------ vector / dim
template <typename V, typename Ch>
void drive_vec(char const *kind, std::vector<Num> const &xs)
{
  using T = typename V::value_type;
  V v{fcppt::no_init{}};
  for (std::size_t i = 0; i < xs.size(); ++i) v.get_unsafe(i) = int_of_num<T>(xs[i]);
  vj::J pre;
  pre.kv("f", "vec").kv("k", kind).kv("T", tname<T>::get()).kv("bits", static_cast<int>(sizeof(T) * 8)).kv(
      "sg", std::is_signed_v<T> ? 1 : 0);
  pre.kv("N", static_cast<int>(xs.size())).kv("ch", sizeof(Ch) == 1 ? "c" : "w");
  std::string xj = "[";
  for (std::size_t i = 0; i < xs.size(); ++i) xj += (i ? "," : "") + num_json(num_of(int_of_num<T>(xs[i])));
  pre.raw("xs", xj + "]");
  emit(pre, [&](vj::J &r) {
    std::basic_ostringstream<Ch> out;
    out << v;
    std::basic_string<Ch> const text = out.str();
    r.raw("text", vj::cps(text));
    std::basic_istringstream<Ch> in(text);
    V back{fcppt::no_init{}};
    for (std::size_t i = 0; i < xs.size(); ++i) back.get_unsafe(i) = T{};
    bool const ok = static_cast<bool>(in >> back);
    r.kv("ok", ok);
    std::string yj = "[";
    if (ok)
      for (std::size_t i = 0; i < xs.size(); ++i) yj += (i ? "," : "") + num_json(num_of(back.get_unsafe(i)));
    r.raw("ys", yj + "]");
  });
}

template <typename T, std::size_t N>
using vec_t = fcppt::math::vector::static_<T, N>;
template <typename T, std::size_t N>
using dim_t = fcppt::math::dim::static_<T, N>;

// dispatch on (kind, T, N, ch); returns false for an unknown combination
bool drive_vec_named(std::string const &k, std::string const &t, std::size_t const n, bool const wide, std::vector<Num> const &xs)
{
#define C15_VEC(K, KIND, T, N) \
  if (k == K && t == tname<T>::get() && n == N) \
  { \
    if (wide) drive_vec<KIND<T, N>, wchar_t>(K, xs); \
    else drive_vec<KIND<T, N>, char>(K, xs); \
    return true; \
  }
  C15_VEC("vector", vec_t, int, 1)
  C15_VEC("vector", vec_t, int, 2)
  C15_VEC("vector", vec_t, int, 3)
  C15_VEC("vector", vec_t, int, 4)
  C15_VEC("vector", vec_t, long, 2)
  C15_VEC("vector", vec_t, unsigned, 3)
  C15_VEC("vector", vec_t, short, 2)
  C15_VEC("dim", dim_t, unsigned, 2)
  C15_VEC("dim", dim_t, int, 3)
  C15_VEC("dim", dim_t, unsigned long, 2)
  C15_VEC("dim", dim_t, int, 1)
#undef C15_VEC
  return false;
}


// ------------------------------------------------------------------------------ several vectors / dims on ONE stream
// (in scope: "vector and dim output/input").  Values of mixed shapes are written to one stream,
// each preceded by a separator (white space or nothing), optionally after an int, and read back
// in order with operator>>.
std::vector<ull> lattice(unsigned bits, vj::Rng &r, std::size_t nrandom);

struct SeqItem
{
  std::string k;
  std::string t;
  std::vector<Num> xs;
};

template <typename F>
bool with_shape(std::string const &k, std::string const &t, std::size_t const n, F const &f)
{
#define C15_SHAPE(K, KIND, T, N) \
  if (k == K && t == tname<T>::get() && n == N) \
  { \
    f(static_cast<KIND<T, N> *>(nullptr)); \
    return true; \
  }
  C15_SHAPE("vector", vec_t, int, 1)
  C15_SHAPE("vector", vec_t, int, 2)
  C15_SHAPE("vector", vec_t, int, 3)
  C15_SHAPE("vector", vec_t, int, 4)
  C15_SHAPE("vector", vec_t, long, 2)
  C15_SHAPE("vector", vec_t, unsigned, 3)
  C15_SHAPE("vector", vec_t, short, 2)
  C15_SHAPE("dim", dim_t, unsigned, 2)
  C15_SHAPE("dim", dim_t, int, 3)
  C15_SHAPE("dim", dim_t, unsigned long, 2)
  C15_SHAPE("dim", dim_t, int, 1)
#undef C15_SHAPE
  return false;
}

template <typename Ch>
void drive_vecseq(bool const lead, int const lead_value, std::vector<std::string> const &seps, std::vector<SeqItem> const &items)
{
  vj::J pre;
  pre.kv("f", "vecseq").kv("ch", sizeof(Ch) == 1 ? "c" : "w");
  pre.raw("lead", lead ? "[" + num_json(num_of(lead_value)) + "]" : std::string("[]"));
  std::string sj = "[";
  for (std::size_t i = 0; i < seps.size(); ++i) sj += (i ? "," : "") + vj::cps(seps[i]);
  pre.raw("seps", sj + "]");
  std::string ij = "[";
  for (std::size_t i = 0; i < items.size(); ++i)
  {
    SeqItem const &it = items[i];
    int bits = 0;
    int sg = 0;
    with_shape(it.k, it.t, it.xs.size(), [&]<typename V>(V *) {
      bits = static_cast<int>(sizeof(typename V::value_type) * 8);
      sg = std::is_signed_v<typename V::value_type> ? 1 : 0;
    });
    std::string xj = "[";
    for (std::size_t j = 0; j < it.xs.size(); ++j) xj += (j ? "," : "") + num_json(it.xs[j]);
    ij += std::string(i ? "," : "") + "{\"k\":\"" + it.k + "\",\"T\":\"" + it.t + "\",\"bits\":" + std::to_string(bits) + ",\"sg\":" + std::to_string(sg) +
          ",\"xs\":" + xj + "]}";
  }
  pre.raw("items", ij + "]");
  emit(pre, [&](vj::J &r) {
    std::basic_ostringstream<Ch> out;
    if (lead) out << lead_value;
    for (std::size_t i = 0; i < items.size(); ++i)
    {
      for (char c : seps[i]) out << out.widen(c);
      with_shape(items[i].k, items[i].t, items[i].xs.size(), [&]<typename V>(V *) {
        V v{fcppt::no_init{}};
        for (std::size_t j = 0; j < items[i].xs.size(); ++j) v.get_unsafe(j) = int_of_num<typename V::value_type>(items[i].xs[j]);
        out << v;
      });
    }
    r.raw("text", vj::cps(out.str()));
    std::basic_istringstream<Ch> in(out.str());
    if (lead)
    {
      int lv = 0;
      bool const ok = static_cast<bool>(in >> lv);
      r.kv("leadok", ok).raw("leadv", num_json(num_of(lv)));
    }
    std::string rj = "[";
    for (std::size_t i = 0; i < items.size(); ++i)
    {
      with_shape(items[i].k, items[i].t, items[i].xs.size(), [&]<typename V>(V *) {
        V back{fcppt::no_init{}};
        for (std::size_t j = 0; j < items[i].xs.size(); ++j) back.get_unsafe(j) = typename V::value_type{};
        bool const ok = static_cast<bool>(in >> back);
        std::string yj = "[";
        if (ok)
          for (std::size_t j = 0; j < items[i].xs.size(); ++j) yj += (j ? "," : "") + num_json(num_of(back.get_unsafe(j)));
        rj += std::string(i ? "," : "") + "{\"ok\":" + (ok ? "true" : "false") + ",\"ys\":" + yj + "]}";
      });
    }
    r.raw("reads", rj + "]");
  });
}

void vecseq_records(vj::Rng &r, bool const thorough)
{
  struct Sh
  {
    char const *k;
    char const *t;
    std::size_t n;
    unsigned bits;
    bool sg;
  };
  Sh const shapes[] = {{"vector", "int", 1, 32, true},   {"vector", "int", 2, 32, true},  {"vector", "int", 3, 32, true},
                       {"vector", "int", 4, 32, true},   {"vector", "long", 2, 64, true}, {"vector", "uint", 3, 32, false},
                       {"vector", "short", 2, 16, true}, {"dim", "uint", 2, 32, false},   {"dim", "int", 3, 32, true},
                       {"dim", "ulong", 2, 64, false},   {"dim", "int", 1, 32, true}};
  char const *const sep_set[] = {"", " ", "\n", "\t ", " \n "};
  auto const item = [&](std::size_t const si) {
    Sh const &sh = shapes[si];
    SeqItem it{sh.k, sh.t, {}};
    std::vector<ull> const lat = lattice(sh.bits, r, 8);
    for (std::size_t j = 0; j < sh.n; ++j)
    {
      if (r.below(3) != 0)
      {
        long long const v = r.range(sh.sg ? -20 : 0, 20);
        it.xs.push_back(num_of(v));
      }
      else
      {
        ull const p = lat[r.below(lat.size())];
        if (sh.sg)
          it.xs.push_back(num_of(sh.bits == 64   ? static_cast<long long>(p)
                                 : sh.bits == 32 ? static_cast<long long>(static_cast<std::int32_t>(p))
                                                 : static_cast<long long>(static_cast<std::int16_t>(p))));
        else it.xs.push_back(Num{false, p});
      }
    }
    return it;
  };
  // every separator before every position for sequences of two values; random longer ones
  for (std::size_t s0 = 0; s0 < 5; ++s0)
    for (std::size_t s1 = 0; s1 < 5; ++s1)
      for (std::size_t a = 0; a < 11; ++a)
      {
        std::size_t const b = (a * 7 + s0 + s1) % 11;
        for (int lead = 0; lead < 2; ++lead)
        {
          // after an int a separator is needed for the int to end; "" would glue "5(" which is fine as well
          std::vector<std::string> const seps{sep_set[s0], sep_set[s1]};
          std::vector<SeqItem> const items{item(a), item(b)};
          if ((a + s0 + s1 + static_cast<std::size_t>(lead)) % 2 == 0) drive_vecseq<char>(lead != 0, 5 + static_cast<int>(a), seps, items);
          else drive_vecseq<wchar_t>(lead != 0, -7 * static_cast<int>(a), seps, items);
        }
      }
  std::size_t const n = thorough ? 20000 : 1500;
  for (std::size_t j = 0; j < n; ++j)
  {
    std::size_t const len = 1 + r.below(4);
    std::vector<std::string> seps;
    std::vector<SeqItem> items;
    for (std::size_t i = 0; i < len; ++i)
    {
      seps.emplace_back(sep_set[r.below(5)]);
      items.push_back(item(r.below(11)));
    }
    bool const lead = r.below(3) == 0;
    if (j % 2 == 0) drive_vecseq<char>(lead, static_cast<int>(r.range(-1000, 1000)), seps, items);
    else drive_vecseq<wchar_t>(lead, static_cast<int>(r.range(-1000, 1000)), seps, items);
  }
}

// ------------------------------------------------------------------------------ UTF-8 locale
std::locale const &utf8_locale()
{
  static std::locale const l("C.utf8");
  return l;
}

char const *const utf8_apis[] = {"locale", "env", "fcppt_locale", "fcppt"};

// w: wide string of scalar values; gb: optional byte string fed to the widening direction
// g: label used only to group records for judging ("single", "string", "cut" = the byte input was cut short)
void drive_utf8(std::string const &api, std::vector<long long> const &w, bool const has_gb, std::vector<int> const &gb, char const *g)
{
  std::wstring ws;
  for (long long c : w) ws += static_cast<wchar_t>(c);
  vj::J pre;
  pre.kv("f", "utf8").kv("g", g).kv("api", api).kv("w", w);
  if (has_gb) pre.kv("gb", gb);
  auto const narrow = [&](std::wstring const &s) -> fcppt::optional::object<std::string> {
    if (api == "locale") return fcppt::narrow_locale(s, utf8_locale());
    if (api == "env") return fcppt::narrow(s);
    if (api == "fcppt_locale") return fcppt::from_std_wstring_locale(s, utf8_locale());
    return fcppt::from_std_wstring(s);
  };
  auto const widen = [&](std::string const &s) -> std::wstring {
    if (api == "locale") return fcppt::widen_locale(s, utf8_locale());
    if (api == "env") return fcppt::widen(s);
    if (api == "fcppt_locale") return fcppt::to_std_wstring_locale(fcppt::string{s}, utf8_locale());
    return fcppt::to_std_wstring(fcppt::string{s});
  };
  // widen reports failure by an exception
  auto const widen_rec = [&](vj::J &r, char const *okk, char const *wk, std::string const &s) {
    bool ok = true;
    std::wstring res;
    try
    {
      res = widen(s);
    }
    catch (std::exception const &)
    {
      ok = false;
    }
    r.kv(okk, ok).raw(wk, vj::cps(res));
  };
  emit(pre, [&](vj::J &r) {
    fcppt::optional::object<std::string> const nb = narrow(ws);
    r.kv("nok", nb.has_value()).kv("nb", nb.has_value() ? bytes_of(nb.get_unsafe()) : std::vector<int>{});
    if (nb.has_value()) widen_rec(r, "rtok", "rt", nb.get_unsafe());
    else r.kv("rtok", false).raw("rt", "[]");
    if (has_gb) widen_rec(r, "wok", "ww", string_of_bytes(gb));
    // round 3: "to/from fcppt::string" also names from_std_string / to_std_string (and the *_locale forms);
    // fcppt::string is std::string in this build, so they must hand every byte string through unchanged
    if (has_gb && (api == "fcppt" || api == "fcppt_locale"))
    {
      static_assert(std::is_same_v<fcppt::string, std::string>, "narrow fcppt::string expected");
      std::string const in = string_of_bytes(gb);
      fcppt::string const fs = api == "fcppt" ? fcppt::from_std_string(in) : fcppt::from_std_string_locale(in, utf8_locale());
      r.kv("fsb", bytes_of(fs));
      fcppt::optional_std_string const ts =
          api == "fcppt" ? fcppt::to_std_string(fcppt::string{in}) : fcppt::to_std_string_locale(fcppt::string{in}, utf8_locale());
      r.kv("tsok", ts.has_value()).kv("tsb", ts.has_value() ? bytes_of(ts.get_unsafe()) : std::vector<int>{});
    }
  });
}

// input generator for the widening direction: bytes of a scalar value by shifts.  The judge does
// not trust it: it decodes the logged bytes itself.
void gen_bytes(std::vector<int> &out, long long const cp)
{
  if (cp < 0x80) out.push_back(static_cast<int>(cp));
  else if (cp < 0x800)
  {
    out.push_back(static_cast<int>(0xC0 | (cp >> 6)));
    out.push_back(static_cast<int>(0x80 | (cp & 0x3F)));
  }
  else if (cp < 0x10000)
  {
    out.push_back(static_cast<int>(0xE0 | (cp >> 12)));
    out.push_back(static_cast<int>(0x80 | ((cp >> 6) & 0x3F)));
    out.push_back(static_cast<int>(0x80 | (cp & 0x3F)));
  }
  else
  {
    out.push_back(static_cast<int>(0xF0 | (cp >> 18)));
    out.push_back(static_cast<int>(0x80 | ((cp >> 12) & 0x3F)));
    out.push_back(static_cast<int>(0x80 | ((cp >> 6) & 0x3F)));
    out.push_back(static_cast<int>(0x80 | (cp & 0x3F)));
  }
}

std::vector<int> gen_bytes(std::vector<long long> const &w)
{
  std::vector<int> r;
  for (long long c : w) gen_bytes(r, c);
  return r;
}

bool is_scalar(long long const cp) { return cp >= 1 && cp <= 0x10FFFF && !(cp >= 0xD800 && cp <= 0xDFFF); }

// a scalar value whose encoding has `cls` bytes (1..4)
long long scalar_of_class(vj::Rng &r, int const cls)
{
  for (;;)
  {
    long long const c = cls == 1   ? r.range(1, 0x7F)
                        : cls == 2 ? r.range(0x80, 0x7FF)
                        : cls == 3 ? r.range(0x800, 0xFFFF)
                                   : r.range(0x10000, 0x10FFFF);
    if (is_scalar(c)) return c;
  }
}

// ------------------------------------------------------------------------------ value sets
std::vector<ull> lattice(unsigned const bits, vj::Rng &r, std::size_t const nrandom)
{
  std::vector<ull> v;
  ull const mask = bits == 64 ? ~0ULL : ((1ULL << bits) - 1ULL);
  for (unsigned b = 0; b <= bits; ++b)
  {
    ull const p = b == 64 ? 0ULL : (1ULL << b);
    for (long long d = -2; d <= 2; ++d) v.push_back((p + static_cast<ull>(d)) & mask);
    for (long long d = -2; d <= 2; ++d) v.push_back((0ULL - p + static_cast<ull>(d)) & mask);
  }
  ull const pats[] = {0x0102030405060708ULL, 0x8090A0B0C0D0E0F0ULL, 0x00FF00FF00FF00FFULL, 0xFF00FF00FF00FF00ULL,
                      0x0000000100000000ULL, 0x00000000FFFFFFFFULL, 0x7F7F7F7F7F7F7F7FULL, 0x123456789ABCDEF0ULL,
                      999999999ULL, 1000000000ULL, 9999999999ULL, 10000000000ULL, 9999999999999999999ULL,
                      10000000000000000000ULL, 999999999999999999ULL, 1000000000000000000ULL};
  for (ull p : pats)
  {
    v.push_back(p & mask);
    v.push_back((p >> (64U - bits)) & mask);
    v.push_back((0ULL - p) & mask);
  }
  for (std::size_t i = 0; i < nrandom; ++i)
  {
    ull x = r.next();
    // random widths as well, so that short decimal texts occur
    unsigned const w = static_cast<unsigned>(r.below(bits)) + 1U;
    if (r.coin()) x &= (w == 64 ? ~0ULL : ((1ULL << w) - 1ULL));
    if (r.coin()) x = 0ULL - x;
    v.push_back(x & mask);
  }
  return v;
}

std::vector<ull> float_patterns(unsigned const bits, vj::Rng &r, std::size_t const nrandom)
{
  std::vector<ull> v;
  if (bits == 32)
  {
    for (ull p : {0x00000000ULL, 0x80000000ULL, 0x3F800000ULL, 0xBF800000ULL, 0x7F800000ULL, 0xFF800000ULL, 0x7FC00000ULL,
                  0x7FA00000ULL, 0xFFC00001ULL, 0x00000001ULL, 0x007FFFFFULL, 0x00800000ULL, 0x7F7FFFFFULL, 0x01020304ULL,
                  0x40490FDBULL})
      v.push_back(p);
    for (std::size_t i = 0; i < nrandom; ++i) v.push_back(r.next() & 0xFFFFFFFFULL);
  }
  else
  {
    for (ull p : {0x0000000000000000ULL, 0x8000000000000000ULL, 0x3FF0000000000000ULL, 0xBFF0000000000000ULL,
                  0x7FF0000000000000ULL, 0xFFF0000000000000ULL, 0x7FF8000000000000ULL, 0x7FF4000000000000ULL,
                  0xFFF8000000000001ULL, 0x0000000000000001ULL, 0x000FFFFFFFFFFFFFULL, 0x0010000000000000ULL,
                  0x7FEFFFFFFFFFFFFFULL, 0x0102030405060708ULL, 0x400921FB54442D18ULL})
      v.push_back(p);
    for (std::size_t i = 0; i < nrandom; ++i) v.push_back(r.next());
  }
  return v;
}

template <typename T>
void io_family(std::vector<ull> const &patterns, std::size_t const swap_every, vj::Rng &r)
{
  std::size_t k = 0;
  for (ull p : patterns)
  {
    drive_io<T>(p);
    if (swap_every != 0 && (k++ % swap_every) == 0) drive_swap<T>(p);
  }
  // io::read on byte strings that did not come from io::write, all lengths 0..sizeof+1
  for (std::size_t len = 0; len <= sizeof(T) + 1; ++len)
    for (int rep = 0; rep < 6; ++rep)
    {
      std::vector<int> bs;
      for (std::size_t i = 0; i < len; ++i) bs.push_back(rep == 0 ? static_cast<int>(i + 1) : static_cast<int>(r.below(256)));
      // a byte other than 0 / 1 is not the representation of a bool value (not "an arithmetic value")
      if constexpr (std::is_same_v<T, bool>)
        for (int &b : bs) b &= 1;
      drive_io_read<T>(bs, true);
      drive_io_read<T>(bs, false);
    }
}

template <typename T>
void dec_family(std::vector<ull> const &patterns, bool const all_apis, std::size_t const other_every)
{
  std::size_t k = 0;
  for (ull p : patterns)
  {
    T const v = static_cast<T>(static_cast<pattern_t<T>>(p));
    drive_dec<T>(v, "std_string");
    if (all_apis || (k % other_every) == 0)
      for (int a = 1; a < 4; ++a) drive_dec<T>(v, dec_apis[a]);
    ++k;
  }
}

template <typename T>
void dec_over_family(std::vector<std::string> const &texts)
{
  std::size_t k = 0;
  for (auto const &t : texts)
  {
    if (!std::is_signed_v<T> && !t.empty() && t[0] == '-') continue; // not constrained by the property
    drive_dec_over<T>(t, false);
    if (k++ % 4 == 0) drive_dec_over<T>(t, true);
  }
}

template <typename E>
void enum_family(char const *name, int const size, std::vector<std::string> const &tokens)
{
  for (int i = 0; i < size; ++i) drive_enum<E>(name, i, size);
  for (auto const &t : tokens) drive_enum_from<E>(name, t);
}

std::vector<ull> all_values(unsigned const bits)
{
  std::vector<ull> v;
  for (ull i = 0; i < (1ULL << bits); ++i) v.push_back(i);
  return v;
}

#ifndef C15_NO_OBSERVED
// ============================================================================== extension round
// Everything below is outside the statement of C15 and is OBSERVED ONLY by the judge.

// ---- fcppt::io character helpers on an input stream.  op codes: 0 get, 1 peek, 2 extract<Ch>,
//      3 expect(arg), 4 stream_to_string
char const *const io_op_names[] = {"get", "peek", "extract", "expect", "to_string"};

template <typename Ch>
void drive_iostream(std::vector<int> const &text, std::vector<std::pair<int, int>> const &ops)
{
  std::basic_string<Ch> t;
  for (int c : text) t += static_cast<Ch>(c);
  std::string oj = "[";
  for (std::size_t i = 0; i < ops.size(); ++i)
  {
    oj += std::string(i ? "," : "") + "[\"" + io_op_names[ops[i].first] + "\"";
    if (ops[i].first == 3) oj += "," + std::to_string(ops[i].second);
    oj += "]";
  }
  vj::J pre;
  pre.kv("f", "iostream").kv("ch", sizeof(Ch) == 1 ? "c" : "w").kv("text", text).raw("ops", oj + "]");
  emit(pre, [&](vj::J &r) {
    std::basic_istringstream<Ch> in(t);
    std::string obs = "[";
    bool first = true;
    for (auto const &op : ops)
    {
      std::string o = "[]";
      auto const ch_json = [](fcppt::optional::object<Ch> const &x) {
        return x.has_value() ? "[" + std::to_string(static_cast<long long>(static_cast<std::make_unsigned_t<Ch>>(x.get_unsafe()))) + "]"
                             : std::string("[]");
      };
      switch (op.first)
      {
      case 0: o = ch_json(fcppt::io::get(in)); break;
      case 1: o = ch_json(fcppt::io::peek(in)); break;
      case 2: o = ch_json(fcppt::io::extract<Ch>(in)); break;
      case 3:
        fcppt::io::expect(in, static_cast<Ch>(op.second));
        o = in.fail() ? "[1]" : "[0]";
        break;
      default:
      {
        auto const res = fcppt::io::stream_to_string(in);
        o = res.has_value() ? "[" + vj::cps(res.get_unsafe()) + "]" : std::string("[]");
        break;
      }
      }
      obs += (first ? "" : ",") + o;
      first = false;
    }
    r.raw("obs", obs + "]");
  });
}

// ---- io::scoped_rdbuf: nested scopes on one ostream.  ops: (0,b) open buffer b, (1,_) close, (2,c) write c
template <typename Ch>
void drive_rdbuf(int const nb, std::vector<std::pair<int, int>> const &ops)
{
  std::string oj = "[";
  for (std::size_t i = 0; i < ops.size(); ++i)
  {
    oj += i ? "," : "";
    if (ops[i].first == 0) oj += "[\"open\"," + std::to_string(ops[i].second) + "]";
    else if (ops[i].first == 1) oj += "[\"close\"]";
    else oj += "[\"write\"," + std::to_string(ops[i].second) + "]";
  }
  vj::J pre;
  pre.kv("f", "rdbuf").kv("ch", sizeof(Ch) == 1 ? "c" : "w").kv("nb", nb).raw("ops", oj + "]");
  emit(pre, [&](vj::J &r) {
    std::vector<std::unique_ptr<std::basic_stringbuf<Ch>>> bufs;
    for (int i = 0; i <= nb; ++i) bufs.push_back(std::make_unique<std::basic_stringbuf<Ch>>());
    std::basic_ostream<Ch> os(bufs[0].get());
    using scope = fcppt::io::basic_scoped_rdbuf<Ch, std::char_traits<Ch>>;
    std::vector<std::unique_ptr<scope>> scopes;
    std::vector<int> cur;
    for (auto const &op : ops)
    {
      if (op.first == 0)
        scopes.push_back(std::make_unique<scope>(
            fcppt::make_ref(static_cast<std::basic_ios<Ch> &>(os)),
            fcppt::make_ref(static_cast<std::basic_streambuf<Ch> &>(*bufs[static_cast<std::size_t>(op.second)]))));
      else if (op.first == 1) scopes.pop_back();
      else os.put(static_cast<Ch>(op.second));
      int which = -1;
      for (int i = 0; i <= nb; ++i)
        if (os.rdbuf() == bufs[static_cast<std::size_t>(i)].get()) which = i;
      cur.push_back(which);
    }
    r.kv("cur", cur);
    std::string bj = "[";
    for (int i = 0; i <= nb; ++i) bj += (i ? "," : "") + vj::cps(bufs[static_cast<std::size_t>(i)]->str());
    r.raw("bufs", bj + "]");
  });
}

// ---- endianness::convert
template <typename T>
void drive_convert(ull const pattern)
{
  T const v = value_of_pattern<T>(pattern);
  vj::J pre;
  pre.kv("f", "convert").kv("T", tname<T>::get()).kv("n", static_cast<int>(sizeof(T))).kv("d", digits_of(v));
  pre.kv("native", std::endian::native == std::endian::little ? "little" : "big");
  emit(pre, [&](vj::J &r) {
    r.kv("cb", digits_of(fcppt::endianness::convert(v, std::endian::big)));
    r.kv("cl", digits_of(fcppt::endianness::convert(v, std::endian::little)));
  });
}

// ---- io::narrow_string / io::widen_string (classic locale)
void drive_narrow_string(std::vector<long long> const &w)
{
  std::wstring ws;
  for (long long c : w) ws += static_cast<wchar_t>(c);
  vj::J pre;
  pre.kv("f", "nstring").kv("k", "narrow").kv("s", w);
  emit(pre, [&](vj::J &r) {
    std::wistringstream dummy;
    auto const res = fcppt::io::narrow_string(dummy, std::wstring_view{ws});
    r.raw("r", res.has_value() ? "[" + vj::cps(res.get_unsafe()) + "]" : std::string("[]"));
  });
}

void drive_widen_string(std::string const &str)
{
  vj::J pre;
  pre.kv("f", "nstring").kv("k", "widen").raw("s", vj::cps(str));
  emit(pre, [&](vj::J &r) {
    std::ostringstream oc;
    oc << fcppt::io::widen_string(str);
    std::wostringstream ow;
    ow << fcppt::io::widen_string(str);
    r.raw("c", vj::cps(oc.str())).raw("w", vj::cps(ow.str()));
    auto const back = fcppt::io::narrow_string(ow, std::wstring_view{ow.str()});
    r.raw("back", back.has_value() ? "[" + vj::cps(back.get_unsafe()) + "]" : std::string("[]"));
  });
}

// ---- strong_typedef << / >>
FCPPT_MAKE_STRONG_TYPEDEF(int, st_int);
FCPPT_MAKE_STRONG_TYPEDEF(long, st_long);
FCPPT_MAKE_STRONG_TYPEDEF(unsigned short, st_ushort);

template <typename S, typename Ch>
void drive_stypedef(char const *name, typename S::value_type const v)
{
  using T = typename S::value_type;
  vj::J pre;
  pre.kv("f", "stypedef").kv("T", name).kv("bits", static_cast<int>(sizeof(T) * 8)).kv("sg", std::is_signed_v<T> ? 1 : 0);
  pre.kv("ch", sizeof(Ch) == 1 ? "c" : "w").raw("x", num_json(num_of(v)));
  emit(pre, [&](vj::J &r) {
    std::basic_ostringstream<Ch> out;
    out << S(v);
    r.raw("text", vj::cps(out.str()));
    std::basic_istringstream<Ch> in(out.str());
    S back(T{});
    bool const ok = static_cast<bool>(in >> back);
    r.kv("ok", ok).raw("y", num_json(num_of(back.get())));
  });
}

// ---- matrix / box output
template <typename Ch>
void drive_matrix(int const a, int const b, int const c, int const d, int const e, int const f)
{
  vj::J pre;
  pre.kv("f", "matrix").kv("ch", sizeof(Ch) == 1 ? "c" : "w");
  auto const row = [](int x, int y, int z) { return "[" + num_json(num_of(x)) + "," + num_json(num_of(y)) + "," + num_json(num_of(z)) + "]"; };
  pre.raw("rows", "[" + row(a, b, c) + "," + row(d, e, f) + "]");
  emit(pre, [&](vj::J &r) {
    fcppt::math::matrix::static_<int, 2, 3> const m(fcppt::math::matrix::row(a, b, c), fcppt::math::matrix::row(d, e, f));
    std::basic_ostringstream<Ch> out;
    out << m;
    r.raw("text", vj::cps(out.str()));
  });
}

template <typename Ch>
void drive_box(int const x, int const y, int const w, int const h)
{
  vj::J pre;
  pre.kv("f", "box").kv("ch", sizeof(Ch) == 1 ? "c" : "w");
  pre.raw("pos", "[" + num_json(num_of(x)) + "," + num_json(num_of(y)) + "]").raw("size", "[" + num_json(num_of(w)) + "," + num_json(num_of(h)) + "]");
  emit(pre, [&](vj::J &r) {
    using box = fcppt::math::box::object<int, 2>;
    box const bx(typename box::vector(x, y), typename box::dim(w, h));
    std::basic_ostringstream<Ch> out;
    out << bx;
    r.raw("text", vj::cps(out.str()));
  });
}

// ---- enum name tables
template <typename E>
void drive_enum_names(char const *name)
{
  vj::J pre;
  pre.kv("f", "enum_names").kv("E", name);
  emit(pre, [&](vj::J &r) {
    auto const names = fcppt::enum_::names<E>();
    std::vector<std::string> v;
    for (E const e : fcppt::enum_::make_range<E>()) v.push_back(ascii_of(std::string{names[e]}));
    r.raw("names", vj::str_arr(v));
  });
}

// ---- literals
#define C15_LITERAL(LIT, CH) \
  { \
    vj::J pre; \
    pre.kv("f", "literal").kv("src", #LIT); \
    emit(pre, [&](vj::J &r) { \
      r.raw("c", vj::cps(std::string{FCPPT_STRING_LITERAL(char, LIT)})); \
      r.raw("w", vj::cps(std::wstring{FCPPT_STRING_LITERAL(wchar_t, LIT)})); \
      r.raw("t", vj::cps(fcppt::string{FCPPT_TEXT(LIT)})); \
      r.kv("cc", static_cast<int>(static_cast<unsigned char>(FCPPT_CHAR_LITERAL(char, CH)))); \
      r.kv("wc", static_cast<int>(FCPPT_CHAR_LITERAL(wchar_t, CH))); \
    }); \
  }

void extension_records(vj::Rng &r, bool const thorough)
{
  // io helpers: every text of length <= 3 over {a, b, blank} x every sequence of <= 3 operations (char);
  // random longer ones (char and wchar_t)
  {
    int const alphabet[] = {97, 98, 32};
    std::vector<std::pair<int, int>> const all_ops = {{0, 0}, {1, 0}, {2, 0}, {3, 97}, {3, 98}, {4, 0}};
    for (int len = 0; len <= 3; ++len)
    {
      int total = 1;
      for (int i = 0; i < len; ++i) total *= 3;
      for (int idx = 0; idx < total; ++idx)
      {
        std::vector<int> text;
        int q = idx;
        for (int i = 0; i < len; ++i)
        {
          text.push_back(alphabet[q % 3]);
          q /= 3;
        }
        for (int ol = 1; ol <= 3; ++ol)
        {
          int ot = 1;
          for (int i = 0; i < ol; ++i) ot *= 6;
          for (int oi = 0; oi < ot; ++oi)
          {
            std::vector<std::pair<int, int>> ops;
            int oq = oi;
            for (int i = 0; i < ol; ++i)
            {
              ops.push_back(all_ops[static_cast<std::size_t>(oq % 6)]);
              oq /= 6;
            }
            drive_iostream<char>(text, ops);
          }
        }
      }
    }
    int const alphabet2[] = {97, 98, 99, 32, 9, 10, 48};
    std::size_t const n = thorough ? 20000 : 2000;
    for (std::size_t j = 0; j < n; ++j)
    {
      std::vector<int> text;
      std::size_t const len = r.below(9);
      for (std::size_t i = 0; i < len; ++i) text.push_back(alphabet2[r.below(7)]);
      std::vector<std::pair<int, int>> ops;
      std::size_t const ol = 1 + r.below(8);
      for (std::size_t i = 0; i < ol; ++i)
      {
        int const code = static_cast<int>(r.below(10));
        ops.push_back(code < 3 ? std::make_pair(0, 0) : code < 5 ? std::make_pair(1, 0) : code < 7 ? std::make_pair(2, 0)
                      : code < 9 ? std::make_pair(3, alphabet2[r.below(3)]) : std::make_pair(4, 0));
      }
      if (j % 2 == 0) drive_iostream<char>(text, ops);
      else drive_iostream<wchar_t>(text, ops);
    }
  }
  // scoped_rdbuf: random well-nested sequences; every scope is closed at the end
  {
    std::size_t const n = thorough ? 10000 : 1500;
    for (std::size_t j = 0; j < n; ++j)
    {
      int const nb = 1 + static_cast<int>(r.below(3));
      std::vector<std::pair<int, int>> ops;
      int depth = 0;
      std::size_t const len = r.below(10);
      for (std::size_t i = 0; i < len; ++i)
      {
        std::uint64_t const c = r.below(10);
        if (c < 3 && depth < 4)
        {
          ops.emplace_back(0, 1 + static_cast<int>(r.below(static_cast<std::uint64_t>(nb))));
          ++depth;
        }
        else if (c < 5 && depth > 0)
        {
          ops.emplace_back(1, 0);
          --depth;
        }
        else
          ops.emplace_back(2, 97 + static_cast<int>(r.below(26)));
      }
      while (depth-- > 0)
      {
        ops.emplace_back(1, 0);
        ops.emplace_back(2, 122);
      }
      if (j % 2 == 0) drive_rdbuf<char>(nb, ops);
      else drive_rdbuf<wchar_t>(nb, ops);
    }
  }
  // endianness::convert for the integer types
  {
    for (ull p : all_values(8)) drive_convert<unsigned char>(p);
    for (ull p = 0; p < 65536; p += (thorough ? 1 : 7)) drive_convert<unsigned short>(p);
    for (ull p = 0; p < 65536; p += (thorough ? 1 : 11)) drive_convert<short>(p);
    for (ull p : lattice(32, r, 512)) { drive_convert<int>(p); drive_convert<unsigned>(p); drive_convert<wchar_t>(p); }
    for (ull p : lattice(64, r, 512)) { drive_convert<long>(p); drive_convert<unsigned long long>(p); }
    drive_convert<bool>(0);
    drive_convert<bool>(1);
  }
  // narrow_string / widen_string
  {
    std::size_t const n = thorough ? 5000 : 800;
    for (std::size_t j = 0; j < n; ++j)
    {
      std::vector<long long> w;
      std::string s;
      std::size_t const len = r.below(12);
      for (std::size_t i = 0; i < len; ++i)
      {
        long long const c = r.range(1, 127);
        w.push_back((j % 3 == 1 && r.below(5) == 0) ? (r.coin() ? 0 : r.range(256, 0x10FFFF)) : c);
        s += static_cast<char>(c);
      }
      drive_narrow_string(w);
      drive_widen_string(s);
    }
  }
  // strong typedefs, matrices, boxes
  {
    for (ull p : lattice(32, r, 200))
    {
      drive_stypedef<st_int, char>("st_int", static_cast<int>(static_cast<std::uint32_t>(p)));
      drive_stypedef<st_int, wchar_t>("st_int", static_cast<int>(static_cast<std::uint32_t>(p)));
    }
    for (ull p : lattice(64, r, 200)) drive_stypedef<st_long, char>("st_long", static_cast<long>(p));
    for (ull p = 0; p < 65536; p += 97) drive_stypedef<st_ushort, char>("st_ushort", static_cast<unsigned short>(p));
    for (int i = 0; i < 300; ++i)
    {
      auto const v = [&] { return static_cast<int>(r.range(-1000, 1000)); };
      int const a = v(), b = v(), c = v(), d = v(), e = v(), f = v();
      if (i % 2 == 0) drive_matrix<char>(a, b, c, d, e, f);
      else drive_matrix<wchar_t>(a, b, c, d, e, f);
      if (i % 2 == 0) drive_box<char>(a, b, c < 0 ? -c : c, d < 0 ? -d : d);
      else drive_box<wchar_t>(a, b, c < 0 ? -c : c, d < 0 ? -d : d);
    }
  }
  drive_enum_names<E1>("E1");
  drive_enum_names<E3>("E3");
  drive_enum_names<E9>("E9");
  drive_enum_names<E5u8>("E5u8");
  C15_LITERAL("", 'a')
  C15_LITERAL("test", 't')
  C15_LITERAL("a b\tc\n", '\n')
  C15_LITERAL("quote\" backslash\\ percent% {}", '\\')
  C15_LITERAL("0123456789 the quick brown fox jumps over the lazy dog", '~')
}

#endif // C15_NO_OBSERVED

// Sections (round 3): the enumeration is cut into numbered sections; the number of the running section
// is written to OUT.sec, and `record OUT seed tier FROM` skips the sections below FROM.  After a crash /
// hang inside one section the check restarts the harness behind it, so that one dying call does not
// hide the other record kinds.  Every section draws from its own generator (seed, section).  The
// observed-only records (outside the statement of C15) are driven last.
std::string sec_path;
int sec_from = 0;
int sec_now = 0;
bool sec_begin(vj::Rng &r, std::uint64_t const seed)
{
  ++sec_now;
  r = vj::Rng(seed * 1000003ULL + static_cast<std::uint64_t>(sec_now));
  if (sec_now < sec_from) return false;
  if (FILE *f = std::fopen(sec_path.c_str(), "w"))
  {
    std::fprintf(f, "%d\n", sec_now);
    std::fclose(f);
  }
  return true;
}

void record(std::uint64_t const seed, bool const thorough)
{
  vj::Rng r(seed);
  if (sec_begin(r, seed)) vecseq_records(r, thorough);
  std::size_t const nrand = thorough ? 40000 : 4096;
  // ---- binary
  if (sec_begin(r, seed))
  {
  io_family<signed char>(all_values(8), 1, r);
  io_family<unsigned char>(all_values(8), 1, r);
  io_family<char>(all_values(8), 1, r);
  io_family<bool>({0ULL, 1ULL}, 1, r);
  io_family<short>(all_values(16), thorough ? 1 : 3, r); // same bit patterns as unsigned short
  io_family<unsigned short>(all_values(16), 1, r);
  io_family<int>(lattice(32, r, nrand), 1, r);
  io_family<unsigned>(lattice(32, r, nrand), 1, r);
  io_family<wchar_t>(lattice(32, r, nrand / 8), 1, r);
  io_family<long>(lattice(64, r, nrand), 1, r);
  io_family<unsigned long>(lattice(64, r, nrand), 1, r);
  io_family<long long>(lattice(64, r, nrand / 8), 1, r);
  io_family<unsigned long long>(lattice(64, r, nrand / 8), 1, r);
  io_family<float>(float_patterns(32, r, nrand), 5, r); // round 3: swap is defined for every arithmetic type
  io_family<double>(float_patterns(64, r, nrand), 5, r);
  }
  // ---- decimal text
  if (sec_begin(r, seed))
  {
  dec_family<short>(all_values(16), false, thorough ? 1 : 11);
  dec_family<unsigned short>(all_values(16), false, thorough ? 1 : 11);
  dec_family<int>(lattice(32, r, nrand / 2), true, 1);
  dec_family<unsigned>(lattice(32, r, nrand / 2), true, 1);
  dec_family<long>(lattice(64, r, nrand / 2), true, 1);
  dec_family<unsigned long>(lattice(64, r, nrand / 2), true, 1);
  dec_family<long long>(lattice(64, r, nrand / 8), true, 1);
  dec_family<unsigned long long>(lattice(64, r, nrand / 8), true, 1);
  }
  if (sec_begin(r, seed))
  {
    std::vector<std::string> texts;
    for (ull p : lattice(64, r, nrand / 4))
    {
      texts.push_back(std::to_string(p));
      texts.push_back(std::to_string(static_cast<long long>(p)));
    }
    // far beyond 64 bits
    texts.push_back("18446744073709551616");
    texts.push_back("-9223372036854775809");
    texts.push_back("340282366920938463463374607431768211456");
    texts.push_back("100000000000000000000000000000");
    dec_over_family<short>(texts);
    dec_over_family<unsigned short>(texts);
    dec_over_family<int>(texts);
    dec_over_family<unsigned>(texts);
    dec_over_family<long>(texts);
    dec_over_family<unsigned long>(texts);
  }
  // ---- decimal text with explicitly passed locales (numpunct facets), global locale classic / other
  if (sec_begin(r, seed))
  {
    std::vector<ull> small;
    for (ull i = 0; i < 65536; i += (thorough ? 1 : 13)) small.push_back(i);
    for (ull i : {999ULL, 1000ULL, 1001ULL, 9999ULL, 10000ULL, 32767ULL, 32768ULL, 64535ULL, 64536ULL, 65535ULL}) small.push_back(i);
    dec_loc_family<short>(small, 3);
    dec_loc_family<unsigned short>(small, 3);
    dec_loc_family<int>(lattice(32, r, nrand / 8), 2);
    dec_loc_family<unsigned>(lattice(32, r, nrand / 8), 2);
    dec_loc_family<long>(lattice(64, r, nrand / 8), 2);
    dec_loc_family<unsigned long>(lattice(64, r, nrand / 8), 2);
    dec_loc_family<long long>(lattice(64, r, nrand / 16), 2);
    dec_loc_family<unsigned long long>(lattice(64, r, nrand / 16), 2);
  }
  // ---- enums
  if (sec_begin(r, seed))
  {
    std::vector<std::string> names = {"solo", "red", "green", "blue", "a", "ab", "abc", "B", "b_", "zero0", "x-y", "Ab",
                                      "last", "north", "east", "south", "west", "up"};
    std::vector<std::string> tokens;
    for (auto const &n : names)
    {
      tokens.push_back(n);
      for (std::size_t l = 1; l < n.size(); ++l) tokens.push_back(n.substr(0, l));
      for (std::size_t l = 1; l < n.size(); ++l) tokens.push_back(n.substr(l));
      tokens.push_back(n + "x");
      tokens.push_back(n + n);
      tokens.push_back("x" + n);
      std::string u = n;
      for (char &c : u) c = static_cast<char>((c >= 'a' && c <= 'z') ? c - 32 : ((c >= 'A' && c <= 'Z') ? c + 32 : c));
      tokens.push_back(u);
    }
    tokens.push_back("0");
    tokens.push_back("1");
    tokens.push_back("fcppt_maximum");
    tokens.push_back("x_y");
    enum_family<E1>("E1", 1, tokens);
    enum_family<E3>("E3", 3, tokens);
    enum_family<E9>("E9", 9, tokens);
    enum_family<E5u8>("E5u8", 5, tokens);
  }
  // ---- vectors / dims: all small integer vectors, then boundary / random components
  if (sec_begin(r, seed))
  {
    struct Shape
    {
      char const *k;
      char const *t;
      std::size_t n;
      unsigned bits;
      bool sg;
    };
    Shape const shapes[] = {{"vector", "int", 1, 32, true},   {"vector", "int", 2, 32, true},  {"vector", "int", 3, 32, true},
                            {"vector", "int", 4, 32, true},   {"vector", "long", 2, 64, true}, {"vector", "uint", 3, 32, false},
                            {"vector", "short", 2, 16, true}, {"dim", "uint", 2, 32, false},   {"dim", "int", 3, 32, true},
                            {"dim", "ulong", 2, 64, false},   {"dim", "int", 1, 32, true}};
    for (Shape const &s : shapes)
    {
      long long const lo = s.sg ? -3 : 0;
      long long const hi = s.sg ? 3 : 6;
      long long const span = hi - lo + 1;
      long long total = 1;
      for (std::size_t i = 0; i < s.n; ++i) total *= span;
      for (long long idx = 0; idx < total; ++idx)
      {
        std::vector<Num> xs;
        long long q = idx;
        for (std::size_t i = 0; i < s.n; ++i)
        {
          xs.push_back(num_of<long long>(lo + q % span));
          q /= span;
        }
        drive_vec_named(s.k, s.t, s.n, (idx % 3) == 2, xs);
      }
      std::vector<ull> const lat = lattice(s.bits, r, 64);
      std::size_t const nvec = thorough ? 4000 : 400;
      for (std::size_t j = 0; j < nvec; ++j)
      {
        std::vector<Num> xs;
        for (std::size_t i = 0; i < s.n; ++i)
        {
          ull const p = lat[r.below(lat.size())];
          if (s.sg)
          {
            long long const sv = s.bits == 64 ? static_cast<long long>(p)
                                 : s.bits == 32 ? static_cast<long long>(static_cast<std::int32_t>(p))
                                                : static_cast<long long>(static_cast<std::int16_t>(p));
            xs.push_back(num_of<long long>(sv));
          }
          else
            xs.push_back(Num{false, p});
        }
        drive_vec_named(s.k, s.t, s.n, (j % 2) == 1, xs);
      }
    }
  }
  // ---- UTF-8: every (sampled) scalar value singly
  if (sec_begin(r, seed))
  {
    long long const boundaries[] = {1, 0x7F, 0x80, 0x7FF, 0x800, 0xFFF, 0x1000, 0xD7FF, 0xE000, 0xFFFD, 0xFFFF, 0x10000,
                                    0x1FFFF, 0x3FFFF, 0x40000, 0xFFFFF, 0x100000, 0x10FFFF, 0x20AC, 0xE9, 0x1F600};
    auto const near_boundary = [&](long long const cp) {
      for (long long b : boundaries)
        if (cp >= b - 3 && cp <= b + 3) return true;
      return false;
    };
    long long const step = thorough ? 1 : 17;
    long long k = 0;
    for (long long cp = 1; cp <= 0x10FFFF; ++cp)
    {
      if (!is_scalar(cp)) continue;
      bool const nb = near_boundary(cp);
      if (!(nb || cp % step == 0)) continue;
      std::vector<long long> const w{cp};
      std::vector<int> gb;
      gen_bytes(gb, cp);
      drive_utf8("locale", w, true, gb, "single");
      ++k;
      if (nb || k % 97 == 0)
      {
        for (int a = 1; a < 4; ++a) drive_utf8(utf8_apis[a], w, true, gb, "single");
        // the input ends inside the character (with and without characters in front)
        for (std::size_t cut = 1; cut < gb.size(); ++cut)
        {
          std::vector<int> const part(gb.begin(), gb.begin() + static_cast<std::ptrdiff_t>(cut));
          drive_utf8(utf8_apis[(cut + static_cast<std::size_t>(k)) % 4], w, true, part, "cut");
          std::vector<int> pre = gen_bytes(std::vector<long long>{0x61, 0xE9});
          pre.insert(pre.end(), part.begin(), part.end());
          drive_utf8("locale", w, true, pre, "cut");
        }
      }
    }
  }
  // ---- UTF-8: strings up to 40 characters; every mix of encoded lengths, so that every
  //      output-buffer growth step of impl/codecvt.hpp is crossed
  if (sec_begin(r, seed))
  {
    // round 3: the empty string is a string of valid characters too
    for (int a = 0; a < 4; ++a) drive_utf8(utf8_apis[a], {}, true, {}, "string");
    int const patterns = 10;
    int const reps = thorough ? 24 : 2;
    for (int len = 1; len <= 40; ++len)
      for (int pat = 0; pat < patterns; ++pat)
        for (int rep = 0; rep < reps; ++rep)
        {
          std::vector<long long> w;
          int const split = static_cast<int>(r.below(static_cast<std::uint64_t>(len) + 1U));
          for (int i = 0; i < len; ++i)
          {
            int cls = 1;
            switch (pat)
            {
            case 0: cls = 1; break;
            case 1: cls = 2; break;
            case 2: cls = 3; break;
            case 3: cls = 4; break;
            case 4: cls = i < split ? 1 : 4; break;
            case 5: cls = i < split ? 4 : 1; break;
            case 6: cls = (i % 2 == 0) ? 1 : 3; break;
            case 7: cls = i + 1 == len ? 4 : 1; break;
            case 8: cls = i == 0 ? 1 : 3; break;
            default: cls = 1 + static_cast<int>(r.below(4)); break;
            }
            w.push_back(scalar_of_class(r, cls));
          }
          drive_utf8(utf8_apis[(len + pat + rep) % 4], w, true, gen_bytes(w), "string");
        }
    std::size_t const nstr = thorough ? 100000 : 2000;
    for (std::size_t j = 0; j < nstr; ++j)
    {
      int const len = 1 + static_cast<int>(r.below(40));
      int const bias = static_cast<int>(r.below(5));
      std::vector<long long> w;
      for (int i = 0; i < len; ++i)
        w.push_back(scalar_of_class(r, (bias > 0 && r.below(3) != 0) ? bias : 1 + static_cast<int>(r.below(4))));
      std::vector<int> gb = gen_bytes(w);
      // now and then the byte input ends inside its last character
      bool cut = false;
      if (j % 16 == 3)
      {
        std::vector<int> last;
        gen_bytes(last, w.back());
        if (last.size() > 1)
        {
          gb.resize(gb.size() - 1U - r.below(last.size() - 1U));
          cut = true;
        }
      }
      drive_utf8(utf8_apis[j % 4], w, true, gb, cut ? "cut" : "string");
    }
  }
  // ---- observed only (outside the statement of C15): driven last
#ifndef C15_NO_OBSERVED
  if (sec_begin(r, seed)) extension_records(r, thorough);
#endif
  // further sections are appended below this line (the check relies on: last section = sec_now at exit)
}

template <typename F>
bool with_arith(std::string const &t, F const &f)
{
#define C15_T(T) \
  if (t == tname<T>::get()) \
  { \
    f(static_cast<T *>(nullptr)); \
    return true; \
  }
  C15_T(signed char)
  C15_T(unsigned char)
  C15_T(char)
  C15_T(bool)
  C15_T(short)
  C15_T(unsigned short)
  C15_T(int)
  C15_T(unsigned)
  C15_T(wchar_t)
  C15_T(long)
  C15_T(unsigned long)
  C15_T(long long)
  C15_T(unsigned long long)
  C15_T(float)
  C15_T(double)
#undef C15_T
  return false;
}

template <typename F>
bool with_int(std::string const &t, F const &f)
{
#define C15_T(T) \
  if (t == tname<T>::get()) \
  { \
    f(static_cast<T *>(nullptr)); \
    return true; \
  }
  C15_T(short)
  C15_T(unsigned short)
  C15_T(int)
  C15_T(unsigned)
  C15_T(long)
  C15_T(unsigned long)
  C15_T(long long)
  C15_T(unsigned long long)
#undef C15_T
  return false;
}

template <typename F>
bool with_enum(std::string const &e, F const &f)
{
  if (e == "E1") { f(static_cast<E1 *>(nullptr), "E1"); return true; }
  if (e == "E3") { f(static_cast<E3 *>(nullptr), "E3"); return true; }
  if (e == "E9") { f(static_cast<E9 *>(nullptr), "E9"); return true; }
  if (e == "E5u8") { f(static_cast<E5u8 *>(nullptr), "E5u8"); return true; }
  return false;
}

std::vector<int> ints_of(std::vector<long long> const &v)
{
  std::vector<int> r;
  for (long long x : v) r.push_back(static_cast<int>(x));
  return r;
}

bool replay_one(vj::V const &e)
{
  std::string const f = e.str("f");
  if (f == "io")
    return with_arith(e.str("T"), [&]<typename T>(T *) { drive_io<T>(pattern_of_digits(e.nums("d"))); });
  if (f == "swap")
    return with_arith(e.str("T"), [&]<typename T>(T *) { drive_swap<T>(pattern_of_digits(e.nums("d"))); });
  if (f == "io_read")
    return with_arith(e.str("T"), [&]<typename T>(T *) { drive_io_read<T>(ints_of(e.nums("bs")), e.str("e") == "big"); });
  if (f == "dec")
    return with_int(e.str("T"), [&]<typename T>(T *) { drive_dec<T>(int_of_num<T>(num_of_json(e.at("x"))), e.str("api")); });
  if (f == "dec_loc")
    return with_int(e.str("T"), [&]<typename T>(T *) {
      drive_dec_loc<T>(int_of_num<T>(num_of_json(e.at("x"))), e.str("api"), e.str("loc"), e.str("glob"));
    });
  if (f == "dec_over")
    return with_int(e.str("T"), [&]<typename T>(T *) {
      std::string t;
      for (long long c : e.nums("text")) t += static_cast<char>(c);
      drive_dec_over<T>(t, e.str("ch") == "w");
    });
  if (f == "enum")
    return with_enum(e.str("E"), [&]<typename E>(E *, char const *n) { drive_enum<E>(n, static_cast<int>(e.num("i")), e.has("j") ? static_cast<int>(fcppt::enum_::size<E>::value) : 0); });
  if (f == "enum_from")
    return with_enum(e.str("E"), [&]<typename E>(E *, char const *n) { drive_enum_from<E>(n, e.str("s")); });
  if (f == "vec")
  {
    std::vector<Num> xs;
    for (auto const &x : e.at("xs").a) xs.push_back(num_of_json(*x));
    return drive_vec_named(e.str("k"), e.str("T"), xs.size(), e.str("ch") == "w", xs);
  }
  if (f == "vecseq")
  {
    std::vector<std::string> seps;
    for (auto const &x : e.at("seps").a)
    {
      std::string sp;
      for (auto const &c : x->a) sp += static_cast<char>(c->n);
      seps.push_back(sp);
    }
    std::vector<SeqItem> items;
    for (auto const &x : e.at("items").a)
    {
      SeqItem it{x->str("k"), x->str("T"), {}};
      for (auto const &v : x->at("xs").a) it.xs.push_back(num_of_json(*v));
      items.push_back(it);
    }
    bool const lead = !e.at("lead").a.empty();
    int const lv = lead ? int_of_num<int>(num_of_json(*e.at("lead").a.at(0))) : 0;
    if (e.str("ch") == "c") drive_vecseq<char>(lead, lv, seps, items);
    else drive_vecseq<wchar_t>(lead, lv, seps, items);
    return true;
  }
  if (f == "utf8")
  {
    drive_utf8(e.str("api"), e.nums("w"), e.has("gb"), e.has("gb") ? ints_of(e.nums("gb")) : std::vector<int>{}, "replay");
    return true;
  }
  return false;
}
}

int main(int argc, char **argv)
{
  if (argc < 4)
  {
    std::fprintf(stderr, "usage: c15_codec record OUT seed quick|thorough | replay IN OUT\n");
    return 3;
  }
  // fcppt::narrow / widen / from_std_wstring / to_std_wstring use std::locale(""), i.e. the
  // environment; the global C++ locale stays the classic one (insert_extract_locale).
  ::setenv("LC_ALL", "C.utf8", 1);
  std::string const mode = argv[1];
  if (mode == "record")
  {
    vj::open(argv[2]);
    sec_path = std::string(argv[2]) + ".sec";
    sec_from = argc > 5 ? std::atoi(argv[5]) : 0;
    record(std::strtoull(argv[3], nullptr, 10), argc > 4 && std::string(argv[4]) == "thorough");
    vj::close();
    return 0;
  }
  if (mode == "replay")
  {
    auto const lines = vj::read_lines(argv[2]);
    vj::open(argv[3]);
    for (auto const &l : lines)
    {
      if (!replay_one(*vj::parse(l)))
      {
        std::fprintf(stderr, "replay: cannot re-drive %s\n", l.c_str());
        return 3;
      }
    }
    vj::close();
    return 0;
  }
  return 3;
}
